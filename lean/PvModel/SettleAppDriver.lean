/-
Line-protocol driver for the keeper-level C01 stream (`settleapp`, stateful; one history per
`# history`).  Ops (names are symbolic accounts; `MKT` = market account, `FEE` = fee collector):

* `init accts=S1,S2,… ratio=<none|<price coin>:<fee coin>> split=<denom>:<bips>,… dflt=<bips>` → `ok`
* `fund <acct> <coins>`                                      → `ok`
* `ask <owner> <assets> <price> <fee|-> <partial>` / `bid …` → `ok <order id>`
* `settle asks=<id>|… bids=<id>|… partial=<0|1>`             → `ok` | `err:<class>` | `panic:<class>`
* `fillbids <seller> ids=<id>|… assets=<coins> fee=<coins|->`→ …
* `fillasks <buyer> ids=<id>|… price=<coin> fees=<coins|->`  → …
* `dump` → `<acct>=<coins>;…;MKT=…;FEE=… | <order>|<order>… | <acct>=<coins on hold>;…`

`settle` / `fillbids` / `fillasks` go through the request's `ValidateBasic` and then the msg server,
as `runTx` does; their id lists may be empty, contain 0, or name an order more than once.

The verdict is attached to `dump` lines: the C01 conclusion (`acceptedViolation`, then
`partialLastViolation` on the id lists in the request's order / `rejectedViolation`)
evaluated on the implementation's dump before and after the preceding message.
-/
import PvModel.SettleKeeper
import PvModel.SettleAppSpec
import PvModel.SettleDriver
-- registry: settleapp PvModel.Settle.appDriver

namespace PvModel.Settle
open PvModel

structure AppSt where
  k : KState := {}
  accts : List Addr := []
  /-- the implementation's last dump -/
  prev : Option Dump := none
  /-- the last message: op words and whether the implementation accepted it -/
  pending : Option (List String × Bool) := none

def parseIds (s : String) : Option (List Nat) := (splitList s).mapM (·.toNat?)

def parseSplits (s : String) : Option (List (Denom × Nat)) :=
  (splitList s ",").mapM fun p =>
    match p.splitOn ":" with
    | [d, b] => b.toNat?.map fun n => (d, n)
    | _ => none

def parseRatioOpt (s : String) : Option (Option Ratio) :=
  if s = "none" then some none
  else match s.splitOn ":" with
    | [p, f] => do
      let (pd, pa) ← parseCoin? p
      let (fd, fa) ← parseCoin? f
      pure (some ⟨pd, pa, fd, fa⟩)
    | _ => none

def showDump (accts : List Addr) (k : KState) : String :=
  let bal := fun (a : Addr) => s!"{a}={showC (Ledger.balances k.ledger a)}"
  let os := if k.orders.isEmpty then "-" else "|".intercalate (k.orders.map showOrder)
  let hold := fun (a : Addr) => s!"{a}={showC (k.holdsOf a)}"
  ";".intercalate ((accts ++ [marketName, collectorName]).map bal) ++ " | " ++ os ++ " | " ++
    ";".intercalate (accts.map hold)

def parseDump? (s : String) : Option Dump :=
  let acctCoins := fun (b : String) => (b.splitOn ";").mapM fun p =>
    match p.splitOn "=" with
    | [a, cs] => (parseCoins? cs).map fun c => (a, c)
    | _ => none
  match s.splitOn " | " with
  | [b, o, h] => do
    let bals ← acctCoins b
    let orders ← (splitList o).mapM parseOrder?
    let holds ← acctCoins h
    pure ⟨bals, orders, holds⟩
  | _ => none

def mkOrder (isAsk : Bool) (id : Nat) (ws : List String) : Option Order :=
  match ws with
  | [owner, assets, price, fees, part] => do
    let (ad, aa) ← parseCoin? assets
    let (pd, pa) ← parseCoin? price
    let fs ← parseCoins? fees
    pure { id := id, isAsk := isAsk, owner := owner, assetsDenom := ad, assets := aa,
           priceDenom := pd, price := pa, fees := fs, allowPartial := part = "1" }
  | _ => none

def showK (r : Except KErr KState) : String :=
  match r with
  | .ok _ => "ok"
  | .error e => e.toString

/-- model: new state and output of one op -/
def appRun (st : AppSt) (ws : List String) : AppSt × String :=
  match ws with
  | "init" :: rest =>
    match kv rest "accts", (kv rest "ratio").bind parseRatioOpt, (kv rest "split").bind parseSplits,
        (kv rest "dflt").bind (·.toNat?) with
    | some a, some r, some sp, some d =>
      ({ st with k := { ratio := r, split := sp, dfltSplit := d }, accts := splitList a "," }, "ok")
    | _, _, _, _ => (st, "bad-op")
  | ["fund", a, cs] =>
    match parseCoins? cs with
    | some c => ({ st with k := { st.k with ledger := Ledger.credit st.k.ledger a c } }, "ok")
    | none => (st, "bad-op")
  | "ask" :: rest =>
    match mkOrder true 0 rest with
    | some o =>
      match st.k.createOrder o with
      | .error e => (st, e.toString)
      | .ok k' => ({ st with k := k' }, s!"ok {st.k.nextId}")
    | none => (st, "bad-op")
  | "bid" :: rest =>
    match mkOrder false 0 rest with
    | some o =>
      match st.k.createOrder o with
      | .error e => (st, e.toString)
      | .ok k' => ({ st with k := k' }, s!"ok {st.k.nextId}")
    | none => (st, "bad-op")
  | "settle" :: rest =>
    match (kv rest "asks").bind parseIds, (kv rest "bids").bind parseIds, kv rest "partial" with
    | some a, some b, some p =>
      let r := st.k.msgMarketSettle marketName collectorName a b (p = "1")
      (match r with | .ok k' => { st with k := k' } | .error _ => st, showK r)
    | _, _, _ => (st, "bad-op")
  | "fillbids" :: seller :: rest =>
    match (kv rest "ids").bind parseIds, (kv rest "assets").bind parseCoins?, (kv rest "fee").bind parseCoins? with
    | some ids, some assets, some fee =>
      let r := st.k.msgFillBids marketName collectorName seller ids assets fee
      (match r with | .ok k' => { st with k := k' } | .error _ => st, showK r)
    | _, _, _ => (st, "bad-op")
  | "fillasks" :: buyer :: rest =>
    match (kv rest "ids").bind parseIds, (kv rest "price").bind parseCoin?, (kv rest "fees").bind parseCoins? with
    | some ids, some price, some fees =>
      let r := st.k.msgFillAsks marketName collectorName buyer ids price fees
      (match r with | .ok k' => { st with k := k' } | .error _ => st, showK r)
    | _, _, _ => (st, "bad-op")
  | ["dump"] => (st, showDump st.accts st.k)
  | _ => (st, "bad-op")

/-- the message sender of a fill as the order it stands for -/
def virtualOrder (ws : List String) (before : Dump) : Option Order :=
  match ws with
  | "fillbids" :: seller :: rest =>
    match (kv rest "ids").bind parseIds, (kv rest "fee").bind parseCoins? with
    | some ids, some fee =>
      let os := before.orders.filter (fun o => ids.contains o.id)
      match os with
      | o :: _ => some { id := 0, isAsk := true, owner := seller, assetsDenom := o.assetsDenom,
                         assets := (os.map (·.assets)).sum, priceDenom := o.priceDenom,
                         price := (os.map (·.price)).sum, fees := fee, allowPartial := false }
      | [] => none
    | _, _ => none
  | "fillasks" :: buyer :: rest =>
    match (kv rest "ids").bind parseIds, (kv rest "fees").bind parseCoins? with
    | some ids, some fees =>
      let os := before.orders.filter (fun o => ids.contains o.id)
      match os with
      | o :: _ => some { id := 0, isAsk := false, owner := buyer, assetsDenom := o.assetsDenom,
                         assets := (os.map (·.assets)).sum, priceDenom := o.priceDenom,
                         price := (os.map (·.price)).sum, fees := fees, allowPartial := false }
      | [] => none
    | _, _ => none
  | _ => none

def messageIds (ws : List String) : List Nat :=
  match ws with
  | "settle" :: rest => ((kv rest "asks").bind parseIds).getD [] ++ ((kv rest "bids").bind parseIds).getD []
  | "fillbids" :: _ :: rest => ((kv rest "ids").bind parseIds).getD []
  | "fillasks" :: _ :: rest => ((kv rest "ids").bind parseIds).getD []
  | _ => []

/-- the id lists of a message as the request gives them (`partialLastViolation`) -/
def messageLists (ws : List String) : List (List Nat) :=
  match ws with
  | "settle" :: rest => [((kv rest "asks").bind parseIds).getD [], ((kv rest "bids").bind parseIds).getD []]
  | "fillbids" :: _ :: rest => [((kv rest "ids").bind parseIds).getD []]
  | "fillasks" :: _ :: rest => [((kv rest "ids").bind parseIds).getD []]
  | _ => []

def isMessage (ws : List String) : Bool :=
  match ws with
  | "settle" :: _ => true | "fillbids" :: _ => true | "fillasks" :: _ => true | _ => false

def appStep (st : AppSt) (op : String) (impl : Option String) : AppSt × String × String :=
  let ws := words op
  let (st', out) := appRun st ws
  match ws, impl with
  | ["dump"], some i =>
    match parseDump? i with
    | none => ({ st' with pending := none }, out, "fail:unparsed")
    | some d =>
      let verdict := match st.pending, st.prev with
        | some (mws, accepted), some before =>
          -- the property quantifies over single-denom markets with the fee ratio in the price denom
          if accepted then
            match (acceptedViolation st.k.ratio st.k.splitOf (messageIds mws) (virtualOrder mws before) before d).orElse
                fun _ => partialLastViolation (messageLists mws) before d with
            | none => "ok"
            | some c => "fail:" ++ c
          else match rejectedViolation before d with
            | none => "ok"
            | some c => "fail:" ++ c
        | _, _ => "-"
      ({ st' with prev := some d, pending := none }, out, verdict)
  | _, some i =>
    if isMessage ws then ({ st' with pending := some (ws, i.startsWith "ok") }, out, "-")
    else ({ st' with pending := none }, out, "-")
  | _, none => (st', out, "-")

def appDriver : Driver where
  σ := AppSt
  init := {}
  step := appStep

end PvModel.Settle
