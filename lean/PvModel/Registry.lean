import PvModel.FeesDriver

namespace PvModel

def registry : List (String × Driver) := [
  ("fee", Fees.driver)
]

end PvModel
