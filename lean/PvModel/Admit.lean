/-
C20 — market admission (executable model).

Mirrors, function for function (file:line of the provenance repository):
* `hasFlatFee` / `getFlatFee` / `validateFlatFee`          x/exchange/keeper/market.go:113,123,143
  (`validateCreateAskFlatFee`, `validateCreateBidFlatFee`, `validateCreateCommitmentFlatFee`,
  `validateSellerSettlementFlatFee` are `validateFlatFee` with a different store prefix, :198-:258)
* `hasFeeRatio` / `getFeeRatio` / `getSellerSettlementRatio`  market.go:312,322,386
* `validateAskPrice`                                          market.go:412
* `validateBuyerSettlementFee` (the loop over fee coins)      market.go:539
* `FeeRatio.ApplyToLoosely`                                   x/exchange/market.go:319 (arithmetic: `PvModel.Fees`)
* `IsReqAttrMatch` / `HasReqAttrMatch` / `FindUnmatchedReqAttrs`  x/exchange/market.go:697,686,674
* `NormalizeName` (x/name/types/name.go:42), `NormalizeReqAttrs` (x/exchange/market.go:589)
* `acctHasReqAttrs`, `CanCreateAsk/Bid/Commitment`            keeper/market.go:1250,1282-1297
* `CreateMarket` (normalises the three required-attribute lists)  keeper/market.go:1449
* `validateMarketIsAcceptingOrders`, `validateCreateAskFees`, `validateCreateBidFees`,
  `CreateAskOrder`, `CreateBidOrder`                          keeper/orders.go:442,469,477,624,668
* `validateMarketIsAcceptingCommitments`, `addCommitment`,
  `ValidateAndCollectCommitmentCreationFee`, `MsgServer.CommitFunds`  keeper/commitments.go:73,101,251; msg_server.go:48
* `validateAcceptingOrdersAndCanUserSettle`, the admission prefix of `FillBids` / `FillAsks`
                                                              keeper/fulfillment.go:31,42,138
* `FillBids` / `FillAsks` after the gate: `getBidOrders` / `getAskOrders` (keeper/orders.go:536,496),
  `sumAssetsAndPrice` and the `Equal` checks of the totals (fulfillment.go:20,66,160),
  `calculateSellerSettlementRatioFee` (keeper/market.go:458), and the filler's side of
  `closeSettlement` (fulfillment.go:267) + the creation fee collected last — `Order`,
  `getOrders`, `fillBids`, `fillAsks`
* the per-market messages of the governance authority, which do not look whether the market
  exists: `UpdateMarketAcceptingOrders` / `UpdateUserSettlementAllowed` /
  `UpdateMarketAcceptingCommitments` (keeper/market.go:898,916,934), `CloseMarket` (:1602),
  `UpdateFees` → `updateFlatFees` / `updateFeeRatios` (:794,178,373), `UpdateReqAttrs` →
  `updateReqAttrs` (:1301,1160), and `storeMarket` (:1397: every list is deleted and rewritten,
  every flag set or deleted) — `MStore`, `Step`, `History`

The market store is a map: flat options are keyed by denom, ratios by (price denom, fee denom).
The model keeps them as association lists and looks up the first entry with the key.
Core-only.
-/
import PvModel.Fees
import PvModel.Coins

namespace PvModel.Admit
open PvModel

abbrev Coin := Denom × Int

/-- `exchange.FeeRatio`: `pa pd : fa fd`. -/
structure Ratio where
  pd : Denom
  pa : Int
  fd : Denom
  fa : Int
  deriving DecidableEq, Repr

/-- How an admission step can refuse.  `overflow` is the `sdkmath.Int` panic. -/
inductive Rej where
  | invalid      -- the message itself is malformed (`Validate` / `ValidateBasic`)
  | market       -- "market %d does not exist"
  | closed       -- "is not accepting orders" / "is not accepting commitments"
  | usersettle   -- "does not allow user settlement"
  | attr         -- "is not allowed to create …"
  | fee          -- a creation / settlement fee is missing, in a wrong denom or insufficient
  | price        -- validateAskPrice refused
  | funds        -- fee collection or the hold failed
  | overflow     -- panic: integer overflow
  deriving DecidableEq, Repr

def Rej.toString : Rej → String
  | .invalid => "err:invalid"
  | .market => "err:market"
  | .closed => "err:closed"
  | .usersettle => "err:usersettle"
  | .attr => "err:attr"
  | .fee => "err:fee"
  | .price => "err:price"
  | .funds => "err:funds"
  | .overflow => "panic:overflow"

/-! ### Flat fee options -/

/-- market.go:113 `hasFlatFee`. -/
def hasFlatFee (opts : List Coin) : Bool := !opts.isEmpty

/-- market.go:123 `getFlatFee`: the option stored under the denom. -/
def getFlatFee : List Coin → Denom → Option Int
  | [], _ => none
  | (d', a) :: rest, d => if d' = d then some a else getFlatFee rest d

/-- market.go:143 `validateFlatFee`. -/
def validateFlatFee (opts : List Coin) (fee : Option Coin) : Except Rej Unit :=
  if !hasFlatFee opts then .ok ()
  else match fee with
    | none => .error .fee                         -- "no %s fee provided"
    | some c =>
      match getFlatFee opts c.1 with
      | none => .error .fee                       -- "invalid %s fee"
      | some req => if c.2 < req then .error .fee -- "insufficient %s fee"
                    else .ok ()

/-! ### Fee ratios -/

/-- market.go:312 `hasFeeRatio`: any ratio at all, whatever its price denom. -/
def hasFeeRatio (rs : List Ratio) : Bool := !rs.isEmpty

/-- market.go:322 `getFeeRatio`: the ratio stored under (price denom, fee denom). -/
def getFeeRatio : List Ratio → Denom → Denom → Option Ratio
  | [], _, _ => none
  | r :: rest, pd, fd => if r.pd = pd ∧ r.fd = fd then some r else getFeeRatio rest pd fd

/-- x/exchange/market.go:319 `ApplyToLoosely`: the fee amount for `price`. -/
def applyToLoosely (r : Ratio) (price : Coin) : Except AErr Int :=
  if r.pd ≠ price.1 then .error .denom
  else match Fees.applyLooselyTo price.2 r.pa r.fa with
    | .ok (a, _) => .ok a
    | .error e => .error e

/-- market.go:386 `getSellerSettlementRatio`. -/
def getSellerSettlementRatio (rs : List Ratio) (priceDenom : Denom) : Except Rej (Option Ratio) :=
  match getFeeRatio rs priceDenom priceDenom with
  | some r => .ok (some r)
  | none => if hasFeeRatio rs then .error .price   -- "no seller settlement fee ratio found for denom"
            else .ok none

/-- market.go:426 `checkFlat := settlementFlatFee != nil && !settlementFlatFee.Amount.IsZero() &&
price.Denom == settlementFlatFee.Denom`. -/
def askCheckFlat (price : Coin) (flat : Option Coin) : Bool :=
  match flat with
  | some f => decide (f.2 ≠ 0) && decide (price.1 = f.1)
  | none => false

/-- `settlementFlatFee.Amount` (only read when `checkFlat`). -/
def askFlatAmt (flat : Option Coin) : Int :=
  match flat with | some f => f.2 | none => 0

/-- market.go:412 `validateAskPrice`. -/
def validateAskPrice (rs : List Ratio) (price : Coin) (flat : Option Coin) : Except Rej Unit :=
  match getSellerSettlementRatio rs price.1 with
  | .error e => .error e
  | .ok ratio =>
    let checkFlat := askCheckFlat price flat
    let flatAmt := askFlatAmt flat
    match ratio with
    | none =>
      if checkFlat && decide (price.2 ≤ flatAmt) then .error .price else .ok ()
    | some r =>
      match applyToLoosely r price with
      | .error .overflow => .error .overflow
      | .error _ => .error .price
      | .ok ratioFee =>
        if !checkFlat then
          if price.2 ≤ ratioFee then .error .price else .ok ()
        else match add256 flatAmt ratioFee with
          | .error _ => .error .overflow
          | .ok req => if price.2 ≤ req then .error .price else .ok ()

/-! ### Buyer settlement fee -/

/-- The flat option this fee coin covers, if any (the `flatFee == nil` / `LT` cases of the
switch at market.go:563). -/
def flatCover (flats : List Coin) (c : Coin) : Option Int :=
  match getFlatFee flats c.1 with
  | some f => if c.2 < f then none else some f
  | none => none

/-- The ratio fee this fee coin covers, if any (market.go:583-593).  `.error` = Go panics.
An error *returned* by `ApplyToLoosely` (zero ratio price) only adds to `ratioErrs`. -/
def ratioCover (ratios : List Ratio) (price c : Coin) : Except Rej (Option Int) :=
  match getFeeRatio ratios price.1 c.1 with
  | none => .ok none
  | some r =>
    match applyToLoosely r price with
    | .error .overflow => .error .overflow
    | .error _ => .ok none
    | .ok rf => if c.2 < rf then .ok none else .ok (some rf)

/-- The `for _, feeCoin := range fee` loop of `validateBuyerSettlementFee` (market.go:558-627).
`true` = `return nil` inside the loop, `false` = fell out of the loop (insufficient). -/
def buyerLoop (flats : List Coin) (ratios : List Ratio) (price : Coin) (flatReq ratioReq : Bool) :
    Bool → Bool → List Coin → Except Rej Bool
  | _, _, [] => .ok false
  | flatOk, ratioOk, c :: rest =>
    let fa := if flatReq then flatCover flats c else none
    -- `case !ratioFeeReq` / `case ratioFeeOk` of the flat switch
    if fa.isSome && (!ratioReq || ratioOk) then .ok true else
    match (if ratioReq then ratioCover ratios price c else .ok none) with
    | .error e => .error e
    | .ok ra =>
      -- `case !flatFeeReq` / `case flatFeeOk` of the ratio switch
      if ra.isSome && (!flatReq || flatOk) then .ok true else
      match fa, ra with
      | some f, some r =>
        -- one coin covering both must cover the sum
        match add256 f r with
        | .error _ => .error .overflow
        | .ok req =>
          if c.2 < req then buyerLoop flats ratios price flatReq ratioReq true true rest
          else .ok true
      | _, _ =>
        buyerLoop flats ratios price flatReq ratioReq (flatOk || fa.isSome) (ratioOk || ra.isSome) rest

/-- market.go:539 `validateBuyerSettlementFee`. -/
def validateBuyerSettlementFee (flats : List Coin) (ratios : List Ratio) (price : Coin)
    (fee : List Coin) : Except Rej Unit :=
  let flatReq := hasFlatFee flats
  let ratioReq := hasFeeRatio ratios
  if !flatReq && !ratioReq then .ok ()
  else match buyerLoop flats ratios price flatReq ratioReq false false fee with
    | .error e => .error e
    | .ok true => .ok ()
    | .ok false => .error .fee

/-! ### Required attributes -/

/-- x/exchange/market.go:697 `IsReqAttrMatch` on character lists. -/
def isReqAttrMatchL (req acc : List Char) : Bool :=
  if req.isEmpty || acc.isEmpty then false
  else if ['*', '.'].isPrefixOf req then (req.drop 1).isSuffixOf acc
  else req == acc

def isReqAttrMatch (req acc : String) : Bool := isReqAttrMatchL req.toList acc.toList

/-- market.go:686 `HasReqAttrMatch`. -/
def hasReqAttrMatch (req : String) (accAttrs : List String) : Bool :=
  accAttrs.any (isReqAttrMatch req)

/-- market.go:674 `FindUnmatchedReqAttrs`. -/
def findUnmatchedReqAttrs (reqAttrs accAttrs : List String) : List String :=
  reqAttrs.filter fun r => !hasReqAttrMatch r accAttrs

/-- keeper/market.go:1250 `acctHasReqAttrs` (`accAttrs` = names of `GetAllAttributesAddr`). -/
def acctHasReqAttrs (reqAttrs accAttrs : List String) : Bool :=
  if reqAttrs.isEmpty then true else (findUnmatchedReqAttrs reqAttrs accAttrs).isEmpty

/-- Split at every `.` (like `strings.Split(s, ".")`: always at least one segment). -/
def splitDots : List Char → List (List Char)
  | [] => [[]]
  | c :: cs =>
    if c = '.' then [] :: splitDots cs
    else match splitDots cs with
      | s :: rest => (c :: s) :: rest
      | [] => [[c]]

/-- `strings.Join(segs, ".")`. -/
def joinDots : List (List Char) → List Char
  | [] => []
  | [s] => s
  | s :: rest => s ++ '.' :: joinDots rest

def trimSpaces (s : List Char) : List Char :=
  ((s.dropWhile (· = ' ')).reverse.dropWhile (· = ' ')).reverse

/-- x/name/types/name.go:42 `NormalizeName` (ASCII): per segment, trim and lower-case. -/
def normalizeNameL (s : List Char) : List Char :=
  joinDots ((splitDots s).map fun seg => (trimSpaces seg).map Char.toLower)

def normalizeName (s : String) : String := String.ofList (normalizeNameL s.toList)

/-! ### The market record as stored -/

structure Market where
  createAskFlat : List Coin := []
  createBidFlat : List Coin := []
  createCommitFlat : List Coin := []
  sellerFlat : List Coin := []
  buyerFlat : List Coin := []
  sellerRatios : List Ratio := []
  buyerRatios : List Ratio := []
  acceptingOrders : Bool := true
  userSettle : Bool := false
  acceptingCommitments : Bool := false
  reqAsk : List String := []
  reqBid : List String := []
  reqCommit : List String := []
  deriving Repr

/-- keeper/market.go:1449 `CreateMarket`: what is written for a requested market.  All three
required-attribute lists are normalised (`NormalizeReqAttrs`) before they are stored. -/
def storeMarket (m : Market) : Market :=
  { m with reqAsk := m.reqAsk.map normalizeName, reqBid := m.reqBid.map normalizeName,
           reqCommit := m.reqCommit.map normalizeName }

/-- `CreateMarket` as it was before provenance commit 7640f62e9: the create-ask and create-bid
lists were normalised, the create-commitment list was stored as given.  Kept only for the
historical witness `PvProofs.C20.commit_reqattr_not_normalised_before_fix`. -/
def storeMarketPreFix (m : Market) : Market :=
  { m with reqAsk := m.reqAsk.map normalizeName, reqBid := m.reqBid.map normalizeName }

/-! ### The entries of the exchange store under one market id

The exchange store keeps, per market id, the known-market index entry and the per-field entries
(flat options, ratios, the three flags, the three required-attribute lists).  The field
entries can be written by the governance authority whether or not the id is a known market:
`HasPermission` (keeper/market.go:1017) is true for the authority on every id and none of the
update functions looks at the known-market index. -/

/-- What is stored under one market id: the known-market index entry (`isMarketKnown`) and
the field entries read as a `Market` (an empty store reads as the default record: accepting
orders — no not-accepting key —, no user settlement, no commitments, empty lists). -/
structure MStore where
  known : Bool := false
  m : Market := {}
  deriving Repr

/-- `validateMarketExists` + the fields: the market an admission sees. -/
def MStore.view (s : MStore) : Option Market := if s.known then some s.m else none

inductive FlatKind where
  | ask | bid | commit | seller | buyer
  deriving DecidableEq, Repr

inductive AttrKind where
  | ask | bid | commit
  deriving DecidableEq, Repr

/-- One per-market message of the authority (one fee kind / attribute list per message). -/
inductive Step where
  | acceptingOrders (b : Bool)        -- MsgMarketUpdateAcceptingOrders
  | userSettle (b : Bool)             -- MsgMarketUpdateUserSettle
  | acceptingCommitments (b : Bool)   -- MsgMarketUpdateAcceptingCommitments (authority: no fee precondition)
  | close                             -- MsgGovCloseMarket
  | flatFees (k : FlatKind) (rem add : List Coin)       -- MsgGovManageFees
  | ratios (seller : Bool) (rem add : List Ratio)       -- MsgGovManageFees
  | reqAttrs (k : AttrKind) (rem add : List String)     -- MsgMarketManageReqAttrs
  deriving Repr

/-- `store.Delete(maker.key(marketID, denom))` -/
def delFlat (opts : List Coin) (d : Denom) : List Coin := opts.filter fun o => o.1 ≠ d

/-- market.go `setFlatFee`: the entry under the denom is (over)written. -/
def setFlat (opts : List Coin) (c : Coin) : List Coin := delFlat opts c.1 ++ [c]

/-- market.go:178 `updateFlatFees`: delete every `toDelete` denom, then write every `toWrite`. -/
def updateFlatFees (opts rem add : List Coin) : List Coin :=
  add.foldl setFlat (rem.foldl (fun o c => delFlat o c.1) opts)

def delRatio (rs : List Ratio) (pd fd : Denom) : List Ratio :=
  rs.filter fun r => ¬ (r.pd = pd ∧ r.fd = fd)

/-- market.go `setFeeRatio`: the entry under (price denom, fee denom) is (over)written. -/
def setRatio (rs : List Ratio) (r : Ratio) : List Ratio := delRatio rs r.pd r.fd ++ [r]

/-- market.go:373 `updateFeeRatios`. -/
def updateFeeRatios (rs rem add : List Ratio) : List Ratio :=
  add.foldl setRatio (rem.foldl (fun o r => delRatio o r.pd r.fd) rs)

/-- market.go:1160 `updateReqAttrs` (lists already normalised): `none` = the error (a removal
that is not required at present, an addition that already is), nothing written. -/
def updateReqAttrs (cur rem add : List String) : Option (List String) :=
  if rem.any (fun a => !cur.contains a) || add.any (fun a => cur.contains a) then none
  else some (cur.filter (fun a => !rem.contains a) ++ add)

def Market.flatOf (m : Market) : FlatKind → List Coin
  | .ask => m.createAskFlat
  | .bid => m.createBidFlat
  | .commit => m.createCommitFlat
  | .seller => m.sellerFlat
  | .buyer => m.buyerFlat

def Market.setFlatOf (m : Market) (k : FlatKind) (l : List Coin) : Market :=
  match k with
  | .ask => { m with createAskFlat := l }
  | .bid => { m with createBidFlat := l }
  | .commit => { m with createCommitFlat := l }
  | .seller => { m with sellerFlat := l }
  | .buyer => { m with buyerFlat := l }

def Market.reqOf (m : Market) : AttrKind → List String
  | .ask => m.reqAsk
  | .bid => m.reqBid
  | .commit => m.reqCommit

def Market.setReqOf (m : Market) (k : AttrKind) (l : List String) : Market :=
  match k with
  | .ask => { m with reqAsk := l }
  | .bid => { m with reqBid := l }
  | .commit => { m with reqCommit := l }

/-- What one authority message does to the field entries of a market id.  The three flag
updates return an error when the flag already has the value (market.go:901,919,937): the
entries are the same either way.  `UpdateReqAttrs` (market.go:1301) normalises both lists
(names in messages are valid names: `IsValidReqAttr` is not modelled). -/
def Step.applyTo (m : Market) : Step → Market
  | .acceptingOrders b => { m with acceptingOrders := b }
  | .userSettle b => { m with userSettle := b }
  | .acceptingCommitments b => { m with acceptingCommitments := b }
  | .close => { m with acceptingOrders := false, acceptingCommitments := false }
  | .flatFees k rem add => m.setFlatOf k (updateFlatFees (m.flatOf k) rem add)
  | .ratios true rem add => { m with sellerRatios := updateFeeRatios m.sellerRatios rem add }
  | .ratios false rem add => { m with buyerRatios := updateFeeRatios m.buyerRatios rem add }
  | .reqAttrs k rem add =>
    match updateReqAttrs (m.reqOf k) (rem.map normalizeName) (add.map normalizeName) with
    | some l => m.setReqOf k l
    | none => m

/-- An authority message on a market id: the known-market index is neither read nor written. -/
def MStore.admin (s : MStore) (st : Step) : MStore := { s with m := st.applyTo s.m }

/-- keeper/market.go:1449 `CreateMarket` → :1397 `storeMarket`: refused when the market
account exists (= the id is known, the account is only made here); otherwise the known-market
entry is set and **every** field entry is replaced by the requested (normalised) value — the
`set…` helpers delete the whole prefix / the flag key before writing. -/
def MStore.create (s : MStore) (requested : Market) : MStore :=
  if s.known then s else { known := true, m := storeMarket requested }

/-- A history on one market id: authority messages, then (maybe) the creation of the market,
then more authority messages. -/
structure History where
  pre : List Step := []
  requested : Option Market := none
  post : List Step := []
  deriving Repr

/-- The store entries under the id after the history, starting from nothing. -/
def History.run (h : History) : MStore :=
  let s1 := h.pre.foldl MStore.admin {}
  let s2 := match h.requested with
    | some rq => s1.create rq
    | none => s1
  h.post.foldl MStore.admin s2

/-! ### Funds: fee collection then hold -/

/-- `bal` covers every coin of `need` (per denom, `need` merged). -/
def covers (bal : Coins) (need : Coins) : Bool := Coins.covers bal need

/-- keeper.go:263 `CollectFee` of one optional coin followed by `AddHold` of `hold`
(hold/keeper.go:94): the payer needs the fee, then the hold out of what is left. -/
def collectThenHold (bal : Coins) (fee : Option Coin) (hold : Coins) : Except Rej Unit :=
  let feeCoins : Coins := match fee with | some c => [c] | none => []
  if !covers bal feeCoins then .error .funds
  else if !covers (Coins.sub bal feeCoins) hold then .error .funds
  else .ok ()

/-! ### Messages and admission sequences -/

structure AskMsg where
  marketId : Nat
  assets : Coin
  price : Coin
  sflat : Option Coin
  cfee : Option Coin
  deriving Repr

structure BidMsg where
  marketId : Nat
  assets : Coin
  price : Coin
  fees : List Coin
  cfee : Option Coin
  deriving Repr

structure CommitMsg where
  marketId : Nat
  amount : List Coin
  cfee : Option Coin
  deriving Repr

/-- denoms strictly increasing, amounts positive (`sdk.Coins.Validate` for a non-empty list) -/
def coinsValid : List Coin → Bool
  | [] => true
  | [c] => decide (0 < c.2)
  | c :: d :: rest => decide (0 < c.2) && decide (c.1 < d.1) && coinsValid (d :: rest)

/-- x/exchange/orders.go:377 `AskOrder.Validate` (the parts that depend on amounts/denoms). -/
def AskMsg.valid (m : AskMsg) : Bool :=
  decide (m.marketId ≠ 0) && decide (0 < m.price.2) && decide (0 < m.assets.2) &&
  decide (m.assets.1 ≠ m.price.1) &&
  (match m.sflat with | some f => decide (0 < f.2) | none => true)

/-- x/exchange/orders.go:487 `BidOrder.Validate`. -/
def BidMsg.valid (m : BidMsg) : Bool :=
  decide (m.marketId ≠ 0) && decide (0 < m.price.2) && decide (0 < m.assets.2) &&
  decide (m.assets.1 ≠ m.price.1) && coinsValid m.fees

/-- x/exchange/msgs.go:117 `MsgCommitFundsRequest.ValidateBasic`. -/
def CommitMsg.valid (m : CommitMsg) : Bool :=
  decide (m.marketId ≠ 0) && !m.amount.isEmpty && coinsValid m.amount &&
  (match m.cfee with | some f => decide (0 ≤ f.2) | none => true)

/-- orders.go:442 `validateMarketIsAcceptingOrders`. -/
def validateMarketIsAcceptingOrders (mk : Option Market) : Except Rej Market :=
  match mk with
  | none => .error .market
  | some m => if m.acceptingOrders then .ok m else .error .closed

/-- commitments.go:73 `validateMarketIsAcceptingCommitments`. -/
def validateMarketIsAcceptingCommitments (mk : Option Market) : Except Rej Market :=
  match mk with
  | none => .error .market
  | some m => if m.acceptingCommitments then .ok m else .error .closed

/-- fulfillment.go:31 `validateAcceptingOrdersAndCanUserSettle`. -/
def validateAcceptingOrdersAndCanUserSettle (mk : Option Market) : Except Rej Market :=
  match validateMarketIsAcceptingOrders mk with
  | .error e => .error e
  | .ok m => if m.userSettle then .ok m else .error .usersettle

/-- orders.go:469 `validateCreateAskFees`. -/
def validateCreateAskFees (m : Market) (cfee sflat : Option Coin) : Except Rej Unit :=
  match validateFlatFee m.createAskFlat cfee with
  | .error e => .error e
  | .ok _ => validateFlatFee m.sellerFlat sflat

/-- orders.go:477 `validateCreateBidFees`. -/
def validateCreateBidFees (m : Market) (cfee : Option Coin) (price : Coin) (fees : List Coin) :
    Except Rej Unit :=
  match validateFlatFee m.createBidFlat cfee with
  | .error e => .error e
  | .ok _ => validateBuyerSettlementFee m.buyerFlat m.buyerRatios price fees

/-- orders.go:368 `AskOrder.GetHoldAmount`. -/
def AskMsg.holdAmount (m : AskMsg) : Coins :=
  match m.sflat with
  | some f => if f.1 ≠ m.price.1 then [m.assets, f] else [m.assets]
  | none => [m.assets]

/-- orders.go:482 `BidOrder.GetHoldAmount`. -/
def BidMsg.holdAmount (m : BidMsg) : Coins := m.fees ++ [m.price]

/-- orders.go:624 `CreateAskOrder` (through `MsgServer.CreateAsk`). -/
def createAsk (mk : Option Market) (accAttrs : List String) (bal : Coins) (m : AskMsg) :
    Except Rej Unit :=
  if !m.valid then .error .invalid else
  match validateMarketIsAcceptingOrders mk with
  | .error e => .error e
  | .ok mkt =>
    if !acctHasReqAttrs mkt.reqAsk accAttrs then .error .attr else
    match validateCreateAskFees mkt m.cfee m.sflat with
    | .error e => .error e
    | .ok _ =>
      match validateAskPrice mkt.sellerRatios m.price m.sflat with
      | .error e => .error e
      | .ok _ => collectThenHold bal m.cfee m.holdAmount

/-- orders.go:668 `CreateBidOrder` (through `MsgServer.CreateBid`). -/
def createBid (mk : Option Market) (accAttrs : List String) (bal : Coins) (m : BidMsg) :
    Except Rej Unit :=
  if !m.valid then .error .invalid else
  match validateMarketIsAcceptingOrders mk with
  | .error e => .error e
  | .ok mkt =>
    if !acctHasReqAttrs mkt.reqBid accAttrs then .error .attr else
    match validateCreateBidFees mkt m.cfee m.price m.fees with
    | .error e => .error e
    | .ok _ => collectThenHold bal m.cfee m.holdAmount

/-- msg_server.go:48 `CommitFunds`: `ValidateAndCollectCommitmentCreationFee`
(commitments.go:251) and then `AddCommitment` (commitments.go:101,132).  The creation fee is
validated against the options stored under the id and collected *before* the market is
looked at (the options may be there without the market). -/
def commitFunds (s : MStore) (accAttrs : List String) (bal : Coins) (m : CommitMsg) :
    Except Rej Unit :=
  if !m.valid then .error .invalid else
  match validateFlatFee s.m.createCommitFlat m.cfee with
  | .error e => .error e
  | .ok _ =>
    let feeCoins : Coins := match m.cfee with | some c => [c] | none => []
    if !covers bal feeCoins then .error .funds else
    match validateMarketIsAcceptingCommitments s.view with
    | .error e => .error e
    | .ok mkt =>
      if !acctHasReqAttrs mkt.reqCommit accAttrs then .error .attr
      else if !covers (Coins.sub bal feeCoins) m.amount then .error .funds
      else .ok ()

/-- x/exchange/msgs.go:157 `MsgFillBidsRequest.ValidateBasic` (the fee parts). -/
def fillBidsValid (cfee sflat : Option Coin) : Bool :=
  (match cfee with | some f => decide (0 < f.2) | none => true) &&
  (match sflat with | some f => decide (0 < f.2) | none => true)

/-- x/exchange/msgs.go:197 `MsgFillAsksRequest.ValidateBasic` (price and fee parts). -/
def fillAsksValid (cfee : Option Coin) (totalPrice : Coin) (fees : List Coin) : Bool :=
  (match cfee with | some f => decide (0 < f.2) | none => true) &&
  decide (0 < totalPrice.2) && coinsValid fees

/-- fulfillment.go:42 `FillBids` up to (not including) the order lookup. -/
def fillBidsGate (mk : Option Market) (accAttrs : List String) (cfee sflat : Option Coin) :
    Except Rej Unit :=
  if !fillBidsValid cfee sflat then .error .invalid else
  match validateAcceptingOrdersAndCanUserSettle mk with
  | .error e => .error e
  | .ok mkt =>
    if !acctHasReqAttrs mkt.reqAsk accAttrs then .error .attr
    else validateCreateAskFees mkt cfee sflat

/-- fulfillment.go:138 `FillAsks` up to (not including) the order lookup. -/
def fillAsksGate (mk : Option Market) (accAttrs : List String) (cfee : Option Coin)
    (totalPrice : Coin) (fees : List Coin) : Except Rej Unit :=
  if !fillAsksValid cfee totalPrice fees then .error .invalid else
  match validateAcceptingOrdersAndCanUserSettle mk with
  | .error e => .error e
  | .ok mkt =>
    if !acctHasReqAttrs mkt.reqBid accAttrs then .error .attr
    else validateCreateBidFees mkt cfee totalPrice fees

/-! ### User fills after the gate: the named orders, the totals, the seller ratio fee, the funds

`FillBids` / `FillAsks` (keeper/fulfillment.go:42,138) after `validateCreateAskFees` /
`validateCreateBidFees`: `getBidOrders` / `getAskOrders` (keeper/orders.go:536,496),
`sumAssetsAndPrice` (fulfillment.go:20) and the `Equal` check of the totals,
`calculateSellerSettlementRatioFee` (keeper/market.go:458), and — as far as the filler's own
funds decide it — `closeSettlement` (fulfillment.go:267: the two transfers, then the fees) and
the creation fee collected last. -/

/-- A resting order as stored (x/exchange `Order` holding an `AskOrder` or a `BidOrder`). -/
structure Order where
  id : Nat
  isBid : Bool
  marketId : Nat
  owner : String
  assets : Coin
  price : Coin
  deriving Repr, DecidableEq

/-- keeper/orders.go `getOrderFromStore`: the order stored under the id (`none` = not found). -/
def getOrder : List Order → Nat → Option Order
  | [], _ => none
  | o :: rest, id => if o.id = id then some o else getOrder rest id

/-- keeper/orders.go:496,536 `getAskOrders` / `getBidOrders` (`wantBid`): every id must name a
stored order of the wanted side, in the requested market, that is not the filler's own.  The Go
loop collects one error per id that fails and returns them joined: `none` = some id failed. -/
def getOrders (book : List Order) (marketId : Nat) (wantBid : Bool) (filler : String) :
    List Nat → Option (List Order)
  | [] => some []
  | id :: rest =>
    match getOrder book id with
    | none => none                                         -- "order %d not found"
    | some o =>
      if o.isBid ≠ wantBid then none                       -- "is type %s: expected …"
      else if o.marketId ≠ marketId then none              -- "market id %d does not equal requested market id"
      else if o.owner = filler then none                   -- "has the same buyer/seller as the requested …"
      else match getOrders book marketId wantBid filler rest with
        | none => none
        | some os => some (o :: os)

/-- keeper/market.go:1602 `CloseMarket` → `CancelAllOrdersForMarket`: MsgGovCloseMarket cancels
every resting order of the market.  The resting orders of market `marketId` that were created
before the authority messages `steps` and are still there after them. -/
def ordersAfter (steps : List Step) (marketId : Nat) (book : List Order) : List Order :=
  if steps.any (fun st => match st with | .close => true | _ => false)
  then book.filter fun o => decide (o.marketId ≠ marketId) else book

/-- `sdk.Coins.Equal` of a sum built with `Coins.Add` and a valid `sdk.Coins`: both are
canonical (sorted, merged, no zero), so they are equal exactly when every denom has the same
amount in both. -/
def coinsEqv (a b : Coins) : Bool :=
  (Coins.denoms a ++ Coins.denoms b).all fun d => decide (Coins.amountOf a d = Coins.amountOf b d)

/-- The denoms of the canonical sum of a coin list (`range totalPrice` in `FillBids`): each
denom once, zero sums dropped. -/
def sumDenoms (cs : Coins) : List Denom :=
  (Coins.denoms cs).eraseDups.filter fun d => decide (Coins.amountOf cs d ≠ 0)

/-- x/exchange/msgs.go `ValidateOrderIDs`: at least one id, none zero, none twice. -/
def orderIdsValid (ids : List Nat) : Bool :=
  !ids.isEmpty && ids.all (fun i => decide (i ≠ 0)) && decide ids.Nodup

structure FillBidsMsg where
  marketId : Nat
  totalAssets : List Coin
  ids : List Nat
  sflat : Option Coin
  cfee : Option Coin
  deriving Repr

structure FillAsksMsg where
  marketId : Nat
  totalPrice : Coin
  ids : List Nat
  fees : List Coin
  cfee : Option Coin
  deriving Repr

/-- x/exchange/msgs.go:157 `MsgFillBidsRequest.ValidateBasic`. -/
def FillBidsMsg.valid (m : FillBidsMsg) : Bool :=
  decide (m.marketId ≠ 0) && !m.totalAssets.isEmpty && coinsValid m.totalAssets &&
  orderIdsValid m.ids && fillBidsValid m.cfee m.sflat

/-- x/exchange/msgs.go:197 `MsgFillAsksRequest.ValidateBasic`. -/
def FillAsksMsg.valid (m : FillAsksMsg) : Bool :=
  decide (m.marketId ≠ 0) && orderIdsValid m.ids && fillAsksValid m.cfee m.totalPrice m.fees

/-- keeper/market.go:458 `calculateSellerSettlementRatioFee`: `.ok none` = the market defines no
seller ratio at all; `.error` = it defines some but none for this price denom, or the fee does
not fit 256 bits (`ApplyToLoosely` "result too large"). -/
def calcSellerRatioFee (rs : List Ratio) (price : Coin) : Except Rej (Option Coin) :=
  match getSellerSettlementRatio rs price.1 with
  | .error e => .error e
  | .ok none => .ok none
  | .ok (some r) =>
    match applyToLoosely r price with
    | .ok f => .ok (some (price.1, f))
    | .error _ => .error .price

/-- fulfillment.go:95 the loop `for _, price := range totalPrice` of `FillBids`: the seller
ratio fee of every denom of the summed price (errors are collected; any one refuses). -/
def sellerRatioFees (rs : List Ratio) (prices : Coins) : List Denom → Except Rej Coins
  | [] => .ok []
  | d :: rest =>
    match calcSellerRatioFee rs (d, Coins.amountOf prices d) with
    | .error e => .error e
    | .ok f =>
      match sellerRatioFees rs prices rest with
      | .error e => .error e
      | .ok fs => .ok (f.toList ++ fs)

def optCoins (c : Option Coin) : Coins := match c with | some c => [c] | none => []

/-- What the seller of `FillBids` needs (fulfillment.go:110-136, `closeSettlement` :267): the
total assets go out first, the summed price comes in (out of the buyers' released holds), the
seller settlement fees (flat + ratio) are collected after the transfers, the ask creation fee
last.  A failing transfer does not stop the next step but refuses the message all the same. -/
def fillBidsFunds (bal totalAssets totalPrice sellerFee : Coins) (cfee : Option Coin) : Bool :=
  covers bal totalAssets &&
  covers (Coins.add (Coins.sub bal totalAssets) totalPrice) sellerFee &&
  covers (Coins.sub (Coins.add (Coins.sub bal totalAssets) totalPrice) sellerFee) (optCoins cfee)

/-- What the buyer of `FillAsks` needs (fulfillment.go:205-231): the assets come in first (out
of the sellers' released holds), the total price goes out, the buyer settlement fees are
collected after the transfers, the bid creation fee last. -/
def fillAsksFunds (bal totalAssets : Coins) (totalPrice : Coin) (fees : Coins) (cfee : Option Coin) : Bool :=
  covers (Coins.add bal totalAssets) [totalPrice] &&
  covers (Coins.sub (Coins.add bal totalAssets) [totalPrice]) fees &&
  covers (Coins.sub (Coins.sub (Coins.add bal totalAssets) [totalPrice]) fees) (optCoins cfee)

/-- How a user fill can refuse: at the market's gate (`Rej`), or after it. -/
inductive FillRej where
  | gate (e : Rej)   -- ValidateBasic, market, flags, attributes, creation / settlement fee options
  | order            -- an id names no order / an order of the other side / of another market / the filler's own
  | total            -- "total assets … does not equal sum of bid order assets" / "total price … ask order prices"
  | ratio            -- "error calculating seller settlement ratio fee"
  | funds            -- a transfer or a fee collection failed
  deriving DecidableEq, Repr

def FillRej.toString : FillRej → String
  | .gate e => e.toString
  | .order => "err:order"
  | .total => "err:total"
  | .ratio => "err:price"
  | .funds => "err:funds"

/-- fulfillment.go:42 `FillBids` (through `MsgServer.FillBids`) as far as the filler decides it:
the owners of the named orders hold what their orders promise (the hold placed when the order
was accepted). -/
def fillBids (mk : Option Market) (accAttrs : List String) (book : List Order) (filler : String)
    (bal : Coins) (m : FillBidsMsg) : Except FillRej Unit :=
  if !m.valid then .error (.gate .invalid) else
  match mk with
  | none => .error (.gate .market)
  | some mkt =>
    match fillBidsGate (some mkt) accAttrs m.cfee m.sflat with
    | .error e => .error (.gate e)
    | .ok _ =>
      match getOrders book m.marketId true filler m.ids with
      | none => .error .order
      | some orders =>
        let assets : Coins := orders.map (·.assets)
        let prices : Coins := orders.map (·.price)
        if !coinsEqv assets m.totalAssets then .error .total else
        match sellerRatioFees mkt.sellerRatios prices (sumDenoms prices) with
        | .error _ => .error .ratio
        | .ok rfees =>
          if fillBidsFunds bal m.totalAssets prices (optCoins m.sflat ++ rfees) m.cfee then .ok ()
          else .error .funds

/-- fulfillment.go:138 `FillAsks` (through `MsgServer.FillAsks`) as far as the filler decides it.
The seller ratio fee of every named ask is computed (and may refuse) although the sellers pay it. -/
def fillAsks (mk : Option Market) (accAttrs : List String) (book : List Order) (filler : String)
    (bal : Coins) (m : FillAsksMsg) : Except FillRej Unit :=
  if !m.valid then .error (.gate .invalid) else
  match mk with
  | none => .error (.gate .market)
  | some mkt =>
    match fillAsksGate (some mkt) accAttrs m.cfee m.totalPrice m.fees with
    | .error e => .error (.gate e)
    | .ok _ =>
      match getOrders book m.marketId false filler m.ids with
      | none => .error .order
      | some orders =>
        let assets : Coins := orders.map (·.assets)
        let prices : Coins := orders.map (·.price)
        if !coinsEqv prices [m.totalPrice] then .error .total else
        if orders.any (fun o => match calcSellerRatioFee mkt.sellerRatios o.price with
                                | .error _ => true | .ok _ => false) then .error .ratio else
        if fillAsksFunds bal assets m.totalPrice m.fees m.cfee then .ok () else .error .funds

end PvModel.Admit
