/-
C14 — MetadataAddress codec and metadata index keys (executable model, byte level).

Mirrors, function by function (Go names kept, first letter lowered):
* `VerifyMetadataAddressFormat`, constructors `ScopeMetadataAddress` …, accessors
  `PrimaryUUID`/`SecondaryUUID`/`NameHash`/`ScopeUUID`/…, derivations `AsScopeAddress`/
  `AsSessionAddress`/`AsRecordAddress`/`AsRecordSpecAddress`/`AsContractSpecAddress`,
  iterator prefixes, `Is*Address`, `Unmarshal`, `GetDetails`      x/metadata/types/address.go
* index key makers `GetAddressScopeCacheKey` …                     x/metadata/types/keys.go:94-154
* `address.LengthPrefix`                                           cosmos-sdk types/address/store_key.go

A uuid is 16 arbitrary bytes (`uuid.UUID = [16]byte`; `uuid.FromBytes` only checks the
length, so the two `uuid.FromBytes` checks of `VerifyMetadataAddressFormat` can never fail once
the length matched).  The record-name hash `sha256(lower(trim(name)))` is a PARAMETER `sha` of
every function that needs it; theorems quantify over it.  The bech32 text form (`String()`,
`ParseMetadataAddressFromBech32`; library `cosmos/btcutil/bech32` behind cosmos-sdk
`types/bech32`) is modelled at the end of this file: 8<->5 bit regrouping, BCH checksum, case
normalisation.
-/
import PvModel.Util

namespace PvModel.MdAddr

abbrev Bytes := List UInt8

/-- The six address types; the type byte is the store key prefix (keys.go:56-68). -/
inductive Kind where
  | scope | session | record | contractSpec | scopeSpec | recordSpec
  deriving DecidableEq, Repr

def Kind.all : List Kind := [.scope, .session, .record, .contractSpec, .scopeSpec, .recordSpec]

def Kind.byte : Kind → UInt8
  | .scope => 0x00 | .session => 0x01 | .record => 0x02
  | .contractSpec => 0x03 | .scopeSpec => 0x04 | .recordSpec => 0x05

def Kind.ofByte? (b : UInt8) : Option Kind :=
  if b = 0x00 then some .scope else if b = 0x01 then some .session else if b = 0x02 then some .record
  else if b = 0x03 then some .contractSpec else if b = 0x04 then some .scopeSpec
  else if b = 0x05 then some .recordSpec else none

/-- bech32 human readable prefixes (address.go:20-35) -/
def Kind.hrp : Kind → String
  | .scope => "scope" | .session => "session" | .record => "record"
  | .contractSpec => "contractspec" | .scopeSpec => "scopespec" | .recordSpec => "recspec"

/-- `requiredLength` of `VerifyMetadataAddressFormat` (address.go:57-83) -/
def Kind.len : Kind → Nat
  | .scope => 17 | .session => 33 | .record => 33
  | .contractSpec => 17 | .scopeSpec => 17 | .recordSpec => 33

inductive VErr where
  | empty | badType | badLen
  deriving DecidableEq, Repr

def VErr.toString : VErr → String
  | .empty => "empty" | .badType => "type" | .badLen => "len"

/-- `VerifyMetadataAddressFormat` (address.go:49-96): the hrp is returned even when the length
is wrong. -/
def verifyMetadataAddressFormat (bz : Bytes) : String × Option VErr :=
  match bz with
  | [] => ("", some .empty)
  | b :: _ =>
    match Kind.ofByte? b with
    | none => ("", some .badType)
    | some k => if bz.length ≠ k.len then (k.hrp, some .badLen) else (k.hrp, none)

/-- `MetadataAddress.Validate` -/
def validate (bz : Bytes) : Option VErr := (verifyMetadataAddressFormat bz).2

/-- `VerifyMetadataAddressHasType` (address.go:113-122) -/
def verifyMetadataAddressHasType (bz : Bytes) (k : Kind) : Bool :=
  let (hrp, err) := verifyMetadataAddressFormat bz
  err.isNone && hrp == k.hrp

def isKind (bz : Bytes) (k : Kind) : Bool := verifyMetadataAddressHasType bz k
def isScopeAddress (bz : Bytes) : Bool := isKind bz .scope
def isSessionAddress (bz : Bytes) : Bool := isKind bz .session
def isRecordAddress (bz : Bytes) : Bool := isKind bz .record
def isScopeSpecificationAddress (bz : Bytes) : Bool := isKind bz .scopeSpec
def isContractSpecificationAddress (bz : Bytes) : Bool := isKind bz .contractSpec
def isRecordSpecificationAddress (bz : Bytes) : Bool := isKind bz .recordSpec

/-- `MetadataAddress.Unmarshal` (address.go:330-337): empty input is accepted. -/
def unmarshal (data : Bytes) : Bool := data.isEmpty || (validate data).isNone

/-! ### constructors (address.go:222-300) -/

def scopeMetadataAddress (u : Bytes) : Bytes := Kind.scope.byte :: u
def sessionMetadataAddress (u s : Bytes) : Bytes := Kind.session.byte :: (u ++ s)
def scopeSpecMetadataAddress (u : Bytes) : Bytes := Kind.scopeSpec.byte :: u
def contractSpecMetadataAddress (u : Bytes) : Bytes := Kind.contractSpec.byte :: u

def isSpaceChar (c : Char) : Bool :=
  c = ' ' || c = '\t' || c = '\n' || c = '\r' || c.toNat = 0x0b || c.toNat = 0x0c
    || c.toNat = 0x85 || c.toNat = 0xA0

def lowerChar (c : Char) : Char := if 'A' ≤ c ∧ c ≤ 'Z' then Char.ofNat (c.toNat + 32) else c

/-- `strings.ToLower(strings.TrimSpace(name))` for names whose letters are ASCII. -/
def normalizeName (name : String) : String :=
  let cs := name.toList.dropWhile isSpaceChar
  let cs := (cs.reverse.dropWhile isSpaceChar).reverse
  String.ofList (cs.map lowerChar)

/-- first 16 bytes of the hash of the normalised name (`nameBytes[0:16]`) -/
def nameHash16 (sha : String → Bytes) (name : String) : Bytes := (sha (normalizeName name)).take 16

/-- `RecordMetadataAddress`; `none` = the Go function panics ("missing name value"). -/
def recordMetadataAddress (sha : String → Bytes) (u : Bytes) (name : String) : Option Bytes :=
  if normalizeName name = "" then none else some (Kind.record.byte :: (u ++ nameHash16 sha name))

/-- `RecordSpecMetadataAddress`; `none` = panic. -/
def recordSpecMetadataAddress (sha : String → Bytes) (u : Bytes) (name : String) : Option Bytes :=
  if normalizeName name = "" then none else some (Kind.recordSpec.byte :: (u ++ nameHash16 sha name))

/-! ### accessors (address.go:431-515) -/

inductive AErr where
  | err    -- an `error` return
  | panic  -- the Go function panics
  deriving DecidableEq, Repr

/-- `isTypeOneOf` (address.go:726-737) -/
def isTypeOneOf (ma : Bytes) (ks : List Kind) : Bool :=
  match ma with
  | [] => false
  | b :: _ => ks.any (fun k => k.byte = b)

/-- `ma[1:17]` once `len(ma) ≥ 17` -/
def slice1_17 (ma : Bytes) : Bytes := (ma.drop 1).take 16
/-- `ma[17:33]` once `len(ma) ≥ 33` -/
def slice17_33 (ma : Bytes) : Bytes := (ma.drop 17).take 16

/-- `PrimaryUUID` (address.go:478-490) -/
def primaryUUID (ma : Bytes) : Except AErr Bytes :=
  if ma.length < 1 then .error .err
  else if !isTypeOneOf ma Kind.all then .error .err
  else if ma.length < 17 then .error .err
  else .ok (slice1_17 ma)

/-- `SecondaryUUID` (address.go:494-506) -/
def secondaryUUID (ma : Bytes) : Except AErr Bytes :=
  if ma.length < 1 then .error .err
  else if !isTypeOneOf ma [.session] then .error .err
  else if ma.length < 33 then .error .err
  else .ok (slice17_33 ma)

/-- `NameHash` (address.go:510-523): `copy(namehash, ma[17:])` into 16 bytes. -/
def nameHash (ma : Bytes) : Except AErr Bytes :=
  if ma.length < 1 then .error .err
  else if !isTypeOneOf ma [.record, .recordSpec] then .error .err
  else if ma.length < 33 then .error .err
  else .ok (slice17_33 ma)

/-- `ScopeUUID` (address.go:431-436) -/
def scopeUUID (ma : Bytes) : Except AErr Bytes :=
  if !isTypeOneOf ma [.scope, .session, .record] then .error .err else primaryUUID ma

/-- `SessionUUID` (address.go:439-444) -/
def sessionUUID (ma : Bytes) : Except AErr Bytes :=
  match ma with
  | b :: _ => if b ≠ Kind.session.byte then .error .err else secondaryUUID ma
  | [] => secondaryUUID ma

/-- `ScopeSpecUUID` (address.go:447-452) -/
def scopeSpecUUID (ma : Bytes) : Except AErr Bytes :=
  match ma with
  | b :: _ => if b ≠ Kind.scopeSpec.byte then .error .err else primaryUUID ma
  | [] => primaryUUID ma

/-- `ContractSpecUUID` (address.go:455-460) -/
def contractSpecUUID (ma : Bytes) : Except AErr Bytes :=
  if !isTypeOneOf ma [.contractSpec, .recordSpec] then .error .err else primaryUUID ma

/-! ### derivations (address.go:526-620) -/

def asScopeAddress (ma : Bytes) : Except AErr Bytes := (scopeUUID ma).map scopeMetadataAddress

def asSessionAddress (ma : Bytes) (sessionUuid : Bytes) : Except AErr Bytes :=
  (scopeUUID ma).map fun u => sessionMetadataAddress u sessionUuid

def asRecordAddress (sha : String → Bytes) (ma : Bytes) (name : String) : Except AErr Bytes :=
  match scopeUUID ma with
  | .error e => .error e
  | .ok u =>
    if name = "" then .error .err
    else match recordMetadataAddress sha u name with
      | none => .error .panic
      | some a => .ok a

def asRecordSpecAddress (sha : String → Bytes) (ma : Bytes) (name : String) : Except AErr Bytes :=
  match contractSpecUUID ma with
  | .error e => .error e
  | .ok u =>
    match recordSpecMetadataAddress sha u name with
    | none => .error .panic
    | some a => .ok a

def asContractSpecAddress (ma : Bytes) : Except AErr Bytes :=
  (contractSpecUUID ma).map contractSpecMetadataAddress

/-! ### iterator prefixes (address.go:627-671); `ma[1:17]` panics when `cap(ma) < 17` — the
model says `panic` for `len(ma) < 17` (the harness uses exact-capacity slices). -/

def iteratorPrefix (ma : Bytes) (ks : List Kind) (out : Kind) : Except AErr Bytes :=
  if ma.length < 1 then .ok [out.byte]
  else if !isTypeOneOf ma ks then .error .err
  else if ma.length < 17 then .error .panic
  else .ok (out.byte :: slice1_17 ma)

def scopeSessionIteratorPrefix (ma : Bytes) : Except AErr Bytes :=
  iteratorPrefix ma [.scope, .session, .record] .session
def scopeRecordIteratorPrefix (ma : Bytes) : Except AErr Bytes :=
  iteratorPrefix ma [.scope, .session, .record] .record
def contractSpecRecordSpecIteratorPrefix (ma : Bytes) : Except AErr Bytes :=
  iteratorPrefix ma [.contractSpec, .recordSpec] .recordSpec

/-! ### GetDetails (address.go:783-850) -/

structure Details where
  pfx : Bytes := []        -- AddressPrefix
  primary : Bytes := []    -- AddressPrimaryUUID
  secondary : Bytes := []  -- AddressSecondaryUUID
  nameHash : Bytes := []   -- AddressNameHash
  excess : Bytes := []     -- AddressExcess
  parent : Bytes := []     -- ParentAddress
  deriving DecidableEq, Repr

def exceptOr (e : Except AErr Bytes) (d : Bytes) : Bytes := match e with | .ok b => b | .error _ => d

def getDetails (addr : Bytes) : Details :=
  let pfx := if addr.length ≥ 1 then addr.take 1 else []
  let primary := if addr.length ≥ 17 then slice1_17 addr else []
  let sec := secondaryUUID addr
  let nh := nameHash addr
  let expectedLength := if sec.toBool || nh.toBool then 33 else 17
  let excess := if addr.length > expectedLength then addr.drop expectedLength else []
  let parent1 := if !isScopeAddress addr then exceptOr (asScopeAddress addr) [] else []
  let parent := if !isContractSpecificationAddress addr then exceptOr (asContractSpecAddress addr) parent1
                else parent1
  { pfx, primary, secondary := exceptOr sec [], nameHash := exceptOr nh [], excess, parent }

/-- the bytes the parts stand for, in address order -/
def Details.concat (d : Details) : Bytes := d.pfx ++ d.primary ++ d.secondary ++ d.nameHash ++ d.excess

/-! ### index keys (keys.go:94-154) -/

/-- `address.LengthPrefix`: empty stays empty, longer than 255 is an error (`Must…` panics). -/
def lengthPrefix (bz : Bytes) : Option Bytes :=
  if bz.length = 0 then some bz
  else if bz.length > 255 then none
  else some (UInt8.ofNat bz.length :: bz)

/-- the five lookup indexes of the metadata store and the NAV prefix -/
inductive Index where
  | addrScope          -- 0x17 <party address> <scope id>
  | scopeSpecScope     -- 0x11 <scope spec id> <scope id>
  | addrScopeSpec      -- 0x19 <owner address> <scope spec id>
  | cSpecScopeSpec     -- 0x14 <contract spec id> <scope spec id>
  | addrCSpec          -- 0x20 <owner address> <contract spec id>
  | nav                -- 0x22 <scope id (length prefixed)> <denom>
  deriving DecidableEq, Repr

def Index.byte : Index → UInt8
  | .addrScope => 0x17 | .scopeSpecScope => 0x11 | .addrScopeSpec => 0x19
  | .cSpecScopeSpec => 0x14 | .addrCSpec => 0x20 | .nav => 0x22

/-- whether the first component is length prefixed (account addresses and the NAV scope id) -/
def Index.lenPrefixed : Index → Bool
  | .addrScope | .addrScopeSpec | .addrCSpec | .nav => true
  | .scopeSpecScope | .cSpecScopeSpec => false

/-- `Get…CacheIteratorPrefix` / `NetAssetValueKeyPrefix`; `none` = panic -/
def iterPrefix (ix : Index) (first : Bytes) : Option Bytes :=
  if ix.lenPrefixed then (lengthPrefix first).map (ix.byte :: ·) else some (ix.byte :: first)

/-- `Get…CacheKey` / `NetAssetValueKey` -/
def indexKey (ix : Index) (first second : Bytes) : Option Bytes :=
  (iterPrefix ix first).map (· ++ second)

/-! ### bech32 text

`github.com/cosmos/btcutil@v1.0.5/bech32/bech32.go` (`ConvertBits`, `bech32Polymod`,
`writeBech32Checksum`, `Normalize`, `DecodeUnsafe`, `DecodeNoLimit`, `Decode`, `Encode`),
cosmos-sdk `types/bech32/bech32.go` (`ConvertAndEncode`, `DecodeAndConvert`, limit 1023) and
`MetadataAddress.String` / `ParseMetadataAddressFromBech32` (address.go:177-196, 391-409).

A text is a `List Char`; the Go code works on the bytes of the string.  Both agree on ASCII
texts, and a text with a character outside 33..126 is rejected by `Normalize` on either side
(every byte of a multi-byte UTF-8 character is ≥ 128); length tests come before `Normalize`
and only decide between two errors.  Errors are `none` (no error classes). -/

/-- the bech32 data alphabet: `charset[i]` is the character of the 5-bit value `i` -/
def bech32Charset : List Char := "qpzry9x8gf2tvdw0s3jn54khce6mua7l".toList

/-- the `w` low bits of `n`, most significant first -/
def natBits : Nat → Nat → List Bool
  | 0, _ => []
  | w + 1, n => decide (n / 2 ^ w % 2 = 1) :: natBits w n

/-- the number a bit string (most significant first) stands for -/
def bitsNat : List Bool → Nat
  | [] => 0
  | b :: bs => b.toNat * 2 ^ bs.length + bitsNat bs

/-- the first `n` groups of `w` bits -/
def chunkN (w : Nat) : Nat → List Bool → List (List Bool)
  | 0, _ => []
  | n + 1, bs => bs.take w :: chunkN w n (bs.drop w)

/-- the regrouping loop of `ConvertBits` on the bit string: full groups of `toBits` bits; an
unfinished last group is padded with zero bits (`pad`), or must have at most 4 bits, all zero -/
def regroup (bits : List Bool) (toBits : Nat) (pad : Bool) : Option Bytes :=
  let q := bits.length / toBits
  let out := (chunkN toBits q bits).map fun g => UInt8.ofNat (bitsNat g)
  let rest := bits.drop (toBits * q)
  if rest.isEmpty then some out
  else if pad then
    some (out ++ [UInt8.ofNat (bitsNat (rest ++ List.replicate (toBits - rest.length) false))])
  else if rest.length > 4 || bitsNat rest ≠ 0 then none
  else some out

/-- `ConvertBits(data, fromBits, toBits, pad)` for `1 ≤ fromBits, toBits ≤ 8`: only the low
`fromBits` bits of every input byte are used (`b << (8 - fromBits)`). -/
def convertBits (data : Bytes) (fromBits toBits : Nat) (pad : Bool) : Option Bytes :=
  regroup (data.flatMap fun b => natBits fromBits b.toNat) toBits pad

/-- xor of the generator constants `gen[i]` selected by the bits of `b` -/
def polymodG (b : Nat) : Nat :=
  (if b.testBit 0 then 0x3b6a57b2 else 0) ^^^ (if b.testBit 1 then 0x26508e6d else 0) ^^^
  (if b.testBit 2 then 0x1ea119fa else 0) ^^^ (if b.testBit 3 then 0x3d4233dd else 0) ^^^
  (if b.testBit 4 then 0x2a1462b3 else 0)

/-- one round of `bech32Polymod`: `b := chk >> 25; chk = (chk&0x1ffffff)<<5 ^ v; chk ^= gen[i]…` -/
def polymodStep (chk v : Nat) : Nat :=
  (((chk &&& 0x1ffffff) <<< 5) ^^^ v) ^^^ polymodG (chk >>> 25)

/-- the high bits, the separator 0 and the low bits of the hrp, as `bech32Polymod` feeds them -/
def hrpExpand (hrp : List Char) : List Nat :=
  hrp.map (fun (c : Char) => c.toNat >>> 5) ++ 0 :: hrp.map (fun (c : Char) => c.toNat &&& 31)

/-- `bech32Polymod(hrp, values, checksum)`; a nil checksum is six zero rounds -/
def bech32Polymod (hrp : List Char) (values checksum : List Nat) : Nat :=
  (hrpExpand hrp ++ values ++ checksum).foldl polymodStep 1

/-- `writeBech32Checksum`: the six 5-bit values of `polymod ^ 1`, most significant first -/
def bech32Checksum (hrp : List Char) (values : List Nat) : List Nat :=
  let p := bech32Polymod hrp values [0, 0, 0, 0, 0, 0] ^^^ 1
  [(p >>> 25) &&& 31, (p >>> 20) &&& 31, (p >>> 15) &&& 31, (p >>> 10) &&& 31, (p >>> 5) &&& 31, p &&& 31]

def charsetChar (v : Nat) : Char := bech32Charset.getD v 'q'

/-- `strings.IndexByte(charset, c)` -/
def charsetIndex? (c : Char) : Option Nat :=
  let i := bech32Charset.findIdx (· = c)
  if i < 32 then some i else none

/-- `toBytes`: every character to its 5-bit value; a character outside the charset is an error -/
def charsetDecode : List Char → Option (List Nat)
  | [] => some []
  | c :: cs =>
    match charsetIndex? c, charsetDecode cs with
    | some v, some vs => some (v :: vs)
    | _, _ => none

/-- `Encode(hrp, data)`: data bytes must be 5-bit values; the hrp is lower-cased (ASCII: the only
hrps used are the six constants `Kind.hrp`). -/
def bech32Encode (hrp : List Char) (data : Bytes) : Option (List Char) :=
  if data.any (fun b => b.toNat ≥ 32) then none
  else
    let hrp := hrp.map lowerChar
    let vals := data.map (·.toNat)
    some (hrp ++ '1' :: (vals ++ bech32Checksum hrp vals).map charsetChar)

def isLowerAscii (c : Char) : Bool := decide ('a' ≤ c ∧ c ≤ 'z')
def isUpperAscii (c : Char) : Bool := decide ('A' ≤ c ∧ c ≤ 'Z')

/-- `Normalize`: characters 33..126 only, not mixed case; upper case is lowered -/
def bech32Normalize (cs : List Char) : Option (List Char) :=
  if cs.any (fun c => c.toNat < 33 || c.toNat > 126) then none
  else if cs.any isLowerAscii && cs.any isUpperAscii then none
  else if cs.any isUpperAscii then some (cs.map lowerChar)
  else some cs

/-- split at the LAST occurrence of `c` (`strings.LastIndexByte`) -/
def splitLast (c : Char) : List Char → Option (List Char × List Char)
  | [] => none
  | x :: xs =>
    match splitLast c xs with
    | some (a, b) => some (x :: a, b)
    | none => if x = c then some ([], xs) else none

/-- `Decode(bech, limit)` = length limit, `DecodeNoLimit`: `Normalize`, `DecodeUnsafe` (separator
not first, at least 6 characters after it, charset), `VerifyChecksum`.  Returns the hrp and the
5-bit data without the checksum. -/
def bech32Decode (cs : List Char) (limit : Nat) : Option (List Char × Bytes) :=
  if cs.length > limit then none
  else if cs.length < 8 then none
  else
    match bech32Normalize cs with
    | none => none
    | some cs =>
      match splitLast '1' cs with
      | none => none
      | some (hrp, rest) =>
        if hrp.isEmpty || rest.length < 6 then none
        else
          match charsetDecode rest with
          | none => none
          | some dec =>
            let values := dec.take (dec.length - 6)
            let checksum := dec.drop (dec.length - 6)
            if bech32Polymod hrp values checksum = 1 then some (hrp, values.map UInt8.ofNat)
            else none

/-- cosmos-sdk `bech32.ConvertAndEncode` -/
def convertAndEncode (hrp : String) (data : Bytes) : Option String :=
  match convertBits data 8 5 true with
  | none => none
  | some c => (bech32Encode hrp.toList c).map String.ofList

/-- cosmos-sdk `bech32.DecodeAndConvert` -/
def decodeAndConvert (bech : String) : Option (String × Bytes) :=
  match bech32Decode bech.toList 1023 with
  | none => none
  | some (hrp, data) => (convertBits data 5 8 false).map fun bz => (String.ofList hrp, bz)

/-- `MetadataAddress.String()` of an address that passes `Validate` (an empty address gives "",
an invalid one its `%#v` rendering: `none` here). -/
def toBech32 (ma : Bytes) : Option String :=
  match verifyMetadataAddressFormat ma with
  | (hrp, none) => convertAndEncode hrp ma
  | _ => none

/-- `ParseMetadataAddressFromBech32` (address.go:177-196): the bytes and the hrp.  The initial
`TrimSpace(address) == ""` test is subsumed: such a text fails `DecodeAndConvert`. -/
def parseMetadataAddressFromBech32 (address : String) : Option (Bytes × String) :=
  match decodeAndConvert address with
  | none => none
  | some (hrp, bz) =>
    match verifyMetadataAddressFormat bz with
    | (expected, none) => if expected ≠ hrp then none else some (bz, hrp)
    | _ => none

/-- `MetadataAddressFromBech32` -/
def metadataAddressFromBech32 (address : String) : Option Bytes :=
  (parseMetadataAddressFromBech32 address).map (·.1)

end PvModel.MdAddr
