/-
C14 — metadata store (executable model): scopes, sessions, records, the three kinds of
specification, the five lookup indexes of the metadata KV store, the bank-held value owner of a
scope and the per-scope net asset values.

Mirrors (Go names kept, first letter lowered):
* keeper level   `SetScope`/`writeScopeToState`/`RemoveScope`/`SetScopeValueOwner`/`indexScope`/
                 `getScopeIndexValues`/`getMissingScopeIndexValues`            x/metadata/keeper/scope.go:125-420
                 `SetSession`/`RemoveSession`/`sessionHasRecords`              x/metadata/keeper/session.go:29-78
                 `SetRecord`/`RemoveRecord`                                    x/metadata/keeper/record.go:59-90
                 `Set…Specification`/`Remove…Specification`/`index…Specification`/`is…SpecUsed`
                                                                               x/metadata/keeper/specification.go
                 `RemoveNetAssetValues`/`SetNetAssetValue`                     x/metadata/keeper/scope.go:867-927
* message level  the `Validate…` functions' state-dependent checks and the handlers of
                 x/metadata/keeper/msg_server.go (WriteScope … AddNetAssetValues)

Addresses: an `Addr` is the TEXT of an address as it appears in a message and in the stored
scope / specification (a bech32 string).  Different texts can denote the same account (the
lower-case and the all-upper-case bech32 spelling of the same bytes both pass
`sdk.AccAddressFromBech32` and every `ValidateBasic`).  `B : Addr → Addr` — the account a text
denotes, rendered as its canonical text (`sdk.AccAddressFromBech32(a)` followed by `.String()`) —
is a PARAMETER of the model like `H`; nothing is assumed about it.  The stored lists (owners,
data access, parties, specification owners) and every comparison the Go code makes on strings
(`Scope.AddDataAccess`, `RemoveOwners`, `ValidatePartiesAreUnique`, `FindMissing` on
`OwnerAddresses` before 2f403d307, …) are on the TEXT; index keys (`GetAddressScopeCacheKey`, …) and the bank
module's coin holder are the account, i.e. `B` of the text.

What is abstracted: signature/role validation (x/metadata/keeper/signers.go — the harness signs
every message with every account, all parties have role OWNER and every specification asks for
OWNER, so those checks always pass; they belong to C10), audit fields, record
inputs/outputs/process (constant, valid), events.  Identifiers are symbolic: a uuid is a
`String`; a session address is `(scope uuid, session uuid)`; a record address is
`(scope uuid, H name)` and a record specification address `(contract spec uuid, H name)` where
`H` — the first 16 bytes of sha256 of the normalised name — is a PARAMETER of the model (the
driver instantiates it with the normalised name itself).  The byte-level layout of these
addresses is the subject of `PvModel.MdAddr`.
-/
import PvModel.Util

namespace PvModel.MdStore

abbrev UUID := String
abbrev Addr := String
abbrev NameKey := String

/-! ### keyed lists (the KV store restricted to one key prefix) and index sets -/

section KMap
variable {α κ : Type} [DecidableEq κ]

/-- `store.Get(key)` -/
def kget (key : α → κ) (l : List α) (k : κ) : Option α := l.find? (fun x => key x = k)
/-- `store.Has(key)` -/
def khas (key : α → κ) (l : List α) (k : κ) : Bool := l.any (fun x => key x = k)
/-- `store.Set(key, value)` -/
def kput (key : α → κ) (x : α) (l : List α) : List α := x :: l.filter (fun y => key y ≠ key x)
/-- `store.Delete(key)` -/
def kdel (key : α → κ) (k : κ) (l : List α) : List α := l.filter (fun y => key y ≠ k)

end KMap

section ISet
variable {β : Type} [DecidableEq β]

/-- `store.Set(indexKey, 0x01)` -/
def iset (p : β) (l : List β) : List β := if p ∈ l then l else p :: l
/-- `store.Delete(indexKey)` -/
def idel (p : β) (l : List β) : List β := l.filter (fun q => q ≠ p)
def isetAll (ps : List β) (l : List β) : List β := ps.foldl (fun acc p => iset p acc) l
def idelAll (ps : List β) (l : List β) : List β := ps.foldl (fun acc p => idel p acc) l

/-- `provutils.FindMissing(required, toCheck)`: entries of `required` not in `toCheck` -/
def findMissing (required toCheck : List β) : List β := required.filter (fun r => r ∉ toCheck)

/-- keep the first occurrence of every entry (`knownAddrs` map in `getScopeIndexValues`) -/
def dedup : List β → List β
  | [] => []
  | a :: l => a :: (dedup l).filter (fun b => b ≠ a)

end ISet

/-- One `index…` call for one index and one entity `k`: add the entries for the values that are
new, then delete the entries for the values that are gone
(`toAdd := getMissing(new, old)`, `toRemove := getMissing(old, new)`; scope.go:403-420,
specification.go:311-329, 559-577). -/
def reindex {β κ : Type} [DecidableEq β] [DecidableEq κ] (k : κ) (newVals oldVals : List β)
    (idx : List (β × κ)) : List (β × κ) :=
  idelAll ((findMissing oldVals newVals).map (fun b => (b, k)))
    (isetAll ((findMissing newVals oldVals).map (fun b => (b, k))) idx)

/-- HISTORICAL (the specification owner indexes BEFORE the repair 2f403d307): the same, for an
index whose values were DIFFED AS TEXTS (`provutils.FindMissing` on the `OwnerAddresses` strings)
while the KEY of an entry is built from `f` of the text (`IndexKeys()`:
`sdk.AccAddressFromBech32(addrStr)` then `GetAddress…CacheKey(addr, id)`): the entries of the
texts that are new were set, then the entries of the texts that are gone were deleted — also when
another text with the same `f` stayed.  Used by the `…PreFix` definitions only. -/
def reindexVia {γ β κ : Type} [DecidableEq γ] [DecidableEq β] [DecidableEq κ] (f : γ → β) (k : κ)
    (newVals oldVals : List γ) (idx : List (β × κ)) : List (β × κ) :=
  idelAll (((findMissing oldVals newVals).map f).map (fun b => (b, k)))
    (isetAll (((findMissing newVals oldVals).map f).map (fun b => (b, k))) idx)

/-! ### entities -/

structure SessionId where
  scope : UUID
  sess : UUID
  deriving DecidableEq, Repr

structure RecordId where
  scope : UUID
  key : NameKey
  deriving DecidableEq, Repr

structure RecSpecId where
  cspec : UUID
  key : NameKey
  deriving DecidableEq, Repr

structure Scope where
  id : UUID
  spec : UUID
  owners : List Addr
  dataAccess : List Addr
  deriving DecidableEq, Repr

structure Session where
  id : SessionId
  spec : UUID          -- contract specification uuid
  parties : List Addr
  name : String
  deriving DecidableEq, Repr

structure Record where
  id : RecordId
  name : String
  session : SessionId
  spec : RecSpecId
  deriving DecidableEq, Repr

structure ScopeSpec where
  id : UUID
  owners : List Addr
  cspecs : List UUID
  deriving DecidableEq, Repr

structure ContractSpec where
  id : UUID
  owners : List Addr
  deriving DecidableEq, Repr

structure RecordSpec where
  id : RecSpecId
  name : String
  deriving DecidableEq, Repr

structure State where
  scopes : List Scope := []
  sessions : List Session := []
  records : List Record := []
  scopeSpecs : List ScopeSpec := []
  contractSpecs : List ContractSpec := []
  recordSpecs : List RecordSpec := []
  /-- 0x17 `<party address><scope id>` (keys.go:70); the address is the ACCOUNT (`B` of a text) -/
  idxAddrScope : List (Addr × UUID) := []
  /-- 0x11 `<scope spec id><scope id>` (keys.go:72) -/
  idxSpecScope : List (UUID × UUID) := []
  /-- 0x19 `<owner address><scope spec id>` (keys.go:75); the address is the account -/
  idxAddrScopeSpec : List (Addr × UUID) := []
  /-- 0x14 `<contract spec id><scope spec id>` (keys.go:77) -/
  idxCSpecScopeSpec : List (UUID × UUID) := []
  /-- 0x20 `<owner address><contract spec id>` (keys.go:79); the address is the account -/
  idxAddrCSpec : List (Addr × UUID) := []
  /-- the holder (an account) of the scope's `nft/scope1…` coin in the bank module (scope.go:201, bank.go:33) -/
  valueOwners : List (UUID × Addr) := []
  /-- 0x22 `<scope id><price denom>` net asset values (keys.go:88) -/
  navs : List (UUID × String) := []
  deriving Repr

inductive Err where
  | invalid    -- sdkerrors.ErrInvalidRequest
  | notfound   -- sdkerrors.ErrNotFound
  | other      -- an unwrapped error
  deriving DecidableEq, Repr

def Err.toString : Err → String
  | .invalid => "err:invalid" | .notfound => "err:notfound" | .other => "err:other"

section
-- `B`: the account a text denotes (`sdk.AccAddressFromBech32` then `.String()`)
variable (B : Addr → Addr)

/-! ### scope: keeper level (scope.go) -/

/-- `getScopeIndexValues` (scope.go:336-368): data access first, then owners, each TEXT once
(`knownAddrs`), each decoded to its account; `getMissingScopeIndexValues` (scope.go:371-388)
then compares the ACCOUNTS (`FindMissingFunc … a1.Equals(a2)`). -/
def scopeIndexAddrs (sc : Scope) : List Addr := (dedup (sc.dataAccess ++ sc.owners)).map B

def optAddrs (o : Option Scope) : List Addr := match o with | some sc => scopeIndexAddrs B sc | none => []
def optSpec (o : Option Scope) : List UUID := match o with | some sc => [sc.spec] | none => []

/-- `indexScope(store, newScope, oldScope)` (scope.go:403-420) -/
def indexScope (st : State) (newScope oldScope : Option Scope) : State :=
  match newScope, oldScope with
  | none, none => st
  | _, _ =>
    let id := match newScope, oldScope with
      | some n, _ => n.id
      | none, some o => o.id
      | none, none => ""
    { st with
      idxAddrScope := reindex id (optAddrs B newScope) (optAddrs B oldScope) st.idxAddrScope
      idxSpecScope := reindex id (optSpec newScope) (optSpec oldScope) st.idxSpecScope }

/-- `GetScopeValueOwner` = `bankKeeper.DenomOwner(id.Denom())` -/
def getScopeValueOwner (st : State) (id : UUID) : Option Addr := (kget (·.1) st.valueOwners id).map (·.2)

/-- `SetScopeValueOwner` (scope.go:227-280): mint+send, send, or send+burn of the scope's coin.
`""` = no new value owner (burn). Blocked/invalid destinations are never generated.
`fromAddr.String() == newValueOwner` compares the holder's canonical text with the TEXT given;
otherwise the coin goes to the account `B newValueOwner`. -/
def setScopeValueOwner (st : State) (id : UUID) (newValueOwner : String) : State :=
  if newValueOwner = "" then
    match getScopeValueOwner st id with
    | none => st   -- `fromAddr.String() == newValueOwner` (both empty): no change
    | some _ => { st with valueOwners := kdel (·.1) id st.valueOwners }
  else if getScopeValueOwner st id = some newValueOwner then st   -- no change, nothing more to do
  else { st with valueOwners := kput (·.1) (id, B newValueOwner) st.valueOwners }

/-- `writeScopeToState` (scope.go:144-166) -/
def writeScopeToState (st : State) (sc : Scope) : State :=
  let oldScope := kget (·.id) st.scopes sc.id
  indexScope B { st with scopes := kput (·.id) sc st.scopes } (some sc) oldScope

/-- `SetScope` (scope.go:126-140) -/
def setScope (st : State) (sc : Scope) (valueOwner : String) : State :=
  writeScopeToState B (if valueOwner ≠ "" then setScopeValueOwner B st sc.id valueOwner else st) sc

/-! ### sessions and records: keeper level (session.go, record.go) -/

/-- `SetSession` (session.go:30-41) -/
def setSession (st : State) (x : Session) : State := { st with sessions := kput (·.id) x st.sessions }

/-- `sessionHasRecords` (session.go:58-78): walks the records stored under the session's scope
prefix and compares their `SessionId`. -/
def sessionHasRecords (st : State) (id : SessionId) : Bool :=
  st.records.any (fun r => r.id.scope = id.scope ∧ r.session = id)

/-- `RemoveSession` (session.go:44-56): only a session without records is removed. -/
def removeSession (st : State) (id : SessionId) : State :=
  if !khas (·.id) st.sessions id || sessionHasRecords st id then st
  else { st with sessions := kdel (·.id) id st.sessions }

/-- `SetRecord` (record.go:59-73): the record id is derived from the session id and the name. -/
def setRecord (st : State) (r : Record) : State := { st with records := kput (·.id) r st.records }

/-- `RemoveRecord` (record.go:76-90): also removes the session when it was its last record. -/
def removeRecord (st : State) (id : RecordId) : State :=
  match kget (·.id) st.records id with
  | none => st
  | some r => removeSession { st with records := kdel (·.id) id st.records } r.session

/-- `RemoveScope` (scope.go:169-210, the current code, i.e. after the repair ab8bb51a7): burn the
value-owner coin, remove every record stored under the scope's record prefix (`RemoveRecord`
drops a session with its last record), then remove the sessions still stored under the scope's
session prefix (`RemoveSession` — they have no records left), drop the index entries, delete the
scope. -/
def removeScope (st : State) (id : UUID) : State :=
  match kget (·.id) st.scopes id with
  | none => st
  | some sc =>
    let st := setScopeValueOwner B st id ""
    let recs := st.records.filter (fun r => r.id.scope = id)
    let st := recs.foldl (fun st r => removeRecord st r.id) st
    let st := { st with sessions := st.sessions.filter (fun x => x.id.scope ≠ id) }
    let st := indexScope B st none (some sc)
    { st with scopes := kdel (·.id) id st.scopes }

/-- HISTORICAL: `RemoveScope` as it was BEFORE the repair ab8bb51a7 (scope.go:169-198 at
d172e538b): only the record walk; a session went only through `RemoveRecord`, so a session that
never held a record survived.  Kept for the witness theorems `…_before_fix` only. -/
def removeScopePreFix (st : State) (id : UUID) : State :=
  match kget (·.id) st.scopes id with
  | none => st
  | some sc =>
    let st := setScopeValueOwner B st id ""
    let recs := st.records.filter (fun r => r.id.scope = id)
    let st := recs.foldl (fun st r => removeRecord st r.id) st
    let st := indexScope B st none (some sc)
    { st with scopes := kdel (·.id) id st.scopes }

/-- `RemoveNetAssetValues` (scope.go:914-927) -/
def removeNetAssetValues (st : State) (id : UUID) : State :=
  { st with navs := st.navs.filter (fun p => p.1 ≠ id) }

/-- `SetNetAssetValue` (scope.go:868-894) -/
def setNetAssetValue (st : State) (id : UUID) (denom : String) : State :=
  { st with navs := iset (id, denom) st.navs }

/-! ### specifications: keeper level (specification.go) -/

def optOwnersP (o : Option ScopeSpec) : List Addr := match o with | some s => s.owners | none => []
def optCSpecs (o : Option ScopeSpec) : List UUID := match o with | some s => s.cspecs | none => []
def optOwnersC (o : Option ContractSpec) : List Addr := match o with | some s => s.owners | none => []

/-- `indexScopeSpecification` (specification.go:569-591, the current code, i.e. after the repair
2f403d307): `findMissingOwners` (specification.go:253-265) keeps the owner texts of one side no
text of the other side decodes to the same ACCOUNT, `IndexKeys()` keys them by account — i.e. the
owner entries are diffed and keyed by account; the contract-specification entries by id. -/
def indexScopeSpecification (st : State) (newSpec oldSpec : Option ScopeSpec) : State :=
  match newSpec, oldSpec with
  | none, none => st
  | _, _ =>
    let id := match newSpec, oldSpec with
      | some n, _ => n.id
      | none, some o => o.id
      | none, none => ""
    { st with
      idxAddrScopeSpec := reindex id ((optOwnersP newSpec).map B) ((optOwnersP oldSpec).map B) st.idxAddrScopeSpec
      idxCSpecScopeSpec := reindex id (optCSpecs newSpec) (optCSpecs oldSpec) st.idxCSpecScopeSpec }

/-- `SetScopeSpecification` (specification.go:433-452) -/
def setScopeSpecification (st : State) (sp : ScopeSpec) : State :=
  let oldSpec := kget (·.id) st.scopeSpecs sp.id
  indexScopeSpecification B { st with scopeSpecs := kput (·.id) sp st.scopeSpecs } (some sp) oldSpec

/-- `isScopeSpecUsed` (specification.go:580-589): any entry under the spec's 0x11 prefix -/
def isScopeSpecUsed (st : State) (id : UUID) : Bool := st.idxSpecScope.any (fun p => p.1 = id)

/-- `RemoveScopeSpecification` (specification.go:455-472) -/
def removeScopeSpecification (st : State) (id : UUID) : Except Err State :=
  if isScopeSpecUsed st id then .error .invalid
  else match kget (·.id) st.scopeSpecs id with
    | none => .error .invalid
    | some sp =>
      let st := indexScopeSpecification B st none (some sp)
      .ok { st with scopeSpecs := kdel (·.id) id st.scopeSpecs }

/-- `indexContractSpecification` (specification.go:322-343, the current code, i.e. after the
repair 2f403d307): owner entries diffed and keyed by ACCOUNT (`findMissingOwners`). -/
def indexContractSpecification (st : State) (newSpec oldSpec : Option ContractSpec) : State :=
  match newSpec, oldSpec with
  | none, none => st
  | _, _ =>
    let id := match newSpec, oldSpec with
      | some n, _ => n.id
      | none, some o => o.id
      | none, none => ""
    { st with idxAddrCSpec := reindex id ((optOwnersC newSpec).map B) ((optOwnersC oldSpec).map B) st.idxAddrCSpec }

/-- `SetContractSpecification` (specification.go:218-237) -/
def setContractSpecification (st : State) (sp : ContractSpec) : State :=
  let oldSpec := kget (·.id) st.contractSpecs sp.id
  indexContractSpecification B { st with contractSpecs := kput (·.id) sp st.contractSpecs } (some sp) oldSpec

/-- HISTORICAL: `SetContractSpecification` / `SetScopeSpecification` as they were BEFORE the
repair 2f403d307 (specification.go:271-329, 495-577 at 61d0c0d39): `getMissing…IndexValues` diffed
`OwnerAddresses` as STRINGS (`provutils.FindMissing`) while `IndexKeys()` keyed by the decoded
account, adds first, removals second — re-writing a specification with an owner re-spelled set
and then deleted the same key.  Kept for the witness theorems `…_before_fix` only. -/
def setContractSpecificationPreFix (st : State) (sp : ContractSpec) : State :=
  let oldSpec := kget (·.id) st.contractSpecs sp.id
  { st with contractSpecs := kput (·.id) sp st.contractSpecs
            idxAddrCSpec := reindexVia B sp.id sp.owners (optOwnersC oldSpec) st.idxAddrCSpec }

def setScopeSpecificationPreFix (st : State) (sp : ScopeSpec) : State :=
  let oldSpec := kget (·.id) st.scopeSpecs sp.id
  { st with scopeSpecs := kput (·.id) sp st.scopeSpecs
            idxAddrScopeSpec := reindexVia B sp.id sp.owners (optOwnersP oldSpec) st.idxAddrScopeSpec
            idxCSpecScopeSpec := reindex sp.id sp.cspecs (optCSpecs oldSpec) st.idxCSpecScopeSpec }

/-- `isRecordSpecUsed` (specification.go:160-163): `// TODO`, always false -/
def isRecordSpecUsed (_st : State) (_id : RecSpecId) : Bool := false

/-- `isContractSpecUsed` (specification.go:332-352): referenced by a scope spec (0x14 prefix), or
one of its record specs is used (never). Sessions are not looked at (`// TODO`). -/
def isContractSpecUsed (st : State) (id : UUID) : Bool :=
  st.idxCSpecScopeSpec.any (fun p => p.1 = id)
    || (st.recordSpecs.filter (fun r => r.id.cspec = id)).any (fun r => isRecordSpecUsed st r.id)

/-- `RemoveContractSpecification` (specification.go:240-256) -/
def removeContractSpecification (st : State) (id : UUID) : Except Err State :=
  if isContractSpecUsed st id then .error .invalid
  else match kget (·.id) st.contractSpecs id with
    | none => .error .invalid
    | some sp =>
      let st := indexContractSpecification B st none (some sp)
      .ok { st with contractSpecs := kdel (·.id) id st.contractSpecs }

/-- `SetRecordSpecification` (specification.go:107-118) -/
def setRecordSpecification (st : State) (sp : RecordSpec) : State :=
  { st with recordSpecs := kput (·.id) sp st.recordSpecs }

/-- `RemoveRecordSpecification` (specification.go:121-136) -/
def removeRecordSpecification (st : State) (id : RecSpecId) : Except Err State :=
  if isRecordSpecUsed st id then .error .invalid
  else if !khas (·.id) st.recordSpecs id then .error .invalid
  else .ok { st with recordSpecs := kdel (·.id) id st.recordSpecs }

/-! ### message level (msg_server.go + the `Validate…` functions) -/

/-- `ValidatePartiesBasic` for parties that all have role OWNER: at least one, no duplicates
(types/scope.go:433-457) -/
def partiesBasic (ps : List Addr) : Bool := !ps.isEmpty && decide ps.Nodup

/-- `EqualParties` (types/scope.go:518-534) -/
def equalParties (p1 p2 : List Addr) : Bool := p1.length = p2.length && p1.all (fun a => a ∈ p2)

/-- `equivalentDataAssessors` (types/scope.go:566-587) -/
def equivalentDataAssessors (s1 s2 : List Addr) : Bool := s1.all (fun a => a ∈ s2) && s2.all (fun a => a ∈ s1)

/-- `msgServer.WriteScope` (msg_server.go:30-65) with `ValidateWriteScope` (scope.go:424-520). -/
def writeScope (st : State) (sc : Scope) (valueOwner : String) (usdMills : Nat) : Except Err State :=
  -- proposed.ValidateBasic()
  if !partiesBasic sc.owners then .error .invalid else
  let existing := kget (·.id) st.scopes sc.id
  -- the existing value owner is only looked up when the scope exists and one is proposed
  let existingVO : Option Addr :=
    if existing.isSome ∧ valueOwner ≠ "" then getScopeValueOwner st sc.id else none
  let onlyChangeIsValueOwner : Bool :=
    match existing, existingVO with
    | some e, some evo =>
      evo ≠ valueOwner && e.spec = sc.spec && equalParties e.owners sc.owners
        && equivalentDataAssessors e.dataAccess sc.dataAccess
    | _, _ => false
  if !onlyChangeIsValueOwner && !khas (·.id) st.scopeSpecs sc.spec then .error .invalid else
  -- msg.UsdMills > 0: AddSetNetAssetValues(usd) happens before SetScope
  let st := if usdMills > 0 then setNetAssetValue st sc.id "usd" else st
  .ok (setScope B st sc valueOwner)

/-- `msgServer.DeleteScope` (msg_server.go:68-89) with `ValidateDeleteScope` (scope.go:524-585);
`rm` is the keeper's `RemoveScope` (the current one, or the historical pre-fix one). -/
def deleteScopeWith (rm : State → UUID → State) (st : State) (id : UUID) : Except Err State :=
  if !khas (·.id) st.scopes id then .error .invalid
  else .ok (removeNetAssetValues (rm st id) id)

def deleteScope (st : State) (id : UUID) : Except Err State := deleteScopeWith (removeScope B) st id

/-- `Scope.AddDataAccess` (types/scope.go:99-113) -/
def addDataAccessList (da : List Addr) (addrs : List Addr) : List Addr :=
  addrs.foldl (fun acc a => if a ∈ acc then acc else acc ++ [a]) da

/-- `msgServer.AddScopeDataAccess` (msg_server.go:92-118), `ValidateAddScopeDataAccess` (scope.go:637-687) -/
def addScopeDataAccess (st : State) (id : UUID) (addrs : List Addr) : Except Err State :=
  if addrs.isEmpty then .error .invalid else     -- msg.ValidateBasic()
  match kget (·.id) st.scopes id with
  | none => .error .notfound
  | some e =>
    if addrs.any (fun a => a ∈ e.dataAccess) then .error .invalid
    else .ok (setScope B st { e with dataAccess := addDataAccessList e.dataAccess addrs } "")

/-- `msgServer.DeleteScopeDataAccess` (msg_server.go:121-146), `ValidateDeleteScopeDataAccess` (scope.go:690-741) -/
def deleteScopeDataAccess (st : State) (id : UUID) (addrs : List Addr) : Except Err State :=
  if addrs.isEmpty then .error .invalid else     -- msg.ValidateBasic()
  match kget (·.id) st.scopes id with
  | none => .error .notfound
  | some e =>
    if addrs.any (fun a => a ∉ e.dataAccess) then .error .invalid
    else .ok (setScope B st { e with dataAccess := e.dataAccess.filter (fun a => a ∉ addrs) } "")

/-- `msgServer.AddScopeOwner` (msg_server.go:149-183), `ValidateUpdateScopeOwners` (scope.go:744-797) -/
def addScopeOwner (st : State) (id : UUID) (owners : List Addr) : Except Err State :=
  if !partiesBasic owners then .error .invalid else   -- msg.ValidateBasic()
  match kget (·.id) st.scopes id with
  | none => .error .notfound
  | some e =>
    if owners.any (fun a => a ∈ e.owners) then .error .other   -- Scope.AddOwners, unwrapped error
    else
      let proposed := { e with owners := e.owners ++ owners }
      if !partiesBasic proposed.owners then .error .invalid
      else if !khas (·.id) st.scopeSpecs proposed.spec then .error .invalid
      else .ok (setScope B st proposed "")

/-- `msgServer.DeleteScopeOwner` (msg_server.go:186-220) -/
def deleteScopeOwner (st : State) (id : UUID) (owners : List Addr) : Except Err State :=
  if owners.isEmpty then .error .invalid else         -- msg.ValidateBasic()
  match kget (·.id) st.scopes id with
  | none => .error .notfound
  | some e =>
    if owners.any (fun a => a ∉ e.owners) then .error .other    -- Scope.RemoveOwners, unwrapped error
    else
      let proposed := { e with owners := e.owners.filter (fun a => a ∉ owners) }
      if !partiesBasic proposed.owners then .error .invalid
      else if !khas (·.id) st.scopeSpecs proposed.spec then .error .invalid
      else .ok (setScope B st proposed "")

/-- `SetScopeValueOwners` (scope.go:283-321): every linked scope's coin is sent to the new owner
(an ACCOUNT: `toAddr`). -/
def setScopeValueOwners (st : State) (ids : List UUID) (newValueOwner : Addr) : State :=
  ids.foldl (fun st id => { st with valueOwners := kput (·.1) (id, newValueOwner) st.valueOwners }) st

/-- `msgServer.UpdateValueOwners` (msg_server.go:223-247) with `GetScopeValueOwners`,
`ValidateUpdateValueOwners` (scope.go:815-840), `AccMDLinks.ValidateForScopes`;
`GetMDAddrsForAccAddr(proposed)` compares each holder's canonical text with the TEXT proposed
(types/address.go:1020-1028). -/
def updateValueOwners (st : State) (ids : List UUID) (newValueOwner : Addr) : Except Err State :=
  if ids.isEmpty then .error .invalid            -- msg.ValidateBasic()
  else if !decide ids.Nodup then .error .invalid -- duplicate metadata address
  else if ids.any (fun id => (getScopeValueOwner st id).isNone) then .error .invalid  -- no account address
  else if ids.any (fun id => getScopeValueOwner st id = some newValueOwner) then .error .invalid
  else .ok (setScopeValueOwners st ids (B newValueOwner))

/-- `msgServer.MigrateValueOwner` (msg_server.go:250-283); `GetScopesForValueOwner` (bank.go:52-80)
of the ACCOUNT `B existing`; every link then has that holder, whose canonical text
`GetMDAddrsForAccAddr` compares with the TEXT proposed. -/
def migrateValueOwner (st : State) (existing proposed : Addr) : Except Err State :=
  let ids := (st.valueOwners.filter (fun p => p.2 = B existing)).map (·.1)
  if ids.isEmpty then .error .notfound
  else if B existing = proposed then .error .invalid
  else .ok (setScopeValueOwners st ids (B proposed))

/-- `msgServer.WriteSession` (msg_server.go:286-315) with `ValidateWriteSession` (session.go:104-216). -/
def writeSession (st : State) (x : Session) : Except Err State :=
  if !partiesBasic x.parties then .error .invalid else   -- Session.ValidateBasic()
  let existing := kget (·.id) st.sessions x.id
  let bad : Bool := match existing with
    | some e => e.spec ≠ x.spec || x.name = ""
    | none => false
  if bad then .error .invalid else
  match kget (·.id) st.scopes x.id.scope with
  | none => .error .invalid
  | some scope =>
    if !khas (·.id) st.contractSpecs x.spec then .error .invalid else
    match kget (·.id) st.scopeSpecs scope.spec with
    | none => .error .invalid
    | some scopeSpec =>
      if x.spec ∉ scopeSpec.cspecs then .error .invalid
      else .ok (setSession st x)

/-- `msgServer.WriteRecord` (msg_server.go:318-354) with `ValidateWriteRecord` (record.go:117-287).
`specGiven` is the record specification id of the message when it carries one. -/
def writeRecord (H : String → NameKey) (st : State) (sid : SessionId) (name : String)
    (specGiven : Option RecSpecId) : Except Err State :=
  let rid : RecordId := ⟨sid.scope, H name⟩
  let existing := kget (·.id) st.records rid
  if name = "" then .error .invalid else        -- Record.ValidateBasic()
  let bad : Bool := match existing with
    | some e => e.name ≠ name || (match specGiven with | some g => e.spec ≠ g | none => false)
    | none => false
  if bad then .error .invalid else
  if !khas (·.id) st.scopes sid.scope then .error .invalid else
  match kget (·.id) st.sessions sid with
  | none => .error .invalid
  | some session =>
    let recSpecID : RecSpecId := ⟨session.spec, H name⟩
    let specBad : Bool := match specGiven with | some g => g ≠ recSpecID | none => false
    if specBad then .error .invalid else
    if !khas (·.id) st.recordSpecs recSpecID then .error .invalid else
    let st := setRecord st { id := rid, name := name, session := sid, spec := recSpecID }
    -- "Remove the old session if it doesn't have any records in it anymore."
    match existing with
    | some e => if e.session ≠ sid then .ok (removeSession st e.session) else .ok st
    | none => .ok st

/-- `msgServer.DeleteRecord` (msg_server.go:357-373) with `ValidateDeleteRecord` (record.go:291-330):
the scope need not exist. -/
def deleteRecord (H : String → NameKey) (st : State) (scope : UUID) (name : String) : Except Err State :=
  let rid : RecordId := ⟨scope, H name⟩
  if !khas (·.id) st.records rid then .error .invalid
  else .ok (removeRecord st rid)

/-- `getNewContractSpecIDs` (specification.go:610-631) -/
def getNewContractSpecIDs (proposed : ScopeSpec) (existing : Option ScopeSpec) : List UUID :=
  match existing with
  | none => proposed.cspecs
  | some e => if e.cspecs.isEmpty then proposed.cspecs else proposed.cspecs.filter (fun c => c ∉ e.cspecs)

/-- `msgServer.WriteScopeSpecification` (msg_server.go:376-400), `ValidateWriteScopeSpecification`
(specification.go:593-611) -/
def writeScopeSpecification (st : State) (sp : ScopeSpec) : Except Err State :=
  if sp.owners.isEmpty then .error .invalid else      -- ScopeSpecification.ValidateBasic()
  let existing := kget (·.id) st.scopeSpecs sp.id
  if (getNewContractSpecIDs sp existing).any (fun c => !khas (·.id) st.contractSpecs c) then .error .invalid
  else .ok (setScopeSpecification B st sp)

/-- `msgServer.DeleteScopeSpecification` (msg_server.go:403-424) -/
def deleteScopeSpecification (st : State) (id : UUID) : Except Err State :=
  if !khas (·.id) st.scopeSpecs id then .error .notfound
  else removeScopeSpecification B st id

/-- `msgServer.WriteContractSpecification` (msg_server.go:427-451) -/
def writeContractSpecification (st : State) (sp : ContractSpec) : Except Err State :=
  if sp.owners.isEmpty then .error .invalid           -- ContractSpecification.ValidateBasic()
  else .ok (setContractSpecification B st sp)

/-- `msgServer.DeleteContractSpecification` (msg_server.go:454-499): all record specifications of
the contract specification go first (that never fails), then the contract specification; when
that fails the transaction is rolled back. -/
def deleteContractSpecification (st : State) (id : UUID) : Except Err State :=
  if !khas (·.id) st.contractSpecs id then .error .notfound else
  let st := { st with recordSpecs := st.recordSpecs.filter (fun r => r.id.cspec ≠ id) }
  removeContractSpecification B st id

/-- `msgServer.AddContractSpecToScopeSpec` (msg_server.go:502-527) -/
def addContractSpecToScopeSpec (st : State) (cspec sspec : UUID) : Except Err State :=
  if !khas (·.id) st.contractSpecs cspec then .error .notfound else
  match kget (·.id) st.scopeSpecs sspec with
  | none => .error .notfound
  | some sp =>
    if cspec ∈ sp.cspecs then .error .invalid
    else .ok (setScopeSpecification B st { sp with cspecs := sp.cspecs ++ [cspec] })

/-- `msgServer.DeleteContractSpecFromScopeSpec` (msg_server.go:530-563) -/
def deleteContractSpecFromScopeSpec (st : State) (cspec sspec : UUID) : Except Err State :=
  match kget (·.id) st.scopeSpecs sspec with
  | none => .error .notfound
  | some sp =>
    if cspec ∉ sp.cspecs then .error .notfound
    else .ok (setScopeSpecification B st { sp with cspecs := sp.cspecs.filter (fun c => c ≠ cspec) })

/-- `msgServer.WriteRecordSpecification` (msg_server.go:566-601), `ValidateWriteRecordSpecification`
(specification.go:139-158). The id is `RecordSpecMetadataAddress(cspec, name)` (ValidateBasic). -/
def writeRecordSpecification (H : String → NameKey) (st : State) (cspec : UUID) (name : String) :
    Except Err State :=
  if name = "" then .error .invalid else
  let rsid : RecSpecId := ⟨cspec, H name⟩
  if !khas (·.id) st.contractSpecs cspec then .error .notfound else
  let existing := kget (·.id) st.recordSpecs rsid
  let bad : Bool := match existing with
    | some e => decide (e.name ≠ name)
    | none => false
  if bad then .error .invalid
  else .ok (setRecordSpecification st { id := rsid, name := name })

/-- `msgServer.DeleteRecordSpecification` (msg_server.go:604-633) -/
def deleteRecordSpecification (H : String → NameKey) (st : State) (cspec : UUID) (name : String) :
    Except Err State :=
  let rsid : RecSpecId := ⟨cspec, H name⟩
  if !khas (·.id) st.recordSpecs rsid then .error .notfound
  else if !khas (·.id) st.contractSpecs cspec then .error .notfound
  else removeRecordSpecification st rsid

/-- `msgServer.AddNetAssetValues` (msg_server.go:765-789) for a `usd` price -/
def addNetAssetValues (st : State) (id : UUID) : Except Err State :=
  if !khas (·.id) st.scopes id then .error .notfound
  else .ok (setNetAssetValue st id "usd")

/-! ### operations and histories -/

inductive Op where
  | writeScopeSpec (sp : ScopeSpec)
  | deleteScopeSpec (id : UUID)
  | writeContractSpec (sp : ContractSpec)
  | deleteContractSpec (id : UUID)
  | addCSpecToScopeSpec (cspec sspec : UUID)
  | delCSpecFromScopeSpec (cspec sspec : UUID)
  | writeRecordSpec (cspec : UUID) (name : String)
  | deleteRecordSpec (cspec : UUID) (name : String)
  | writeScope (sc : Scope) (valueOwner : String) (usdMills : Nat)
  | deleteScope (id : UUID)
  | addDataAccess (id : UUID) (addrs : List Addr)
  | delDataAccess (id : UUID) (addrs : List Addr)
  | addOwners (id : UUID) (addrs : List Addr)
  | delOwners (id : UUID) (addrs : List Addr)
  | updateValueOwners (ids : List UUID) (to : Addr)
  | migrateValueOwner (src dst : Addr)
  | writeSession (x : Session)
  | writeRecord (sid : SessionId) (name : String) (specGiven : Option RecSpecId)
  | deleteRecord (scope : UUID) (name : String)
  | addNav (id : UUID)
  | keeperRemoveSession (id : SessionId)     -- keeper.RemoveSession called directly
  deriving Repr

/-- one message (or keeper call) on the state; `rm` is the `RemoveScope` in use -/
def applyOpWith (rm : State → UUID → State) (H : String → NameKey) (st : State) (op : Op) :
    Except Err State :=
  match op with
  | .writeScopeSpec sp => writeScopeSpecification B st sp
  | .deleteScopeSpec id => deleteScopeSpecification B st id
  | .writeContractSpec sp => writeContractSpecification B st sp
  | .deleteContractSpec id => deleteContractSpecification B st id
  | .addCSpecToScopeSpec c p => addContractSpecToScopeSpec B st c p
  | .delCSpecFromScopeSpec c p => deleteContractSpecFromScopeSpec B st c p
  | .writeRecordSpec c n => writeRecordSpecification H st c n
  | .deleteRecordSpec c n => deleteRecordSpecification H st c n
  | .writeScope sc vo m => writeScope B st sc vo m
  | .deleteScope id => deleteScopeWith rm st id
  | .addDataAccess id a => addScopeDataAccess B st id a
  | .delDataAccess id a => deleteScopeDataAccess B st id a
  | .addOwners id a => addScopeOwner B st id a
  | .delOwners id a => deleteScopeOwner B st id a
  | .updateValueOwners ids to => updateValueOwners B st ids to
  | .migrateValueOwner a b => migrateValueOwner B st a b
  | .writeSession x => writeSession st x
  | .writeRecord sid n g => writeRecord H st sid n g
  | .deleteRecord s n => deleteRecord H st s n
  | .addNav id => addNetAssetValues st id
  | .keeperRemoveSession id => .ok (removeSession st id)

/-- the code as it is -/
def applyOp (H : String → NameKey) (st : State) (op : Op) : Except Err State :=
  applyOpWith B (removeScope B) H st op

/-- a failed message leaves the state unchanged (the transaction is rolled back) -/
def stepWith (rm : State → UUID → State) (H : String → NameKey) (st : State) (op : Op) : State :=
  match applyOpWith B rm H st op with
  | .ok st' => st'
  | .error _ => st

def runWith (rm : State → UUID → State) (H : String → NameKey) (st : State) (ops : List Op) : State :=
  ops.foldl (stepWith B rm H) st

/-- a history of messages on the code as it is -/
def run (H : String → NameKey) (st : State) (ops : List Op) : State := runWith B (removeScope B) H st ops

/-- HISTORICAL: a history of messages on the code before the repair ab8bb51a7 -/
def runPreFix (H : String → NameKey) (st : State) (ops : List Op) : State :=
  runWith B (removeScopePreFix B) H st ops

end

/-- the empty store -/
def State.empty : State := {}

end PvModel.MdStore
