/-
C02 — declarative side: what the exchange documentation says must be reserved, per record, and
the property's predicates.  Written per (account, denom) directly from the spec text
(x/exchange/spec/01_concepts.md "Hold": ask = assets plus the seller settlement flat fee when it
is not paid out of the price; bid = price plus buyer settlement fees; commitment = the committed
amount; payment = the source amount), independently of `holdAmt` / the keeper's control flow.
Shares only the record types with the model.
-/
import PvModel.Exhold

namespace PvModel.Exhold.Spec
open PvModel PvModel.Exhold

def coinAt (c : Coin) (d : Denom) : Int := if c.1 = d then c.2 else 0

/-- amount of denom `d` an open order requires its owner to have reserved -/
def orderReserved (o : Order) (d : Denom) : Int :=
  if o.isAsk then
    coinAt o.assets d +
      (match o.fees.head? with
       | some fee => if fee.1 = o.price.1 then 0 else coinAt fee d
       | none => 0)
  else coinAt o.price d + Coins.amountOf o.fees d

def commitmentReserved (c : Commitment) (d : Denom) : Int := Coins.amountOf c.amount d

def paymentReserved (p : Payment) (d : Denom) : Int := Coins.amountOf p.sourceAmt d

def sumOver {α} (xs : List α) (f : α → Int) : Int :=
  match xs with
  | [] => 0
  | x :: rest => f x + sumOver rest f

/-- total that account `a`'s open orders, commitments and outstanding payments require in `d` -/
def obligations (os : List Order) (cs : List Commitment) (ps : List Payment) (a : Addr) (d : Denom) : Int :=
  sumOver os (fun o => if o.owner = a then orderReserved o d else 0) +
  sumOver cs (fun c => if c.account = a then commitmentReserved c d else 0) +
  sumOver ps (fun p => if p.source = a then paymentReserved p d else 0)

/-- "the amount reported as on hold equals the total … no more and no less" -/
def HoldsMatch (s : State) : Prop :=
  ∀ a d, hold s a d = obligations s.orders s.commitments s.payments a d

/-- "… and never exceeds the account's balance" -/
def HoldsCovered (s : State) : Prop := ∀ a d, hold s a d ≤ bal s a d

end PvModel.Exhold.Spec
