/-
C17 — triggers (executable model).

Mirrors, function by function (Go names kept):
* store layout                                      x/trigger/types/keys.go:25-79
* `SetTrigger/RemoveTrigger/GetTrigger/NewTriggerWithID/getNextTriggerID`
                                                    x/trigger/keeper/trigger.go:12-103
* `SetEventListener/RemoveEventListener/IterateEventListeners`
                                                    x/trigger/keeper/event_listener.go:13-64
* `SetGasLimit/RemoveGasLimit/GetGasLimit`           x/trigger/keeper/gas_limit.go:17-48
* `RegisterTrigger/UnregisterTrigger`                x/trigger/keeper/trigger_registry.go:9-26
* `QueueTrigger/QueuePeek/Enqueue/Dequeue/QueueIsEmpty/getQueueItem`
                                                    x/trigger/keeper/queue.go:11-72
* `DetectBlockEvents/detectTransactionEvents/detectBlockHeightEvents/detectTimeEvents/
   getMatchingTriggersUntil`                         x/trigger/keeper/event_detector.go:11-97
* `ProcessTriggers/runActions/handleMsgs/safeHandle` x/trigger/keeper/trigger_dispatcher.go:21-124
* `msgServer.CreateTrigger/DestroyTrigger`           x/trigger/keeper/msg_server.go:25-71
* `MsgCreateTriggerRequest.ValidateBasic/hasSigners`, `MsgDestroyTriggerRequest.ValidateBasic`
                                                    x/trigger/types/msgs.go:55-149
* `TransactionEvent.Matches`, `Attribute.Matches`, `GetEventPrefix/GetEventOrder/Validate/
   ValidateContext` of the three event kinds         x/trigger/types/trigger.go:38-146
* `BeginBlocker = ProcessTriggers`, `EndBlocker = DetectBlockEvents`
                                                    x/trigger/abci.go:10-17, module/module.go:168-180
* default genesis (next id 1, queue start 1)         x/trigger/types/genesis.go:25

Modelling decisions
* every KV sub-store is a finite map `key ↦ value` (a function); the event-listener sub-store,
  whose iteration order matters, is a list kept sorted by `(order, trigger id)` — the byte order
  of `0x02 | sha256(name) | order | id` inside one name bucket (sha256 is taken to be injective
  on the names in play: buckets are compared by normalised name);
* a panic of the Go code is `none` / `Err.panic`; `uint64` wrap-around is written out where the
  Go code subtracts (`RegisterTrigger`) or converts (`BlockTimeEvent.GetEventOrder`);
* actions are messages routed to their real handlers.  Three kinds are modelled: a bank
  `MsgSend`, a `MsgDestroyTriggerRequest`, and `boom` = a `MsgCreateTriggerRequest` without
  authorities, whose handler panics at `msg.GetAuthorities()[0]` (msg_server.go:37).  How much
  gas the handler of an action consumes is an *input* (`cost`), observed from the implementation
  (the store gas schedule of the action handlers is not modelled).  The trigger's gas meter is
  modelled: `runActions` gives all actions of a trigger ONE meter of the stored (prepaid) limit
  (trigger_dispatcher.go:52-54) and an action whose consumption takes the meter above the limit
  panics out of gas (`gasOog`); everything else is computed;
* time is in unix *nanoseconds* (`time.Time` compared with `Equal/After/Before`, i.e. at full
  precision: event_detector.go:73-77, trigger.go:142).
-/
import PvModel.Util

namespace PvModel.Trig
open PvModel

abbrev Addr := String

/-- trigger_dispatcher.go:17-18, gas_limit.go:11-13 -/
def MaximumActions : Nat := 5
def MaximumQueueGas : Nat := 2000000
def SetGasLimitCost : Nat := 2510
def MaximumTriggerGas : Nat := 2000000
def U64 : Nat := 18446744073709551616

/-- `TriggerEventI` implementations (trigger.pb.go). Time is in unix nanoseconds. -/
inductive Event where
  | tx (name : String) (attrs : List (String × String))
  | height (h : Nat)
  | time (t : Nat)
  deriving DecidableEq, Repr, Inhabited

/-- The action messages the model knows. -/
inductive Action where
  | send (frm to : Addr) (amt : Nat)
  | kill (auth : Addr) (id : Nat)
  | boom
  deriving DecidableEq, Repr, Inhabited

structure Trigger where
  id : Nat
  owner : Addr
  event : Event
  actions : List Action
  deriving DecidableEq, Repr, Inhabited

/-- `QueuedTrigger` (block time (ns) and height of detection, the trigger). -/
structure QItem where
  trigger : Trigger
  time : Nat
  height : Nat
  deriving DecidableEq, Repr, Inhabited

/-- One key of the event-listener sub-store: `0x02 | sha256(norm name) | order | trigger id`. -/
structure Listener where
  pfx : String
  order : Nat
  id : Nat
  deriving DecidableEq, Repr, Inhabited

/-- An ABCI event of the block's transaction-event history. -/
structure AbciEvent where
  type : String
  attrs : List (String × String)
  deriving DecidableEq, Repr, Inhabited

inductive Err where
  | invalid | signer | event | notfound | perm | oog | panic | funds
  deriving DecidableEq, Repr, Inhabited

def Err.toString : Err → String
  | .invalid => "invalid" | .signer => "signer" | .event => "event" | .notfound => "notfound"
  | .perm => "perm" | .oog => "oog" | .panic => "panic" | .funds => "funds"

/-- The trigger module's store plus the bank balances (one denom) the actions touch. -/
structure State where
  nextId : Nat                       -- 0x05
  triggers : Nat → Option Trigger    -- 0x01 | id
  listeners : List Listener          -- 0x02 | …, sorted by (order, id)
  gasLimits : Nat → Option Nat       -- 0x04 | id
  qItems : Nat → Option QItem        -- 0x03 | index
  qStart : Nat                       -- 0x06
  qLen : Nat                         -- 0x07
  bal : Addr → Nat

/-- `DefaultGenesis()`: next trigger id 1, queue start 1, everything else empty. -/
def State.init : State :=
  { nextId := 1, triggers := fun _ => none, listeners := [], gasLimits := fun _ => none,
    qItems := fun _ => none, qStart := 1, qLen := 0, bal := fun _ => 0 }

/-! ## types/keys.go, types/trigger.go -/

/-- `GetEventNameBytes`: `strings.ToLower(strings.TrimSpace(name))` (then sha256).  Written over
the character list (ASCII white space and ASCII letters; the names in play are ASCII) so that the
kernel can evaluate it on literals. -/
def norm (s : String) : String :=
  String.ofList (((s.toList.dropWhile Char.isWhitespace).reverse.dropWhile Char.isWhitespace).reverse.map
    Char.toLower)

def BlockHeightPrefix : String := "block-height"
def BlockTimePrefix : String := "block-time"

/-- `GetEventPrefix` -/
def Event.pfx : Event → String
  | .tx n _ => n
  | .height _ => BlockHeightPrefix
  | .time _ => BlockTimePrefix

/-- `GetEventOrder`; for a time event `uint64(e.Time.UnixNano())`, i.e. nanoseconds mod 2^64. -/
def Event.order : Event → Nat
  | .tx _ _ => 0
  | .height h => h
  | .time t => t % U64

def listenerOf (t : Trigger) : Listener := ⟨norm t.event.pfx, t.event.order, t.id⟩

/-- byte order of two listener keys of one bucket -/
def Listener.lt (a b : Listener) : Bool := a.order < b.order || (a.order == b.order && a.id < b.id)

/-- `Attribute.Matches` (trigger.go:61) -/
def attrMatches (a o : String × String) : Bool := a.1 == o.1 && (a.2 == "" || a.2 == o.2)

/-- `TransactionEvent.Matches` (trigger.go:38) -/
def txMatches (name : String) (attrs : List (String × String)) (ev : AbciEvent) : Bool :=
  name == ev.type && attrs.all fun a => ev.attrs.any (attrMatches a)

/-- `Validate` of the three event kinds (trigger.go:86,114,137). -/
def Event.validate : Event → Bool
  | .tx n attrs => norm n != "" && attrs.all fun a => norm a.1 != ""
  | _ => true

/-- `ValidateContext` (trigger.go:99,119,142): height/time must be strictly in the future
(times at full, nanosecond, precision). -/
def Event.validateContext (height time : Nat) : Event → Bool
  | .tx _ _ => true
  | .height h => !(h ≤ height)
  | .time t => !(t = time ∨ t < time)

/-! ## keeper/trigger.go -/

def setTrigger (s : State) (t : Trigger) : State :=
  { s with triggers := fun i => if i = t.id then some t else s.triggers i }

def removeTrigger (s : State) (id : Nat) : State :=
  { s with triggers := fun i => if i = id then none else s.triggers i }

/-- `GetTrigger`: `none` is `ErrTriggerNotFound`. -/
def getTrigger (s : State) (id : Nat) : Option Trigger := s.triggers id

/-- `NewTriggerWithID` / `getNextTriggerID`: use the counter, then advance it. -/
def newTriggerWithID (s : State) (owner : Addr) (ev : Event) (acts : List Action) : State × Trigger :=
  ({ s with nextId := s.nextId + 1 }, ⟨s.nextId, owner, ev, acts⟩)

/-! ## keeper/event_listener.go -/

/-- `store.Set(key, {})` into the sorted key space (setting an existing key changes nothing). -/
def insertListener (l : Listener) : List Listener → List Listener
  | [] => [l]
  | x :: xs => if l = x then x :: xs else if l.lt x then l :: x :: xs else x :: insertListener l xs

def setEventListener (s : State) (t : Trigger) : State :=
  { s with listeners := insertListener (listenerOf t) s.listeners }

def removeEventListener (s : State) (t : Trigger) : State :=
  { s with listeners := s.listeners.filter fun l => l != listenerOf t }

/-- the keys `IterateEventListeners(ctx, eventName, …)` visits, in order -/
def bucket (s : State) (eventName : String) : List Listener :=
  s.listeners.filter fun l => l.pfx == norm eventName

/-! ## keeper/gas_limit.go -/

def setGasLimit (s : State) (id g : Nat) : State :=
  { s with gasLimits := fun i => if i = id then some g else s.gasLimits i }

def removeGasLimit (s : State) (id : Nat) : State :=
  { s with gasLimits := fun i => if i = id then none else s.gasLimits i }

/-- `GetGasLimit`: `none` is the panic "gas limit not found for trigger". -/
def getGasLimit (s : State) (id : Nat) : Option Nat := s.gasLimits id

/-! ## keeper/trigger_registry.go -/

/-- The stored gas limit for `rem` = `ctx.GasMeter().GasRemaining()` (uint64 subtraction, cap). -/
def gasLimitFor (rem : Nat) : Nat :=
  let g := (rem + U64 - SetGasLimitCost) % U64
  if g > MaximumTriggerGas then MaximumTriggerGas else g

/-- `RegisterTrigger`.  `rem` is the transaction's remaining gas when the limit is computed.  The
`SetGasLimit` write itself costs `SetGasLimitCost` on that meter and `ConsumeGas(gasLimit)`
follows: either can exhaust the transaction's gas (an out-of-gas panic, the tx fails). -/
def registerTrigger (s : State) (t : Trigger) (rem : Nat) : Except Err State :=
  let s := setEventListener (setTrigger s t) t
  let g := gasLimitFor rem
  if rem < SetGasLimitCost then .error .oog
  else
    let s := setGasLimit s t.id g
    if rem - SetGasLimitCost < g then .error .oog else .ok s

def unregisterTrigger (s : State) (t : Trigger) : State :=
  removeEventListener (removeTrigger s t.id) t

/-! ## keeper/queue.go -/

def queueIsEmpty (s : State) : Bool := s.qLen == 0

/-- `getQueueItem`: `none` is the panic "queue index not found". -/
def getQueueItem (s : State) (i : Nat) : Option QItem := s.qItems i

def enqueue (s : State) (item : QItem) : State :=
  { s with qItems := fun i => if i = s.qStart + s.qLen then some item else s.qItems i,
           qLen := s.qLen + 1 }

/-- `Dequeue` (callers check `QueueIsEmpty` first). -/
def dequeue (s : State) : State :=
  { s with qItems := fun i => if i = s.qStart then none else s.qItems i,
           qStart := s.qStart + 1, qLen := s.qLen - 1 }

def queueTrigger (s : State) (t : Trigger) (height time : Nat) : State :=
  enqueue s ⟨t, time, height⟩

/-- The queue's contents front to back: items `qStart … qStart+qLen-1` (stops at a hole). -/
def qFrom (items : Nat → Option QItem) : Nat → Nat → List QItem
  | _, 0 => []
  | i, n + 1 => match items i with
    | some q => q :: qFrom items (i + 1) n
    | none => []

def qList (s : State) : List QItem := qFrom s.qItems s.qStart s.qLen
def qIds (s : State) : List Nat := (qList s).map (·.trigger.id)

/-! ## bank (the part the `send` action uses): `MsgSend` of one plain denom -/

def validAddr (a : Addr) : Bool := a != "bad" && a != ""

def bankSend (s : State) (frm to : Addr) (amt : Nat) : Except Err State :=
  if !validAddr frm || !validAddr to then .error .invalid
  else if amt = 0 then .error .invalid
  else if s.bal frm < amt then .error .funds
  else
    let b1 : Addr → Nat := fun a => if a = frm then s.bal frm - amt else s.bal a
    .ok { s with bal := fun a => if a = to then b1 to + amt else b1 a }

/-- The events a successful `MsgSend` emits through the bank keeper (send.go:214-260). -/
def sendEvents (frm to : Addr) (amt : Nat) (denom : String) : List AbciEvent :=
  let c := s!"{amt}{denom}"
  [⟨"coin_spent", [("spender", frm), ("amount", c)]⟩,
   ⟨"coin_received", [("receiver", to), ("amount", c)]⟩,
   ⟨"transfer", [("recipient", to), ("sender", frm), ("amount", c)]⟩,
   ⟨"message", [("sender", frm)]⟩]

/-! ## types/msgs.go -/

structure CreateMsg where
  authorities : List Addr
  event : Event
  actions : List Action
  deriving DecidableEq, Repr, Inhabited

/-- `GetMsgV1Signers` of an action. -/
def Action.signers : Action → List Addr
  | .send f _ _ => [f]
  | .kill a _ => [a]
  | .boom => []

/-- `internalsdk.ValidateBasic(action)` followed by the signer lookup failing on a malformed
address: bank's `MsgSend` has no `ValidateBasic` in this SDK; `MsgDestroyTriggerRequest` checks the
address and `id ≠ 0`; `boom` passes (its own action list is non-empty and needs no signer). -/
def Action.validateBasic : Action → Bool
  | .send f _ _ => validAddr f
  | .kill a id => validAddr a && id != 0
  | .boom => true

/-- `hasSigners`: every signer of the action is one of the request's authorities. -/
def hasSigners (authorities : List Addr) (a : Action) : Bool :=
  a.signers.all fun s => authorities.contains s

/-- the per-action loop of `ValidateBasic` (msgs.go:86-95), first failure wins -/
def validateActions (authorities : List Addr) : List Action → Except Err Unit
  | [] => .ok ()
  | a :: rest =>
    if !a.validateBasic then .error .invalid
    else if !hasSigners authorities a then .error .signer
    else validateActions authorities rest

/-- `MsgCreateTriggerRequest.ValidateBasic` -/
def CreateMsg.validateBasic (m : CreateMsg) : Except Err Unit :=
  if m.actions.isEmpty then .error .invalid
  else if !m.event.validate then .error .invalid
  else if !(m.authorities.all validAddr) then .error .invalid
  else validateActions m.authorities m.actions

/-! ## keeper/msg_server.go -/

/-- `msgServer.CreateTrigger` (after the router/baseapp ran `ValidateBasic`). -/
def createTriggerHandler (s : State) (m : CreateMsg) (rem height time : Nat) : Except Err (State × Nat) :=
  if !m.event.validateContext height time then .error .event
  else match m.authorities with
    | [] => .error .panic                       -- msg.GetAuthorities()[0]
    | owner :: _ =>
      let (s1, t) := newTriggerWithID s owner m.event m.actions
      match registerTrigger s1 t rem with
      | .ok s2 => .ok (s2, t.id)
      | .error e => .error e

/-- A `MsgCreateTriggerRequest` as a transaction message: `ValidateBasic`, then the handler.
Returns the new state, the trigger id and the stored gas limit. -/
def createTrigger (s : State) (m : CreateMsg) (rem height time : Nat) : Except Err (State × Nat × Nat) :=
  match m.validateBasic with
  | .error e => .error e
  | .ok () =>
    match createTriggerHandler s m rem height time with
    | .error e => .error e
    | .ok (s', id) => .ok (s', id, gasLimitFor rem)

/-- `msgServer.DestroyTrigger` -/
def destroyTriggerHandler (s : State) (auth : Addr) (id : Nat) : Except Err State :=
  match getTrigger s id with
  | none => .error .notfound
  | some t =>
    if t.owner != auth then .error .perm
    else .ok (removeGasLimit (unregisterTrigger s t) t.id)

/-- A `MsgDestroyTriggerRequest` as a message: `ValidateBasic` (address, id ≠ 0), then the handler. -/
def destroyTrigger (s : State) (auth : Addr) (id : Nat) : Except Err State :=
  if !validAddr auth || id = 0 then .error .invalid else destroyTriggerHandler s auth id

/-! ## keeper/event_detector.go -/

/-- `getMatchingTriggersUntil` over the listener keys `ls`: load the trigger of each key (a missing
trigger makes the iteration fail and the caller panic), collect it when `m` says so, stop after
the first key for which `term` holds.  `m`/`term` return `none` where the Go closure's type
assertion panics. -/
def matchUntil (s : State) (m term : Trigger → Option Bool) : List Listener → Option (List Trigger)
  | [] => some []
  | l :: ls =>
    match getTrigger s l.id with
    | none => none
    | some t =>
      match m t, term t with
      | some hit, some stop =>
        match (if stop then some [] else matchUntil s m term ls) with
        | some rest => some (if hit then t :: rest else rest)
        | none => none
      | _, _ => none

/-- One ABCI event against its bucket (`detectTransactionEvents`' closure): a trigger already in
`seen` — *looked at* earlier in this block, whether or not it matched (event_detector.go:39: the
map lookup's second result is key presence) — is skipped; otherwise it is marked and collected
when it matches.  A non-transaction trigger in the bucket panics the type assertion. -/
def txBucket (s : State) (ev : AbciEvent) : List Nat → List Listener → Option (List Trigger × List Nat)
  | seen, [] => some ([], seen)
  | seen, l :: ls =>
    match getTrigger s l.id with
    | none => none
    | some t =>
      if seen.contains t.id then txBucket s ev seen ls
      else match t.event with
        | .tx name attrs =>
          match txBucket s ev (t.id :: seen) ls with
          | some (rest, seen') => some (if txMatches name attrs ev then t :: rest else rest, seen')
          | none => none
        | _ => none

/-- `detectTransactionEvents`: the block's ABCI event history, in order. -/
def detectTransactionEvents (s : State) : List Nat → List AbciEvent → Option (List Trigger)
  | _, [] => some []
  | seen, ev :: evs =>
    match txBucket s ev seen (bucket s ev.type) with
    | none => none
    | some (ts, seen') =>
      match detectTransactionEvents s seen' evs with
      | some rest => some (ts ++ rest)
      | none => none

def heightMatch (cur : Nat) (t : Trigger) : Option Bool :=
  match t.event with | .height h => some (decide (cur ≥ h)) | _ => none
def heightTerm (cur : Nat) (t : Trigger) : Option Bool :=
  match t.event with | .height h => some (decide (cur < h)) | _ => none
def timeMatch (cur : Nat) (t : Trigger) : Option Bool :=
  match t.event with | .time x => some (decide (cur = x ∨ cur > x)) | _ => none
def timeTerm (cur : Nat) (t : Trigger) : Option Bool :=
  match t.event with | .time x => some (decide (cur < x)) | _ => none

def detectBlockHeightEvents (s : State) (height : Nat) : Option (List Trigger) :=
  matchUntil s (heightMatch height) (heightTerm height) (bucket s BlockHeightPrefix)

def detectTimeEvents (s : State) (time : Nat) : Option (List Trigger) :=
  matchUntil s (timeMatch time) (timeTerm time) (bucket s BlockTimePrefix)

/-- the loop at the end of `DetectBlockEvents`: unregister, then queue -/
def queueDetected (height time : Nat) : State → List Trigger → State
  | s, [] => s
  | s, t :: ts => queueDetected height time (queueTrigger (unregisterTrigger s t) t height time) ts

/-- the three detections, concatenated (all computed on the state before any unregistering) -/
def detectAll (s : State) (events : List AbciEvent) (height time : Nat) : Option (List Trigger) :=
  match detectTransactionEvents s [] events, detectBlockHeightEvents s height, detectTimeEvents s time with
  | some a, some b, some c => some (a ++ b ++ c)
  | _, _, _ => none

/-- `DetectBlockEvents` (the EndBlocker): new state and the detected triggers in queueing order;
`none` when the Go code panics. -/
def detectBlockEvents (s : State) (events : List AbciEvent) (height time : Nat) : Option (State × List Trigger) :=
  match detectAll s events height time with
  | some ts => some (queueDetected height time s ts, ts)
  | none => none

/-! ## keeper/trigger_dispatcher.go -/

inductive Outcome where
  | ok | err | oog | panic
  deriving DecidableEq, Repr, Inhabited

def Outcome.toString : Outcome → String
  | .ok => "ok" | .err => "err" | .oog => "oog" | .panic => "panic"

/-- The router's handler for an action (`k.router.Handler(msg)`): the real message server. -/
def handleMsg (s : State) : Action → Except Err State
  | .send f t a => bankSend s f t a
  | .kill auth id => destroyTrigger s auth id
  | .boom => .error .panic

/-- Gas the first `n` actions of a trigger consume on its meter (`cost i` = what the handler of
action `i` consumes; `handleMsgs` itself consumes nothing between handlers). -/
def prefixCost (cost : Nat → Nat) : Nat → Nat
  | 0 => 0
  | n + 1 => prefixCost cost n + cost n

/-- The trigger's gas meter (`storetypes.NewGasMeter(gasLimit)`, one per trigger, shared by all its
actions: trigger_dispatcher.go:52-54, 91): action `i` panics out of gas exactly when the
consumption of actions `0 … i` together exceeds the limit (`ConsumeGas` panics when
`consumed > limit`; `safeHandle` turns the panic into an error). -/
def gasOog (limit : Nat) (cost : Nat → Nat) (i : Nat) : Bool := decide (limit < prefixCost cost (i + 1))

/-- `handleMsgs` + `safeHandle` on the cached state: run the actions in order; stop at the first
error, recovered panic, or out-of-gas (`oog i` = action `i` exhausted the trigger's gas meter;
`runActions` is called with `gasOog limit cost`).
Returns the per-action outcomes and the cached state if all succeeded. -/
def handleMsgs (oog : Nat → Bool) : State → List Action → Nat → List Outcome × Option State
  | s, [], _ => ([], some s)
  | s, a :: rest, i =>
    if oog i then ([.oog], none)
    else match handleMsg s a with
      | .ok s' => let r := handleMsgs oog s' rest (i + 1); (.ok :: r.1, r.2)
      | .error .panic => ([.panic], none)
      | .error _ => ([.err], none)

/-- `runActions`: the cache is flushed only when every action succeeded. -/
def runActions (s : State) (actions : List Action) (oog : Nat → Bool) : Bool × List Outcome × State :=
  match handleMsgs oog s actions 0 with
  | (os, some c) => (true, os, c)
  | (os, none) => (false, os, s)

/-- What `ProcessTriggers` did with one trigger (`EventTriggerExecuted` + the gas it reserved). -/
structure Exec where
  id : Nat
  gas : Nat
  success : Bool
  outcomes : List Outcome
  actions : List Action
  deriving DecidableEq, Repr, Inhabited

/-- the loop of `ProcessTriggers`: `n` = actions still allowed this block, `gasConsumed` as in Go;
`cost id i` = gas the handler of action `i` of trigger `id` consumes.  The actions run on one gas
meter of the stored limit `g` (`runActions(ctx, gasLimit, actions)`).
`none` = a panic (`GetGasLimit` / `getQueueItem` on a missing key). -/
def processLoop (cost : Nat → Nat → Nat) : Nat → Nat → State → Option (State × List Exec)
  | 0, _, s => some (s, [])
  | n + 1, gasConsumed, s =>
    if queueIsEmpty s then some (s, [])
    else match getQueueItem s s.qStart with
      | none => none
      | some item =>
        let id := item.trigger.id
        match getGasLimit s id with
        | none => none
        | some g =>
          if g + gasConsumed > MaximumQueueGas then some (s, [])
          else
            let s1 := removeGasLimit (dequeue s) id
            let r := runActions s1 item.trigger.actions (gasOog g (cost id))
            match processLoop cost n (gasConsumed + g) r.2.2 with
            | some (s', rest) => some (s', ⟨id, g, r.1, r.2.1, item.trigger.actions⟩ :: rest)
            | none => none

/-- `ProcessTriggers` (the BeginBlocker). -/
def processTriggers (s : State) (cost : Nat → Nat → Nat) : Option (State × List Exec) :=
  processLoop cost MaximumActions 0 s

/-! ## histories -/

inductive Op where
  | fund (a : Addr) (amt : Nat)                         -- test setup: mint to an account
  | pay (frm to : Addr) (amt : Nat)                     -- a bank `MsgSend` transaction
  | create (m : CreateMsg) (rem height time : Nat)      -- a `MsgCreateTriggerRequest` transaction
  | destroy (auth : Addr) (id : Nat)                    -- a `MsgDestroyTriggerRequest` transaction
  | beginBlock (cost : Nat → Nat → Nat)                 -- BeginBlocker (gas used per trigger id, action)
  | endBlock (events : List AbciEvent) (height time : Nat)  -- EndBlocker

inductive Out where
  | done
  | rejected (e : Err)
  | created (id gas : Nat)
  | destroyed (id : Nat)
  | executed (xs : List Exec)
  | detected (ts : List Trigger)
  | panicked
  deriving DecidableEq

/-- One operation.  A rejected transaction and a panicking block function leave the state as it
was (transaction atomicity / the harness's cached context). -/
def step (s : State) : Op → State × Out
  | .fund a amt => ({ s with bal := fun x => if x = a then s.bal a + amt else s.bal x }, .done)
  | .pay f t amt =>
    match bankSend s f t amt with
    | .ok s' => (s', .done)
    | .error e => (s, .rejected e)
  | .create m rem h t =>
    match createTrigger s m rem h t with
    | .ok (s', id, g) => (s', .created id g)
    | .error e => (s, .rejected e)
  | .destroy auth id =>
    match destroyTrigger s auth id with
    | .ok s' => (s', .destroyed id)
    | .error e => (s, .rejected e)
  | .beginBlock cost =>
    match processTriggers s cost with
    | some (s', xs) => (s', .executed xs)
    | none => (s, .panicked)
  | .endBlock evs h t =>
    match detectBlockEvents s evs h t with
    | some (s', ts) => (s', .detected ts)
    | none => (s, .panicked)

/-- Run a history; the log has one entry per operation. -/
def run : State → List Op → State × List Out
  | s, [] => (s, [])
  | s, op :: ops =>
    let r := step s op
    let r' := run r.1 ops
    (r'.1, r.2 :: r'.2)

end PvModel.Trig
