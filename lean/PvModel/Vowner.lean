/-
C09 — a scope has one value owner, changed only with the current owner's consent
(executable model).

Mirrors, function by function:
* `Keeper.SetScope` / `writeScopeToState`            x/metadata/keeper/scope.go:126-166
* `Keeper.RemoveScope`                                x/metadata/keeper/scope.go:169-198
* `Keeper.GetScopeValueOwner(s)`                      x/metadata/keeper/scope.go:201-222
* `Keeper.SetScopeValueOwner`                         x/metadata/keeper/scope.go:227-280
* `Keeper.SetScopeValueOwners`                        x/metadata/keeper/scope.go:283-321
* `Keeper.ValidateWriteScope`                         x/metadata/keeper/scope.go:424-521
* `Keeper.ValidateDeleteScope`                        x/metadata/keeper/scope.go:525-586
* `Keeper.ValidateUpdateValueOwners`                  x/metadata/keeper/scope.go:798-819
* `MDBankKeeper.DenomOwner`, `GetScopesForValueOwner` x/metadata/keeper/bank.go:32-73
* `findAuthzGrantee`                                  x/metadata/keeper/signers.go:217-258
* `validateSmartContractSigners`                      x/metadata/keeper/signers.go:375-423
* `ValidateScopeValueOwnersSigners`                   x/metadata/keeper/signers.go:427-507
* `validateAllRequiredSigned`                         x/metadata/keeper/signers.go:540-572
* `msgServer.WriteScope/DeleteScope/UpdateValueOwners/MigrateValueOwner`
                                                      x/metadata/keeper/msg_server.go:31-279
* `AccMDLinks.ValidateForScopes/GetAccAddrs/GetMDAddrsForAccAddr`
                                                      x/metadata/types/address.go:952-1028
* bank `msgServer.Send`, `msgServer.MultiSend` / `InputOutputCoinsProv`, `SendCoins`, `MintCoins`,
  `BurnCoins` (forked SDK x/bank/keeper)
* marker `msgServer.Transfer` / `Keeper.TransferCoin` (x/marker/keeper/marker.go:624) for a scope denom
* marker `SendRestrictionFn` (withdraw / deposit parts) x/marker/keeper/send_restrictions.go:18-92
* marker `msgServer.Withdraw` / `Keeper.WithdrawCoins`  x/marker/keeper/marker.go:169-209
* marker lifecycle status (proposed / finalized / active / cancelled / destroyed,
  x/marker/types/marker.pb.go `MarkerStatus`): a marker account in ANY status can hold scope
  tokens (CancelMarker, marker.go:518, only asks for the marker's OWN supply to be in escrow;
  a bank send to a proposed / finalized / cancelled / destroyed marker's address only meets the
  deposit rule).  The send restriction asks for withdraw access whatever the status; the status
  only blocks the marker's own denom (send_restrictions.go:60-67) and the marker module's
  own Withdraw message (marker.go:190).
* authz `GenericAuthorization` / `CountAuthorization.Accept` (forked SDK x/authz)
* exchange `CreateAskOrder` / `FillAsks` / `CancelOrder` / `closeSettlement` / `DoTransfer`
  (x/exchange/keeper/orders.go:634,719, fulfillment.go:138,267, keeper.go:201) with the hold module's
  `AddHold` / `ReleaseHold` (x/hold/keeper/keeper.go:67-134) and the bank's locked-coins check

Conventions: addresses and scope ids are symbolic strings.  The scope token of scope `i`
(`MetadataAddress.Denom() = "nft/" + bech32`, x/metadata/types/address.go:863) is the denom
`i` of the shared `Ledger`; the Go harness maps names to real addresses/denoms.  The ledger also
carries ordinary coins (the denoms of `ordinaryDenoms`; `isScopeDenom` tells the two apart as the
prefix `nft/scope1` does in the Go code).  The empty
string is "no address" exactly as in the Go code (`len(addr) == 0`).
Scopes may have `require_party_rollup` set and then may list optional parties
(`validateAllRequiredPartiesSigned`, signers.go:64-99, with `BuildPartyDetails`,
`associateSigners`, `associateAuthorizations`, `associateRequiredRoles`,
`associateAuthorizationsForRoles`); an optional party may well be the value owner.
Outside the model (assumed off in the harness app): quarantine opt-ins and sanctions (both
would be further send restrictions; a transfer to a quarantined receiver parks the token with
the quarantine module's funds holder until the receiver accepts — and the later `MsgAccept` is a
further route that moves it), x/exchange BID orders paying with a scope token and `MarketSettle`
(ask orders whose assets are a scope token, their hold, `FillAsks` and `CancelOrder` ARE modelled:
`createAsk` / `fillAsk` / `cancelOrder`), fee grants in use, expiring
authz grants, scope specifications other than the one the
harness creates (parties involved = [OWNER] and every party has role OWNER, so
`validateRolesPresent` always passes, the one required role is fulfilled by any party with a
signer, and `validateProvenanceRole` reduces to "no owner is a smart contract"), NAV entries (`usd_mills`),
records and sessions of a deleted scope, malformed bech32 strings (names are symbolic).
Core-only.
-/
import PvModel.Util
import PvModel.Coins
import PvModel.DenomRegex

namespace PvModel.Vowner
open PvModel PvModel.Ledger

abbrev ScopeId := String

/-- Which denoms are scope tokens.  In the Go code a scope's denom is `"nft/" + <scope bech32>`
(`MetadataAddress.Denom`, address.go:863) and the bank-side helpers recognise scope tokens by the
prefix `scopeDenomPrefix = "nft/scope1"` (x/metadata/keeper/bank.go:18); every other denom is an
ordinary coin.  Symbolically: the names in `ordinaryDenoms` stand for ordinary coin denoms — they
are not valid scope ids — and every other name is a scope id and, as a denom, that scope's token.
(A membership test on literals rather than a prefix test, so that `decide` can evaluate it.) -/
def ordinaryDenoms : List Denom := ["$c", "$d", "$nhash"]
def isScopeDenom (d : Denom) : Bool := !ordinaryDenoms.contains d

/-- the four metadata messages that can move a scope token (their authz msg type URLs) -/
inductive MsgType where
  | write | delete | updvo | migrate
  deriving DecidableEq, Repr

def MsgType.toString : MsgType → String
  | .write => "write" | .delete => "delete" | .updvo => "updvo" | .migrate => "migrate"

def MsgType.all : List MsgType := [.write, .delete, .updvo, .migrate]
def MsgType.ofString? (s : String) : Option MsgType := MsgType.all.find? (·.toString = s)

/-- marker `Access` values the scope-token paths look at -/
inductive Access where
  | withdraw | deposit
  deriving DecidableEq, Repr

def Access.toString : Access → String
  | .withdraw => "withdraw" | .deposit => "deposit"
def Access.ofString? (s : String) : Option Access := [Access.withdraw, Access.deposit].find? (·.toString = s)

/-- error classes (never message text) -/
inductive Err where
  | invalid    -- ValidateBasic / invalid coins
  | state      -- "denom has more than one owner"
  | provrole   -- smart-contract owner without the PROVENANCE role
  | sig        -- "missing signature…"
  | roles      -- "missing signers for roles required by spec"
  | contract   -- validateSmartContractSigners
  | blocked    -- "is not allowed to receive funds"
  | withdraw   -- marker send restriction: no signer with withdraw on the sending marker
  | deposit    -- marker send restriction: no deposit permission on the receiving restricted marker
  | funds      -- insufficient funds
  | notfound
  | dup        -- duplicate metadata address
  | novo       -- "no account address associated with metadata address"
  | same       -- "already has the proposed value owner"
  | status     -- marker Withdraw: "… from a marker that is not in Active status"
  | perm       -- exchange CancelOrder: "does not have permission to cancel order"
  | unsupported -- a request whose outcome is decided by rules outside this model (never produced for a generated op)
  deriving DecidableEq, Repr

def Err.toString : Err → String
  | .invalid => "err:invalid" | .state => "err:state" | .provrole => "err:provrole"
  | .sig => "err:sig" | .roles => "err:roles" | .contract => "err:contract" | .blocked => "err:blocked"
  | .withdraw => "err:withdraw" | .deposit => "err:deposit" | .funds => "err:funds"
  | .notfound => "err:notfound" | .dup => "err:dup" | .novo => "err:novo" | .same => "err:same"
  | .status => "err:status" | .perm => "err:perm" | .unsupported => "err:unsupported"

/-- an authz grant; `count = 0` is a `GenericAuthorization`, `count = n+1` a
`CountAuthorization` with `n+1` uses left -/
structure Grant where
  granter : Addr
  grantee : Addr
  mt : MsgType
  count : Nat
  deriving DecidableEq, Repr

/-- `MarkerStatus` (x/marker/types/marker.pb.go) -/
inductive MStatus where
  | proposed | finalized | active | cancelled | destroyed
  deriving DecidableEq, Repr

def MStatus.toString : MStatus → String
  | .proposed => "proposed" | .finalized => "finalized" | .active => "active"
  | .cancelled => "cancelled" | .destroyed => "destroyed"
def MStatus.all : List MStatus := [.proposed, .finalized, .active, .cancelled, .destroyed]
def MStatus.ofString? (s : String) : Option MStatus := MStatus.all.find? (·.toString = s)

structure Marker where
  addr : Addr
  restricted : Bool
  access : List (Addr × Access)
  /-- the lifecycle status; the account exists (and `GetMarker` finds it) in every one of them -/
  status : MStatus := .active
  deriving DecidableEq, Repr

/-- a `Party` of role OWNER (types/scope.pb.go): address and the `optional` flag -/
structure Party where
  addr : Addr
  optional : Bool := false
  deriving DecidableEq, Repr

/-- a required (optional = false) party -/
def req (a : Addr) : Party := ⟨a, false⟩
/-- an optional party -/
def opt (a : Addr) : Party := ⟨a, true⟩

structure Scope where
  id : ScopeId
  owners : List Party
  /-- `require_party_rollup` -/
  rollup : Bool := false
  deriving DecidableEq, Repr

/-- an x/exchange ask order (x/exchange/orders.go `AskOrder`) of the one market the harness creates:
the assets are ONE unit of `asset` (a scope token), the price is `price` units of the ordinary
coin `priceDenom`; no fees -/
structure Order where
  id : Nat
  seller : Addr
  asset : Denom
  price : Nat
  deriving DecidableEq, Repr

/-- the metadata module account (mints, burns; a blocked address in the app) -/
def modAddr : Addr := "MOD"

structure State where
  scopes : List Scope := []
  ledger : Ledger := []
  grants : List Grant := []
  markers : List Marker := [⟨"MR", true, [], .active⟩, ⟨"MU", false, [], .active⟩]
  /-- accounts `isWasmAccount` (signers.go:357) treats as smart contracts -/
  wasm : List Addr := ["K"]
  /-- bank `BlockedAddr`: the module accounts -/
  blocked : List Addr := ["MOD", "FEE"]
  /-- x/hold: one entry per unit of a denom on hold in an account (`HoldKeeper.AddHold`); the
  bank's locked-coins function subtracts them from what the account can spend -/
  holds : List (Addr × Denom) := []
  /-- x/exchange: the ask orders in the store -/
  orders : List Order := []
  /-- x/exchange `lastOrderID` -/
  lastOrder : Nat := 0
  deriving Repr

/-! ## Scope store -/

def findScope (s : State) (id : ScopeId) : Option Scope := s.scopes.find? (·.id = id)
def hasScope (s : State) (id : ScopeId) : Bool := s.scopes.any (·.id = id)

/-- `writeScopeToState` (scope.go:144): insert or replace -/
def putScope (s : State) (id : ScopeId) (owners : List Party) (rollup : Bool) : State :=
  { s with scopes := ⟨id, owners, rollup⟩ :: s.scopes.filter (·.id ≠ id) }

def dropScope (s : State) (id : ScopeId) : State :=
  { s with scopes := s.scopes.filter (·.id ≠ id) }

/-- `EqualParties` (types/scope.go:518) for parties that all have role OWNER: `Party.Equals`
compares address, role and the optional flag -/
def sameOwners (a b : List Party) : Bool := a.length == b.length && a.all (b.contains ·)

/-- `Scope.GetAllOwnerAddresses` / `GetPartyAddresses` (types/scope.go:541) -/
def partyAddrs (ps : List Party) : List Addr := ps.map (·.addr)

def nodupB (xs : List String) : Bool :=
  match xs with
  | [] => true
  | x :: rest => !rest.contains x && nodupB rest

/-! ## Bank -/

def ones (ids : List ScopeId) : Coins := ids.map fun d => (d, 1)

/-- `MDBankKeeper.DenomOwner` (bank.go:32): the single account with a balance of the denom;
`none` when nobody has one; an error when two different accounts do. -/
def denomOwner (l : Ledger) (d : Denom) : Except Err (Option Addr) :=
  match (l.map (·.addr)).filter (fun a => bal l a d ≠ 0) with
  | [] => .ok none
  | a :: rest => if rest.all (· == a) then .ok (some a) else .error .state

def findMarker (s : State) (a : Addr) : Option Marker := s.markers.find? (·.addr = a)
def isMarker (s : State) (a : Addr) : Bool := (findMarker s a).isSome
def Marker.has (m : Marker) (a : Addr) (p : Access) : Bool := m.access.contains (a, p)
def anyHas (m : Marker) (as : List Addr) (p : Access) : Bool := as.any (m.has · p)

/-- send_restrictions.go:41-58: coins leave a marker account only when one of the transfer
agents has withdraw on it — WHATEVER the marker's lifecycle status: the status check
(send_restrictions.go:60-67) comes after the access check and only concerns the marker's own
denom, which a scope denom never is -/
def withdrawOk (s : State) (agents : List Addr) (frm : Addr) : Bool :=
  match findMarker s frm with
  | some fm => !agents.isEmpty && anyHas fm agents .withdraw
  | none => true

/-- send_restrictions.go:72-84: coins enter a restricted marker only when a transfer agent
(or, without agents, the sender) has deposit on it -/
def depositOk (s : State) (agents : List Addr) (frm to : Addr) : Bool :=
  match findMarker s to with
  | some tm =>
    if tm.restricted then
      if !agents.isEmpty then anyHas tm agents .deposit else tm.has frm .deposit
    else true
  | none => true

def hasFunds (l : Ledger) (a : Addr) (ids : List ScopeId) : Bool :=
  ids.all fun d => decide (1 ≤ bal l a d)

/-- units of `d` on hold in account `a` (`HoldKeeper.GetHoldCoin`) -/
def heldOf (s : State) (a : Addr) (d : Denom) : Nat := s.holds.count (a, d)

/-- `subUnlockedCoins` (forked SDK x/bank/keeper/send.go:360): the account can spend one unit of
each listed denom — its balance minus what is locked (on hold) covers it -/
def spendable (s : State) (a : Addr) (ids : List Denom) : Bool :=
  ids.all fun d => decide ((heldOf s a d : Int) + 1 ≤ bal s.ledger a d)

/-- bank `SendCoins` of one unit of each listed scope denom with the marker send
restriction (no marker exists for a scope denom, so `validateSendDenom` passes).  The forked SDK
debits the sender first (`subUnlockedCoins`, send.go:313: balance, then balance minus locked
coins — both "insufficient funds") and applies the send restriction afterwards (send.go:318). -/
def sendCoins (s : State) (agents : List Addr) (frm to : Addr) (ids : List ScopeId) : Except Err State :=
  if !hasFunds s.ledger frm ids then .error .funds
  else if !spendable s frm ids then .error .funds
  else if !withdrawOk s agents frm then .error .withdraw
  else if !depositOk s agents frm to then .error .deposit
  else .ok { s with ledger := s.ledger.move frm to (ones ids) }

/-- bank `MintCoins(metadata, 1 scope coin)` -/
def mintCoin (s : State) (d : Denom) : State := { s with ledger := s.ledger.credit modAddr (ones [d]) }

/-- bank `BurnCoins(metadata, 1 scope coin)` -/
def burnCoin (s : State) (d : Denom) : Except Err State :=
  if bal s.ledger modAddr d < 1 then .error .funds
  else .ok { s with ledger := s.ledger.debit modAddr (ones [d]) }

/-- `Keeper.SetScopeValueOwner` (scope.go:227). `newVO = ""` burns the token. -/
def setScopeValueOwner (s : State) (agents : List Addr) (id : ScopeId) (newVO : Addr) : Except Err State :=
  if newVO ≠ "" ∧ s.blocked.contains newVO then .error .blocked
  else
    let toAddr := if newVO = "" then modAddr else newVO
    match denomOwner s.ledger id with
    | .error e => .error e
    | .ok cur =>
      if cur.getD "" = newVO then .ok s
      else
        let (s1, frm) := match cur with
          | none => (mintCoin s id, modAddr)
          | some h => (s, h)
        match sendCoins s1 agents frm toAddr [id] with
        | .error e => .error e
        | .ok s2 => if newVO = "" then burnCoin s2 id else .ok s2

/-- `Keeper.SetScope` (scope.go:126) -/
def setScope (s : State) (agents : List Addr) (id : ScopeId) (owners : List Party) (rollup : Bool) (vo : Addr) :
    Except Err State :=
  if vo ≠ "" then
    match setScopeValueOwner s agents id vo with
    | .error e => .error e
    | .ok s1 => .ok (putScope s1 id owners rollup)
  else .ok (putScope s id owners rollup)

/-- `Keeper.RemoveScope` (scope.go:169) -/
def removeScope (s : State) (agents : List Addr) (id : ScopeId) : Except Err State :=
  if !hasScope s id then .ok s
  else match setScopeValueOwner s agents id "" with
    | .error e => .error e
    | .ok s1 => .ok (dropScope s1 id)

/-! ## Links (`AccMDLinks`) -/

abbrev Link := Option Addr × ScopeId

/-- `GetScopeValueOwners` (scope.go:210) -/
def getScopeValueOwners (l : Ledger) : List ScopeId → Except Err (List Link)
  | [] => .ok []
  | id :: rest =>
    match denomOwner l id with
    | .error e => .error e
    | .ok o =>
      match getScopeValueOwners l rest with
      | .error e => .error e
      | .ok ls => .ok ((o, id) :: ls)

/-- `AccMDLinks.ValidateForScopes` (address.go:952) -/
def validateForScopes (seen : List ScopeId) : List Link → Except Err Unit
  | [] => .ok ()
  | (a, id) :: rest =>
    if seen.contains id then .error .dup
    else if a = none then .error .novo
    else validateForScopes (id :: seen) rest

/-- keep the first occurrence of each element -/
def dedup : List String → List String
  | [] => []
  | x :: rest => x :: (dedup rest).filter (· ≠ x)

/-- `AccMDLinks.GetAccAddrs` (address.go:986) -/
def accAddrs (links : List Link) : List Addr := dedup (links.filterMap (·.1))

def idsOf (links : List Link) (a : Addr) : List ScopeId := (links.filter (·.1 = some a)).map (·.2)

/-- the send loop of `SetScopeValueOwners` (scope.go:312) -/
def sendAll (agents : List Addr) (links : List Link) (to : Addr) : State → List Addr → Except Err State
  | s, [] => .ok s
  | s, f :: rest =>
    if f = to then sendAll agents links to s rest
    else match sendCoins s agents f to (idsOf links f) with
      | .error e => .error e
      | .ok s1 => sendAll agents links to s1 rest

/-- `Keeper.SetScopeValueOwners` (scope.go:283) -/
def setScopeValueOwners (s : State) (agents : List Addr) (links : List Link) (newVO : Addr) : Except Err State :=
  if links.isEmpty then .ok s
  else match validateForScopes [] links with
    | .error e => .error e
    | .ok () =>
      if s.blocked.contains newVO then .error .blocked
      else sendAll agents links newVO s (accAddrs links)

/-- `MDBankKeeper.GetScopesForValueOwner` (bank.go:52): every SCOPE denom the account holds — the
walk over the account's balances is restricted to the prefix `scopeDenomPrefix` (bank.go:52), the
account's ordinary coins are not looked at -/
def scopesForValueOwner (l : Ledger) (a : Addr) : List Link :=
  ((dedup (l.map (·.denom))).filter fun d => isScopeDenom d && bal l a d ≠ 0).map fun d => (some a, d)

/-! ## Authz -/

structure Auth where
  grants : List Grant
  /-- `AuthzCache.acceptable`: (grantee, granter, msg type) accepted earlier in this message -/
  cache : List (Addr × Addr × MsgType) := []
  deriving Repr

def grantKeyIs (grantee granter : Addr) (mt : MsgType) (g : Grant) : Bool :=
  g.grantee = grantee && g.granter = granter && g.mt = mt

def lookupGrant (gs : List Grant) (grantee granter : Addr) (mt : MsgType) : Option Grant :=
  gs.find? (grantKeyIs grantee granter mt)

def dropGrant (gs : List Grant) (grantee granter : Addr) (mt : MsgType) : List Grant :=
  gs.filter fun g => !grantKeyIs grantee granter mt g

/-- `authorization.Accept` followed by `DeleteGrant` / `SaveGrant` and `cache.SetAcceptable`
(signers.go:238-252) -/
def acceptGrant (a : Auth) (g : Grant) : Auth :=
  let gs := match g.count with
    | 0 => a.grants
    | 1 => dropGrant a.grants g.grantee g.granter g.mt
    | n + 2 => dropGrant a.grants g.grantee g.granter g.mt ++ [{ g with count := n + 1 }]
  { grants := gs, cache := (g.grantee, g.granter, g.mt) :: a.cache }

def findGrantee (a : Auth) (granter : Addr) (mt : MsgType) : List Addr → Auth × Option Addr
  | [] => (a, none)
  | ge :: rest =>
    if a.cache.contains (ge, granter, mt) then (a, some ge)
    else match lookupGrant a.grants ge granter mt with
      | some g => (acceptGrant a g, some ge)
      | none => findGrantee a granter mt rest

/-- `Keeper.findAuthzGrantee` (signers.go:217); for the four messages of this model
`getAuthzMessageTypeURLs` is the message's own type only -/
def findAuthzGrantee (a : Auth) (granter : Addr) (grantees : List Addr) (mt : MsgType) : Auth × Option Addr :=
  if granter = "" then (a, none) else findGrantee a granter mt grantees

/-- `Keeper.validateAllRequiredSigned` (signers.go:540): every required address signs or has
granted one of the signers; returns the signers used -/
def validateAllRequiredSigned (a : Auth) (signers : List Addr) (mt : MsgType) :
    List Addr → List Addr → Except Err (Auth × List Addr)
  | [], used => .ok (a, used)
  | p :: rest, used =>
    if signers.contains p then validateAllRequiredSigned a signers mt rest (p :: used)
    else match findAuthzGrantee a p signers mt with
      | (a1, some g) => validateAllRequiredSigned a1 signers mt rest (g :: used)
      | (_, none) => .error .sig

/-! ### `require_party_rollup` scopes (signers.go:64-99) -/

/-- `types.PartyDetails` for a party of role OWNER: `signer = ""` means no signer yet -/
structure PartyDetails where
  addr : Addr
  optional : Bool
  signer : Addr := ""
  deriving DecidableEq, Repr

/-- `BuildPartyDetails(parties, parties)` followed by `associateSigners` (signers.go:102): one
entry per party (the parties of a stored scope are unique: `ValidatePartiesAreUnique`), a party
whose address is among the msg signers is its own signer -/
def associateSigners (signers : List Addr) (ps : List Party) : List PartyDetails :=
  ps.map fun p => ⟨p.addr, p.optional, if signers.contains p.addr then p.addr else ""⟩

/-- `associateAuthorizations(findUnsignedRequired(parties))` + the "missing required
signature" check (signers.go:74-83): every required party without a signer must have granted one
of the msg signers.  (The Go loop visits all of them before failing; a failure discards every
write, so stopping at the first is the same.) -/
def associateRequired (signers : List Addr) (mt : MsgType) :
    Auth → List PartyDetails → Except Err (Auth × List PartyDetails)
  | a, [] => .ok (a, [])
  | a, p :: rest =>
    if p.optional || p.signer ≠ "" then
      match associateRequired signers mt a rest with
      | .error e => .error e
      | .ok (a1, r) => .ok (a1, p :: r)
    else match findAuthzGrantee a p.addr signers mt with
      | (a1, some g) =>
        match associateRequired signers mt a1 rest with
        | .error e => .error e
        | .ok (a2, r) => .ok (a2, { p with signer := g } :: r)
      | (_, none) => .error .sig

/-- `associateAuthorizationsForRoles` for the one missing role OWNER (signers.go:300): the
first party without a signer that has granted a msg signer fulfils it -/
def associateRole (signers : List Addr) (mt : MsgType) :
    Auth → List PartyDetails → Except Err (Auth × List PartyDetails)
  | _, [] => .error .roles
  | a, p :: rest =>
    if p.signer ≠ "" then
      match associateRole signers mt a rest with
      | .error e => .error e
      | .ok (a1, r) => .ok (a1, p :: r)
    else match findAuthzGrantee a p.addr signers mt with
      | (a1, some g) => .ok (a1, { p with signer := g } :: rest)
      | (a1, none) =>
        match associateRole signers mt a1 rest with
        | .error e => .error e
        | .ok (a2, r) => .ok (a2, p :: r)

/-- `Keeper.validateAllRequiredPartiesSigned(parties, parties, [OWNER])` (signers.go:64):
all required parties sign (or have granted a signer); the role OWNER is fulfilled by a party
with a signer (`associateRequiredRoles`, signers.go:132) or else by an authz grant of a party
that has none yet.  Returns `GetUsedSigners` of the party details: OPTIONAL PARTIES THAT DID NOT
SIGN ARE PART OF THE RETURNED DETAILS BUT HAVE NO SIGNER — being a party proves nothing. -/
def validateAllRequiredPartiesSigned (a : Auth) (signers : List Addr) (mt : MsgType) (parties : List Party) :
    Except Err (Auth × List Addr) :=
  match associateRequired signers mt a (associateSigners signers parties) with
  | .error e => .error e
  | .ok (a1, ds) =>
    let usedOf (ds : List PartyDetails) : List Addr := (ds.filter (·.signer ≠ "")).map (·.signer)
    if ds.any (·.signer ≠ "") then .ok (a1, usedOf ds)
    else match associateRole signers mt a1 ds with
      | .error e => .error e
      | .ok (a2, ds2) => .ok (a2, usedOf ds2)

/-- the signers `ValidateScopeValueOwnersSigners` looks at (signers.go:444-467): only the
first one when it is a smart contract -/
def effectiveSigners (s : State) : List Addr → List Addr
  | [] => []
  | s0 :: rest => if s.wasm.contains s0 then [s0] else s0 :: rest

def vosLoop (s : State) (signerAccs : List Addr) (proposed : Addr) (mt : MsgType) :
    Auth → List Addr → List Addr → Except Err (Auth × List Addr)
  | a, [], used => .ok (a, used)
  | a, ex :: rest, used =>
    if ex = "" then vosLoop s signerAccs proposed mt a rest used
    else if ex = proposed then vosLoop s signerAccs proposed mt a rest used
    else if signerAccs.contains ex then vosLoop s signerAccs proposed mt a rest (ex :: used)
    else if isMarker s ex then vosLoop s signerAccs proposed mt a rest used
    else match findAuthzGrantee a ex signerAccs mt with
      | (a1, some g) => vosLoop s signerAccs proposed mt a1 rest (g :: used)
      | (_, none) => .error .sig

/-- `Keeper.ValidateScopeValueOwnersSigners` (signers.go:427): returns the transfer agents
and the used signers -/
def validateScopeValueOwnersSigners (s : State) (a : Auth) (existingOwners : List Addr) (proposed : Addr)
    (signers : List Addr) (mt : MsgType) : Except Err (Auth × List Addr × List Addr) :=
  if existingOwners = [proposed] then .ok (a, [], [])
  else
    let signerAccs := effectiveSigners s signers
    match vosLoop s signerAccs proposed mt a existingOwners [] with
    | .error e => .error e
    | .ok (a1, used) => .ok (a1, signerAccs, used)

/-- the inner loop of `validateSmartContractSigners` (signers.go:412): every later signer
must have granted the contract -/
def allGranted (contract : Addr) (mt : MsgType) : Auth → List Addr → Option Auth
  | a, [] => some a
  | a, granter :: rest =>
    match findAuthzGrantee a granter [contract] mt with
    | (a1, some _) => allGranted contract mt a1 rest
    | (_, none) => none

/-- `Keeper.validateSmartContractSigners` (signers.go:375) -/
def validateSmartContractSigners (s : State) (used : List Addr) (mt : MsgType) :
    Auth → Bool → List Addr → Except Err Auth
  | a, _, [] => .ok a
  | a, canBeWasm, signer :: rest =>
    let isWasm := s.wasm.contains signer
    if isWasm && !canBeWasm then .error .contract
    else if !isWasm then validateSmartContractSigners s used mt a false rest
    else if used.contains signer then validateSmartContractSigners s used mt a canBeWasm rest
    else if rest.isEmpty then .error .contract
    else match allGranted signer mt a rest with
      | none => .error .contract
      | some a1 => validateSmartContractSigners s used mt a1 canBeWasm rest

/-! ## Message handlers -/

/-- scope.go:443: the current value owner is looked up only when the scope exists and a value
owner is proposed -/
def writeExistingVO (s : State) (id : ScopeId) (existing : Option Scope) (vo : Addr) : Except Err (Option Addr) :=
  if existing.isSome ∧ vo ≠ "" then denomOwner s.ledger id else .ok none

/-- scope.go:455-522: which of the scope's owners have to sign a write -/
def writeParties (s : State) (existing : Option Scope) (owners : List Party) (rollup : Bool) (signers : List Addr)
    (existingVOStr vo : Addr) : Except Err (Auth × List Addr) :=
  -- `EqualParties` and `RequirePartyRollup ==` of `Scope.Equals` (types/scope.go:38)
  let ownersSame := match existing with
    | some e => sameOwners e.owners owners && e.rollup == rollup
    | none => false
  -- scope.go:465
  let onlyChangeIsValueOwner := existing.isSome && existingVOStr ≠ "" && existingVOStr ≠ vo && ownersSame
  let a0 : Auth := { grants := s.grants }
  if onlyChangeIsValueOwner then .ok (a0, [])
  else if owners.any (s.wasm.contains ·.addr) then .error .provrole   -- validateProvenanceRole (role OWNER)
  else match existing with
    | some e =>
      if !e.rollup then
        -- scope.go:494: !existing.Equals(proposed)
        if !(ownersSame && existingVOStr = vo) then validateAllRequiredSigned a0 signers .write (partyAddrs e.owners) []
        else .ok (a0, [])
      else
        -- scope.go:516: the roll-up branch checks the parties of the existing scope on every write
        validateAllRequiredPartiesSigned a0 signers .write e.owners
    | none => .ok (a0, [])

/-- `MsgWriteScopeRequest.ValidateBasic` + `Keeper.ValidateWriteScope` (scope.go:424).
Returns the auth state and the transfer agents. -/
def validateWriteScope (s : State) (id : ScopeId) (owners : List Party) (rollup : Bool) (vo : Addr)
    (signers : List Addr) : Except Err (Auth × List Addr) :=
  -- `ValidatePartiesBasic` (at least one, unique address+role) and `ValidateOptionalParties`
  -- (types/scope.go:446-468): optional parties only with require_party_rollup
  -- `Scope.ValidateBasic` (types/scope.go:48-52, `ValidateIsScopeAddress`): the scope id must be a scope metadata address
  if signers.isEmpty || !isScopeDenom id || owners.isEmpty || !nodupB (partyAddrs owners) || (!rollup && owners.any (·.optional))
  then .error .invalid
  else
    match writeExistingVO s id (findScope s id) vo with
    | .error e => .error e
    | .ok existingVO =>
      match writeParties s (findScope s id) owners rollup signers (existingVO.getD "") vo with
      | .error e => .error e
      | .ok (a1, used1) =>
        match validateScopeValueOwnersSigners s a1 existingVO.toList vo signers .write with
        | .error e => .error e
        | .ok (a2, agents, used2) =>
          match validateSmartContractSigners s (used2 ++ used1) .write a2 true signers with
          | .error e => .error e
          | .ok a3 => .ok (a3, agents)

/-- `msgServer.WriteScope` (msg_server.go:31) -/
def writeScope (s : State) (id : ScopeId) (owners : List Party) (rollup : Bool) (vo : Addr) (signers : List Addr) :
    Except Err State :=
  match validateWriteScope s id owners rollup vo signers with
  | .error e => .error e
  | .ok (a, agents) => setScope { s with grants := a.grants } agents id owners rollup vo

/-- scope.go:553-580: the parties that must agree to a delete (the harness's scope
specification always exists) -/
def deleteParties (s : State) (e : Scope) (signers : List Addr) : Except Err (Auth × List Addr) :=
  if !e.rollup then validateAllRequiredSigned { grants := s.grants } signers .delete (partyAddrs e.owners) []
  else validateAllRequiredPartiesSigned { grants := s.grants } signers .delete e.owners

/-- `Keeper.ValidateDeleteScope` (scope.go:525) -/
def validateDeleteScope (s : State) (id : ScopeId) (signers : List Addr) : Except Err (Auth × List Addr) :=
  -- `MsgDeleteScopeRequest.ValidateBasic`: the id must be a scope metadata address
  if signers.isEmpty || !isScopeDenom id then .error .invalid
  else match findScope s id with
    | none => .error .notfound
    | some e =>
      match deleteParties s e signers with
      | .error er => .error er
      | .ok (a1, used1) =>
        match denomOwner s.ledger id with
        | .error er => .error er
        | .ok vo =>
          match validateScopeValueOwnersSigners s a1 vo.toList "" signers .delete with
          | .error er => .error er
          | .ok (a2, agents, used2) =>
            match validateSmartContractSigners s (used2 ++ used1) .delete a2 true signers with
            | .error er => .error er
            | .ok a3 => .ok (a3, agents)

/-- `msgServer.DeleteScope` (msg_server.go:68) -/
def deleteScope (s : State) (id : ScopeId) (signers : List Addr) : Except Err State :=
  match validateDeleteScope s id signers with
  | .error e => .error e
  | .ok (a, agents) => removeScope { s with grants := a.grants } agents id

/-- `Keeper.ValidateUpdateValueOwners` (scope.go:798) -/
def validateUpdateValueOwners (s : State) (links : List Link) (proposed : Addr) (signers : List Addr)
    (mt : MsgType) : Except Err (Auth × List Addr) :=
  if links.isEmpty then .error .notfound
  else match validateForScopes [] links with
    | .error e => .error e
    | .ok () =>
      if links.any (·.1 = some proposed) then .error .same
      else match validateScopeValueOwnersSigners s { grants := s.grants } (accAddrs links) proposed signers mt with
        | .error e => .error e
        | .ok (a, agents, _) => .ok (a, agents)

/-- `msgServer.UpdateValueOwners` (msg_server.go:220) after `ValidateBasic` -/
def updateValueOwners (s : State) (ids : List ScopeId) (vo : Addr) (signers : List Addr) : Except Err State :=
  -- `MsgUpdateValueOwnersRequest.ValidateBasic`: every id must be a scope metadata address
  if ids.isEmpty || vo = "" || signers.isEmpty || ids.any (!isScopeDenom ·) then .error .invalid
  else match getScopeValueOwners s.ledger ids with
    | .error e => .error e
    | .ok links =>
      match validateUpdateValueOwners s links vo signers .updvo with
      | .error e => .error e
      | .ok (a, agents) => setScopeValueOwners { s with grants := a.grants } agents links vo

/-- `msgServer.MigrateValueOwner` (msg_server.go:247) after `ValidateBasic` -/
def migrateValueOwner (s : State) (existing proposed : Addr) (signers : List Addr) : Except Err State :=
  if existing = "" || proposed = "" || signers.isEmpty then .error .invalid
  else
    let links := scopesForValueOwner s.ledger existing
    if links.isEmpty then .error .notfound
    else match validateUpdateValueOwners s links proposed signers .migrate with
      | .error e => .error e
      | .ok (a, agents) => setScopeValueOwners { s with grants := a.grants } agents links proposed

/-- bank `msgServer.Send` of scope tokens by their holder (no transfer agents) -/
def bankSend (s : State) (frm to : Addr) (ids : List ScopeId) : Except Err State :=
  if frm = "" || to = "" || ids.isEmpty || !nodupB ids then .error .invalid
  else if s.blocked.contains to then .error .blocked
  else sendCoins s [] frm to ids

/-- marker `msgServer.Withdraw` → `Keeper.WithdrawCoins` (x/marker/keeper/marker.go:169) for scope
tokens sitting in a marker account: the caller needs withdraw on that marker and, when the
recipient is a restricted marker, deposit on that one (`validateSendToMarker`, marker.go:878);
the marker must be active (marker.go:190, for any coin, not only its own);
the send itself runs with the marker bypass.  (An empty coin list is not generated.) -/
def markerWithdraw (s : State) (marker admin to : Addr) (ids : List ScopeId) : Except Err State :=
  if admin = "" || to = "" || ids.isEmpty || !nodupB ids then .error .invalid
  else match findMarker s marker with
    | none => .error .notfound
    | some m =>
      if !m.has admin .withdraw then .error .withdraw
      else if !depositOk s [admin] marker to then .error .deposit
      else if m.status ≠ .active then .error .status            -- marker.go:190
      else if s.blocked.contains to then .error .blocked
      else if !hasFunds s.ledger marker ids then .error .funds
      else if !spendable s marker ids then .error .funds      -- locked (held) coins cannot be withdrawn either
      else .ok { s with ledger := s.ledger.move marker to (ones ids) }

/-! ## Other bank routes -/

/-- the input of a multi-send covers the total: as many units of each denom as it is listed -/
def hasFundsTotal (l : Ledger) (a : Addr) (all : List Denom) : Bool :=
  all.all fun d => decide ((all.count d : Int) ≤ bal l a d)

/-- the per-output part of `InputOutputCoinsProv` (forked SDK x/bank/keeper/send.go:152): the send
restriction is applied to every output with the one input as sender and no transfer agents; the
input's coins were removed before -/
def msendLoop (frm : Addr) : State → List (Addr × List ScopeId) → Except Err State
  | s, [] => .ok s
  | s, (to, ids) :: rest =>
    match sendCoins s [] frm to ids with
    | .error e => .error e
    | .ok s1 => msendLoop frm s1 rest

/-- bank `msgServer.MultiSend` (forked SDK x/bank/keeper/msg_server.go:85) with its single input
`frm` (the message's signer) and the outputs `outs`, one unit of each listed denom per output:
`ValidateInputOutputs`, no output may be a blocked address, the input's total is removed first
(`subUnlockedCoins`: a denom listed in `k` outputs needs `k` units — possible for an ordinary coin,
"insufficient funds" for a scope token; units on hold do not count — holds exist on scope denoms
only), then every output passes the send restriction. -/
def bankMultiSend (s : State) (frm : Addr) (outs : List (Addr × List ScopeId)) : Except Err State :=
  if frm = "" || outs.isEmpty || outs.any (fun o => o.1 = "" || o.2.isEmpty || !nodupB o.2) then .error .invalid
  else if outs.any (s.blocked.contains ·.1) then .error .blocked
  else if !hasFundsTotal s.ledger frm (outs.flatMap (·.2)) || !spendable s frm (outs.flatMap (·.2)) then .error .funds
  else msendLoop frm s outs

/-- marker `msgServer.Transfer` → `Keeper.TransferCoin` (x/marker/keeper/marker.go:624) of a scope
token: the first thing it does is `GetMarkerByDenom(amount.Denom)`, and no marker has a scope denom
(`/` is not a marker denom character), so it is always "marker not found".  (For an ordinary denom
the marker module's own rules apply; they are not part of this model and the op is not generated.) -/
def markerTransfer (_s : State) (admin frm to : Addr) (id : ScopeId) : Except Err State :=
  if admin = "" || frm = "" || to = "" || !isScopeDenom id then .error .invalid
  else .error .notfound

/-- the text of the bank denom of scope `id`'s token: `MetadataAddress.Denom()` = `"nft/"` followed
by the bech32 text of the scope's address.  Scope ids are symbolic in this model (`s1`, `s2`, …;
the harness maps each to a real scope address); the id stands for that bech32 text.  Everything
proved about the denom text (PvProofs/C09Denom.lean) holds for EVERY string after `nft/`, so it
does not matter which text the id stands for. -/
def scopeDenomText (id : ScopeId) : String := DenomRegex.scopeDenom id

/-- marker `msgServer.AddFinalizeActivateMarker` / `msgServer.AddMarker` (x/marker/keeper/msg_server.go:480
and :55) sent by an ordinary account (not the governance authority) for a marker whose denom is the
denom of a scope token: the first thing both handlers do is `ValidateUnrestictedDenom`
(x/marker/keeper/params.go:53), which matches the WHOLE denom against the unrestricted-denom
expression `[a-zA-Z][a-zA-Z0-9\-\.]{2,83}` (`DenomRegex.unrestrictedDenomOk`).  The decision is
taken from that match on the denom text: when it fails — and `nft/scope1…` has a `/`, so it always
does (`PvProofs.C09Denom.scopeDenom_refused`) — the request is refused whatever its supply, marker
type, access list and forced-transfer flag are (a forced-transfer flag on a marker that is not
restricted is refused by `ValidateBasic` already).  A denom that passes would be an ordinary denom:
the marker module's own rules decide then, they are not part of this model (`unsupported`; never
reached).  Hence no marker ever exists on a scope denom, which is what `markerTransfer` and the
"only the metadata module mints scope denoms" assumption rest on.  The governance authority as
sender skips the validation (msg_server.go:64-73) and is outside the model. -/
def markerAdd (_s : State) (_signer : Addr) (id : ScopeId) (_supply : Nat) (_restricted _forced : Bool) :
    Except Err State :=
  if DenomRegex.unrestrictedDenomOk (scopeDenomText id) then
    .error .unsupported  -- a marker on an ordinary denom: the marker module's own rules, not part of this model
  else .error .invalid

/-! ## x/exchange: an ask order whose assets are a scope token

The harness app has one market (accepting orders, user settlement allowed, no fees, no required
attributes).  A scope token is a bank coin, so it can be the `assets` of an ask order. -/

/-- the denom prices are quoted in (an ordinary coin) -/
def priceDenom : Denom := "$c"

def findOrder (s : State) (oid : Nat) : Option Order := s.orders.find? (·.id = oid)

/-- `msgServer.CreateAsk` → `Keeper.CreateAskOrder` (x/exchange/keeper/orders.go:634) signed by the
seller: the order gets the next id and `placeHoldOnOrder` (orders.go:575) → `HoldKeeper.AddHold`
puts its assets on hold in the seller's account, which `ValidateNewHold` (x/hold/keeper/keeper.go:67)
allows only when the seller's SPENDABLE balance covers them: the seller holds the token and it is
not on hold for another order.  (Orders whose assets are ordinary coins are outside the model.) -/
def createAsk (s : State) (seller : Addr) (asset : Denom) (price : Nat) : Except Err State :=
  if seller = "" || price = 0 || !isScopeDenom asset then .error .invalid
  else if !spendable s seller [asset] then .error .funds
  else .ok { s with orders := s.orders ++ [⟨s.lastOrder + 1, seller, asset, price⟩]
                    lastOrder := s.lastOrder + 1
                    holds := (seller, asset) :: s.holds }

/-- `msgServer.FillAsks` → `Keeper.FillAsks` (x/exchange/keeper/fulfillment.go:138) of ONE ask order,
signed by the buyer, with `total_price = price priceDenom`: the order must exist, not be the
buyer's own (`getAskOrders`, orders.go:496) and ask exactly the offered price; `closeSettlement`
(fulfillment.go:267) then RELEASES THE HOLD and `DoTransfer`s (keeper.go:201, under the quarantine
bypass, no transfer agents) the assets seller → buyer and the price buyer → seller — each a bank
`SendCoins` after a `BlockedAddr` test of the receiver — and deletes the order.
The seller signs nothing here: its consent is the `MsgCreateAsk` that made the order. -/
def fillAsk (s : State) (buyer : Addr) (oid price : Nat) : Except Err State :=
  if buyer = "" || oid = 0 || price = 0 then .error .invalid
  else match findOrder s oid with
    | none => .error .notfound
    | some o =>
      if o.seller = buyer then .error .invalid
      else if o.price ≠ price then .error .invalid
      else if s.blocked.contains buyer then .error .blocked
      else match sendCoins { s with holds := s.holds.erase (o.seller, o.asset) } [] o.seller buyer [o.asset] with
        | .error e => .error e
        | .ok s2 =>
          if s2.blocked.contains o.seller then .error .blocked
          else if bal s2.ledger buyer priceDenom < (price : Int) then .error .funds   -- holds exist on scope denoms only
          else if !withdrawOk s2 [] buyer then .error .withdraw
          else if !depositOk s2 [] buyer o.seller then .error .deposit
          else .ok { s2 with ledger := s2.ledger.move buyer o.seller [(priceDenom, (price : Int))]
                             orders := s2.orders.filter (·.id ≠ oid) }

/-- `msgServer.CancelOrder` → `Keeper.CancelOrder` (orders.go:719) signed by `signer`: only the
order's owner (nobody has the market's cancel permission in the harness app); releases the hold and
deletes the order -/
def cancelOrder (s : State) (signer : Addr) (oid : Nat) : Except Err State :=
  if signer = "" || oid = 0 then .error .invalid
  else match findOrder s oid with
    | none => .error .notfound
    | some o =>
      if signer ≠ o.seller then .error .perm
      else .ok { s with holds := s.holds.erase (o.seller, o.asset), orders := s.orders.filter (·.id ≠ oid) }

/-! ## Environment operations (not part of the property's messages) -/

/-- ordinary coins arriving at an account (mint + send of a non-scope denom): what every account
of a real chain has.  Scope denoms cannot be created this way: only the metadata module mints them. -/
def fundAccount (s : State) (a : Addr) (d : Denom) (n : Nat) : Except Err State :=
  if a = "" || n = 0 || isScopeDenom d then .error .invalid
  else .ok { s with ledger := s.ledger.credit a [(d, (n : Int))] }


/-- authz `SaveGrant`: replaces a grant with the same key -/
def saveGrant (s : State) (g : Grant) : State :=
  { s with grants := dropGrant s.grants g.grantee g.granter g.mt ++ [g] }

/-- authz `DeleteGrant` -/
def deleteGrant (s : State) (granter grantee : Addr) (mt : MsgType) : Except Err State :=
  match lookupGrant s.grants grantee granter mt with
  | none => .error .notfound
  | some _ => .ok { s with grants := dropGrant s.grants grantee granter mt }

/-- replace `addr`'s access list on a marker -/
def setAccess (s : State) (marker addr : Addr) (perms : List Access) : Except Err State :=
  if !isMarker s marker then .error .notfound
  else .ok { s with markers := s.markers.map fun m =>
    if m.addr = marker then { m with access := m.access.filter (·.1 ≠ addr) ++ perms.map fun p => (addr, p) } else m }

/-- the marker's lifecycle status changes (FinalizeMarker / ActivateMarker / CancelMarker /
DeleteMarker, marker.go:406-620; markers are created proposed): access list, type and the
coins of other denoms the account holds stay -/
def setStatus (s : State) (marker : Addr) (st : MStatus) : Except Err State :=
  if !isMarker s marker then .error .notfound
  else .ok { s with markers := s.markers.map fun m => if m.addr = marker then { m with status := st } else m }

inductive Op where
  | write (id : ScopeId) (owners : List Party) (rollup : Bool) (vo : Addr) (signers : List Addr)
  | delete (id : ScopeId) (signers : List Addr)
  | updvo (ids : List ScopeId) (vo : Addr) (signers : List Addr)
  | migrate (existing proposed : Addr) (signers : List Addr)
  | send (frm to : Addr) (ids : List ScopeId)
  | mwithdraw (marker admin to : Addr) (ids : List ScopeId)
  | msend (frm : Addr) (outs : List (Addr × List ScopeId))
  | mtransfer (admin frm to : Addr) (id : ScopeId)
  | mkadd (signer : Addr) (id : ScopeId) (supply : Nat) (restricted forced : Bool)
  | fund (addr : Addr) (denom : Denom) (amount : Nat)
  | grant (granter grantee : Addr) (mt : MsgType) (count : Nat)
  | revoke (granter grantee : Addr) (mt : MsgType)
  | access (marker addr : Addr) (perms : List Access)
  | mstatus (marker : Addr) (st : MStatus)
  | ask (seller : Addr) (asset : Denom) (price : Nat)
  | fill (buyer : Addr) (oid price : Nat)
  | cancel (signer : Addr) (oid : Nat)
  deriving Repr

def exec (s : State) : Op → Except Err State
  | .write id owners rollup vo signers => writeScope s id owners rollup vo signers
  | .delete id signers => deleteScope s id signers
  | .updvo ids vo signers => updateValueOwners s ids vo signers
  | .migrate ex pr signers => migrateValueOwner s ex pr signers
  | .send frm to ids => bankSend s frm to ids
  | .mwithdraw marker admin to ids => markerWithdraw s marker admin to ids
  | .msend frm outs => bankMultiSend s frm outs
  | .mtransfer admin frm to id => markerTransfer s admin frm to id
  | .mkadd signer id supply r f => markerAdd s signer id supply r f
  | .fund a d n => fundAccount s a d n
  | .grant granter grantee mt count => .ok (saveGrant s ⟨granter, grantee, mt, count⟩)
  | .revoke granter grantee mt => deleteGrant s granter grantee mt
  | .access marker addr perms => setAccess s marker addr perms
  | .mstatus marker st => setStatus s marker st
  | .ask seller asset price => createAsk s seller asset price
  | .fill buyer oid price => fillAsk s buyer oid price
  | .cancel signer oid => cancelOrder s signer oid

/-- one transaction: a rejected message leaves the state unchanged -/
def applyOp (s : State) (op : Op) : State × String :=
  match exec s op with
  | .ok s1 => (s1, "ok")
  | .error e => (s, e.toString)

def run (s : State) : List Op → State
  | [] => s
  | op :: rest => run (applyOp s op).1 rest

end PvModel.Vowner
