/-
C10 — metadata signer rules (executable model).

Mirrors, function by function (names kept):
* `PartyDetails`, `WrapRequiredParty`, `WrapAvailableParty`, `BuildPartyDetails`,
  `GetUsedSigners`                                   x/metadata/types/signer_utils.go:12-268
* `SignersWrapper.Accs` / `safeBech32ToAccAddresses` x/metadata/keeper/signers_utils.go:28-61
* `ValidateSignersWithParties`, `validateAllRequiredPartiesSigned`, `associateSigners`,
  `findUnsignedRequired`, `associateRequiredRoles`, `missingRolesString`,
  `getAuthzMessageTypeURLs`, `findAuthzGrantee`, `associateAuthorizations`,
  `associateAuthorizationsForRoles`, `validateProvenanceRole`, `isWasmAccount`,
  `validateSmartContractSigners`, `ValidateSignersWithoutParties`,
  `validateAllRequiredSigned`, `validateRolesPresent`, `validatePartiesArePresent`
                                                     x/metadata/keeper/signers.go:15-607
* the callers' case split (rollup on/off, new/existing, record moving between sessions, value
  owner changing alone / with other fields / not at all):
  `ValidateWriteScope`/`ValidateDeleteScope`/`ValidateAddScopeDataAccess`/
  `ValidateUpdateScopeOwners` (scope.go:436-815), `ValidateWriteSession` (session.go:105),
  `ValidateWriteRecord`/`ValidateDeleteRecord` (record.go:118,309),
  `ValidateScopeValueOwnersSigners` (signers.go:427).

Pointer mutation of `[]*PartyDetails` becomes a returned list.  External state is the
parameter `Env`:
* `valid a`   — `sdk.AccAddressFromBech32(a)` succeeds (so `a` is non-empty),
* `wasm a`    — `isWasmAccount` (base account that exists, sequence 0, no public key),
* `grant g e t` — the authz keeper holds an unexpired authorization from granter `g` to
  grantee `e` for message type `t` whose `Accept` says yes without consuming itself
  (a `GenericAuthorization`, which is what x/metadata/spec/04_authz.md prescribes).
Message types are the short names (`WriteScope` for
`/provenance.metadata.v1.MsgWriteScopeRequest`).
-/
import PvModel.Util

namespace PvModel.Signers

abbrev Addr := String
abbrev Role := Nat
abbrev MsgType := String

/-- `PartyType_PARTY_TYPE_PROVENANCE` (specification.pb.go:87). -/
def rolePROVENANCE : Role := 8
/-- `PartyType_PARTY_TYPE_UNSPECIFIED`. -/
def roleUNSPECIFIED : Role := 0

/-- `types.Party` (scope.pb.go): address, role, optional. -/
structure Party where
  address : Addr
  role : Role
  optional : Bool
  deriving DecidableEq, Repr

/-- `types.PartyDetails` (signer_utils.go:12).  `acc`/`signerAcc` are the decoded forms of
`address`/`signer` and carry no extra information; `signer = ""` is "no signer"
(`HasSigner` is `len(signer) > 0 || len(signerAcc) > 0`). -/
structure PartyDetails where
  address : Addr
  role : Role
  optional : Bool
  signer : Addr := ""
  canBeUsedBySpec : Bool := false
  usedBySpec : Bool := false
  deriving DecidableEq, Repr

structure Env where
  valid : Addr → Bool
  wasm : Addr → Bool
  grant : Addr → Addr → MsgType → Bool

/-- Reject classes, one per `fmt.Errorf` site. -/
inductive Err where
  /-- "missing required signature(s)" (signers.go:82) / "missing signature(s)" (signers.go:563):
  the unsigned required parties `(address, role)`. -/
  | missingSig (who : List (Addr × Role))
  /-- "missing signers for roles required by spec" (signers.go:92): `(role, need, have)`. -/
  | missingRoleSigners (short : List (Role × Nat × Nat))
  /-- "is a smart contract but does not have the PROVENANCE role" (signers.go:344) -/
  | wasmNotProv
  /-- "has role PROVENANCE but is not a smart contract" (signers.go:347) -/
  | provNotWasm
  /-- "invalid signer[%d]" (signers.go:387) -/
  | invalidSigner
  /-- "cannot follow non-smart-contract signer" (signers.go:395) -/
  | wasmOrder
  /-- "cannot be the last signer" (signers.go:411) -/
  | wasmLast
  /-- "smart contract signer %s is not authorized" (signers.go:420) -/
  | wasmUnauth
  /-- "missing roles required by spec" (`validateRolesPresent`, signers.go:590) -/
  | rolesAbsent (short : List (Role × Nat × Nat))
  /-- "missing party/parties" (`validatePartiesArePresent`, signers.go:605) -/
  | partiesAbsent (who : List (Addr × Role))
  /-- "parties can only be optional when require_party_rollup = true" (scope.go:463) -/
  | optionalNotAllowed
  /-- "missing signature from existing value owner" (`ValidateScopeValueOwnersSigners`, signers.go:501) -/
  | valueOwner
  deriving DecidableEq, Repr

/-! ### small list helper: the Go idiom "for … { if cond { mutate; continue outer } }" -/

/-- Apply `f` to the first element satisfying `c`; `none` when there is no such element. -/
def updateFirst {α} (c : α → Bool) (f : α → α) : List α → Option (List α)
  | [] => none
  | x :: xs => if c x then some (f x :: xs) else (updateFirst c f xs).map (x :: ·)

/-! ### PartyDetails (signer_utils.go) -/

namespace PartyDetails
def isRequired (p : PartyDetails) : Bool := !p.optional                 -- :163
def hasSigner (p : PartyDetails) : Bool := p.signer != ""                -- :203
def canBeUsed (p : PartyDetails) : Bool := p.canBeUsedBySpec             -- :207
def isUsed (p : PartyDetails) : Bool := p.usedBySpec                     -- :215
def markAsUsed (p : PartyDetails) : PartyDetails := { p with usedBySpec := true }   -- :211
def makeRequired (p : PartyDetails) : PartyDetails := { p with optional := false }  -- :155
def setSigner (p : PartyDetails) (s : Addr) : PartyDetails := { p with signer := s } -- :167/:181
/-- `IsStillUsableAs` (:220) -/
def isStillUsableAs (p : PartyDetails) (role : Role) : Bool :=
  p.canBeUsed && !p.isUsed && p.role == role
/-- `IsSameAs` / `SamePartiers` (scope.go:494): address and role only. -/
def isSameAs (p : PartyDetails) (q : Party) : Bool := p.address == q.address && p.role == q.role
end PartyDetails

/-- `WrapRequiredParty` (:38) -/
def wrapRequiredParty (p : Party) : PartyDetails :=
  { address := p.address, role := p.role, optional := p.optional }

/-- `WrapAvailableParty` (:47) -/
def wrapAvailableParty (p : Party) : PartyDetails :=
  { address := p.address, role := p.role, optional := true, canBeUsedBySpec := true }

/-- first loop of `BuildPartyDetails` (:65-70) -/
def addAvailable (details : List PartyDetails) : List Party → List PartyDetails
  | [] => details
  | p :: rest =>
    if details.any (·.isSameAs p) then addAvailable details rest
    else addAvailable (details ++ [wrapAvailableParty p]) rest

/-- second loop of `BuildPartyDetails` (:75-84) -/
def addRequired (details : List PartyDetails) : List Party → List PartyDetails
  | [] => details
  | r :: rest =>
    if r.optional then addRequired details rest
    else match updateFirst (·.isSameAs r) PartyDetails.makeRequired details with
      | some details' => addRequired details' rest
      | none => addRequired (details ++ [wrapRequiredParty r]) rest

/-- `BuildPartyDetails` (:61) -/
def buildPartyDetails (reqParties availableParties : List Party) : List PartyDetails :=
  addRequired (addAvailable [] availableParties) reqParties

/-- `GetUsedSigners` (:238): the signers recorded on parties. -/
def getUsedSigners (parties : List PartyDetails) : List Addr :=
  (parties.filter (·.hasSigner)).map (·.signer)

/-! ### signers.go -/

/-- `SignersWrapper.Accs` (signers_utils.go:31): the signer strings that decode. -/
def accs (env : Env) (signers : List Addr) : List Addr := signers.filter env.valid

/-- `associateSigners` (signers.go:100) -/
def associateSigners (parties : List PartyDetails) (signers : List Addr) : List PartyDetails :=
  parties.map fun p => if signers.contains p.address then p.setSigner p.address else p

/-- `findUnsignedRequired` (:118) -/
def findUnsignedRequired (parties : List PartyDetails) : List PartyDetails :=
  parties.filter fun p => p.isRequired && !p.hasSigner

/-- The loop shared by `associateRequiredRoles` (:133) and `validateRolesPresent` (:578):
for every required role, the first party that is `usable` for it is marked as used; returns
the parties (with the used marks) and the required-role entries not fulfilled. -/
def associateRolesWith (usable : Role → PartyDetails → Bool) (parties : List PartyDetails) :
    List Role → List PartyDetails × List Role
  | [] => (parties, [])
  | role :: rest =>
    match updateFirst (usable role) PartyDetails.markAsUsed parties with
    | some parties' => associateRolesWith usable parties' rest
    | none =>
      let r := associateRolesWith usable parties rest
      (r.1, role :: r.2)

/-- `associateRequiredRoles` (:133): a party fulfils a role entry when it is still usable as
that role and has a signer. -/
def associateRequiredRoles (parties : List PartyDetails) (reqRoles : List Role) :
    List PartyDetails × List Role :=
  associateRolesWith (fun role p => p.isStillUsableAs role && p.hasSigner) parties reqRoles

def insertNat (x : Nat) : List Nat → List Nat
  | [] => [x]
  | y :: ys => if x < y then x :: y :: ys else if x = y then y :: ys else y :: insertNat x ys

/-- sorted, duplicate-free -/
def sortDedup (xs : List Nat) : List Nat := xs.foldr insertNat []

/-- `missingRolesString` (:149) as data: for every required role that is short,
`(role, need, have)`, ordered by role. -/
def missingRolesString (parties : List PartyDetails) (reqRoles : List Role) : List (Role × Nat × Nat) :=
  (sortDedup reqRoles).filterMap fun role =>
    let need := reqRoles.count role
    let got := (parties.filter fun p => p.isUsed && p.role == role).length
    if need > got then some (role, need, got) else none

/-- `getAuthzMessageTypeURLs` (:194) -/
def getAuthzMessageTypeURLs (msgType : MsgType) : List MsgType :=
  (if msgType = "" then [] else [msgType]) ++
  (if msgType = "AddScopeDataAccess" ∨ msgType = "DeleteScopeDataAccess"
      ∨ msgType = "AddScopeOwner" ∨ msgType = "DeleteScopeOwner" then ["WriteScope"]
   else if msgType = "WriteRecord" then ["WriteSession"]
   else if msgType = "AddContractSpecToScopeSpec" ∨ msgType = "DeleteContractSpecFromScopeSpec" then
     ["WriteScopeSpecification"]
   else if msgType = "WriteRecordSpecification" then ["WriteContractSpecification"]
   else if msgType = "DeleteRecordSpecification" then ["DeleteContractSpecification"]
   else [])

/-- the inner loop of `findAuthzGrantee` for one grantee: some message type has an
acceptable authorization. -/
def hasAuthorization (env : Env) (msgType : MsgType) (granter grantee : Addr) : Bool :=
  (getAuthzMessageTypeURLs msgType).any fun t => env.grant granter grantee t

/-- `findAuthzGrantee` (:221): `granter` is the party's address string (`GetAcc` is empty
when it does not decode), `grantees` the decoded signers. -/
def findAuthzGrantee (env : Env) (msgType : MsgType) (granter : Addr) (grantees : List Addr) : Option Addr :=
  if !env.valid granter || grantees.isEmpty then none
  else grantees.find? fun g => hasAuthorization env msgType granter g

/-- `associateAuthorizations` (:270) with `onAssociation = nil`, over the parties selected by
`sel` (the Go code passes a sub-slice of pointers into the same party list). -/
def associateAuthorizations (env : Env) (msgType : MsgType) (signers : List Addr)
    (sel : PartyDetails → Bool) (parties : List PartyDetails) : List PartyDetails :=
  parties.map fun p =>
    if sel p && !p.hasSigner then
      match findAuthzGrantee env msgType p.address (accs env signers) with
      | some g => p.setSigner g
      | none => p
    else p

/-- what `associateAuthorizationsForRoles`' callback does to the party found for a role. -/
def useViaAuthz (env : Env) (msgType : MsgType) (signers : List Addr) (p : PartyDetails) : PartyDetails :=
  match findAuthzGrantee env msgType p.address (accs env signers) with
  | some g => (p.setSigner g).markAsUsed
  | none => p

/-- `associateAuthorizationsForRoles` (:310): for every still-missing role, the first party
that is still usable as that role, has no signer, and has granted one of the signers, gets
that signer and is marked used.  The `Bool` is `missingRoles`. -/
def associateAuthorizationsForRoles (env : Env) (msgType : MsgType) (signers : List Addr) :
    List Role → List PartyDetails → List PartyDetails × Bool
  | [], parties => (parties, false)
  | role :: rest, parties =>
    match updateFirst
        (fun p => p.isStillUsableAs role && !p.hasSigner
          && (findAuthzGrantee env msgType p.address (accs env signers)).isSome)
        (useViaAuthz env msgType signers) parties with
    | some parties' => associateAuthorizationsForRoles env msgType signers rest parties'
    | none =>
      let r := associateAuthorizationsForRoles env msgType signers rest parties
      (r.1, true)

/-- `validateAllRequiredPartiesSigned` (:63) -/
def validateAllRequiredPartiesSigned (env : Env) (msgType : MsgType)
    (reqParties availableParties : List Party) (reqRoles : List Role) (signers : List Addr) :
    Except Err (List PartyDetails) :=
  let parties := buildPartyDetails reqParties availableParties
  let parties := associateSigners parties signers
  let parties := associateAuthorizations env msgType signers
    (fun p => p.isRequired && !p.hasSigner) parties
  let missingReqParties := findUnsignedRequired parties
  if !missingReqParties.isEmpty then
    .error (.missingSig (missingReqParties.map fun p => (p.address, p.role)))
  else
    let r := associateRequiredRoles parties reqRoles
    let r2 := associateAuthorizationsForRoles env msgType signers r.2 r.1
    if r2.2 then .error (.missingRoleSigners (missingRolesString r2.1 reqRoles))
    else .ok r2.1

/-- `validateProvenanceRole` (:333): first offending party. -/
def validateProvenanceRole (env : Env) (parties : List PartyDetails) : Option Err :=
  parties.findSome? fun p =>
    if p.canBeUsed && env.valid p.address then
      let isWasmAcct := env.wasm p.address
      let isProvRole := p.role == rolePROVENANCE
      if isWasmAcct && !isProvRole then some .wasmNotProv
      else if !isWasmAcct && isProvRole then some .provNotWasm
      else none
    else none

/-- the second loop of `validateSmartContractSigners` (:390-424). -/
def smartContractLoop (env : Env) (msgType : MsgType) (usedSigners : List Addr) :
    Bool → List Addr → Option Err
  | _, [] => none
  | canBeWasm, signer :: rest =>
    let isWasm := env.wasm signer
    if isWasm && !canBeWasm then some .wasmOrder
    else if !isWasm then smartContractLoop env msgType usedSigners false rest
    else if usedSigners.contains signer then smartContractLoop env msgType usedSigners canBeWasm rest
    else if rest.isEmpty then some .wasmLast
    else if rest.all fun granter => (findAuthzGrantee env msgType granter [signer]).isSome then
      smartContractLoop env msgType usedSigners canBeWasm rest
    else some .wasmUnauth

/-- `validateSmartContractSigners` (:376) -/
def validateSmartContractSigners (env : Env) (msgType : MsgType) (usedSigners signers : List Addr) :
    Option Err :=
  if signers.any (fun s => !env.valid s) then some .invalidSigner
  else smartContractLoop env msgType usedSigners true signers

/-- `ValidateSignersWithParties` (:40); on success returns the party details (the Go function
discards them; the harness reads them through the `verif` hook). -/
def validateSignersWithParties (env : Env) (msgType : MsgType)
    (reqParties availableParties : List Party) (reqRoles : List Role) (signers : List Addr) :
    Except Err (List PartyDetails) :=
  match validateAllRequiredPartiesSigned env msgType reqParties availableParties reqRoles signers with
  | .error e => .error e
  | .ok parties =>
    match validateProvenanceRole env parties with
    | some e => .error e
    | none =>
      match validateSmartContractSigners env msgType (getUsedSigners parties) signers with
      | some e => .error e
      | none => .ok parties

/-- `validateAllRequiredSigned` (:541) -/
def validateAllRequiredSigned (env : Env) (msgType : MsgType) (required : List Addr)
    (signers : List Addr) : Except Err (List PartyDetails) :=
  let details := required.map fun a =>
    wrapRequiredParty { address := a, role := roleUNSPECIFIED, optional := false }
  let details := associateSigners details signers
  let details :=
    if (findUnsignedRequired details).isEmpty then details
    else associateAuthorizations env msgType signers (fun p => p.isRequired && !p.hasSigner) details
  let missingReqParties := findUnsignedRequired details
  if !missingReqParties.isEmpty then
    .error (.missingSig (missingReqParties.map fun p => (p.address, p.role)))
  else .ok details

/-- `ValidateSignersWithoutParties` (:526) -/
def validateSignersWithoutParties (env : Env) (msgType : MsgType) (required : List Addr)
    (signers : List Addr) : Except Err (List PartyDetails) :=
  match validateAllRequiredSigned env msgType required signers with
  | .error e => .error e
  | .ok parties =>
    match validateSmartContractSigners env msgType (getUsedSigners parties) signers with
    | some e => .error e
    | none => .ok parties

/-- the loop of `validateRolesPresent` (:578): like `associateRequiredRoles` without the
signer condition; `Bool` is `roleMissing`. -/
def rolesPresentLoop (details : List PartyDetails) (reqRoles : List Role) : List PartyDetails × Bool :=
  let r := associateRolesWith (fun role p => p.isStillUsableAs role) details reqRoles
  (r.1, !r.2.isEmpty)

/-- `validateRolesPresent` (:574) -/
def validateRolesPresent (parties : List Party) (reqRoles : List Role) : Option Err :=
  let r := rolesPresentLoop (buildPartyDetails [] parties) reqRoles
  if r.2 then some (.rolesAbsent (missingRolesString r.1 reqRoles)) else none

/-- `FindMissingParties` (types/scope.go:536) -/
def findMissingParties (required toCheck : List Party) : List Party :=
  required.filter fun r => !toCheck.any fun c => r.address == c.address && r.role == c.role

/-- `validatePartiesArePresent` (:595) -/
def validatePartiesArePresent (required available : List Party) : Option Err :=
  let missing := findMissingParties required available
  if missing.isEmpty then none else some (.partiesAbsent (missing.map fun p => (p.address, p.role)))

/-- `GetPartyAddresses` (types/scope.go:541): addresses, first occurrences only. -/
def getPartyAddresses (parties : List Party) : List Addr :=
  parties.foldl (fun rv p => if rv.contains p.address then rv else rv ++ [p.address]) []

/-- `GetRequiredPartyAddresses` (types/scope.go:555) -/
def getRequiredPartyAddresses (parties : List Party) : List Addr :=
  getPartyAddresses (parties.filter fun p => !p.optional)

/-- `ValidateOptionalParties` (types/scope.go:459) -/
def validateOptionalParties (optAllowed : Bool) (parties : List Party) : Option Err :=
  if !optAllowed && parties.any (·.optional) then some .optionalNotAllowed else none

/-! ### the callers' case split

The stateless checks that precede it (`ValidateBasic`: non-empty unique parties with valid
addresses and roles; ids; spec lookups) are preconditions here: the harness only builds
messages and stored entries that pass them.  `validateWriteScope` / `validateDeleteScope` are
the endpoints for scopes WITHOUT value owner (then `ValidateScopeValueOwnersSigners`
contributes no requirement and no used signer: it only decodes the signers, failing on an
undecodable one exactly when `validateSmartContractSigners` would); `validateWriteScopeVO` /
`validateDeleteScopeVO` below are the two endpoints in full, value owner included, and reduce to
them when there is none (`PvProofs.C10.writeScopeVO_without_value_owner`).  The other endpoints
never look at the value owner.  The stored entries need not have the shape the CURRENT rollup
flag of the scope allows: a session keeps its `optional` parties when the scope is rewritten
with rollup off, and keeps parties that are no scope owners when it is turned on. -/

/-- The part of a scope the signer rules read; `other` stands for every remaining field
(`existing.Equals(proposed)` compares all of them). -/
structure Scope where
  owners : List Party
  rollup : Bool
  other : Nat := 0
  deriving DecidableEq, Repr

/-- `EqualParties` (types/scope.go:518): same length, and every party of the first list has
an equal party (address, role, optional) in the second. -/
def equalParties (p1 p2 : List Party) : Bool :=
  p1.length == p2.length && p1.all fun a => p2.any fun b => a == b

/-- `Scope.Equals` (types/scope.go:38) on the modelled part of a scope. -/
def Scope.equals (s t : Scope) : Bool :=
  equalParties s.owners t.owners && s.other == t.other && s.rollup == t.rollup

def orElse (e : Option Err) (k : Except Err Unit) : Except Err Unit :=
  match e with
  | some err => .error err
  | none => k

def dropDetails (r : Except Err (List PartyDetails)) : Except Err Unit :=
  match r with
  | .error e => .error e
  | .ok _ => .ok ()

/-- tail shared by the scope endpoints: `validateSmartContractSigners(GetUsedSigners(validatedParties))` -/
def thenSmartContract (env : Env) (msgType : MsgType) (signers : List Addr)
    (r : Except Err (List PartyDetails)) : Except Err Unit :=
  match r with
  | .error e => .error e
  | .ok parties =>
    match validateSmartContractSigners env msgType (getUsedSigners parties) signers with
    | some e => .error e
    | none => .ok ()

/-- `ValidateWriteScope` (scope.go:424) for scopes without value owner.
* `specRoles` = `scopeSpec.PartiesInvolved`, where `scopeSpec` is looked up with
  `proposed.SpecificationId` (scope.go:472): the roles the PROPOSED owners must contain.
* `existingSpecRoles` = `some existingSpec.PartiesInvolved` when the proposed scope names a
  specification id different from the stored scope's and the stored scope's specification is
  found (scope.go:506-510, commit 89425229f); `none` when the id is unchanged or that
  specification no longer exists.  The signer roles of an existing rollup scope are
  `reqRoles` = the stored scope's specification's roles in the first case, `specRoles`
  otherwise. -/
def validateWriteScope (env : Env) (existing : Option Scope) (proposed : Scope)
    (specRoles : List Role) (existingSpecRoles : Option (List Role)) (signers : List Addr) :
    Except Err Unit :=
  let msgType := "WriteScope"
  orElse (validateRolesPresent proposed.owners specRoles) <|
  orElse (validateProvenanceRole env (buildPartyDetails [] proposed.owners)) <|
  match existing with
  | none => thenSmartContract env msgType signers (.ok [])
  | some ex =>
    if !ex.rollup then
      if !ex.equals proposed then
        thenSmartContract env msgType signers
          (validateAllRequiredSigned env msgType (getPartyAddresses ex.owners) signers)
      else thenSmartContract env msgType signers (.ok [])
    else
      let reqRoles := existingSpecRoles.getD specRoles
      thenSmartContract env msgType signers
        (validateAllRequiredPartiesSigned env msgType ex.owners ex.owners reqRoles signers)

/-- `ValidateWriteScope` BEFORE commit 89425229f (historical, kept for the defect witness
`writeScope_spec_swap_accepted_before_fix`): the stored scope's specification was never
consulted; every role requirement came from the specification the proposed scope names. -/
def validateWriteScopePreFix (env : Env) (existing : Option Scope) (proposed : Scope)
    (specRoles : List Role) (signers : List Addr) : Except Err Unit :=
  validateWriteScope env existing proposed specRoles none signers

/-- `ValidateDeleteScope` (scope.go:525) for scopes without value owner; `specRoles = none`
when the scope specification no longer exists. -/
def validateDeleteScope (env : Env) (scope : Scope) (specRoles : Option (List Role))
    (signers : List Addr) : Except Err Unit :=
  let msgType := "DeleteScope"
  if !scope.rollup then
    thenSmartContract env msgType signers
      (validateAllRequiredSigned env msgType (getPartyAddresses scope.owners) signers)
  else match specRoles with
    | none => thenSmartContract env msgType signers
        (validateAllRequiredSigned env msgType (getRequiredPartyAddresses scope.owners) signers)
    | some roles => thenSmartContract env msgType signers
        (validateAllRequiredPartiesSigned env msgType scope.owners scope.owners roles signers)

/-! ### scopes WITH a value owner (`ValidateWriteScope` / `ValidateDeleteScope` in full)

The value owner of a stored scope lives in the bank module (the holder of the scope's coin);
`storedVO` is that holder (`""`: none; a decoded address otherwise), `proposedVO` the
`value_owner_address` field of the message's scope (`""`: "no desired change").  Value owners
here are never marker accounts (the marker permissions are property C09). -/

/-- The signer decoding at the top of `ValidateScopeValueOwnersSigners` (signers.go:444-467):
the signers that count for the value owner — only the first one when it is a smart contract.
`none`: a signer string that had to be decoded does not decode. -/
def valueOwnerSignerAccs (env : Env) : List Addr → Option (List Addr)
  | [] => some []
  | s0 :: rest =>
    if !env.valid s0 then none
    else if env.wasm s0 then some [s0]
    else if rest.all env.valid then some (s0 :: rest) else none

/-- `ValidateScopeValueOwnersSigners` (signers.go:427) for the at most one existing value owner
the scope endpoints pass (`existing = ""`: none), not a marker; on success the used signers. -/
def validateScopeValueOwnersSigners (env : Env) (msgType : MsgType) (existing proposed : Addr)
    (signers : List Addr) : Except Err (List Addr) :=
  if existing != "" && existing == proposed then .ok []                       -- :435
  else match valueOwnerSignerAccs env signers with
    | none => .error .invalidSigner                                           -- :449, :464
    | some signerAccs =>
      if existing == "" then .ok []                                           -- no existing owner
      else if signerAccs.contains existing then .ok [existing]                -- :483
      else match findAuthzGrantee env msgType existing signerAccs with        -- :496
        | some grantee => .ok [grantee]
        | none => .error .valueOwner                                          -- :501

/-- tail shared by `ValidateWriteScope` / `ValidateDeleteScope` (scope.go:530-539, :596-607):
the value-owner signers, then `validateSmartContractSigners` with the used signers of both. -/
def thenValueOwner (env : Env) (msgType : MsgType) (existingVO proposedVO : Addr) (signers : List Addr)
    (r : Except Err (List PartyDetails)) : Except Err Unit :=
  match r with
  | .error e => .error e
  | .ok parties =>
    match validateScopeValueOwnersSigners env msgType existingVO proposedVO signers with
    | .error e => .error e
    | .ok used =>
      match validateSmartContractSigners env msgType (used ++ getUsedSigners parties) signers with
      | some e => .error e
      | none => .ok ()

/-- The owner / role part of `ValidateWriteScope` (scope.go:461-528): `exVO` is the stored
value owner as far as it was looked up.  "The ONLY change is from one value owner to another"
(:461-470, `existing.Equals(proposedCopy)`: every other field — specification, owners, data
access AND `require_party_rollup` — is the same) skips every owner / role check; otherwise the
rules of `validateWriteScope`, where "nothing changes" (`existing.Equals(proposed)`, :495) also
compares the value owner. -/
def writeScopeOwnerChecks (env : Env) (existing : Option Scope) (exVO : Addr) (proposed : Scope)
    (proposedVO : Addr) (specRoles : List Role) (existingSpecRoles : Option (List Role))
    (signers : List Addr) : Except Err (List PartyDetails) :=
  let msgType := "WriteScope"
  let onlyChangeIsValueOwner :=
    match existing with
    | some ex => exVO != "" && exVO != proposedVO && ex.equals proposed
    | none => false
  if onlyChangeIsValueOwner then .ok []
  else match validateRolesPresent proposed.owners specRoles with
    | some e => .error e
    | none =>
      match validateProvenanceRole env (buildPartyDetails [] proposed.owners) with
      | some e => .error e
      | none =>
        match existing with
        | none => .ok []
        | some ex =>
          if !ex.rollup then
            if !(ex.equals proposed && exVO == proposedVO) then
              validateAllRequiredSigned env msgType (getPartyAddresses ex.owners) signers
            else .ok []
          else
            validateAllRequiredPartiesSigned env msgType ex.owners ex.owners
              (existingSpecRoles.getD specRoles) signers

/-- the value owner `ValidateWriteScope` compares (scope.go:447-459): the stored one is looked
up only when the scope exists and the message names a value owner -/
def lookedUpVO (existing : Option Scope) (storedVO proposedVO : Addr) : Addr :=
  if existing.isSome && proposedVO != "" then storedVO else ""

/-- `ValidateWriteScope` (scope.go:436) in full: the owner / role checks, then the value owner
and the smart-contract rule. -/
def validateWriteScopeVO (env : Env) (existing : Option Scope) (storedVO : Addr) (proposed : Scope)
    (proposedVO : Addr) (specRoles : List Role) (existingSpecRoles : Option (List Role))
    (signers : List Addr) : Except Err Unit :=
  let exVO := lookedUpVO existing storedVO proposedVO
  thenValueOwner env "WriteScope" exVO proposedVO signers
    (writeScopeOwnerChecks env existing exVO proposed proposedVO specRoles existingSpecRoles signers)

/-- `ValidateDeleteScope` (scope.go:545) in full: the owners' signatures as in
`validateDeleteScope`, then the stored value owner (:585-599, proposed value owner `""`). -/
def validateDeleteScopeVO (env : Env) (scope : Scope) (storedVO : Addr) (specRoles : Option (List Role))
    (signers : List Addr) : Except Err Unit :=
  let msgType := "DeleteScope"
  let validated : Except Err (List PartyDetails) :=
    if !scope.rollup then
      validateAllRequiredSigned env msgType (getPartyAddresses scope.owners) signers
    else match specRoles with
      | none => validateAllRequiredSigned env msgType (getRequiredPartyAddresses scope.owners) signers
      | some roles => validateAllRequiredPartiesSigned env msgType scope.owners scope.owners roles signers
  thenValueOwner env msgType storedVO "" signers validated

/-- the signer part of `ValidateAddScopeDataAccess` / `ValidateDeleteScopeDataAccess`
(scope.go:655-685, 710-740). -/
def validateScopeUpdateSigners (env : Env) (msgType : MsgType) (existing : Scope)
    (specRoles : List Role) (signers : List Addr) : Except Err Unit :=
  if !existing.rollup then
    dropDetails (validateSignersWithoutParties env msgType (getPartyAddresses existing.owners) signers)
  else
    dropDetails (validateSignersWithParties env msgType existing.owners existing.owners specRoles signers)

/-- `ValidateUpdateScopeOwners` (scope.go:743); with rollup it calls
`validateAllRequiredPartiesSigned` + `validateSmartContractSigners` (no provenance-role check
of the existing owners, scope.go:784-790). -/
def validateUpdateScopeOwners (env : Env) (msgType : MsgType) (existing : Scope)
    (proposedOwners : List Party) (specRoles : List Role) (signers : List Addr) : Except Err Unit :=
  orElse (validateOptionalParties existing.rollup proposedOwners) <|
  orElse (validateRolesPresent proposedOwners specRoles) <|
  orElse (validateProvenanceRole env (buildPartyDetails [] proposedOwners)) <|
  if !existing.rollup then
    dropDetails (validateSignersWithoutParties env msgType (getPartyAddresses existing.owners) signers)
  else
    thenSmartContract env msgType signers
      (validateAllRequiredPartiesSigned env msgType existing.owners existing.owners specRoles signers)

/-- `ValidateWriteSession` (session.go:105) from `ValidateOptionalParties` on;
`specRoles` = `contractSpec.PartiesInvolved`; `existing` = parties of the stored session. -/
def validateWriteSession (env : Env) (scope : Scope) (existing : Option (List Party))
    (proposed : List Party) (specRoles : List Role) (signers : List Addr) : Except Err Unit :=
  let msgType := "WriteSession"
  orElse (validateOptionalParties scope.rollup proposed) <|
  if !scope.rollup then
    orElse (validateRolesPresent proposed specRoles) <|
    orElse (validateProvenanceRole env (buildPartyDetails [] proposed)) <|
    dropDetails (validateSignersWithoutParties env msgType (getPartyAddresses scope.owners) signers)
  else
    orElse (validatePartiesArePresent proposed scope.owners) <|
    match existing with
    | some ex =>
      orElse (validateRolesPresent proposed specRoles) <|
      orElse (validateProvenanceRole env (buildPartyDetails [] proposed)) <|
      dropDetails (validateSignersWithParties env msgType (ex ++ scope.owners) ex specRoles signers)
    | none =>
      dropDetails (validateSignersWithParties env msgType scope.owners proposed specRoles signers)

/-- `ValidateWriteRecord` (record.go:118), the signer part (:181-211); `specRoles` =
`recSpec.ResponsibleParties`; `oldSession` = parties of the record's previous session when
the record moves to another session (and that session still exists). -/
def validateWriteRecord (env : Env) (scope : Scope) (session : List Party)
    (oldSession : Option (List Party)) (specRoles : List Role) (signers : List Addr) :
    Except Err Unit :=
  let msgType := "WriteRecord"
  if !scope.rollup then
    orElse (validateRolesPresent session specRoles) <|
    let reqSigs := getPartyAddresses session ++ getPartyAddresses (oldSession.getD [])
    dropDetails (validateSignersWithoutParties env msgType reqSigs signers)
  else
    let reqParties := scope.owners ++ session ++ oldSession.getD []
    dropDetails (validateSignersWithParties env msgType reqParties session specRoles signers)

/-- `ValidateDeleteRecord` (record.go:309); `scope = none` when the scope is gone,
`specRoles = none` when the record specification is gone. -/
def validateDeleteRecord (env : Env) (scope : Option Scope) (specRoles : Option (List Role))
    (signers : List Addr) : Except Err Unit :=
  let msgType := "DeleteRecord"
  match scope with
  | none => .ok ()
  | some scope =>
    if !scope.rollup then
      dropDetails (validateSignersWithoutParties env msgType (getPartyAddresses scope.owners) signers)
    else match specRoles with
      | none => dropDetails (validateSignersWithoutParties env msgType
          (getRequiredPartyAddresses scope.owners) signers)
      | some roles => dropDetails (validateSignersWithParties env msgType scope.owners scope.owners
          roles signers)

/-! ### the message server (x/metadata/keeper/msg_server.go)

For the other endpoints the message server looks the stored entry up, calls the `Validate…`
function above with it, and stores the message's entry.  `AddScopeOwner` / `DeleteScopeOwner`
do more: they run the message's `ValidateBasic`, COMPUTE the proposed owner list from the
stored scope (`proposed := existing; proposed.AddOwners(…)` / `proposed.RemoveOwners(…)`) and
validate with the stored scope as `existing`.  Stored scopes passed `Scope.ValidateBasic`
(at least one owner, valid addresses and roles, no two owners with the same address and role,
no optional owner without rollup). -/

/-- `Party.ValidateBasic` (types/scope.go:419), for roles of the `PartyType` enum. -/
def partyBasicOk (env : Env) (p : Party) : Bool := env.valid p.address && p.role != roleUNSPECIFIED

/-- `ValidatePartiesAreUnique` (types/scope.go:433): no two with the same address and role. -/
def partiesUnique : List Party → Bool
  | [] => true
  | p :: ps => !(ps.any fun q => p.address == q.address && p.role == q.role) && partiesUnique ps

/-- `ValidatePartiesBasic` (types/scope.go:446) -/
def validatePartiesBasic (env : Env) (ps : List Party) : Bool :=
  !ps.isEmpty && ps.all (partyBasicOk env) && partiesUnique ps

/-- `Scope.AddOwners` (types/scope.go:113): `none` = "party already exists". -/
def addOwners (owners new : List Party) : Option (List Party) :=
  if new.isEmpty then some owners
  else if new.any fun n => owners.any fun o => n.address == o.address && n.role == o.role then none
  else some (owners ++ new)

/-- `Scope.RemoveOwners` (types/scope.go:131): `none` = "address does not exist in scope
owners"; otherwise a NEW list with every owner whose address is named left out (the receiver's
previous owner list is not touched). -/
def removeOwners (owners : List Party) (addrs : List Addr) : Option (List Party) :=
  if addrs.isEmpty then some owners
  else if addrs.any fun a => !owners.any fun o => o.address == a then none
  else some (owners.filter fun o => !addrs.contains o.address)

/-- Reject classes of the owner endpoints of the message server. -/
inductive MsgErr where
  /-- `msg.ValidateBasic()` (msgs.go:272, :302) -/
  | basic
  /-- "scope not found with id" (msg_server.go:161, :197) -/
  | notFound
  /-- `AddOwners`: "party already exists" -/
  | ownerExists
  /-- `RemoveOwners`: "address does not exist in scope owners" -/
  | ownerAbsent
  /-- `proposed.ValidateOwnersBasic()` (scope.go:749): "at least one party is required" -/
  | noOwners
  /-- `ValidateUpdateScopeOwners` said no -/
  | invalid (e : Err)
  deriving DecidableEq, Repr

/-- `msgServer.AddScopeOwner` (msg_server.go:148); on success the scope that is stored. -/
def msgAddScopeOwner (env : Env) (stored : Option Scope) (newOwners : List Party)
    (specRoles : List Role) (signers : List Addr) : Except MsgErr Scope :=
  if !validatePartiesBasic env newOwners || signers.isEmpty then .error .basic
  else match stored with
    | none => .error .notFound
    | some existing =>
      match addOwners existing.owners newOwners with
      | none => .error .ownerExists
      | some owners =>
        match validateUpdateScopeOwners env "AddScopeOwner" existing owners specRoles signers with
        | .error e => .error (.invalid e)
        | .ok _ => .ok { existing with owners := owners }

/-- `msgServer.DeleteScopeOwner` (msg_server.go:184); on success the scope that is stored. -/
def msgDeleteScopeOwner (env : Env) (stored : Option Scope) (addrs : List Addr)
    (specRoles : List Role) (signers : List Addr) : Except MsgErr Scope :=
  if addrs.isEmpty || addrs.any (fun a => !env.valid a) || signers.isEmpty then .error .basic
  else match stored with
    | none => .error .notFound
    | some existing =>
      match removeOwners existing.owners addrs with
      | none => .error .ownerAbsent
      | some owners =>
        if owners.isEmpty then .error .noOwners
        else
          match validateUpdateScopeOwners env "DeleteScopeOwner" existing owners specRoles signers with
          | .error e => .error (.invalid e)
          | .ok _ => .ok { existing with owners := owners }

/-- `msgServer.WriteScope` (msg_server.go:31): `ValidateWriteScope` on the stored scope, then
`SetScope(msg.Scope)`, which also moves the scope's coin to the value owner the message names, if
it names one; on success the scope that is stored and its value owner. -/
def msgWriteScope (env : Env) (stored : Option Scope) (storedVO : Addr) (proposed : Scope)
    (proposedVO : Addr) (specRoles : List Role) (existingSpecRoles : Option (List Role))
    (signers : List Addr) : Except Err (Scope × Addr) :=
  match validateWriteScopeVO env stored storedVO proposed proposedVO specRoles existingSpecRoles signers with
  | .error e => .error e
  | .ok _ => .ok (proposed, if proposedVO != "" then proposedVO else storedVO)

/-- `msgServer.DeleteScope` (msg_server.go:68): `ValidateDeleteScope` on the stored scope, then
`RemoveScope`; on success what is stored under the id afterwards (nothing). -/
def msgDeleteScope (env : Env) (stored : Scope) (storedVO : Addr) (specRoles : Option (List Role))
    (signers : List Addr) : Except Err (Option Scope) :=
  match validateDeleteScopeVO env stored storedVO specRoles signers with
  | .error e => .error e
  | .ok _ => .ok none

/-- `msgServer.AddScopeDataAccess` / `DeleteScopeDataAccess` (msg_server.go:92, :120) for ONE
address that is new / is listed: the signer check on the stored scope, then the stored scope with
the data-access list one entry longer / shorter (`other` counts the entries) is stored. -/
def msgScopeDataAccess (env : Env) (msgType : MsgType) (stored : Scope) (specRoles : List Role)
    (signers : List Addr) : Except Err Scope :=
  match validateScopeUpdateSigners env msgType stored specRoles signers with
  | .error e => .error e
  | .ok _ =>
    .ok (if msgType = "AddScopeDataAccess" then { stored with other := stored.other + 1 }
         else { stored with other := stored.other - 1 })

end PvModel.Signers
