/-
Line-protocol driver + implementation-output checker for the C13 model (`exrec`).
-/
import PvModel.ExrecSpec
import PvModel.Util
-- registry: exrec PvModel.Exrec.driver

namespace PvModel.Exrec
open PvModel

/-! ### rendering -/

def hexDigit (n : Nat) : Char := if n < 10 then Char.ofNat (48 + n) else Char.ofNat (87 + n)
def hexOf (bs : Bytes) : String :=
  if bs.isEmpty then "-" else String.ofList (bs.flatMap fun b => [hexDigit (b / 16), hexDigit (b % 16)])

def unhexDigit (c : Char) : Option Nat :=
  if '0' ≤ c ∧ c ≤ '9' then some (c.toNat - 48)
  else if 'a' ≤ c ∧ c ≤ 'f' then some (c.toNat - 87) else none

def unhexList : List Char → Option Bytes
  | [] => some []
  | a :: b :: r => do
    let x ← unhexDigit a
    let y ← unhexDigit b
    let rest ← unhexList r
    pure ((x * 16 + y) :: rest)
  | _ => none

def unhex (s : String) : Option Bytes := if s = "-" then some [] else unhexList s.toList

/-- text of an op-line field as bytes: `~`/`-` = empty, `c^n` = the character `c` repeated `n` times
(external ids at the length limits) -/
def strBz (s : String) : Bytes :=
  if s = "~" ∨ s = "-" then []
  else match s.toList with
    | c :: '^' :: d :: ds =>
      (match (String.ofList (d :: ds)).toNat? with
       | some n => if n ≤ 100000 then List.replicate n c.toNat else s.toList.map Char.toNat
       | none => s.toList.map Char.toNat)
    | cs => cs.map Char.toNat
/-- canonical rendering: runs of one character of length ≥ 8 as `c^n` -/
def bzStr (b : Bytes) : String :=
  match b with
  | [] => "~"
  | c :: _ =>
    if b.length ≥ 8 ∧ b.all (· = c) then s!"{Char.ofNat c}^{b.length}"
    else String.ofList (b.map Char.ofNat)

/-- symbolic account name → address bytes: the name padded with `_` to 20 bytes (32 for names
starting with `Z`); `gov` is the governance authority; `-`/`~` no address. -/
def addrOfBase (name : String) : Bytes :=
  if name = "-" ∨ name = "~" ∨ name = "" then []
  else if name = "gov" then authority
  else
    let cs := name.toList.map Char.toNat
    let n := if name.startsWith "Z" then 32 else 20
    cs ++ List.replicate (n - cs.length) 95

/-- a trailing `!` on an account name = the address is SPELLED in upper-case bech32 (same account) -/
def upOf (name : String) : Bool := name.length > 1 && name.endsWith "!"

def baseName (name : String) : String := if upOf name then String.ofList name.toList.dropLast else name

/-- the account bytes of a (possibly `!`-spelled) name.  The authority is recognised by its STRING
(`IsAuthority`), so `gov!` is some account without any permission. -/
def addrOf (name : String) : Bytes :=
  if upOf name then (if baseName name = "gov" then authority ++ [33] else addrOfBase (baseName name))
  else addrOfBase name

def dropTrailing (x : Nat) (l : List Nat) : List Nat := (l.reverse.dropWhile (· = x)).reverse

def nameOf (b : Bytes) : String :=
  if b.isEmpty then "~" else if b = authority then "gov"
  else String.ofList ((dropTrailing 95 b).map Char.ofNat)

def upStr (b : Bool) : String := if b then "!" else ""

def showOrder (o : Order) : String :=
  s!"o:{if o.isBid then "b" else "a"}:{o.market}:{nameOf o.owner}{upStr o.ownerUp}:{bzStr o.assetDenom}:{o.assetAmt}:{bzStr o.priceDenom}:{o.priceAmt}:{bzStr o.ext}:{boolStr o.allowPartial}"

def showPayment (p : Payment) : String :=
  s!"p:{nameOf p.source}{upStr p.sourceUp}:{p.srcAmt}:{nameOf p.target}{upStr p.targetUp}:{p.tgtAmt}:{bzStr p.ext}"

def showVal : Val → String
  | .order o => showOrder o
  | .tbyte b => s!"t{b}"
  | .u64 n => s!"n{n}"
  | .u32 n => s!"m{n}"
  | .empty => "e"
  | .payment p => showPayment p
  | .coins n => s!"c{n}"

def showRaw (s : Store) : String :=
  let es := sortEntries s.entries
  if es.isEmpty then "-" else " ".intercalate (es.map fun e => s!"{hexOf e.1}={showVal e.2}")

def parseOrderFields (id : UInt64) (fs : List String) : Option Order :=
  match fs with
  | [t, m, o, d, a, pd, p, x, ap] => do
    let m ← parseNat? m
    let a ← parseNat? a
    let p ← parseNat? p
    pure { id := id, isBid := t = "b", market := UInt32.ofNat m, owner := addrOf o, assetDenom := strBz d,
           assetAmt := a, priceDenom := strBz pd, priceAmt := p, ext := strBz x, allowPartial := ap = "1",
           ownerUp := upOf o }
  | _ => none

def parseVal (s : String) : Option Val :=
  match s.splitOn ":" with
  | "o" :: fs => (parseOrderFields 0 fs).map Val.order
  | ["p", src, a, t, ta, x] => do
    let a ← parseNat? a
    let ta ← parseNat? ta
    pure (.payment { source := addrOf src, srcAmt := a, target := addrOf t, tgtAmt := ta, ext := strBz x,
                     sourceUp := upOf src, targetUp := upOf t })
  | [one] =>
    if one = "e" then some .empty
    else match one.toList with
      | 't' :: r => (String.ofList r).toNat?.map Val.tbyte
      | 'n' :: r => (String.ofList r).toNat?.map fun n => Val.u64 (UInt64.ofNat n)
      | 'm' :: r => (String.ofList r).toNat?.map fun n => Val.u32 (UInt32.ofNat n)
      | 'c' :: r => (String.ofList r).toNat?.map Val.coins
      | _ => none
  | _ => none

/-- the raw dump printed by the harness, back into a store (record ids are re-read from the keys) -/
def parseRaw (s : String) : Option Store :=
  if s = "-" then some [] else
  (words s).mapM fun w =>
    match w.splitOn "=" with
    | [k, v] => do
      let k ← unhex k
      let v ← parseVal v
      let v := match k, v with
        | 2 :: r, .order o => Val.order { o with id := (u64FromBz r).getD 0 }
        | _, v => v
      pure (k, v)
    | _ => none

/-! ### operations -/

def getNat (ws : List String) (k : String) : Nat := ((kv ws k).bind parseNat?).getD 0
def getStr (ws : List String) (k : String) : String := (kv ws k).getD "-"
def getAddr (ws : List String) (k : String) : Bytes := addrOf (getStr ws k)
def getUp (ws : List String) (k : String) : Bool := upOf (getStr ws k)
def getU64 (ws : List String) (k : String) : UInt64 := UInt64.ofNat (getNat ws k)
def getU32 (ws : List String) (k : String) : UInt32 := UInt32.ofNat (getNat ws k)

/-- coins of an op line, `12apple,3ibc/7F1A` (`-` = none): the amount is the leading run of digits -/
def parseCoinList (s : String) : List (Bytes × Nat) :=
  (splitList s ",").filterMap fun c =>
    let ds := c.toList.takeWhile Char.isDigit
    let rest := c.toList.dropWhile Char.isDigit
    match (String.ofList ds).toNat? with
    | some n => if rest.isEmpty then none else some (rest.map Char.toNat, n)
    | none => none

def parseIds (s : String) : List UInt64 :=
  (splitList s).map fun i => UInt64.ofNat ((parseNat? i).getD 0)

def parseOp (ws : List String) : Option Op :=
  match ws with
  | "mkmarket" :: r => some (.mkMarket (getU32 r "id") (getStr r "name"))
  | "close" :: r => some (.closeMarket (getU32 r "m"))
  | "accepting" :: r => some (.setAccepting (getU32 r "m") (getStr r "v" = "1") (getAddr r "by"))
  | "acceptingc" :: r => some (.setAcceptingCommitments (getU32 r "m") (getStr r "v" = "1") (getAddr r "by"))
  | "ask" :: r | "bid" :: r =>
    some (.create { id := 0, isBid := ws.head? = some "bid", market := getU32 r "m", owner := getAddr r "o",
                    assetDenom := strBz (getStr r "d"), assetAmt := getNat r "a",
                    priceDenom := strBz (getStr r "pd"), priceAmt := getNat r "p",
                    ext := strBz (getStr r "x"), allowPartial := getStr r "ap" = "1",
                    ownerUp := getUp r "o" })
  | "cancel" :: r => some (.cancel (getU64 r "id") (getAddr r "by") (getUp r "by"))
  | "setext" :: r => some (.setExt (getU32 r "m") (getU64 r "id") (strBz (getStr r "x")) (getAddr r "by"))
  | "settle" :: r => some (.settle (getU32 r "m") (getU64 r "a") (getU64 r "b") (getStr r "ep" = "1") (getAddr r "by"))
  -- `fillbids`: the total is the assets (several denoms); `fillasks`: the total is ONE price coin
  | "fillbids" :: r =>
    some (.fill (getU32 r "m") true (getAddr r "by") (getUp r "by") (parseIds (getStr r "ids")) (parseCoinList (getStr r "t")))
  | "fillasks" :: r =>
    some (.fill (getU32 r "m") false (getAddr r "by") (getUp r "by") (parseIds (getStr r "ids"))
      ((parseCoinList (getStr r "t")).take 1))
  | "commit" :: r => some (.commit (getU32 r "m") (getAddr r "o") (getNat r "a"))
  | "release" :: r => some (.release (getU32 r "m") (getAddr r "o") (getNat r "a") (getAddr r "by"))
  | "pay" :: r => some (.pay { source := getAddr r "s", srcAmt := getNat r "a", target := getAddr r "t",
                               tgtAmt := getNat r "ta", ext := strBz (getStr r "x"),
                               sourceUp := getUp r "s", targetUp := getUp r "t" })
  | "payaccept" :: r => some (.payAccept (getAddr r "s") (strBz (getStr r "x")) (getAddr r "t") (getUp r "s") (getUp r "t"))
  | "payreject" :: r => some (.payReject (getAddr r "t") (getAddr r "s") (strBz (getStr r "x")))
  | "payrejectall" :: r => some (.payRejectAll (getAddr r "t") ((splitList (getStr r "s")).map fun n => (addrOf n, upOf n)))
  | "paycancel" :: r => some (.payCancel (getAddr r "s") ((splitList (getStr r "x")).map strBz))
  | "paytarget" :: r => some (.payTarget (getAddr r "s") (strBz (getStr r "x")) (getAddr r "t"))
  | _ => none

/-! ### queries -/

def joinOr (xs : List String) (sep : String) : String := if xs.isEmpty then "-" else sep.intercalate xs

structure Q where
  kind : String
  arg : String
  ty : String
  after : UInt64
  rev : Bool
  limit : Nat
  ct : Bool

def parseQ (r : List String) : Q :=
  { kind := getStr r "kind", arg := getStr r "arg", ty := (let t := getStr r "ty"; if t = "-" then "" else t),
    after := getU64 r "after", rev := getStr r "rev" = "1", limit := getNat r "limit", ct := getStr r "ct" = "1" }

def showPErr : PErr → String
  | .invalid => "err:invalid"
  | .panic => "panic"

def payItem (p : Payment) : String := s!"{nameOf p.source}:{bzStr p.ext}"

def comItem (m : UInt32) (a : Bytes) (n : Nat) : String := s!"{m}:{nameOf a}:{n}"

def u32FromBz : Bytes → Option UInt32
  | a :: b :: c :: d :: _ => some (UInt32.ofNat (a * 16777216 + b * 65536 + c * 256 + d))
  | _ => none

/-- one gRPC list request: the items of the page (rendered) and the page response -/
def pageOnce (s : Store) (q : Q) (req : PageReq) : Except PErr (List String × PageResp) :=
  let ordersOut (r : Except PErr (List Order × PageResp)) : Except PErr (List String × PageResp) :=
    match r with
    | .error e => .error e
    | .ok (os, resp) => .ok (os.map (fun o => toString o.id), resp)
  let all : Entry → Bool := fun _ => true
  match q.kind with
  | "market" =>
    let m := UInt32.ofNat ((parseNat? q.arg).getD 0)
    if m = 0 then .error .invalid   -- grpc_query.go:122
    else ordersOut (getPageOfOrdersFromIndex s (prefixMarketToOrder m) req q.ty q.after)
  | "owner" =>
    let a := addrOf q.arg
    if a = [] then .error .invalid  -- grpc_query.go:142
    else ordersOut (getPageOfOrdersFromIndex s (prefixAddressToOrder a) req q.ty q.after)
  | "asset" =>
    let d := strBz q.arg
    if d = [] then .error .invalid  -- grpc_query.go:167
    else ordersOut (getPageOfOrdersFromIndex s (prefixAssetToOrder d) req q.ty q.after)
  | "all" => ordersOut (getAllOrders s req)
  | "paysrc" =>
    let a := addrOf q.arg
    if a = [] then .error .invalid else
    match sdkFilteredPaginate (prefixStore s (prefixPaymentsForSource a)) req all with
    | .error e => .error e
    | .ok (acc, resp) => .ok (acc.filterMap (fun e => match e.2 with | .payment p => some (payItem p) | _ => none), resp)
  | "paytgt" =>
    let a := addrOf q.arg
    if a = [] then .error .invalid else
    match sdkFilteredPaginate (prefixStore s (prefixTargetToPayments a)) req all with
    | .error e => .error e
    | .ok (acc, resp) =>
      .ok (acc.filterMap (fun e =>
        match parseLengthPrefixedAddr e.1 with
        | some (src, ext) => (getPaymentFromStore s src ext).map payItem
        | none => none), resp)
  | "payall" =>
    match sdkFilteredPaginate (prefixStore s prefixPayment) req all with
    | .error e => .error e
    | .ok (acc, resp) => .ok (acc.filterMap (fun e => match e.2 with | .payment p => some (payItem p) | _ => none), resp)
  | "commkt" =>
    let m := UInt32.ofNat ((parseNat? q.arg).getD 0)
    if m = 0 then .error .invalid else
    match sdkFilteredPaginate (prefixStore s (prefixMarketCommitments m)) req all with
    | .error e => .error e
    | .ok (acc, resp) =>
      .ok (acc.filterMap (fun e =>
        match parseLengthPrefixedAddr e.1, e.2 with
        | some (a, []), .coins n => if n = 0 then none else some (comItem m a n)
        | _, _ => none), resp)
  | "comall" =>
    match sdkFilteredPaginate (prefixStore s prefixCommitment) req all with
    | .error e => .error e
    | .ok (acc, resp) =>
      .ok (acc.filterMap (fun e =>
        match u32FromBz e.1, parseLengthPrefixedAddr (e.1.drop 4), e.2 with
        | some m, some (a, []), .coins n => if n = 0 then none else some (comItem m a n)
        | _, _, _ => none), resp)
  | _ => .error .invalid

def showPage (items : List String) (resp : PageResp) : String :=
  s!"{joinOr items ","};{hexOf (resp.nextKey.getD [])};{resp.total}"

def pageCap : Nat := 60

/-- follow `next_key` until it is empty (what a client does) -/
def pagesByKey (s : Store) (q : Q) : Nat → Option Bytes → List String
  | 0, _ => ["cap"]
  | fuel + 1, key =>
    match pageOnce s q { key := key, limit := q.limit, countTotal := q.ct, reverse := q.rev } with
    | .error e => [showPErr e]
    | .ok (items, resp) =>
      showPage items resp ::
        (match resp.nextKey with
         | some (b :: r) => pagesByKey s q fuel (some (b :: r))
         | _ => [])

/-- advance `offset` by `limit` while a `next_key` is reported -/
def pagesByOffset (s : Store) (q : Q) : Nat → Nat → List String
  | 0, _ => ["cap"]
  | fuel + 1, offset =>
    match pageOnce s q { offset := offset, limit := q.limit, countTotal := q.ct, reverse := q.rev } with
    | .error e => [showPErr e]
    | .ok (items, resp) =>
      showPage items resp ::
        (match resp.nextKey with
         | some (_ :: _) => pagesByOffset s q fuel (offset + (if q.limit = 0 then defaultLimit else q.limit))
         | _ => [])

/-! ### lookups line -/

def orderBrief (o : Order) : String :=
  s!"{o.id}:{o.market}:{nameOf o.owner}:{bzStr o.assetDenom}:{bzStr o.ext}:{if o.isBid then "b" else "a"}"

def bigReq : PageReq := { limit := 100000 }

def idsOf (r : Except PErr (List Order × PageResp)) : String :=
  match r with
  | .error e => showPErr e
  | .ok (os, _) => joinOr (os.map fun o => toString o.id) ","

def itemsOf (r : Except PErr (List String × PageResp)) : String :=
  match r with
  | .error e => showPErr e
  | .ok (xs, _) => joinOr xs ","

def lookLine (s : Store) (r : List String) : String :=
  let mk := splitList (getStr r "mk")
  let ow := splitList (getStr r "ow")
  let dn := splitList (getStr r "dn")
  let xs := splitList (getStr r "xs")
  let allOs := match getAllOrders s bigReq with | .error _ => [] | .ok (os, _) => os
  let all := match getAllOrders s bigReq with
    | .error e => showPErr e
    | .ok (os, _) => joinOr (os.map orderBrief) ","
  -- every listed order fetched by id (GetOrder grpc_query.go:87)
  let g := joinOr (allOs.map fun o =>
    match getOrderFromStore s o.id with | some o' => orderBrief o' | none => s!"{o.id}:?") ","
  -- every listed payment fetched by (source, external id) (GetPayment grpc_query.go:560)
  let gp := match sdkFilteredPaginate (prefixStore s prefixPayment) bigReq (fun _ => true) with
    | .error e => showPErr e
    | .ok (acc, _) => joinOr (acc.filterMap fun (e : Entry) =>
        match e.2 with
        | .payment p => some (match getPaymentFromStore s p.source p.ext with
            | some p' => payItem p' | none => s!"{payItem p}:?")
        | _ => none) ","
  let q0 : Q := { kind := "", arg := "", ty := "", after := 0, rev := false, limit := 100000, ct := false }
  let parts :=
    [s!"all={all}", s!"g={g}"] ++
    mk.map (fun m => s!"m.{m}={itemsOf (pageOnce s { q0 with kind := "market", arg := m } bigReq)}") ++
    ow.map (fun o => s!"o.{o}={itemsOf (pageOnce s { q0 with kind := "owner", arg := o } bigReq)}") ++
    dn.map (fun d => s!"d.{d}={itemsOf (pageOnce s { q0 with kind := "asset", arg := d } bigReq)}") ++
    (mk.flatMap fun m => xs.map fun x =>
      let r := getOrderByExternalID s (UInt32.ofNat ((parseNat? m).getD 0)) (strBz x)
      s!"x.{m}.{x}={match r with | some o => toString o.id | none => "-"}") ++
    [s!"pall={itemsOf (pageOnce s { q0 with kind := "payall" } bigReq)}", s!"gp={gp}"] ++
    ow.map (fun o => s!"ps.{o}={itemsOf (pageOnce s { q0 with kind := "paysrc", arg := o } bigReq)}") ++
    ow.map (fun o => s!"pt.{o}={itemsOf (pageOnce s { q0 with kind := "paytgt", arg := o } bigReq)}") ++
    [s!"call={itemsOf (pageOnce s { q0 with kind := "comall" } bigReq)}"] ++
    mk.map (fun m => s!"cm.{m}={itemsOf (pageOnce s { q0 with kind := "commkt", arg := m } bigReq)}")
  " ".intercalate parts

/-! ### checkers (the property's conclusions on the implementation's answers) -/

def countOf (x : String) (xs : List String) : Nat := (xs.filter (· = x)).length

def isProperPrefixStr (p s : String) : Bool := p.length < s.length && s.startsWith p

def fieldsDiffer : Option String → Option String → Bool
  | some a, some b => a ≠ b
  | _, _ => false

/-- "each open order exactly once in each lookup and nothing else", evaluated on the
implementation's `look` answers alone (its lookups compared with each other). -/
def checkLook (impl : String) : String :=
  let ws := words impl
  let field (k : String) : Option (List String) := (kv ws k).map (fun v => splitList v ",")
  match field "all" with
  | none => "fail:unparsed"
  | some allItems =>
    let orders : List (List String) := allItems.map (·.splitOn ":")
    let ids : List String := orders.filterMap (·.head?)
    if ¬ ids.Nodup then "fail:all_lists_order_twice"
    else if fieldsDiffer (kv ws "g") (kv ws "all") then "fail:getOrder_mismatch"
    else if fieldsDiffer (kv ws "gp") (kv ws "pall") then "fail:getPayment_mismatch"
    else
    -- every order is in its market / owner / asset list exactly once, and found by its external id
    let missing := orders.findSome? fun o =>
      match o with
      | [id, m, ow, d, x, _] =>
        let chk (key : String) (clause : String) : Option String :=
          match field key with
          | none => none     -- not in the queried universe
          | some l => if countOf id l = 1 then none
                      else if countOf id l = 0 then some s!"fail:{clause}_missing" else some s!"fail:{clause}_twice"
        (chk s!"m.{m}" "byMarket").orElse fun _ => (chk s!"o.{ow}" "byOwner").orElse fun _ =>
        (chk s!"d.{d}" "byAsset").orElse fun _ =>
          (if x = "~" then none else
            match kv ws s!"x.{m}.{x}" with
            | none => none
            | some v => if v = id then none
                        else if v = "-" then some "fail:byExternalId_missing" else some "fail:byExternalId_wrong")
      | _ => some "fail:unparsed"
    match missing with
    | some c => c
    | none =>
      -- nothing else is listed
      let extra := ws.findSome? fun w =>
        match w.splitOn "=" with
        | [k, v] =>
          let l := splitList v ","
          let fieldOf (id : String) (i : Nat) : Option String :=
            (orders.find? (fun o => o.head? = some id)).bind (fun o => o[i]?)
          (match k.splitOn "." with
           | ["m", m] => l.findSome? fun id => if fieldOf id 1 = some m then none else some "fail:byMarket_extra"
           | ["o", ow] => l.findSome? fun id => if fieldOf id 2 = some ow then none else some "fail:byOwner_extra"
           | ["d", d] => l.findSome? fun id =>
              match fieldOf id 3 with
              | some d' => if d' = d then none
                           else if isProperPrefixStr d d' then some "fail:byAsset_lists_other_denom"
                           else some "fail:byAsset_extra"
              | none => some "fail:byAsset_extra"
           | ["x", m, x] =>
              if v = "-" then none
              else if fieldOf v 1 = some m ∧ fieldOf v 4 = some x then none else some "fail:byExternalId_extra"
           | _ => none)
        | _ => none
      match extra with
      | some c => c
      | none =>
        -- payments: one record per (source, external id); listed under source and current target only
        match field "pall" with
        | none => "ok"
        | some pays =>
          if ¬ pays.Nodup then "fail:payment_not_unique" else
          let bad := ws.findSome? fun w =>
            match w.splitOn "=" with
            | [k, v] =>
              let l := splitList v ","
              (match k.splitOn "." with
               | ["ps", src] =>
                  if ¬ l.Nodup then some "fail:payments_by_source_twice"
                  else if l.any (fun it => (it.splitOn ":").head? ≠ some src) then some "fail:payments_by_source_extra"
                  else if (pays.filter (fun it => (it.splitOn ":").head? = some src)).any (fun it => countOf it l ≠ 1)
                    then some "fail:payments_by_source_missing"
                  else if l.any (fun it => countOf it pays ≠ 1) then some "fail:payments_by_source_extra" else none
               | ["pt", _] =>
                  if ¬ l.Nodup then some "fail:payments_by_target_twice"
                  else if l.any (fun it => countOf it pays ≠ 1) then some "fail:payments_by_target_extra" else none
               | _ => none)
            | _ => none
          -- every payment listed under at most one target
          let tgtLists := ws.filterMap fun w =>
            match w.splitOn "=" with
            | [k, v] => if k.startsWith "pt." then some (splitList v ",") else none
            | _ => none
          match bad with
          | some c => c
          | none => if ¬ tgtLists.flatten.Nodup then "fail:payment_under_two_targets" else "ok"

/-- "payments are listed only under their current target", judged against the records the implementation
dumped: the by-target listing of every queried account is exactly the dumped payments whose target is
that ACCOUNT (bytes — whatever the spelling of the stored string), in key order. -/
def checkLookTargets (s : Store) (impl : String) : Option String :=
  (words impl).findSome? fun w =>
    match w.splitOn "=" with
    | [k, v] =>
      (match k.splitOn "." with
       | ["pt", t] =>
         let got := splitList v ","
         let spec := (specPayments s (.target (addrOf t)) false).map payItem
         if got = spec then none
         else if spec.any (fun x => x ∉ got) then some "fail:payments_by_target_missing"
         else if got.any (fun x => x ∉ spec) then some "fail:payments_by_target_extra"
         else some "fail:payments_by_target_order"
       | _ => none)
    | _ => none

/-- right after an accepted governance closure of market `m`: no lookup lists an order or a commitment
of that market any more (`all`, by market, by external id; the by-owner / by-asset lists are tied to
`all` by `checkLook`). -/
def checkLookClosed (m : Nat) (impl : String) : Option String :=
  let ws := words impl
  let ms := toString m
  let orders := ((kv ws "all").map (fun v => splitList v ",")).getD []
  if orders.any (fun o => (o.splitOn ":")[1]? = some ms) then some "fail:closed_market_lists_orders"
  else
    ws.findSome? fun w =>
      match w.splitOn "=" with
      | [k, v] =>
        (match k.splitOn "." with
         | ["m", m'] => if m' = ms ∧ v ≠ "-" then some "fail:closed_market_lists_orders" else none
         | "x" :: m' :: _ => if m' = ms ∧ v ≠ "-" then some "fail:closed_market_lists_orders" else none
         | ["cm", m'] => if m' = ms ∧ v ≠ "-" then some "fail:closed_market_lists_commitments" else none
         | ["call"] =>
           if (splitList v ",").any (fun c => (c.splitOn ":").head? = some ms) then
             some "fail:closed_market_lists_commitments" else none
         | _ => none)
      | _ => none

/-- the page listing `<items>;<nk>;<total>/…` of a `q` line, parsed -/
def parsePages (out : String) : Option (List (List String × String × Nat)) :=
  match words out with
  | ["ok", ps] =>
    (ps.splitOn "/").mapM fun p =>
      match p.splitOn ";" with
      | [items, nk, t] => (parseNat? t).map fun t => (splitList items ",", nk, t)
      | _ => none
  | _ => none

def specItems (s : Store) (q : Q) : Option (List String) :=
  let ty := (parseOrderType q.ty).getD none
  let ids (l : OrderLookup) (ty : Option Nat) (after : UInt64) :=
    some ((specOrders s l ty after q.rev).map fun o => toString o.id)
  match q.kind with
  | "market" => ids (.market (UInt32.ofNat ((parseNat? q.arg).getD 0))) ty q.after
  | "owner" => ids (.owner (addrOf q.arg)) ty q.after
  | "asset" => ids (.asset (strBz q.arg)) ty q.after
  | "all" => ids .all none 0
  | "paysrc" => some ((specPayments s (.source (addrOf q.arg)) q.rev).map payItem)
  | "paytgt" => some ((specPayments s (.target (addrOf q.arg)) q.rev).map payItem)
  | "payall" => some ((specPayments s .all q.rev).map payItem)
  | _ => none

/-- "paging returns each matching item exactly once, in order": the implementation's pages against
the listing of the records. -/
def checkQ (s : Store) (q : Q) (offsetMode : Bool) (impl : String) : String :=
  match specItems s q, parsePages impl with
  | some spec, some pages =>
    let got := pages.flatMap (·.1)
    let limit := if q.limit = 0 then defaultLimit else q.limit
    if got = spec then
      let n := pages.length
      let sizesOk := (pages.zipIdx).all fun (p, i) =>
        if i + 1 < n then p.1.length = limit else (p.1.length ≤ limit ∧ (p.1.length > 0 ∨ n = 1))
      -- a total is reported by requests without a key: every offset-mode page, the first key-mode page
      let totalsOk := (pages.zipIdx).all fun (p, i) =>
        ¬ (q.ct ∨ q.limit = 0) ∨ ¬ (offsetMode ∨ i = 0) ∨ p.2.2 = spec.length
      if ¬ sizesOk then "fail:page_size" else if ¬ totalsOk then "fail:total_wrong" else "ok"
    else
      let extras := got.filter (fun x => x ∉ spec)
      let missing := spec.filter (fun x => x ∉ got)
      if ¬ got.Nodup then "fail:listing_item_twice"
      else if q.kind = "asset" ∧ ¬ extras.isEmpty ∧ missing.isEmpty ∧
          extras.all (fun id => (orderRecords s).any fun o =>
            toString o.id = id ∧ isProperPrefixStr q.arg (bzStr o.assetDenom)) then
        "fail:byAsset_lists_other_denom"
      else if q.after = 18446744073709551615 ∧ q.rev ∧ missing.isEmpty then "fail:after_max_reverse_lists_all"
      else if q.kind = "paysrc" ∧ extras.isEmpty ∧ missing = [s!"{baseName q.arg}:~"] then
        "fail:paysrc_paging_skips_empty_external_id"
      else if ¬ missing.isEmpty then "fail:listing_missing"
      else if ¬ extras.isEmpty then "fail:listing_extra"
      else "fail:listing_order"
  | _, _ => "-"

/-! ### holds line -/

def showHolds (s : Store) (ow : List String) : String :=
  joinOr (ow.map fun o =>
    s!"{o}={joinOr ((specHolds s (addrOf o)).map fun c => s!"{c.2}{bzStr c.1}") ","}") " "

/-! ### uniqueness / limits, judged on an ACCEPTED creation against the records dumped before it -/

/-- `old` = the store the implementation dumped right before the message `ws`, which it accepted -/
def checkAcceptedCreate (old : Store) (ws : List String) : Option String :=
  match ws with
  | "pay" :: r =>
    let src := getAddr r "s"
    let x := strBz (getStr r "x")
    if x.length > 100 then some "externalId_too_long"
    else if (paymentRecords old).any (fun p => p.source = src ∧ p.ext = x) ∨ old.has (keyPayment src x) then
      some "payment_unique"
    else none
  | "ask" :: r | "bid" :: r =>
    let m := getU32 r "m"
    let x := strBz (getStr r "x")
    if x.length > 100 then some "externalId_too_long"
    else if x ≠ [] ∧ (orderRecords old).any (fun o => o.market = m ∧ o.ext = x) then some "externalId_not_unique"
    else none
  | "setext" :: r =>
    let m := getU32 r "m"
    let id := getU64 r "id"
    let x := strBz (getStr r "x")
    if x.length > 100 then some "externalId_too_long"
    else if x ≠ [] ∧ (orderRecords old).any (fun o => o.market = m ∧ o.ext = x ∧ o.id ≠ id) then
      some "externalId_not_unique"
    else none
  | _ => none

/-- the frame of one message, judged on the implementation's dumps before (`old`) and after (`new`):
a rejected message changes nothing; an accepted creation adds one record and touches no other. -/
def checkFrame (old new : Store) (ws : List String) (res : String) : Option String :=
  if res.startsWith "ok" then
    (match ws with
     | "pay" :: _ | "ask" :: _ | "bid" :: _ => checkCreated old new
     -- an accepted governance closure: the documented effect, on the dump after it
     | "close" :: r => checkClosed new (getU32 r "m")
     -- an accepted user settlement: every listed order is gone, nothing else changed
     | "fillbids" :: r | "fillasks" :: r => checkFilled old new (parseIds (getStr r "ids"))
     | _ => none)
  else if res.startsWith "err" then
    (if old = new then none else some "rejected_changed_state")
  else none

/-- single-record lookups judged against the records the implementation dumped -/
def checkGetExt (s : Store) (m : UInt32) (x : Bytes) (impl : String) : String :=
  let recs := (orderRecords s).filter fun o => o.market = m ∧ o.ext = x ∧ x ≠ []
  match words impl with
  | ["ok", id] => if recs.any (fun o => toString o.id = id) then "ok" else "fail:byExternalId_extra"
  | _ => if recs.isEmpty then "ok" else "fail:byExternalId_missing"

def checkGet (s : Store) (id : UInt64) (impl : String) : String :=
  let recs := (orderRecords s).filter fun o => o.id = id
  match words impl with
  | ["ok", o] => if recs.any (fun r => showOrder r = o) then "ok" else "fail:getOrder_wrong"
  | _ => if recs.isEmpty then "ok" else "fail:getOrder_missing"

def checkGetPay (s : Store) (src x : Bytes) (impl : String) : String :=
  let recs := (paymentRecords s).filter fun p => p.source = src ∧ p.ext = x
  match words impl with
  | ["ok", p] => if recs.any (fun r => showPayment r = p) then "ok" else "fail:getPayment_wrong"
  | _ => if recs.isEmpty then "ok" else "fail:getPayment_missing"

/-! ### the driver -/

structure DState where
  st : State := init
  maxId : Nat := 0
  mkts : List Nat := []
  /-- the store the IMPLEMENTATION dumped last (`raw`): listings are judged against its records;
  `none` once a message was accepted after it -/
  implKv : Option Store := none
  /-- the implementation's last dump, kept across the messages after it -/
  prevKv : Option Store := none
  /-- the messages since that dump, with the implementation's answers (newest first) -/
  muts : List (List String × String) := []
  /-- the market whose governance closure the implementation accepted as the LAST accepted message -/
  closed : Option Nat := none

def driver : Driver where
  σ := DState
  init := {}
  step := fun d op impl =>
    let ws := words op
    let implWs := words (impl.getD "")
    match ws with
    | "raw" :: _ =>
      let parsed := impl.bind parseRaw
      let v := match impl with
        | none => "-"
        | some _ => match parsed with
          | none => "fail:unparsed"
          | some s => match checkInv s with
            | some c => s!"fail:{c}"
            | none =>
              -- the frame of the ONE message between the previous dump and this one
              match d.prevKv, d.muts with
              | some old, [(ws, res)] =>
                (match checkFrame old s ws res with | some c => s!"fail:{c}" | none => "ok")
              | _, _ => "ok"
      ({ d with implKv := parsed, prevKv := parsed, muts := [] }, showRaw d.st.kv, v)
    | "look" :: r =>
      let v := match impl with
        | none => "-"
        | some i =>
          let v := checkLook i
          if v ≠ "ok" then v else
          match d.implKv.bind (fun s => checkLookTargets s i) with
          | some c => c
          | none => match d.closed.bind (fun m => checkLookClosed m i) with
            | some c => c
            | none => "ok"
      (d, lookLine d.st.kv r, v)
    | "holds" :: r =>
      let ow := splitList (getStr r "ow")
      let v := match impl, d.implKv with
        | some i, some s => if i = showHolds s ow then "ok" else "fail:hold_ne_records"
        | _, _ => "-"
      (d, showHolds d.st.kv ow, v)
    | "q" :: r =>
      let q := parseQ r
      let pages := if getStr r "mode" = "off" then pagesByOffset d.st.kv q pageCap 0 else pagesByKey d.st.kv q pageCap none
      (d, "ok " ++ "/".intercalate pages, match impl with | some i => checkQ (d.implKv.getD d.st.kv) q (getStr r "mode" = "off") i | none => "-")
    | "q1" :: r =>
      let q := parseQ r
      let key := (kv r "key").bind unhex
      let key := match key with | some [] => none | k => k
      let out := match pageOnce d.st.kv q { key := key, offset := getNat r "offset", limit := q.limit, countTotal := q.ct, reverse := q.rev } with
        | .error e => showPErr e
        | .ok (items, resp) => "ok " ++ showPage items resp
      (d, out, "-")
    | "get" :: r =>
      let id := getU64 r "id"
      let out := if id = 0 then "err:invalid" else
        match getOrderFromStore d.st.kv id with | some o => "ok " ++ showOrder o | none => "err:invalid"
      (d, out, match impl, d.implKv with | some i, some s => checkGet s id i | _, _ => "-")
    | "getext" :: r =>
      let m := getU32 r "m"
      let x := strBz (getStr r "x")
      let out := if m = 0 ∨ x = [] then "err:invalid" else
        match getOrderByExternalID d.st.kv m x with | some o => s!"ok {o.id}" | none => "err:invalid"
      (d, out, match impl, d.implKv with | some i, some s => checkGetExt s m x i | _, _ => "-")
    | "getpay" :: r =>
      let s := getAddr r "s"
      let out := if s = [] then "err:invalid" else
        match getPaymentFromStore d.st.kv s (strBz (getStr r "x")) with
        | some p => "ok " ++ showPayment p | none => "err:invalid"
      (d, out, match impl, d.implKv with
        | some i, some st => checkGetPay st s (strBz (getStr r "x")) i | _, _ => "-")
    | _ =>
      -- freshness of ids, judged on what the implementation answered (whatever the model says)
      let (d1, v) : DState × String :=
        match ws.head?, implWs with
        | some "ask", ["ok", i] | some "bid", ["ok", i] =>
          (match parseNat? i with
           | some i => ({ d with maxId := max d.maxId i }, if i ≤ d.maxId then "fail:order_id_reused" else "ok")
           | none => (d, "fail:unparsed"))
        | some "mkmarket", ["ok", i] =>
          (match parseNat? i with
           | some i => ({ d with mkts := i :: d.mkts },
                        if i = 0 then "fail:market_id_zero" else if i ∈ d.mkts then "fail:market_id_reused" else "ok")
           | none => (d, "fail:unparsed"))
        | _, _ => (d, "-")
      -- uniqueness / length limits of an accepted creation, judged on the records dumped before it
      let implOk := implWs.head? = some "ok"
      let v := if v.startsWith "fail" ∨ ¬ implOk then v else
        match d.implKv with
        | some old =>
          (match checkAcceptedCreate old ws with
           | some c => s!"fail:{c}"
           | none => if v = "-" ∧ ws.head? ∈ [some "pay", some "setext"] then "ok" else v)
        | none => v
      let d1 := { d1 with muts := (ws, impl.getD "") :: d1.muts,
                          implKv := if implOk then none else d1.implKv,
                          closed := if implOk then (if ws.head? = some "close" then some (getNat ws.tail "m") else none)
                                    else d1.closed }
      match parseOp ws with
      | none => (d1, "bad-op", v)
      | some o =>
        match apply d1.st o with
        | none => (d1, "err:invalid", v)
        | some (st', res) =>
          let out := match res with
            | .none => "ok"
            | .orderId id => s!"ok {id}"
            | .marketId m => s!"ok {m}"
          ({ d1 with st := st', implKv := none }, out, v)

end PvModel.Exrec
