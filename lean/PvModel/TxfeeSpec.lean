/-
C08 — declarative side: what the documentation (x/msgfees/spec, "Additional Msg Fees",
"Base fee", fee distribution by basis points) says a transaction owes and who receives it,
written without the control flow of the ante handler / router / invoker.

* Every message that is routed (top level or dispatched by authz `MsgExec`) *incurs* the
  additional fee configured for its type; `MsgAssessCustomMsgFeeRequest` also incurs its own
  amount (usd converted at `nhash_per_usd_mil`); a handler may incur a flat fee itself
  (exchange payment fees).
* An incurred fee with a recipient is split: the recipient gets `⌊amount·bips/10000⌋`, the fee
  collector the rest; without a recipient all of it goes to the fee collector.
* The base fee is `floor gas price × gas limit`.
-/
import PvModel.Txfee

namespace PvModel.Txfee
open PvModel

/-- One additional fee a transaction incurred. `recipient = ""`: none. -/
structure Incurred where
  denom : Denom
  amt : Int
  recipient : Addr
  bips : Nat
  deriving Repr, DecidableEq

/-- What the recipient of an incurred fee is owed: `⌊amt·bips/10000⌋` (floor division). -/
def Incurred.share (i : Incurred) : Int :=
  if i.recipient = "" then 0 else i.amt * i.bips / 10000

/-- The custom assessed amount in the conversion denom; `none` when the denom cannot be converted
(such a message is rejected, it incurs nothing). -/
def assessCoin (cfg : Cfg) (a : Assess) : Option Coin :=
  if a.amount.1 = "usd" then some (cfg.convDenom, a.amount.2 * cfg.nhashPerUsdMil)
  else if a.amount.1 = cfg.convDenom then some a.amount
  else none

/-- The additional fee configured for the message's type. -/
def schedIncurred (cfg : Cfg) (m : RMsg) : List Incurred :=
  match lookupFee cfg m.typ with
  | some f => if 0 < f.fee.2 then [⟨f.fee.1, f.fee.2, f.recipient, f.bips⟩] else []
  | none => []

/-- The custom assessed fee of a `MsgAssessCustomMsgFeeRequest`; the recipient gets all of it
unless the message names basis points. -/
def assessIncurred (cfg : Cfg) (a : Assess) : List Incurred :=
  match assessCoin cfg a with
  | some c => if 0 < c.2 then [⟨c.1, c.2, a.recipient, a.bips.getD 10000⟩] else []
  | none => []

/-- Fees incurred by routing one message. -/
def incurredOf (cfg : Cfg) (m : RMsg) : List Incurred :=
  schedIncurred cfg m ++ (match m.assess with
   | some a => assessIncurred cfg a
   | none => [])

def coinsIncurred (cs : Coins) : List Incurred := cs.map fun c => ⟨c.1, c.2, "", 0⟩

/-- Fees incurred by one execution step. -/
def stepIncurred (cfg : Cfg) : Step → List Incurred
  | .route m => incurredOf cfg m
  | .effect _ => []
  | .consume _ fee => if fee.isZero then [] else coinsIncurred fee

def stepsIncurred (cfg : Cfg) : List Step → List Incurred
  | [] => []
  | s :: rest => stepIncurred cfg s ++ stepsIncurred cfg rest

/-- Total incurred in denom `d`. -/
def totalIncurred (d : Denom) : List Incurred → Int
  | [] => 0
  | i :: rest => (if i.denom = d then i.amt else 0) + totalIncurred d rest

/-- What recipient `a` is owed in denom `d`. -/
def owedTo (a : Addr) (d : Denom) : List Incurred → Int
  | [] => 0
  | i :: rest => (if i.recipient = a ∧ i.denom = d then i.share else 0) + owedTo a d rest

/-- What all recipients together are owed in denom `d`. -/
def owedRecipients (d : Denom) : List Incurred → Int
  | [] => 0
  | i :: rest => (if i.denom = d then i.share else 0) + owedRecipients d rest

/-- The declared fee covers base fee + everything incurred, per denom. -/
def covered (declared base : Coins) (is : List Incurred) (ds : List Denom) : Bool :=
  ds.all fun d => decide (Coins.amountOf base d + totalIncurred d is ≤ Coins.amountOf declared d)

/-- The additional fees of the TOP-LEVEL messages: what the mempool check can see without running
anything. -/
def topIncurred (cfg : Cfg) (top : List RMsg) : List Incurred := top.flatMap (incurredOf cfg)

/-- What the mempool check — on arrival AND on every recheck after a commit, against the
parameters and schedule in force at that moment — demands of the declared fee: per denom, floor
gas price × gas limit plus the additional fees of the top-level messages.  A transaction that
does not meet it "must be rejected and never charged". -/
def admissible (cfg : Cfg) (declared : Coins) (gas : Nat) (top : List RMsg) (ds : List Denom) : Bool :=
  covered declared (baseFee cfg.floor gas) (topIncurred cfg top) ds

/-- **never more than declared**: `paid` (what the paying account lost to fees) is at most the
declared fee in every denom. -/
def withinDeclared (declared paid : Coins) (ds : List Denom) : Bool :=
  ds.all fun d => decide (Coins.amountOf paid d ≤ Coins.amountOf declared d)

/-- The fee-related balance change the property prescribes for account `a` when the transaction
SUCCEEDS: the paying account loses the declared fee, recipients get their shares, the collector
the rest. -/
def feeDeltaOnSuccess (collector src : Addr) (declared : Coins) (is : List Incurred) (a : Addr) (d : Denom) : Int :=
  (if a = src then - Coins.amountOf declared d else 0)
  + (if a = "" then 0 else owedTo a d is)
  + (if a = collector then Coins.amountOf declared d - owedRecipients d is else 0)

/-- … and when it FAILS after admission: only the base fee moves, to the collector. -/
def feeDeltaOnFailure (collector src : Addr) (base : Coins) (a : Addr) (d : Denom) : Int :=
  (if a = src then - Coins.amountOf base d else 0) + (if a = collector then Coins.amountOf base d else 0)

/-! ### The configuration in force (reference)

"The floor gas price" and "the configured recipient / basis-point split" of the property are
those the chain was configured with: the params written at genesis, changed ONLY in what a passed
governance proposal's messages name (x/msgfees/spec: `MsgUpdateNhashPerUsdMilProposalRequest`
sets the usd rate, `MsgUpdateConversionFeeDenomProposalRequest` the conversion denom,
`MsgAdd/Update/RemoveMsgFeeProposalRequest` one entry of the schedule).  No message sets the
floor gas price.  Written without the keeper's existence checks and control flow: whether a
proposal PASSED or FAILED is taken as observed. -/

/-- The split a governance message asks for (spec "Msg Fees proposals": no recipient ⇒ everything
to the fee collector; recipient without basis points ⇒ the default 50%). -/
def govBips (recipient : Addr) (bips : Option Nat) : Nat :=
  if recipient = "" then 0 else bips.getD 5000

/-- What ONE governance message says it changes — and nothing else. -/
def govSays (cfg : Cfg) : GovMsg → Cfg
  | .rate n => { cfg with nhashPerUsdMil := n }
  | .denom d => { cfg with convDenom := d }
  | .add t f r b => { cfg with sched := (t, ⟨f, r, govBips r b⟩) :: cfg.sched.filter (·.1 ≠ t) }
  | .upd t f r b => { cfg with sched := (t, ⟨f, r, govBips r b⟩) :: cfg.sched.filter (·.1 ≠ t) }
  | .rm t => { cfg with sched := cfg.sched.filter (·.1 ≠ t) }

/-- A proposal that passed did what all its messages say, in order; one that failed did nothing. -/
def refProposal (cfg : Cfg) (p : List GovMsg) (passed : Bool) : Cfg :=
  if passed then p.foldl govSays cfg else cfg

/-- The configuration in force after a sequence of proposals whose fates were `passed`. -/
def refGov (cfg : Cfg) : List (List GovMsg) → List Bool → Cfg
  | [], _ => cfg
  | p :: ps, [] => refGov (refProposal cfg p false) ps []
  | p :: ps, b :: bs => refGov (refProposal cfg p b) ps bs

/-- Two configurations charge alike: same params, same schedule lookup for every message type. -/
def Cfg.same (a b : Cfg) : Prop :=
  a.floor = b.floor ∧ a.convDenom = b.convDenom ∧ a.nhashPerUsdMil = b.nhashPerUsdMil ∧
  a.collector = b.collector ∧ ∀ t, lookupFee a t = lookupFee b t

/-! ### Nested messages (reference)

"Every additional message fee incurred, including those of nested authz or contract-dispatched
messages": a body is a `Forest`; EVERY message of it, whatever its depth, incurs the fees of its
type (and its custom assessment); handlers may incur flat fees themselves.  Written over the
tree, not over the order in which the router happens to see the messages. -/

/-- What the handlers themselves do (grant checks before an inner message, the handler's work
and flat fees after the routing), without the routing. -/
def Forest.handlerSteps : Forest → List Step
  | .nil => []
  | .node pre _ h ch sib => pre ++ (h ++ (ch.handlerSteps ++ sib.handlerSteps))

/-- The fees a forest incurs: those of ALL its messages plus the handler-level ones. -/
def forestIncurred (cfg : Cfg) (f : Forest) : List Incurred :=
  topIncurred cfg f.allMsgs ++ stepsIncurred cfg f.handlerSteps

/-- A routed message can only come from a node of the tree: handlers' own steps route nothing
(dispatching goes through `children`). -/
def noRoute : List Step → Bool
  | [] => true
  | .route _ :: _ => false
  | _ :: rest => noRoute rest

def Forest.wf : Forest → Bool
  | .nil => true
  | .node pre _ h ch sib => noRoute pre && noRoute h && ch.wf && sib.wf

/-- The messages a step list routes, in order. -/
def routed : List Step → List RMsg
  | [] => []
  | .route m :: rest => m :: routed rest
  | _ :: rest => routed rest

/-! ### Sequences of transactions (reference) -/

def Outcome.isRejected : Outcome → Bool
  | .rejected _ => true
  | _ => false

/-- How many transactions of the sequence with payer `P` were executed past the ante handler
(failed or succeeded — not rejected). -/
def executedBy (P : Addr) : Chain → List (Cfg × Tx) → Nat
  | _, [] => 0
  | c, (cfg, tx) :: rest =>
    (if tx.payer = P ∧ (deliverIn cfg c tx).2.outcome.isRejected = false then 1 else 0) +
      executedBy P (deliverIn cfg c tx).1 rest

/-- What the property prescribes for account `a`, denom `d` over a sequence in which no
transaction succeeds: the sum, over the FAILED ones, of the base fee (under the configuration of
that transaction's block) moving from its paying account to the collector. -/
def failureDeltas (a : Addr) (d : Denom) : Chain → List (Cfg × Tx) → Int
  | _, [] => 0
  | c, (cfg, tx) :: rest =>
    (if (deliverIn cfg c tx).2.outcome.isFailed
      then feeDeltaOnFailure cfg.collector tx.from (baseFee cfg.floor tx.gas) a d else 0) +
      failureDeltas a d (deliverIn cfg c tx).1 rest

def noneSucceeds (c : Chain) (items : List (Cfg × Tx)) : Bool :=
  (runsOf c items).all fun r => !r.outcome.isOk

/-- What the mempool state may show after a sequence of arrivals: for each ADMITTED transaction —
and for no other — its base fee moved from its paying account to the collector. -/
def admissionDeltas (a : Addr) (d : Denom) : Chain → List (Cfg × Tx) → Int
  | _, [] => 0
  | c, (cfg, tx) :: rest =>
    (if (checkIn cfg c tx).2.isNone
      then feeDeltaOnFailure cfg.collector tx.from (baseFee cfg.floor tx.gas) a d else 0) +
      admissionDeltas a d (checkIn cfg c tx).1 rest

/-- How many arrivals with payer `P` were admitted. -/
def admittedBy (P : Addr) : Chain → List (Cfg × Tx) → Nat
  | _, [] => 0
  | c, (cfg, tx) :: rest =>
    (if tx.payer = P ∧ (checkIn cfg c tx).2.isNone then 1 else 0) + admittedBy P (checkIn cfg c tx).1 rest

/-- The handlers' own work neither mints nor burns (bank sends; minting modules are outside the
fee property). -/
def EffectsConserve : List Step → Prop
  | [] => True
  | .effect f :: rest => (∀ l l', f l = .ok l' → ∀ d, l'.supply d = l.supply d) ∧ EffectsConserve rest
  | _ :: rest => EffectsConserve rest

/-! ### What one element of a sequence prescribes, by its fate (reference)

The per-transaction clauses of the property, as a function of what happened to the element:
rejected ⇒ nothing; failed ⇒ the base fee (of the configuration of its block) from the paying
account to the collector, the allowance it used charged the base fee; success ⇒ the declared fee
distributed, the allowance charged the base fee by the ante handler and the rest of the declared
fee by the sweep.  The `seq` / `mempool` checkers of the correspondence driver evaluate exactly
these on the implementation's observed per-block (per-arrival) states. -/

inductive Fate where
  | ok | failed | rejected
  deriving DecidableEq, Repr

def Outcome.fate : Outcome → Fate
  | .ok => .ok
  | .failed _ => .failed
  | .rejected _ => .rejected

/-- The fee-related balance change of account `a`, denom `d` one element with fate `f` prescribes. -/
def fateFeeDelta (cfg : Cfg) (tx : Tx) (f : Fate) (a : Addr) (d : Denom) : Int :=
  match f with
  | .rejected => 0
  | .failed => feeDeltaOnFailure cfg.collector tx.from (baseFee cfg.floor tx.gas) a d
  | .ok => feeDeltaOnSuccess cfg.collector tx.from tx.fee (stepsIncurred cfg tx.steps) a d

/-- What is left of the allowance the element used (`none`: no such outcome is possible with that
allowance). -/
def fateAllow (cfg : Cfg) (tx : Tx) (f : Fate) (a : Allow) : Option Allow :=
  match f with
  | .rejected => some a
  | .failed =>
    match useGrantedFees a (baseFee cfg.floor tx.gas) with
    | .ok a1 => some a1
    | .error _ => none
  | .ok =>
    match useGrantedFees a (baseFee cfg.floor tx.gas) with
    | .error _ => none
    | .ok a1 =>
      match useGrantedFees a1 (Coins.sub tx.fee (baseFee cfg.floor tx.gas)) with
      | .ok a2 => some a2
      | .error _ => none

end PvModel.Txfee
