/-
C20 — declarative side: what the property text and x/exchange/spec say an admissible order /
commitment is, as decidable `Prop`s that do not follow the control flow of the Go code.
Used by the theorems of `PvProofs.C20` and, executed on the implementation's observed
accept/reject, by the checker in `AdmitDriver`.
-/
import PvModel.Admit
import PvModel.FeesSpec

namespace PvModel.Admit
open PvModel PvModel.Fees

/-! ### Flat fees -/

/-- The offered coin covers option `o`: same denom, at least the amount. -/
def CoversOpt (c o : Coin) : Prop := o.1 = c.1 ∧ o.2 ≤ c.2

instance (c o : Coin) : Decidable (CoversOpt c o) := by unfold CoversOpt; exact inferInstance

/-- A flat fee (creation fee, seller settlement flat fee) is in order: the market defines no
option of that kind, or the offered coin covers one of the options. -/
def FlatFeeOk (opts : List Coin) (fee : Option Coin) : Prop :=
  opts = [] ∨ ∃ c, fee = some c ∧ ∃ o ∈ opts, CoversOpt c o

instance (opts : List Coin) (fee : Option Coin) : Decidable (FlatFeeOk opts fee) := by
  unfold FlatFeeOk
  cases fee with
  | none => exact decidable_of_iff (opts = []) (by simp)
  | some c => exact decidable_of_iff (opts = [] ∨ ∃ o ∈ opts, CoversOpt c o) (by simp)

/-! ### Ratio fees -/

/-- The fee a ratio asks for a price amount: `⌈price·fee/ratioPrice⌉`. -/
def ratioFeeSpec (r : Ratio) (p : Int) : Int := ceilDiv (p * r.fa) r.pa

/-- Ratio `r` is an option for paying the fee on `price` in the denom of coin `c`. -/
def RatioFor (r : Ratio) (price c : Coin) : Prop := r.pd = price.1 ∧ r.fd = c.1

instance (r : Ratio) (price c : Coin) : Decidable (RatioFor r price c) := by
  unfold RatioFor; exact inferInstance

/-! ### Buyer settlement fee

"for buyers a flat option plus a ratio option applied to the bid price, either in different
denoms or summed in one". -/

/-- some coin of the fee covers a flat option -/
def SomeCoinCoversFlat (flats : List Coin) (fee : List Coin) : Prop :=
  ∃ c ∈ fee, ∃ o ∈ flats, CoversOpt c o

/-- some coin of the fee covers a ratio option for the price -/
def SomeCoinCoversRatio (ratios : List Ratio) (price : Coin) (fee : List Coin) : Prop :=
  ∃ c ∈ fee, ∃ r ∈ ratios, RatioFor r price c ∧ ratioFeeSpec r price.2 ≤ c.2

/-- one coin covers a flat option and a ratio option summed -/
def OneCoinCoversSum (flats : List Coin) (ratios : List Ratio) (price : Coin) (fee : List Coin) : Prop :=
  ∃ c ∈ fee, ∃ o ∈ flats, ∃ r ∈ ratios, o.1 = c.1 ∧ RatioFor r price c ∧
    o.2 + ratioFeeSpec r price.2 ≤ c.2

/-- two coins in different denoms: one covers a flat option, the other a ratio option -/
def TwoCoinsCover (flats : List Coin) (ratios : List Ratio) (price : Coin) (fee : List Coin) : Prop :=
  ∃ c ∈ fee, ∃ d ∈ fee, c.1 ≠ d.1 ∧ (∃ o ∈ flats, CoversOpt c o) ∧
    (∃ r ∈ ratios, RatioFor r price d ∧ ratioFeeSpec r price.2 ≤ d.2)

/-- The offered buyer settlement fee covers what the market asks. -/
def BuyerFeeOk (flats : List Coin) (ratios : List Ratio) (price : Coin) (fee : List Coin) : Prop :=
  (flats = [] ∧ ratios = []) ∨
  (flats ≠ [] ∧ ratios = [] ∧ SomeCoinCoversFlat flats fee) ∨
  (flats = [] ∧ ratios ≠ [] ∧ SomeCoinCoversRatio ratios price fee) ∨
  (flats ≠ [] ∧ ratios ≠ [] ∧
    (OneCoinCoversSum flats ratios price fee ∨ TwoCoinsCover flats ratios price fee))

instance (flats : List Coin) (ratios : List Ratio) (price : Coin) (fee : List Coin) :
    Decidable (BuyerFeeOk flats ratios price fee) := by
  unfold BuyerFeeOk SomeCoinCoversFlat SomeCoinCoversRatio OneCoinCoversSum TwoCoinsCover
  exact inferInstance

/-- The same for fee lists that may repeat a denom (not valid `sdk.Coins`): "two coins" are
two *positions* of the list. -/
def TwoPositionsCover (flats : List Coin) (ratios : List Ratio) (price : Coin) (fee : List Coin) : Prop :=
  ∃ (i j : Nat) (c d : Coin), i ≠ j ∧ fee[i]? = some c ∧ fee[j]? = some d ∧ (∃ o ∈ flats, CoversOpt c o) ∧
    (∃ r ∈ ratios, RatioFor r price d ∧ ratioFeeSpec r price.2 ≤ d.2)

/-- `BuyerFeeOk` for arbitrary fee lists: "in different denoms" read as "at two positions". -/
def BuyerFeeOkAny (flats : List Coin) (ratios : List Ratio) (price : Coin) (fee : List Coin) : Prop :=
  (flats = [] ∧ ratios = []) ∨
  (flats ≠ [] ∧ ratios = [] ∧ SomeCoinCoversFlat flats fee) ∨
  (flats = [] ∧ ratios ≠ [] ∧ SomeCoinCoversRatio ratios price fee) ∨
  (flats ≠ [] ∧ ratios ≠ [] ∧
    (OneCoinCoversSum flats ratios price fee ∨ TwoPositionsCover flats ratios price fee))

/-! ### Ask price

"an ask is refused when its price could not cover the seller fees taken out of it": the
flat fee when it is in the price denom, plus the ratio fee. -/

/-- the part of the seller's flat fee that is taken out of the price -/
def flatOutOfPrice (price : Coin) (flat : Option Coin) : Int :=
  match flat with
  | some f => if f.1 = price.1 then f.2 else 0
  | none => 0

def AskPriceOk (sratios : List Ratio) (price : Coin) (flat : Option Coin) : Prop :=
  (sratios = [] ∨ ∃ r ∈ sratios, r.pd = price.1 ∧ r.fd = price.1) ∧
  flatOutOfPrice price flat < price.2 ∧
  ∀ r ∈ sratios, r.pd = price.1 → r.fd = price.1 →
    flatOutOfPrice price flat + ratioFeeSpec r price.2 < price.2

instance (sratios : List Ratio) (price : Coin) (flat : Option Coin) :
    Decidable (AskPriceOk sratios price flat) := by
  unfold AskPriceOk; exact inferInstance

/-! ### Required attributes

A name is a non-empty list of non-empty, dot-free segments.  A required attribute `*.x`
is matched by `y₁.….yₖ.x` with k ≥ 1; any other required attribute only by itself. -/

/-- a well-formed (normalised, valid) name split in segments -/
def SegsOk (segs : List (List Char)) : Prop :=
  segs ≠ [] ∧ ∀ s ∈ segs, s ≠ [] ∧ '.' ∉ s

/-- the documented rule, on segments -/
def WildcardMatch (base acc : List (List Char)) : Prop :=
  ∃ extra, extra ≠ [] ∧ acc = extra ++ base

/-- `WildcardMatch`, computed: `acc` is strictly longer than `base` and ends with it. -/
def wildcardMatchB (base acc : List (List Char)) : Bool :=
  decide (base.length < acc.length) && (acc.drop (acc.length - base.length) == base)

theorem wildcardMatchB_iff (base acc : List (List Char)) :
    wildcardMatchB base acc = true ↔ WildcardMatch base acc := by
  unfold wildcardMatchB WildcardMatch
  simp only [Bool.and_eq_true, decide_eq_true_eq, beq_iff_eq]
  constructor
  · rintro ⟨hlt, hd⟩
    refine ⟨acc.take (acc.length - base.length), ?_, ?_⟩
    · intro h
      have := congrArg List.length h
      simp only [List.length_take, List.length_nil] at this
      omega
    · have h := (List.take_append_drop (acc.length - base.length) acc).symm
      rw [hd] at h; exact h
  · rintro ⟨extra, hne, rfl⟩
    have : 0 < extra.length := List.length_pos_iff.2 hne
    refine ⟨by simp only [List.length_append]; omega, ?_⟩
    have e : (extra ++ base).length - base.length = extra.length := by
      simp only [List.length_append]; omega
    rw [e, List.drop_left]

instance (base acc : List (List Char)) : Decidable (WildcardMatch base acc) :=
  decidable_of_iff _ (wildcardMatchB_iff base acc)

/-- the required attribute starts with the wildcard level `*.` -/
def isWild (r : String) : Bool := ['*', '.'].isPrefixOf r.toList

/-- a valid (normalised) name: non-empty, dot-free, non-empty segments
(x/name `IsValidName`, as far as the matching rule depends on it) -/
def NameOk (s : String) : Prop := SegsOk (splitDots s.toList)

/-- a valid required attribute (x/exchange `IsValidReqAttr`): a valid name, optionally behind
one leading wildcard level `*.` -/
def ReqOk (r : String) : Prop :=
  if isWild r then SegsOk (splitDots (r.toList.drop 2)) else SegsOk (splitDots r.toList)

instance (segs : List (List Char)) : Decidable (SegsOk segs) := by unfold SegsOk; exact inferInstance
instance (s : String) : Decidable (NameOk s) := by unfold NameOk; exact inferInstance
instance (r : String) : Decidable (ReqOk r) := by unfold ReqOk; exact inferInstance

/-- **The documented match**, on segments and independent of `IsReqAttrMatch`: a required
attribute `*.b` is matched by the names `y₁.….yₖ.b` with k ≥ 1 extra leading levels (whole
segments); any other (non-empty) required attribute is matched by itself only. -/
def DocMatch (r a : String) : Prop :=
  if isWild r then WildcardMatch (splitDots (r.toList.drop 2)) (splitDots a.toList)
  else r ≠ "" ∧ r = a

instance (r a : String) : Decidable (DocMatch r a) := by unfold DocMatch; exact inferInstance

/-- every required attribute has a documented match among the account's attributes -/
def AttrsOk (reqAttrs accAttrs : List String) : Prop :=
  ∀ r ∈ reqAttrs, ∃ a ∈ accAttrs, DocMatch r a

instance (reqAttrs accAttrs : List String) : Decidable (AttrsOk reqAttrs accAttrs) := by
  unfold AttrsOk; exact inferInstance

/-- the same with the code's matcher in the place of the documented rule (what
`FindUnmatchedReqAttrs` computes for arbitrary strings, valid names or not) -/
def AttrsMatched (reqAttrs accAttrs : List String) : Prop :=
  ∀ r ∈ reqAttrs, ∃ a ∈ accAttrs, isReqAttrMatch r a = true

instance (reqAttrs accAttrs : List String) : Decidable (AttrsMatched reqAttrs accAttrs) := by
  unfold AttrsMatched; exact inferInstance

/-- the names the documented rule speaks about: valid required attributes, valid account
attribute names (the chain stores nothing else: `Market.Validate` / `ValidateReqAttrs`, and
the name module's `IsValidName` for attribute names) -/
def NamesOk (reqAttrs accAttrs : List String) : Prop :=
  (∀ r ∈ reqAttrs, ReqOk r) ∧ ∀ a ∈ accAttrs, NameOk a

instance (reqAttrs accAttrs : List String) : Decidable (NamesOk reqAttrs accAttrs) := by
  unfold NamesOk; exact inferInstance

/-- the pairs the wildcard rule speaks about: a wildcard is compared segment by segment, so
both names must be well formed; an exact comparison needs nothing -/
def MatchGuard (r a : String) : Prop := isWild r = true → ReqOk r ∧ NameOk a

instance (r a : String) : Decidable (MatchGuard r a) := by unfold MatchGuard; exact inferInstance

/-- every (required attribute, account attribute) pair is one the rule speaks about
(implied by `NamesOk`) -/
def PairsOk (reqAttrs accAttrs : List String) : Prop :=
  ∀ r ∈ reqAttrs, ∀ a ∈ accAttrs, MatchGuard r a

instance (reqAttrs accAttrs : List String) : Decidable (PairsOk reqAttrs accAttrs) := by
  unfold PairsOk; exact inferInstance

theorem NamesOk.pairsOk {reqAttrs accAttrs : List String} (h : NamesOk reqAttrs accAttrs) :
    PairsOk reqAttrs accAttrs := fun r hr a ha _ => ⟨h.1 r hr, h.2 a ha⟩

/-- **The required attributes without a documented match**, in the order of the market's
list and with its multiplicities (what `FindUnmatchedReqAttrs` is documented to return). -/
def docUnmatched (reqAttrs accAttrs : List String) : List String :=
  reqAttrs.filter fun r => decide (¬ ∃ a ∈ accAttrs, DocMatch r a)

/-- what the market *asked* to require, after name normalisation (names are case- and
space-insensitive in the name module; account attributes carry normalised names) -/
def AttrsOkNorm (reqAttrs accAttrs : List String) : Prop :=
  AttrsOk (reqAttrs.map normalizeName) accAttrs

instance (reqAttrs accAttrs : List String) : Decidable (AttrsOkNorm reqAttrs accAttrs) := by
  unfold AttrsOkNorm; exact inferInstance

/-! ### Funds -/

/-- The creator can pay the creation fee and still has the amount to be put on hold. -/
def FundsOk (bal : Coins) (fee : Option Coin) (hold : Coins) : Prop :=
  let feeCoins : Coins := match fee with | some c => [c] | none => []
  Coins.covers bal feeCoins = true ∧ Coins.covers (Coins.sub bal feeCoins) hold = true

instance (bal : Coins) (fee : Option Coin) (hold : Coins) : Decidable (FundsOk bal fee hold) := by
  unfold FundsOk; exact inferInstance

/-! ### Admission -/

/-- An ask order is admissible. -/
def AskAdmissible (mk : Option Market) (accAttrs : List String) (m : AskMsg) : Prop :=
  ∃ mkt, mk = some mkt ∧ mkt.acceptingOrders = true ∧ AttrsOk mkt.reqAsk accAttrs ∧
    FlatFeeOk mkt.createAskFlat m.cfee ∧ FlatFeeOk mkt.sellerFlat m.sflat ∧
    AskPriceOk mkt.sellerRatios m.price m.sflat

/-- A bid order is admissible. -/
def BidAdmissible (mk : Option Market) (accAttrs : List String) (m : BidMsg) : Prop :=
  ∃ mkt, mk = some mkt ∧ mkt.acceptingOrders = true ∧ AttrsOk mkt.reqBid accAttrs ∧
    FlatFeeOk mkt.createBidFlat m.cfee ∧ BuyerFeeOk mkt.buyerFlat mkt.buyerRatios m.price m.fees

/-- A commitment is admissible. -/
def CommitAdmissible (mk : Option Market) (accAttrs : List String) (m : CommitMsg) : Prop :=
  ∃ mkt, mk = some mkt ∧ mkt.acceptingCommitments = true ∧ AttrsOk mkt.reqCommit accAttrs ∧
    FlatFeeOk mkt.createCommitFlat m.cfee

/-- A user fill of bids (the filler acts as a seller) passes the market's gate. -/
def FillBidsAdmissible (mk : Option Market) (accAttrs : List String) (cfee sflat : Option Coin) : Prop :=
  ∃ mkt, mk = some mkt ∧ mkt.acceptingOrders = true ∧ mkt.userSettle = true ∧
    AttrsOk mkt.reqAsk accAttrs ∧ FlatFeeOk mkt.createAskFlat cfee ∧ FlatFeeOk mkt.sellerFlat sflat

/-- A user fill of asks (the filler acts as a buyer) passes the market's gate. -/
def FillAsksAdmissible (mk : Option Market) (accAttrs : List String) (cfee : Option Coin)
    (totalPrice : Coin) (fees : List Coin) : Prop :=
  ∃ mkt, mk = some mkt ∧ mkt.acceptingOrders = true ∧ mkt.userSettle = true ∧
    AttrsOk mkt.reqBid accAttrs ∧ FlatFeeOk mkt.createBidFlat cfee ∧
    BuyerFeeOk mkt.buyerFlat mkt.buyerRatios totalPrice fees

instance (mk : Option Market) (a : List String) (m : AskMsg) : Decidable (AskAdmissible mk a m) := by
  unfold AskAdmissible
  cases mk with
  | none => exact isFalse (by simp)
  | some mkt => exact decidable_of_iff (mkt.acceptingOrders = true ∧ AttrsOk mkt.reqAsk a ∧
      FlatFeeOk mkt.createAskFlat m.cfee ∧ FlatFeeOk mkt.sellerFlat m.sflat ∧
      AskPriceOk mkt.sellerRatios m.price m.sflat) (by simp)

instance (mk : Option Market) (a : List String) (m : BidMsg) : Decidable (BidAdmissible mk a m) := by
  unfold BidAdmissible
  cases mk with
  | none => exact isFalse (by simp)
  | some mkt => exact decidable_of_iff (mkt.acceptingOrders = true ∧ AttrsOk mkt.reqBid a ∧
      FlatFeeOk mkt.createBidFlat m.cfee ∧ BuyerFeeOk mkt.buyerFlat mkt.buyerRatios m.price m.fees) (by simp)

instance (mk : Option Market) (a : List String) (m : CommitMsg) : Decidable (CommitAdmissible mk a m) := by
  unfold CommitAdmissible
  cases mk with
  | none => exact isFalse (by simp)
  | some mkt => exact decidable_of_iff (mkt.acceptingCommitments = true ∧ AttrsOk mkt.reqCommit a ∧
      FlatFeeOk mkt.createCommitFlat m.cfee) (by simp)

instance (mk : Option Market) (a : List String) (cfee sflat : Option Coin) :
    Decidable (FillBidsAdmissible mk a cfee sflat) := by
  unfold FillBidsAdmissible
  cases mk with
  | none => exact isFalse (by simp)
  | some mkt => exact decidable_of_iff (mkt.acceptingOrders = true ∧ mkt.userSettle = true ∧
      AttrsOk mkt.reqAsk a ∧ FlatFeeOk mkt.createAskFlat cfee ∧ FlatFeeOk mkt.sellerFlat sflat) (by simp)

instance (mk : Option Market) (a : List String) (cfee : Option Coin) (tp : Coin) (fees : List Coin) :
    Decidable (FillAsksAdmissible mk a cfee tp fees) := by
  unfold FillAsksAdmissible
  cases mk with
  | none => exact isFalse (by simp)
  | some mkt => exact decidable_of_iff (mkt.acceptingOrders = true ∧ mkt.userSettle = true ∧
      AttrsOk mkt.reqBid a ∧ FlatFeeOk mkt.createBidFlat cfee ∧
      BuyerFeeOk mkt.buyerFlat mkt.buyerRatios tp fees) (by simp)

/-! ### The configuration in force

"the market exists and is *currently* accepting that kind of item": a market exists from the
message that creates it; its configuration is the one it was created with (required
attribute names normalised like every name on chain), as changed by the authority's
messages sent **after** the creation.  Nothing sent for the id before the market was
created is part of the market. -/

/-- the requested market with its required-attribute names normalised -/
def Market.asRequested (rq : Market) : Market :=
  { rq with reqAsk := rq.reqAsk.map normalizeName, reqBid := rq.reqBid.map normalizeName,
            reqCommit := rq.reqCommit.map normalizeName }

/-- The market of a history, if it has one, with the configuration in force at its end. -/
def History.configInForce (h : History) : Option Market :=
  h.requested.map fun rq => h.post.foldl Step.applyTo rq.asRequested

/-! ### Well-formed configurations and inputs (what the chain's own validation guarantees) -/

/-- the flat options of one kind are a map keyed by denom -/
def FlatsWf (opts : List Coin) : Prop := (opts.map (·.1)).Nodup ∧ ∀ o ∈ opts, 0 ≤ o.2

/-- the ratios are a map keyed by (price denom, fee denom); `FeeRatio.Validate` -/
def RatiosWf (rs : List Ratio) : Prop :=
  (rs.map fun r => (r.pd, r.fd)).Nodup ∧ ∀ r ∈ rs, 0 < r.pa ∧ 0 ≤ r.fa

/-- no ratio fee for this price needs more than 256 bits (since the repair of
`FeeRatio.applyLooselyTo` the product itself may be of any size) -/
def RatiosFit (rs : List Ratio) (price : Coin) : Prop :=
  ∀ r ∈ rs, r.pd = price.1 → fits256 (Fees.ceilDiv (price.2 * r.fa) r.pa) = true

instance (rs : List Ratio) (price : Coin) : Decidable (RatiosFit rs price) := by
  unfold RatiosFit; exact inferInstance

/-- no flat + ratio sum formed for this price needs more than 256 bits -/
def SumsFit (flats : List Coin) (rs : List Ratio) (price : Coin) : Prop :=
  ∀ o ∈ flats, ∀ r ∈ rs, r.pd = price.1 → fits256 (o.2 + ratioFeeSpec r price.2) = true

instance (flats : List Coin) (rs : List Ratio) (price : Coin) : Decidable (SumsFit flats rs price) := by
  unfold SumsFit; exact inferInstance

/-- the flat part taken out of the price plus the ratio fee fits 256 bits -/
def AskSumFits (rs : List Ratio) (price : Coin) (flat : Option Coin) : Prop :=
  ∀ r ∈ rs, r.pd = price.1 → r.fd = price.1 →
    fits256 (flatOutOfPrice price flat + ratioFeeSpec r price.2) = true

instance (rs : List Ratio) (price : Coin) (flat : Option Coin) : Decidable (AskSumFits rs price flat) := by
  unfold AskSumFits; exact inferInstance

/-- Everything the chain guarantees about a stored market and a price before the buyer fee
check runs, plus the 256-bit guards. -/
structure BuyerWf (flats : List Coin) (ratios : List Ratio) (price : Coin) : Prop where
  hflats : FlatsWf flats
  hratios : RatiosWf ratios
  hprice : 0 ≤ price.2
  hfit : RatiosFit ratios price
  hsums : SumsFit flats ratios price

/-- The same for the ask price check. -/
structure AskWf (rs : List Ratio) (price : Coin) (flat : Option Coin) : Prop where
  hratios : RatiosWf rs
  hprice : 0 < price.2
  hflat : ∀ f, flat = some f → 0 ≤ f.2
  hfit : RatiosFit rs price
  hsums : AskSumFits rs price flat

/-- A stored market is well formed for an ask message. -/
structure MarketAskWf (mkt : Market) (m : AskMsg) : Prop where
  hcflat : (mkt.createAskFlat.map (·.1)).Nodup
  hsflat : (mkt.sellerFlat.map (·.1)).Nodup
  hratios : RatiosWf mkt.sellerRatios
  hfit : RatiosFit mkt.sellerRatios m.price
  hsums : AskSumFits mkt.sellerRatios m.price m.sflat

/-- A stored market is well formed for a bid message / a fill of asks. -/
structure MarketBidWf (mkt : Market) (price : Coin) : Prop where
  hcflat : (mkt.createBidFlat.map (·.1)).Nodup
  hbuyer : BuyerWf mkt.buyerFlat mkt.buyerRatios price

/-! ### User fills: the named orders, the totals, the seller ratio fee, the funds

"accepted only if … (for user fills) the named orders exist, are of the right side and market
and not the filler's own, the totals stated equal the sums of the named orders, a seller
settlement ratio exists for every price denom (when the market defines ratios at all)". -/

/-- the order stored under an id -/
def orderOf (book : List Order) (id : Nat) : Option Order := book.find? fun o => decide (o.id = id)

/-- the id names an order the filler may fill: it exists, is of the wanted side, in the
market of the message, and belongs to somebody else -/
def Fillable (book : List Order) (marketId : Nat) (wantBid : Bool) (filler : String) (id : Nat) : Prop :=
  ∃ o, orderOf book id = some o ∧ o.isBid = wantBid ∧ o.marketId = marketId ∧ o.owner ≠ filler

instance (book : List Order) (marketId : Nat) (wantBid : Bool) (filler : String) (id : Nat) :
    Decidable (Fillable book marketId wantBid filler id) := by
  unfold Fillable
  cases h : orderOf book id with
  | none => exact isFalse (by simp)
  | some o => exact decidable_of_iff (o.isBid = wantBid ∧ o.marketId = marketId ∧ o.owner ≠ filler) (by simp)

/-- the orders the ids name, in the order of the ids -/
def namedOrders (book : List Order) (ids : List Nat) : List Order := ids.filterMap (orderOf book)

/-- the assets / the prices of the named orders -/
def namedAssets (book : List Order) (ids : List Nat) : Coins := (namedOrders book ids).map fun o => o.assets
def namedPrices (book : List Order) (ids : List Nat) : Coins := (namedOrders book ids).map fun o => o.price

/-- two coin lists state the same total: the same amount of every denom they mention -/
def TotalsEq (a b : Coins) : Prop :=
  ∀ d ∈ Coins.denoms a ++ Coins.denoms b, Coins.amountOf a d = Coins.amountOf b d

instance (a b : Coins) : Decidable (TotalsEq a b) := by unfold TotalsEq; exact inferInstance

/-- the market can name the seller's ratio fee for prices in this denom: it defines no seller
ratio at all, or one for the denom -/
def SellerRatioAvail (rs : List Ratio) (d : Denom) : Prop :=
  rs = [] ∨ ∃ r ∈ rs, r.pd = d ∧ r.fd = d

instance (rs : List Ratio) (d : Denom) : Decidable (SellerRatioAvail rs d) := by
  unfold SellerRatioAvail; exact inferInstance

/-- the seller ratio fees due on a summed price: for every denom with a ratio, `⌈sum·fee/price⌉` -/
def ratioFeesDue (rs : List Ratio) (prices : Coins) : List Denom → Coins
  | [] => []
  | d :: rest =>
    (match getFeeRatio rs d d with
     | some r => [(d, ratioFeeSpec r (Coins.amountOf prices d))]
     | none => []) ++ ratioFeesDue rs prices rest

/-- The seller filling bids can hand over the assets, and — with the price received — pay the
seller settlement fees and then the ask creation fee. -/
def FillBidsFundsOk (bal totalAssets totalPrice sellerFee : Coins) (cfee : Option Coin) : Prop :=
  Coins.covers bal totalAssets = true ∧
  Coins.covers (Coins.add (Coins.sub bal totalAssets) totalPrice) sellerFee = true ∧
  Coins.covers (Coins.sub (Coins.add (Coins.sub bal totalAssets) totalPrice) sellerFee) (optCoins cfee) = true

instance (bal ta tp sf : Coins) (cfee : Option Coin) : Decidable (FillBidsFundsOk bal ta tp sf cfee) := by
  unfold FillBidsFundsOk; exact inferInstance

/-- The buyer filling asks can — with the assets received — pay the total price, then the buyer
settlement fees, then the bid creation fee. -/
def FillAsksFundsOk (bal totalAssets : Coins) (totalPrice : Coin) (fees : Coins) (cfee : Option Coin) : Prop :=
  Coins.covers (Coins.add bal totalAssets) [totalPrice] = true ∧
  Coins.covers (Coins.sub (Coins.add bal totalAssets) [totalPrice]) fees = true ∧
  Coins.covers (Coins.sub (Coins.sub (Coins.add bal totalAssets) [totalPrice]) fees) (optCoins cfee) = true

instance (bal ta : Coins) (tp : Coin) (fees : Coins) (cfee : Option Coin) :
    Decidable (FillAsksFundsOk bal ta tp fees cfee) := by
  unfold FillAsksFundsOk; exact inferInstance

/-- **A user fill of bids is admissible**: the market's gate (`FillBidsAdmissible`), every id
names a bid of this market that is not the seller's own, the stated total assets are the sum of
the named bids' assets, and the market can name the seller ratio fee of every price denom. -/
def FillBidsOrdersOk (mk : Option Market) (book : List Order) (filler : String) (m : FillBidsMsg) : Prop :=
  (∀ id ∈ m.ids, Fillable book m.marketId true filler id) ∧
  TotalsEq (namedAssets book m.ids) m.totalAssets ∧
  ∃ mkt, mk = some mkt ∧
    ∀ d ∈ sumDenoms (namedPrices book m.ids), SellerRatioAvail mkt.sellerRatios d

/-- the seller settlement fees of a fill of bids: the flat fee offered plus the ratio fees due
on the summed price of the named bids -/
def fillBidsSellerFee (mkt : Market) (book : List Order) (m : FillBidsMsg) : Coins :=
  let prices : Coins := namedPrices book m.ids
  optCoins m.sflat ++ ratioFeesDue mkt.sellerRatios prices (sumDenoms prices)

/-- the seller has the funds for the fill -/
def FillBidsFunded (mk : Option Market) (book : List Order) (bal : Coins) (m : FillBidsMsg) : Prop :=
  ∃ mkt, mk = some mkt ∧
    FillBidsFundsOk bal m.totalAssets (namedPrices book m.ids)
      (fillBidsSellerFee mkt book m) m.cfee

/-- **A user fill of asks is admissible** beyond the gate (`FillAsksAdmissible`): every id names
an ask of this market that is not the buyer's own, the stated total price is the sum of the
named asks' prices, and the market can name the seller ratio fee of every named ask. -/
def FillAsksOrdersOk (mk : Option Market) (book : List Order) (filler : String) (m : FillAsksMsg) : Prop :=
  (∀ id ∈ m.ids, Fillable book m.marketId false filler id) ∧
  TotalsEq (namedPrices book m.ids) [m.totalPrice] ∧
  ∃ mkt, mk = some mkt ∧
    ∀ o ∈ namedOrders book m.ids, SellerRatioAvail mkt.sellerRatios o.price.1

/-- the buyer has the funds for the fill -/
def FillAsksFunded (book : List Order) (bal : Coins) (m : FillAsksMsg) : Prop :=
  FillAsksFundsOk bal (namedAssets book m.ids) m.totalPrice m.fees m.cfee

instance (mk : Option Market) (book : List Order) (filler : String) (m : FillBidsMsg) :
    Decidable (FillBidsOrdersOk mk book filler m) := by
  unfold FillBidsOrdersOk
  cases mk with
  | none => exact isFalse (by simp)
  | some mkt =>
    exact decidable_of_iff
      ((∀ id ∈ m.ids, Fillable book m.marketId true filler id) ∧
        TotalsEq (namedAssets book m.ids) m.totalAssets ∧
        ∀ d ∈ sumDenoms (namedPrices book m.ids), SellerRatioAvail mkt.sellerRatios d)
      (by simp)

instance (mk : Option Market) (book : List Order) (bal : Coins) (m : FillBidsMsg) :
    Decidable (FillBidsFunded mk book bal m) := by
  unfold FillBidsFunded
  cases mk with
  | none => exact isFalse (by simp)
  | some mkt =>
    exact decidable_of_iff
      (FillBidsFundsOk bal m.totalAssets (namedPrices book m.ids)
        (fillBidsSellerFee mkt book m) m.cfee) (by simp)

instance (mk : Option Market) (book : List Order) (filler : String) (m : FillAsksMsg) :
    Decidable (FillAsksOrdersOk mk book filler m) := by
  unfold FillAsksOrdersOk
  cases mk with
  | none => exact isFalse (by simp)
  | some mkt =>
    exact decidable_of_iff
      ((∀ id ∈ m.ids, Fillable book m.marketId false filler id) ∧
        TotalsEq (namedPrices book m.ids) [m.totalPrice] ∧
        ∀ o ∈ namedOrders book m.ids, SellerRatioAvail mkt.sellerRatios o.price.1)
      (by simp)

instance (book : List Order) (bal : Coins) (m : FillAsksMsg) : Decidable (FillAsksFunded book bal m) := by
  unfold FillAsksFunded; exact inferInstance

/-- Well-formedness of a stored market for a fill of bids over summed prices `prices`: the
store is a map, and the 256-bit guard of every ratio fee that is formed. -/
structure FillBidsWf (mkt : Market) (prices : Coins) : Prop where
  hcflat : (mkt.createAskFlat.map (·.1)).Nodup
  hsflat : (mkt.sellerFlat.map (·.1)).Nodup
  hratios : RatiosWf mkt.sellerRatios
  hpos : ∀ d ∈ sumDenoms prices, 0 ≤ Coins.amountOf prices d
  hfit : ∀ d ∈ sumDenoms prices, RatiosFit mkt.sellerRatios (d, Coins.amountOf prices d)

/-- The same for a fill of asks with the named asks `orders`. -/
structure FillAsksWf (mkt : Market) (tp : Coin) (orders : List Order) : Prop where
  hbid : MarketBidWf mkt tp
  hratios : RatiosWf mkt.sellerRatios
  hpos : ∀ o ∈ orders, 0 ≤ o.price.2
  hfit : ∀ o ∈ orders, RatiosFit mkt.sellerRatios o.price

end PvModel.Admit
