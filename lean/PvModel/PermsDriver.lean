/-
Line-protocol driver + implementation-output checker for the C11 model (`perm`).
-/
import PvModel.Perms
-- registry: perm PvModel.Perms.driver

namespace PvModel.Perms
open PvModel

/-- `A` = the usual lower-case text of account A, `A^` its all-upper-case text, `A~` a
mixed-case text of the same letters. -/
def parseText (w : String) : Text :=
  if w.endsWith "^" then { acc := String.ofList w.toList.dropLast, sp := .upper }
  else if w.endsWith "~" then { acc := String.ofList w.toList.dropLast, sp := .mixed }
  else { acc := w }

def Text.render (t : Text) : String :=
  match t.sp with
  | .lower => t.acc
  | .upper => t.acc ++ "^"
  | .mixed => t.acc ++ "~"

/-- an address text inside a permissions update: `sdk.MustAccAddressFromBech32` -/
private def decodeName (w : String) : String := (parseText w).acc

private def parsePerms (s : String) : Option (List Perm) := (splitList s "+").mapM Perm.ofString?

/-- `A:settle+cancel|B:update` -/
private def parseGrants (s : String) : Option (List (String × List Perm)) :=
  (splitList s).mapM fun ent =>
    match ent.splitOn ":" with
    | [a, ps] => (parsePerms ps).map fun ps => (decodeName a, ps)
    | _ => none

private def grantLt (a b : Grant) : Bool :=
  a.1 < b.1 || (a.1 == b.1 && (a.2.1 < b.2.1 || (a.2.1 == b.2.1 && a.2.2.toString < b.2.2.toString)))

private def insertSorted {α} (lt : α → α → Bool) (x : α) : List α → List α
  | [] => [x]
  | y :: ys => if lt x y then x :: y :: ys else y :: insertSorted lt x ys

private def sortBy {α} (lt : α → α → Bool) (xs : List α) : List α := xs.foldl (fun acc x => insertSorted lt x acc) []

def dump (s : State) : String :=
  let gs := (sortBy grantLt s.grants).map fun g => s!"{g.1}:{g.2.1}:{g.2.2.toString}"
  let os := (sortBy (fun (a b : Order) => a.id < b.id) s.orders).map fun o => s!"{o.id}:{o.market}:{o.owner.render}:{if o.ext = "" then "-" else o.ext}"
  let ps := (sortBy (fun (a b : Payment) => a.source < b.source || (a.source == b.source && a.extId < b.extId)) s.payments).map
    fun p => s!"{p.source}:{p.extId}:{if p.target = "" then "-" else p.target}"
  let cs := (sortBy (fun (a b : Nat × String) => a.1 < b.1 || (a.1 == b.1 && a.2 < b.2)) s.commits).map fun c => s!"{c.1}:{c.2}"
  let j (xs : List String) := if xs.isEmpty then "-" else ",".intercalate xs
  s!"grants={j gs} orders={j os} payments={j ps} commits={j cs}"

/-- parse one op line -/
def parseOp (ws : List String) : Option Op :=
  match ws with
  | "perms" :: rest => do
    let admin ← kv rest "admin"
    let m ← (kv rest "m") >>= parseNat?
    let rv ← parseGrants ((kv rest "revoke").getD "-")
    let gr ← parseGrants ((kv rest "grant").getD "-")
    let ra := (splitList ((kv rest "revokeall").getD "-")).map decodeName
    pure (.perms (parseText admin) m { revokeAll := ra, toRevoke := rv, toGrant := gr })
  | ["call", e, m, caller] => do pure (.call (← Endpoint.ofString? e) (← parseNat? m) (parseText caller))
  | ["hasperm", m, a, p] => do pure (.hasperm (← parseNat? m) (parseText a) (← Perm.ofString? p))
  | ["order", id, m, owner] => do pure (.order (← parseNat? id) (← parseNat? m) (parseText owner))
  -- the fifth word (ask | bid) tells the harness which kind of order to create; the guards do not look at it
  | ["order", id, m, owner, _kind] => do pure (.order (← parseNat? id) (← parseNat? m) (parseText owner))
  | ["setid", m, id, caller, ext] => do
    pure (.setid (← parseNat? m) (← parseNat? id) (parseText caller) (if ext = "-" then "" else ext))
  | ["settle", m, ask, bid, caller] => do
    pure (.settle (← parseNat? m) (← parseNat? ask) (← parseNat? bid) (parseText caller))
  | ["commit", m, acct] => do pure (.commit (← parseNat? m) acct)
  | ["release", m, caller, accts] => do pure (.release (← parseNat? m) (parseText caller) (splitList accts))
  | ["cancel", id, signer] => do pure (.cancel (← parseNat? id) (parseText signer))
  | ["pay", source, ext, target] => some (.pay source ext (if target = "-" then "" else target))
  | ["accept", source, ext, signer] => some (.accept source ext signer)
  | ["reject", source, ext, signer] => some (.reject source ext signer)
  | ["cancelpay", signer, ext] => some (.cancelpay signer ext)
  | ["retarget", signer, ext, nt] => some (.retarget signer ext (if nt = "-" then "" else nt))
  | "gov" :: name :: caller :: rest =>
    let c := parseText caller
    let (mod, msg) := match name.splitOn "." with
      | m :: rest => (m, ".".intercalate rest)
      | [] => ("", name)
    some (.gov mod msg c { market := ((kv rest "m") >>= parseNat?).getD 0, subject := (kv rest "subj").getD "",
                             denom := (kv rest "d").getD "", nameKind := (kv rest "nm").getD "" })
  | _ => none

/-- The property's conclusion evaluated on the implementation's observed result `r` (first word;
`tag` = how a let-through governance request ended: `#ok` the handler executed it, `#err` /
`#panic` it failed later for another reason) of `op` in model state `s`. -/
def verdict (s : State) (op : Op) (r : String) (tag : String := "") : String :=
  match op with
  | .perms admin m _ =>
    let allowed := endpointAllowed s .MarketManagePermissions m admin
    if r = "ok" ∧ !allowed then "fail:endpoint_without_perm:MarketManagePermissions"
    else if r = "err:perm" ∧ allowed then "fail:endpoint_rejects_permitted:MarketManagePermissions" else "ok"
  | .call e m caller =>
    let allowed := endpointAllowed s e m caller
    if r = "pass" ∧ !allowed then s!"fail:endpoint_without_perm:{e.name}"
    else if r = "err:perm" ∧ allowed then s!"fail:endpoint_rejects_permitted:{e.name}" else "ok"
  | .hasperm m a p =>
    -- the guard itself, under any spelling: true only for the authority's letters or a text that
    -- decodes to an account holding exactly (m, account, p)
    let spec := a.fold = s.authority ∨ ∃ x, a.decode = some x ∧ (m, x, p) ∈ s.grants
    if r = "true" ∧ ¬ spec then "fail:haspermission_without_grant"
    else if r = "false" ∧ spec then "fail:haspermission_rejects_granted" else "ok"
  | .order .. => "-"
  | .cancel id signer =>
    match s.orders.find? (·.id = id) with
    | some o =>
      let entitled := signer = o.owner ∨ hasPermission s o.market signer .cancel
      if r = "ok" ∧ ¬ entitled then "fail:cancel_without_right"
      else if r = "err:perm" ∧ entitled then "fail:cancel_rejects_entitled" else "ok"
    | none => if r = "ok" then "fail:cancel_unknown_order" else "ok"
  | .pay .. => "-"
  | .accept source ext signer =>
    match findPayment s source ext with
    | some p => if r = "ok" ∧ p.target ≠ signer then "fail:payment_accepted_by_non_target" else "ok"
    | none => if r = "ok" then "fail:payment_unknown" else "ok"
  | .reject source ext signer =>
    match findPayment s source ext with
    | some p => if r = "ok" ∧ p.target ≠ signer then "fail:payment_rejected_by_non_target" else "ok"
    | none => if r = "ok" then "fail:payment_unknown" else "ok"
  | .cancelpay signer ext =>
    match findPayment s signer ext with
    | none => if r = "ok" then "fail:payment_cancelled_by_non_source" else "ok"
    | some _ => "ok"
  | .retarget signer ext _ =>
    match findPayment s signer ext with
    | none => if r = "ok" then "fail:payment_retargeted_by_non_source" else "ok"
    | some _ => "ok"
  | .setid m id caller _ =>
    -- "in the market of the item acted on": a successful request must come from the authority or a
    -- holder of `set_ids` in the market the ORDER lives in, whatever market the request names
    let allowed := endpointAllowed s .MarketSetOrderExternalID m caller
    if r = "ok" then
      match s.orders.find? (·.id = id) with
      | none => "fail:setid_unknown_order"
      | some o =>
        if !endpointAllowed s .MarketSetOrderExternalID o.market caller then
          "fail:endpoint_without_perm_in_item_market:MarketSetOrderExternalID"
        else if !allowed then "fail:endpoint_without_perm:MarketSetOrderExternalID" else "ok"
    else if r = "err:perm" ∧ allowed then "fail:endpoint_rejects_permitted:MarketSetOrderExternalID" else "ok"
  | .settle m ask bid caller =>
    let allowed := endpointAllowed s .MarketSettle m caller
    if r = "pass" ∧ !allowed then "fail:endpoint_without_perm:MarketSettle"
    else if r = "err:perm" ∧ allowed then "fail:endpoint_rejects_permitted:MarketSettle"
    else if r = "pass" ∧ tag = "#ok" then
      -- the settlement was executed: every order it consumed must live in a market whose `settle`
      -- guard the caller passes
      if [ask, bid].all fun id =>
          match s.orders.find? (·.id = id) with
          | none => false
          | some o => endpointAllowed s .MarketSettle o.market caller
      then "ok" else "fail:endpoint_without_perm_in_item_market:MarketSettle"
    else "ok"
  | .commit .. => "-"
  | .release m caller _ =>
    -- owning the committed funds is not a permission
    let allowed := endpointAllowed s .MarketReleaseCommitments m caller
    if r = "ok" ∧ !allowed then "fail:endpoint_without_perm:MarketReleaseCommitments"
    else if r = "err:perm" ∧ allowed then "fail:endpoint_rejects_permitted:MarketReleaseCommitments" else "ok"
  | .gov mod msg caller _ =>
    let name := mod ++ "." ++ msg
    let allowed := govAllowed s mod msg caller
    if r = "pass" ∧ !allowed then
      -- a caller other than the authority was not turned away: either its request was executed …
      if tag = "#ok" then s!"fail:gov_endpoint_open:{name}"
      -- … or it got past the authority comparison and the request failed for an unrelated reason
      else s!"fail:gov_guard_passed:{name}"
    else if r = "err:authority" ∧ allowed then s!"fail:gov_rejects_authority:{name}" else "ok"

/-- the `grants=` field of a canonical dump line -/
def grantsField (dumpLine : String) : String := ((dumpLine.splitOn " ").headD "")

/-- Frame clause on the observed state: after any history the grants in the store are exactly
those the exact-effect theorem (`updatePermissions_effect`) leaves — nothing granted that no
permitted request asked for, nothing kept that a successful request revoked. -/
def dumpVerdict (s : State) (impl : String) : String :=
  if grantsField impl = grantsField (dump s) then "ok" else "fail:grants_not_exact_effect"

def stepOp (s : State) (ws : List String) (impl : Option String) : State × String × String :=
  if ws = ["dump"] then (s, dump s, match impl with | none => "-" | some i => dumpVerdict s i) else
  match parseOp ws with
  | none => (s, "bad-op", "-")
  | some op =>
    let (s', out) := applyOp s op
    let v := match impl with
      | none => "-"
      | some i => verdict s op ((i.splitOn " ").headD "") (((i.splitOn " ").drop 1).headD "")
    (s', out, v)

def driver : Driver where
  σ := State
  init := {}
  step := fun s op impl => stepOp s (words op) impl

end PvModel.Perms
