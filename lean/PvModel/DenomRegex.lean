/-
The marker module's "unrestricted denom" test, for the DEFAULT expression.

`Keeper.ValidateUnrestictedDenom` (x/marker/keeper/params.go:53) reads the expression `exp` from
the module params (default `DefaultUnrestrictedDenomRegex = [a-zA-Z][a-zA-Z0-9\-\.]{2,83}`,
x/marker/types/params.go:16), compiles `fmt.Sprintf("^%s$", exp)` and asks `MatchString(denom)`:
the anchors make the expression match the WHOLE denom.  Go's `regexp` is not modelled; what
`^[a-zA-Z][a-zA-Z0-9\-\.]{2,83}$` accepts is written down by hand here:

  * the first character is an ASCII letter,
  * it is followed by at least 2 and at most 83 characters, each an ASCII letter, an ASCII
    digit, `-` or `.`,
  * and by nothing else (the `$`).

(Go's `$` without the `m` flag matches at the end of the text only — not before a final `\n` —
so "nothing else" is exact.)  The two texts this rests on — the default expression and the
format string with both anchors — are re-read from the source on every run
(tools/extract/denomregex.go → Generated/DenomRegex.lean) and pinned in PvProofs/C09Facts.lean.

Core Lean only.
-/
namespace PvModel.DenomRegex

/-- `[a-zA-Z]` -/
def isLetter (c : Char) : Bool := ('a' ≤ c && c ≤ 'z') || ('A' ≤ c && c ≤ 'Z')

/-- `[0-9]` -/
def isDigit (c : Char) : Bool := '0' ≤ c && c ≤ '9'

/-- `[a-zA-Z0-9\-\.]` -/
def isTail (c : Char) : Bool := isLetter c || isDigit c || c == '-' || c == '.'

/-- the bounds of `{2,83}` -/
def tailMin : Nat := 2
def tailMax : Nat := 83

/-- `^[a-zA-Z][a-zA-Z0-9\-\.]{2,83}$` on a list of characters: anchored at both ends -/
def matchAnchored : List Char → Bool
  | [] => false
  | c :: rest => isLetter c && decide (tailMin ≤ rest.length) && decide (rest.length ≤ tailMax) && rest.all isTail

/-- `^(?:[a-zA-Z][a-zA-Z0-9\-\.]{2,83})` — the START anchor only (what `MatchString` decides when
the `$` is dropped): some prefix of the text is a letter followed by 2 to 83 class characters, i.e.
the first character is a letter and the next two are in the class.  Not used by the model; it is
here so that the theorems can say what the end anchor is for. -/
def matchPrefix : List Char → Bool
  | c :: t1 :: t2 :: _ => isLetter c && isTail t1 && isTail t2
  | _ => false

/-- `ValidateUnrestictedDenom` with the default expression returns nil -/
def unrestrictedDenomOk (d : String) : Bool := matchAnchored d.toList

/-- the same without the end anchor (see `matchPrefix`) -/
def unrestrictedDenomPrefixOk (d : String) : Bool := matchPrefix d.toList

/-- `MetadataAddress.Denom()` (x/metadata/types/address.go:863): `DenomPrefix + ma.String()`,
`DenomPrefix = "nft/"` (address.go:36); `bech` is the bech32 text of the scope's address
(`scope1…`) -/
def scopeDenom (bech : String) : String := "nft/" ++ bech

end PvModel.DenomRegex
