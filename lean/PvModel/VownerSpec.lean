/-
C09 — declarative side.  What the property says about ONE observed step, phrased over what
can be read back from the chain (per scope: existence, `GetScopeValueOwner`, the bank's
holders and supply of the scope denom; the authz grants with their remaining uses, the marker
permissions in force and the markers' lifecycle status),
independent of the model's control flow.  `stepClause` is the checker the driver runs on
the implementation's dumps; `PvProofs.C09.step_ok` proves it never fires on the model.

Property text: "Every scope has at most one value owner at any time, represented by exactly
one indivisible scope token held by that owner.  The value owner changes only through an
action authorised by the current value owner (their signature, their authz grant to a
signer, their own transfer of the token, or, when the owner is a marker, a signer with
withdraw permission on it) and, when the new owner is a restricted marker, by a signer with
deposit permission on it, whichever message is used.  Deleting a scope destroys its token,
and no token exists for a scope that does not exist."
-/
import PvModel.Vowner

namespace PvModel.Vowner
open PvModel

/-- what is read back for one scope id -/
structure ScopeObs where
  id : ScopeId
  exists_ : Bool
  /-- the scope's parties as the dump shows them: the address, with a trailing `?` when optional -/
  owners : List String
  /-- `GetScopeValueOwner`: `""` = none, `"!"` = the lookup failed -/
  vo : String
  /-- accounts with a non-zero balance of the scope denom, with the balance -/
  holders : List (Addr × Int)
  supply : Int
  /-- the value owner the `Scope` query reports (`""` when none or when the scope is not found) -/
  qvo : String := ""
  /-- the accounts whose `ValueOwnership` query lists this scope -/
  listed : List Addr := []
  /-- `require_party_rollup` of the stored scope -/
  rollup : Bool := false
  deriving DecidableEq, Repr

structure Obs where
  scopes : List ScopeObs
  grants : List Grant
  markers : List Marker
  /-- the exchange's ask orders (id, seller, asset, price) -/
  orders : List Order := []
  /-- units on hold per (account, scope denom), as the hold module reports them -/
  holds : List (Addr × Denom) := []
  deriving DecidableEq, Repr

inductive StepKind where
  | msg (mt : MsgType)   -- one of the four metadata messages
  | send                 -- bank MsgSend; its signer is the sender
  | mwithdraw            -- marker MsgWithdraw; its signer is the administrator
  | env                  -- grant / revoke / marker access change / creating or cancelling an order
  | fill (oid : Nat)     -- exchange MsgFillAsks of ask order `oid`; its signer is the buyer
  deriving DecidableEq, Repr

structure StepInfo where
  kind : StepKind
  signers : List Addr
  /-- the scope a delete names -/
  target : Option ScopeId := none
  accepted : Bool
  deriving Repr

/-- the unique holder, if the holders list is a single entry -/
def holderOf (o : ScopeObs) : Option Addr :=
  match o.holders with
  | [(h, _)] => some h
  | _ => none

/-! ### Clause 1: one indivisible token, held by the value owner, only for existing scopes -/

def supplyOk (o : ScopeObs) : Bool := o.supply = 0 || o.supply = 1
/-- nobody holds anything when the supply is 0; exactly one account holds exactly 1 otherwise -/
def holdersOk (o : ScopeObs) : Bool :=
  match o.holders with
  | [] => o.supply = 0
  | [(_, n)] => n = 1 && o.supply = 1
  | _ => false
/-- the reported value owner is the token's holder (none iff no token) -/
def voOk (o : ScopeObs) : Bool := o.vo = (holderOf o).getD ""
def scopeOk (o : ScopeObs) : Bool := o.supply = 0 || o.exists_
/-- the `Scope` and `ValueOwnership` queries tell the same story as the bank -/
def queriesOk (o : ScopeObs) : Bool :=
  o.qvo = (if o.exists_ then o.vo else "") && o.listed = o.holders.map (·.1)

def tokenClause (o : ScopeObs) : Option String :=
  if !supplyOk o then some "token_supply_not_0_or_1"
  else if !holdersOk o then some "token_holders_ne_supply"
  else if !voOk o then some "value_owner_ne_token_holder"
  else if !scopeOk o then some "token_without_scope"
  else if !queriesOk o then some "queries_disagree_with_token"
  else none

/-! ### Clause 2: consent of the current owner; deposit permission on a restricted marker -/

/-- the step's signers authorise `h` by one of the four routes of the property -/
def authorises (pre : Obs) (st : StepInfo) (h : Addr) : Bool :=
  match st.kind with
  | .send => st.signers == [h]                                   -- h's own transfer of the token
  | .msg mt =>
    st.signers.contains h                                        -- h signs
    || pre.grants.any (fun g => g.granter = h && st.signers.contains g.grantee && g.mt = mt)  -- h's authz grant to a signer
    || (match pre.markers.find? (·.addr = h) with                -- h is a marker, a signer has withdraw on it
        | some m => st.signers.any (m.has · .withdraw)
        | none => false)
  | .mwithdraw =>                                                 -- only the marker route applies
    (match pre.markers.find? (·.addr = h) with
     | some m => st.signers.any (m.has · .withdraw)
     | none => false)
  | .env => false
  | .fill oid => pre.orders.any fun o => o.id = oid && o.seller = h   -- h made the ask order that is being filled

/-- when `h'` is a restricted marker a signer has deposit on it -/
def depositAuthorised (pre : Obs) (st : StepInfo) (h' : Addr) : Bool :=
  match pre.markers.find? (·.addr = h') with
  | some m => !m.restricted || st.signers.any (m.has · .deposit)
  | none => true

def preHolder (pre : Obs) (id : ScopeId) : Option Addr := (pre.scopes.find? (·.id = id)).bind holderOf

def consentOne (pre : Obs) (st : StepInfo) (o' : ScopeObs) : Bool :=
  let h := preHolder pre o'.id
  let h' := holderOf o'
  h = h' || (match h with | some a => authorises pre st a | none => true)

def depositOne (pre : Obs) (st : StepInfo) (o' : ScopeObs) : Bool :=
  let h := preHolder pre o'.id
  let h' := holderOf o'
  h = h' || (match h' with | some b => depositAuthorised pre st b | none => true)

/-! ### Clause 2b: consent through an authz grant costs one of its uses

"their authz grant to a signer": a count-limited grant (`CountAuthorization`) authorises as many
value-owner changes as it has uses.  So when a token leaves a holder who neither signs nor is a
marker — only an authz grant of the holder to a signer can have authorised that — and every
grant the holder has given to a signer for this message type is count-limited, then one of them
has fewer uses afterwards (or is gone).  With this clause on every accepted message a grant for
one use authorises one change: the second message finds no grant and `owner_change_without_consent`
applies. -/

/-- the count-limited grant `g` has been used: it is gone, or has fewer uses left -/
def usedUp (post : List Grant) (g : Grant) : Bool :=
  match lookupGrant post g.grantee g.granter g.mt with
  | none => true
  | some g' => g'.count != 0 && g'.count < g.count

/-- the grants in force from `h` to the step's signers for message type `mt` -/
def grantsTo (pre : List Grant) (signers : List Addr) (h : Addr) (mt : MsgType) : List Grant :=
  signers.filterMap fun sg => lookupGrant pre sg h mt

def grantUseOne (pre : Obs) (st : StepInfo) (post : Obs) (o' : ScopeObs) : Bool :=
  match st.kind with
  | .msg mt =>
    let h := preHolder pre o'.id
    h = holderOf o' ||
    (match h with
     | none => true
     | some a =>
       st.signers.contains a || (pre.markers.find? (·.addr = a)).isSome ||
       (grantsTo pre.grants st.signers a mt).any fun g => g.count = 0 || usedUp post.grants g)
  | _ => true

/-! ### Clause 3: deleting destroys the token; a rejected message changes nothing -/

def deleteOne (st : StepInfo) (o' : ScopeObs) : Bool :=
  !(st.accepted && st.kind = .msg .delete && st.target = some o'.id) || (!o'.exists_ && o'.supply = 0 && o'.holders.isEmpty)

def rejectOk (pre : Obs) (st : StepInfo) (post : Obs) : Bool := st.accepted || pre = post

/-- the first clause of the property the observed step breaks, or `none` -/
def stepClause (pre : Obs) (st : StepInfo) (post : Obs) : Option String :=
  match post.scopes.findSome? tokenClause with
  | some c => some c
  | none =>
    if !rejectOk pre st post then some "rejected_message_changed_state"
    else if !post.scopes.all (consentOne pre st) then some "owner_change_without_consent"
    else if !post.scopes.all (depositOne pre st) then some "deposit_without_permission"
    else if !post.scopes.all (grantUseOne pre st post) then some "authz_grant_not_used_up"
    else if !post.scopes.all (deleteOne st) then some "delete_left_token"
    else none

/-! ### What the model shows of a state -/

def holdersOf (l : Ledger) (d : Denom) : List (Addr × Int) :=
  (dedup (l.map (·.addr))).filterMap fun a => if Ledger.bal l a d ≠ 0 then some (a, Ledger.bal l a d) else none

def showParty (p : Party) : String := if p.optional then p.addr ++ "?" else p.addr

/-! ### The two queries, as the Go code computes them (not from the dump's other columns)

`queriesOk` compares them with the bank's view; `PvProofs.C09.queries_agree_with_token` proves they
agree on every invariant state. -/

/-- the `value_owner_address` of the `Scope` query (query_server.go:96 →
`GetScopeWithValueOwner` → `PopulateScopeValueOwner`, scope.go:107-123): the scope record is read
from the metadata store; when it is found its value owner is looked up through the bank's
`DenomOwner`; an error of that lookup and "nobody" both show as the empty string -/
def queryScopeValueOwner (s : State) (id : ScopeId) : String :=
  match findScope s id with
  | none => ""
  | some _ => match denomOwner s.ledger id with
    | .ok (some a) => a
    | _ => ""

/-- the `ValueOwnership` query (query_server.go:618): the scope ids of
`GetScopesForValueOwner(addr)` — a walk over the balances OF THAT ACCOUNT with the scope-denom
prefix (bank.go:52); no metadata-store read, no `DenomOwner` -/
def queryValueOwnership (s : State) (a : Addr) : List ScopeId := (scopesForValueOwner s.ledger a).map (·.2)

/-- the accounts whose `ValueOwnership` answer lists scope `id` (accounts that never received a
coin have no balances to walk) -/
def listedBy (s : State) (id : ScopeId) : List Addr :=
  (dedup (s.ledger.map (·.addr))).filter fun a => (queryValueOwnership s a).contains id

def observeScope (s : State) (id : ScopeId) : ScopeObs :=
  { id := id
    exists_ := hasScope s id
    owners := match findScope s id with | some e => e.owners.map showParty | none => []
    vo := match denomOwner s.ledger id with | .ok o => o.getD "" | .error _ => "!"
    holders := holdersOf s.ledger id
    supply := Ledger.supply s.ledger id
    qvo := queryScopeValueOwner s id
    listed := listedBy s id
    rollup := match findScope s id with | some e => e.rollup | none => false }

/-- holds in a canonical order (the dump lists them sorted) -/
def holdLe (x y : Addr × Denom) : Bool := x.1 < y.1 || (x.1 = y.1 && x.2 ≤ y.2)
def insertHold (x : Addr × Denom) : List (Addr × Denom) → List (Addr × Denom)
  | [] => [x]
  | y :: ys => if holdLe x y then x :: y :: ys else y :: insertHold x ys
def insertionSortHolds (hs : List (Addr × Denom)) : List (Addr × Denom) := hs.foldr insertHold []

def observe (s : State) (ids : List ScopeId) : Obs :=
  { scopes := ids.map (observeScope s), grants := s.grants, markers := s.markers, orders := s.orders,
    holds := insertionSortHolds s.holds }

def stepInfo (op : Op) (accepted : Bool) : StepInfo :=
  match op with
  | .write _ _ _ _ signers => { kind := .msg .write, signers, accepted }
  | .delete id signers => { kind := .msg .delete, signers, target := some id, accepted }
  | .updvo _ _ signers => { kind := .msg .updvo, signers, accepted }
  | .migrate _ _ signers => { kind := .msg .migrate, signers, accepted }
  | .send frm _ _ => { kind := .send, signers := [frm], accepted }
  | .mwithdraw _ admin _ _ => { kind := .mwithdraw, signers := [admin], accepted }
  | .msend frm _ => { kind := .send, signers := [frm], accepted }          -- bank MsgMultiSend: the one input signs
  | .mtransfer admin _ _ _ => { kind := .mwithdraw, signers := [admin], accepted }  -- marker MsgTransfer: the administrator signs
  | .mkadd .. => { kind := .env, signers := [], accepted }                     -- marker MsgAdd(FinalizeActivate)Marker on a scope denom: may move or mint nothing
  | .fund .. => { kind := .env, signers := [], accepted }
  | .grant .. => { kind := .env, signers := [], accepted }
  | .revoke .. => { kind := .env, signers := [], accepted }
  | .access .. => { kind := .env, signers := [], accepted }
  | .mstatus .. => { kind := .env, signers := [], accepted }
  | .ask .. => { kind := .env, signers := [], accepted }                       -- moves nothing
  | .fill buyer oid _ => { kind := .fill oid, signers := [buyer], accepted }
  | .cancel .. => { kind := .env, signers := [], accepted }                    -- moves nothing

end PvModel.Vowner
