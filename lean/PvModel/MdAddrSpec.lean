/-
C14 — declarative side of the MetadataAddress codec: what the documentation says an address
is (x/metadata/spec/01_concepts.md "Metadata Addresses", keys.go:24-37), independent of the
control flow of `address.go`.

An address is `type byte ‖ primary uuid (16) ‖ tail`, where the tail is empty (scope, scope
spec, contract spec), a 16-byte session uuid (session) or the first 16 bytes of the sha256 of
the normalised name (record, record spec).  Sessions and records are children of the scope
with the same primary uuid; a record spec is a child of the contract spec with the same
primary uuid.
-/
import PvModel.MdAddr

namespace PvModel.MdAddr

/-- the type whose address is the parent of an address of this type -/
def Kind.parent? : Kind → Option Kind
  | .session => some .scope | .record => some .scope | .recordSpec => some .contractSpec
  | _ => none

/-- length of the part after the primary uuid -/
def Kind.tailLen (k : Kind) : Nat := k.len - 17

/-- the documented components of an address -/
structure Parts where
  kind : Kind
  primary : Bytes
  tail : Bytes
  deriving DecidableEq, Repr

/-- components have the documented sizes -/
def Parts.WF (p : Parts) : Prop := p.primary.length = 16 ∧ p.tail.length = p.kind.tailLen

instance (p : Parts) : Decidable p.WF := by unfold Parts.WF; infer_instance

/-- components → bytes -/
def Parts.toBytes (p : Parts) : Bytes := p.kind.byte :: (p.primary ++ p.tail)

/-- bytes → components (only for byte strings of a documented shape) -/
def Parts.ofBytes? (bz : Bytes) : Option Parts :=
  match bz with
  | [] => none
  | b :: r =>
    match Kind.ofByte? b with
    | none => none
    | some k => if bz.length = k.len then some ⟨k, r.take 16, r.drop 16⟩ else none

/-- the parent address's components -/
def Parts.parent? (p : Parts) : Option Parts := p.kind.parent?.map fun k => ⟨k, p.primary, []⟩

/-- a byte string has a documented shape: known type byte and the length of that type -/
def WellFormed (bz : Bytes) : Prop := ∃ k ∈ Kind.all, bz.head? = some k.byte ∧ bz.length = k.len

instance (bz : Bytes) : Decidable (WellFormed bz) := by unfold WellFormed; infer_instance

/-- a human readable part `Encode` writes unchanged and `Decode` accepts: not empty, printable
ASCII (33..126), no upper-case letter -/
def HrpOK (hrp : List Char) : Prop :=
  hrp ≠ [] ∧ ∀ c ∈ hrp, 33 ≤ c.toNat ∧ c.toNat ≤ 126 ∧ isUpperAscii c = false

instance (hrp : List Char) : Decidable (HrpOK hrp) := by unfold HrpOK; infer_instance

end PvModel.MdAddr
