/-
Line-protocol driver + implementation-output checker for the C17 model (`trig`).

ops (one block = `begin …`, transactions, `end`):
  fund A 1000
  pay A B 5
  emit transfer:recipient=B&amount=            synthetic tx event appended to the block's history
  create auth=A+B ev=<event> acts=<a>|<a> rem=<gas remaining at RegisterTrigger>
         event:  h:<height> | t:<time> | tx:<name>[:k=v&k=v]             (`~` stands for a space)
         time:   <unix seconds>[.<fraction, up to 9 digits>]             (kept in nanoseconds)
         action: send:<from>:<to>:<amt> | kill:<authority>:<id> | boom
  destroy A 3
  begin h=21 t=1700000005.25 used=3.0:7630,3.1:912
                                               used = gas the handler of (trigger id . action index)
                                               consumed on the gas meter it was given, observed from
                                               the implementation (an absent entry is 0)
  end
  dump

Every verdict is the property evaluated on the *observed* history: the driver keeps, next to the
model's state, a store rebuilt only from the implementation's own answers (results, typed events,
dumps) and judges each implementation output against that store — at most once (`ran_twice`), only
detected (`ran_before_detection`, `ran_unknown_trigger`), FIFO (`fifo_order`), caps (`cap_count`,
`cap_gas`), prepaid gas (`gas_used_above_prepaid`), no starvation (`stopped_early`), all or nothing (`success_with_failed_action`,
`not_all_or_nothing:*`), detection (`detected_twice`, `detected_unregistered`,
`detected_without_condition`), creation (`action_signer_not_authority`, `gas_limit_above_cap`,
`gas_not_prepaid`, `id_reused`), destruction (`destroyed_by_stranger`, `destroyed_while_queued`,
`destroyed_nonexistent`, `owner_cannot_destroy`), one place (`two_places`, `queued_twice`,
`listener_mismatch`, `gas_limit_mismatch`, `queue_counters`, `id_out_of_range`).  A panicking block
function gets no verdict (C17 states no liveness / no-panic clause); it, and any other disagreement
between model and implementation that breaks none of the clauses, is left to the correspondence diff.
-/
import PvModel.TrigSpec
-- registry: trig PvModel.Trig.driver

namespace PvModel.Trig
open PvModel

def accounts : List Addr := ["A", "B", "C", "D", "E"]
def denom : String := "vcoin"

/-- driver state: the model's keeper+bank state `s`, the current block header and its tx-event
history, and — for the checker — the *observed* state `o`: the same kind of store, but rebuilt only
from what the implementation answered (its results, its dumps), plus the ids the implementation
reported as executed and every trigger the implementation accepted.  Verdicts are evaluated on `o`,
never on `s`: they are the property on the observed history, whatever the model thinks. -/
structure DState where
  s : State := State.init
  height : Nat := 0
  time : Nat := 0
  events : List AbciEvent := []
  o : State := State.init
  oevents : List AbciEvent := []     -- the block's event history as the implementation printed it
  executed : List Nat := []
  known : List (Nat × Trigger) := []
  used : List ((Nat × Nat) × Nat) := []   -- this block's observed gas use per (trigger id, action)

private def unesc (s : String) : String := s.replace "~" " "

private def parseAttrs (s : String) : List (String × String) :=
  (splitList s "&").map fun kv =>
    match kv.splitOn "=" with
    | k :: rest => (unesc k, unesc ("=".intercalate rest))
    | [] => ("", "")

/-- `<seconds>[.<fraction>]` → nanoseconds -/
def parseTime? (s : String) : Option Nat :=
  match s.splitOn "." with
  | [sec] => (parseNat? sec).map (· * 1000000000)
  | [sec, frac] =>
    if frac.length = 0 ∨ frac.length > 9 then none else
    match parseNat? sec, parseNat? (frac ++ String.ofList (List.replicate (9 - frac.length) '0')) with
    | some a, some b => some (a * 1000000000 + b)
    | _, _ => none
  | _ => none

def parseEvent (s : String) : Option Event :=
  match s.splitOn ":" with
  | ["h", n] => (parseNat? n).map .height
  | ["t", n] => (parseTime? n).map .time
  | ["tx", name] => some (.tx (unesc name) [])
  | "tx" :: name :: rest => some (.tx (unesc name) (parseAttrs (":".intercalate rest)))
  | _ => none

def parseAction (s : String) : Option Action :=
  match s.splitOn ":" with
  | ["send", f, t, a] => (parseNat? a).map (.send f t ·)
  | ["kill", a, id] => (parseNat? id).map (.kill a ·)
  | ["boom"] => some .boom
  | _ => none

def parseAbci (s : String) : Option AbciEvent :=
  match s.splitOn ":" with
  | [ty] => some ⟨unesc ty, []⟩
  | ty :: rest => some ⟨unesc ty, parseAttrs (":".intercalate rest)⟩
  | [] => none

private def parseUsed (s : String) : List ((Nat × Nat) × Nat) :=
  (splitList s ",").filterMap fun e =>
    match e.splitOn ":" with
    | [k, g] => match k.splitOn ".", parseNat? g with
      | [a, b], some g => match parseNat? a, parseNat? b with
        | some a, some b => some ((a, b), g)
        | _, _ => none
      | _, _ => none
    | _ => none

def costOf (used : List ((Nat × Nat) × Nat)) (id i : Nat) : Nat :=
  ((used.find? (·.1 == (id, i))).map (·.2)).getD 0

def outcomeOf (s : String) : Outcome :=
  if s == "ok" then .ok else if s == "oog" then .oog else if s == "panic" then .panic else .err

private def j (xs : List String) (sep : String := ",") : String :=
  if xs.isEmpty then "-" else sep.intercalate xs

private def insertNat (x : Nat) : List Nat → List Nat
  | [] => [x]
  | y :: ys => if x ≤ y then x :: y :: ys else y :: insertNat x ys
def sortNat (xs : List Nat) : List Nat := xs.foldr insertNat []

def regIds (s : State) : List Nat := (List.range s.nextId).filter fun i => (s.triggers i).isSome

def balStr (bal : Addr → Nat) : String := j (accounts.map fun a => s!"{a}:{bal a}")

def dump (s : State) : String :=
  let reg := (List.range s.nextId).filterMap fun i => (s.triggers i).map fun t => s!"{i}:{t.owner}"
  let lis := (sortNat (s.listeners.map (·.id))).map toString
  let gas := (List.range s.nextId).filterMap fun i => (s.gasLimits i).map fun g => s!"{i}:{g}"
  let q := (List.range (s.qStart + s.qLen + 2)).filterMap fun i =>
    (s.qItems i).map fun it => s!"{i}.{it.trigger.id}.{it.height}"
  s!"next={s.nextId} reg={j reg} lis={j lis} gas={j gas} q={s.qStart}:{s.qLen}:{j q} bal={balStr s.bal}"

def execStr (x : Exec) : String :=
  s!"{x.id}:{x.gas}:{boolStr x.success}:{".".intercalate (x.outcomes.map Outcome.toString)}"

def abciStr (e : AbciEvent) : String :=
  let esc (s : String) := s.replace " " "~"
  esc e.type ++ "[" ++ "&".intercalate (e.attrs.map fun a => esc a.1 ++ "=" ++ esc a.2) ++ "]"

/-! ### the checker: the property's clauses evaluated on the implementation's output -/

private def field (ws : List String) (k : String) : String := (kv ws k).getD "-"

private def natList (s : String) : List Nat := (splitList s ",").filterMap parseNat?

structure ImplExec where
  id : Nat
  gas : Nat
  success : Bool
  outs : List String

private def parseImplExec (s : String) : List ImplExec :=
  (splitList s ",").filterMap fun e =>
    match e.splitOn ":" with
    | [id, g, ok, outs] => match parseNat? id, parseNat? g with
      | some id, some g => some ⟨id, g, ok == "1", outs.splitOn "."⟩
      | _, _ => none
    | _ => none

-- `fitCount` (how many queue heads fit the per-block caps) lives in `TrigSpec`:
-- `PvProofs.C17.runs_exactly_the_triggers_that_fit` is about it.

def verdictBegin (d : DState) (impl : String) : String :=
  let ws := words impl
  -- a panicking block function breaks no stated clause of C17 (all are safety clauses): no verdict;
  -- the correspondence diff still reports it when the model does not panic too
  if ws.head? != some "ok" then "-" else
  let xs := parseImplExec (field ws "exec")
  let ids := xs.map (·.id)
  let q := qIds d.o
  let rec order (ids q : List Nat) (seen : List Nat) : Option String :=
    match ids, q with
    | [], _ => none
    | i :: is, qh :: qt =>
      if i = qh then order is qt (i :: seen)
      else if seen.contains i ∨ d.executed.contains i then some "fail:ran_twice"
      else if registered d.o i then some "fail:ran_before_detection"
      else if (qh :: qt).contains i then some "fail:fifo_order"
      else some "fail:ran_unknown_trigger"
    | i :: _, [] =>
      if seen.contains i ∨ d.executed.contains i then some "fail:ran_twice"
      else if registered d.o i then some "fail:ran_before_detection"
      else some "fail:ran_unknown_trigger"
  match order ids q [] with
  | some f => f
  | none =>
    let gasOf (i : Nat) := (d.o.gasLimits i).getD 0
    if ids.length > MaximumActions then "fail:cap_count"
    else if (ids.map gasOf).sum > MaximumQueueGas then "fail:cap_gas"
    -- the work of a trigger's completed actions is within the gas its creator prepaid
    else if xs.any fun x => !withinPrepaid (gasOf x.id) (costOf d.used x.id) (x.outs.map outcomeOf) then
      "fail:gas_used_above_prepaid"
    else if ids.length < fitCount d.o q MaximumActions 0 then "fail:stopped_early"
    else
      let items := (qList d.o).take ids.length
      let execs : List Exec := (xs.zip items).map fun (x, it) =>
        ⟨x.id, gasOf x.id, x.success, [], it.trigger.actions⟩
      let badSucc := (xs.zip items).any fun (x, it) =>
        x.success && (x.outs.any (· != "ok") || x.outs.length != it.trigger.actions.length)
      if badSucc then "fail:success_with_failed_action"
      else
        let exp := expectedBal d.o.bal execs
        let kills := killsOf execs
        let expReg := (regIds d.o).filter fun i => !kills.contains i
        if balStr exp != field ws "bal" then "fail:not_all_or_nothing:balances"
        else if expReg != natList (field ws "reg") then "fail:not_all_or_nothing:registry"
        -- the documented per-block cap is on ACTIONS (x/trigger/spec/06: "a maximum of 5 actions …
        -- per BeginBlock"); the code counts triggers (known finding C17-action-cap-counts-triggers)
        else if (xs.map (·.outs.length)).sum > MaximumActions then "fail:more_actions_than_the_per_block_cap"
        else "ok"

def verdictEnd (d : DState) (impl : String) : String :=
  let ws := words impl
  -- a panicking EndBlock (see observations/C17.md) is outside C17's clauses: no verdict
  if ws.head? != some "ok" then "-" else
    let ids := natList (field ws "det")
    let rec go (ids seen : List Nat) : String :=
      match ids with
      | [] => "ok"
      | i :: is =>
        if seen.contains i then "fail:detected_twice"
        else match d.o.triggers i with
          | none => "fail:detected_unregistered"
          | some t =>
            if !conditionMet t.event d.oevents d.height d.time then "fail:detected_without_condition"
            else go is (i :: seen)
    go ids []

def verdictCreate (d : DState) (m : CreateMsg) (rem : Nat) (impl : String) : String :=
  let ws := words impl
  if ws.head? != some "ok" then "ok" else
  match (kv ws "id").bind parseNat?, (kv ws "gas").bind parseNat? with
  | some id, some g =>
    if !signersCovered m then "fail:action_signer_not_authority"
    else if g > MaximumTriggerGas then "fail:gas_limit_above_cap"
    else if g + SetGasLimitCost > rem then "fail:gas_not_prepaid"
    else if place d.o id != .unborn then "fail:id_reused"
    else "ok"
  | _, _ => "fail:create_output_unreadable"

def verdictDestroy (d : DState) (auth : Addr) (id : Nat) (impl : String) : String :=
  let r := (words impl).headD ""
  match place d.o id, d.o.triggers id with
  | .waiting, some t =>
    if r == "ok" then (if t.owner == auth then "ok" else "fail:destroyed_by_stranger")
    else if t.owner == auth ∧ validAddr auth then "fail:owner_cannot_destroy" else "ok"
  | .queued, _ => if r == "ok" then "fail:destroyed_while_queued" else "ok"
  | _, _ => if r == "ok" then "fail:destroyed_nonexistent" else "ok"

def verdictDump (impl : String) : String :=
  let ws := words impl
  let ids (k : String) : List Nat :=
    (splitList (field ws k) ",").filterMap fun e => parseNat? ((e.splitOn ":").headD "")
  let reg := ids "reg"
  let lis := natList (field ws "lis")
  let gasE := (splitList (field ws "gas") ",").filterMap fun e =>
    match e.splitOn ":" with
    | [a, b] => match parseNat? a, parseNat? b with | some a, some b => some (a, b) | _, _ => none
    | _ => none
  match (field ws "q").splitOn ":" with
  | [st, ln, items] =>
    let qs := (splitList items ",").filterMap fun e =>
      match e.splitOn "." with
      | [i, id, _] => match parseNat? i, parseNat? id with | some i, some id => some (i, id) | _, _ => none
      | _ => none
    let start := (parseNat? st).getD 0
    let len := (parseNat? ln).getD 0
    let next := ((kv ws "next").bind parseNat?).getD 0
    let qids := qs.map (·.2)
    if reg.any qids.contains then "fail:two_places"
    else if qids.any fun i => (qids.filter (· == i)).length > 1 then "fail:queued_twice"
    else if sortNat lis != reg then "fail:listener_mismatch"
    else if gasE.map (·.1) != sortNat (reg ++ qids) then "fail:gas_limit_mismatch"
    else if gasE.any fun e => e.2 > MaximumTriggerGas then "fail:gas_limit_above_cap"
    else if qs.map (·.1) != (List.range len).map (start + ·) then "fail:queue_counters"
    else if (reg ++ qids).any fun i => i = 0 ∨ i ≥ next then "fail:id_out_of_range"
    else "ok"
  | _ => "fail:dump_unreadable"

/-! ### the observed state: rebuilt from the implementation's answers only -/

private def lookupNat {α} (xs : List (Nat × α)) (i : Nat) : Option α := (xs.find? (·.1 == i)).map (·.2)

/-- resynchronise with a dump printed by the implementation -/
def resync (d : DState) (impl : String) : State :=
  let ws := words impl
  let pairs (k : String) : List (Nat × String) := (splitList (field ws k) ",").filterMap fun (e : String) =>
    match e.splitOn ":" with
    | [a, b] => (parseNat? a).map (·, b)
    | _ => none
  let reg := pairs "reg"
  let gas := (pairs "gas").filterMap fun e => (parseNat? e.2).map (e.1, ·)
  let trig (i : Nat) (owner : String) : Trigger :=
    match lookupNat d.known i with
    | some t => t
    | none => ⟨i, owner, .height 0, []⟩
  let (start, len, items) := match (field ws "q").splitOn ":" with
    | [st, ln, items] =>
      ((parseNat? st).getD 1, (parseNat? ln).getD 0, (splitList items ",").filterMap fun (e : String) =>
        match e.splitOn "." with
        | [i, id, h] => match parseNat? i, parseNat? id, parseNat? h with
          | some i, some id, some h => some (i, (⟨trig id "?", 0, h⟩ : QItem))
          | _, _, _ => none
        | _ => none)
    | _ => (1, 0, [])
  let bal := (splitList (field ws "bal") ",").filterMap fun (e : String) =>
    match e.splitOn ":" with
    | [a, b] => (parseNat? b).map (a, ·)
    | _ => none
  { nextId := ((kv ws "next").bind parseNat?).getD 1
    triggers := fun i => (lookupNat reg i).map (trig i)
    listeners := []
    gasLimits := lookupNat gas
    qItems := lookupNat items
    qStart := start
    qLen := len
    bal := fun a => ((bal.find? (fun (p : String × Nat) => p.1 == a)).map (·.2)).getD 0 }

private def parseBal (s : String) (dflt : Addr → Nat) : Addr → Nat :=
  let bal := (splitList s ",").filterMap fun (e : String) =>
    match e.splitOn ":" with
    | [a, b] => (parseNat? b).map (a, ·)
    | _ => none
  fun a => ((bal.find? (fun (p : String × Nat) => p.1 == a)).map (·.2)).getD (dflt a)

/-- the observed state after the implementation's BeginBlock: its executed triggers leave the queue
(and lose their gas limit), balances and registry are the ones it printed -/
def observeBegin (o : State) (impl : String) : State :=
  let ws := words impl
  let xs := parseImplExec (field ws "exec")
  let o := xs.foldl (fun o x => removeGasLimit (if o.qLen = 0 then o else dequeue o) x.id) o
  let reg := natList (field ws "reg")
  { o with bal := parseBal (field ws "bal") o.bal
           triggers := fun i => if reg.contains i then o.triggers i else none }

def observeEnd (o : State) (h t : Nat) (impl : String) : State :=
  (natList (field (words impl) "det")).foldl (fun o i =>
    match o.triggers i with
    | some tr => queueTrigger (removeTrigger o i) tr h t
    | none => o) o

/-- `type[k=v&k=v];type[…]` as printed for a `pay` -/
def parsePrintedEvents (s : String) : List AbciEvent :=
  (splitList s ";").filterMap fun (e : String) =>
    match e.splitOn "[" with
    | [ty, rest] => some ⟨unesc ty, parseAttrs ((rest.splitOn "]").headD "")⟩
    | _ => none

/-! ### stepping -/

def parseCreate (ws : List String) : Option (CreateMsg × Nat) := do
  let auth := splitList (field ws "auth") "+"
  let ev ← parseEvent (← kv ws "ev")
  let acts ← (splitList (field ws "acts")).mapM parseAction
  let rem ← (kv ws "rem") >>= parseNat?
  pure (⟨auth, ev, acts⟩, rem)

def stepOp (d : DState) (ws : List String) (impl : Option String) : DState × String × String :=
  let v (f : String → String) : String := match impl with | some i => f i | none => "-"
  /- `obs f` = the new observed state: `f` applied to the implementation's answer, or the model's
  own new state when the line carries no implementation output -/
  let implOk : Bool := match impl with | some i => (words i).head? == some "ok" | none => false
  match ws with
  | ["dump"] =>
    let o := match impl with | some i => resync d i | none => d.s
    ({ d with o := o }, dump d.s, v verdictDump)
  | ["fund", a, amt] =>
    match parseNat? amt with
    | some n => ({ d with s := (step d.s (.fund a n)).1, o := (step d.o (.fund a n)).1 }, "ok", "-")
    | none => (d, "bad-op", "-")
  | ["pay", f, t, amt] =>
    match parseNat? amt with
    | some n =>
      let o := if implOk then (match bankSend d.o f t n with | .ok o' => o' | .error _ => d.o) else d.o
      let oev := match impl with
        | some i => if implOk then parsePrintedEvents ((words i).getD 1 "-") else []
        | none => []
      match bankSend d.s f t n with
      | .ok s' =>
        let evs := sendEvents f t n denom
        ({ d with s := s', o := if impl.isNone then s' else o, events := d.events ++ evs,
                  oevents := d.oevents ++ (if impl.isNone then evs else oev) },
         "ok " ++ ";".intercalate (evs.map abciStr), "-")
      | .error e => ({ d with o := o, oevents := d.oevents ++ oev }, "err:" ++ e.toString, "-")
    | none => (d, "bad-op", "-")
  | ["emit", e] =>
    match parseAbci e with
    | some ev => ({ d with events := d.events ++ [ev], oevents := d.oevents ++ [ev] }, "ok", "-")
    | none => (d, "bad-op", "-")
  | "create" :: rest =>
    match parseCreate rest with
    | none => (d, "bad-op", "-")
    | some (m, rem) =>
      let vd := v (verdictCreate d m rem)
      -- what the implementation says it stored
      let (o, known) := match impl with
        | some i =>
          let iw := words i
          match implOk, (kv iw "id").bind parseNat?, (kv iw "gas").bind parseNat? with
          | true, some id, some g =>
            let t : Trigger := ⟨id, m.authorities.headD "?", m.event, m.actions⟩
            (setGasLimit (setTrigger { d.o with nextId := id + 1 } t) id g, (id, t) :: d.known)
          | _, _, _ => (d.o, d.known)
        | none => (d.o, d.known)
      match createTrigger d.s m rem d.height d.time with
      | .ok (s', id, g) =>
        let t : Trigger := ⟨id, m.authorities.headD "?", m.event, m.actions⟩
        ({ d with s := s', o := if impl.isNone then s' else o,
                  known := if impl.isNone then (id, t) :: d.known else known },
         s!"ok id={id} gas={g}", vd)
      | .error e => ({ d with o := o, known := known }, "err:" ++ e.toString, vd)
  | ["destroy", auth, id] =>
    match parseNat? id with
    | none => (d, "bad-op", "-")
    | some id =>
      let vd := v (verdictDestroy d auth id)
      let o := if implOk then removeGasLimit (removeTrigger d.o id) id else d.o
      match destroyTrigger d.s auth id with
      | .ok s' => ({ d with s := s', o := if impl.isNone then s' else o }, "ok", vd)
      | .error e => ({ d with o := o }, "err:" ++ e.toString, vd)
  | "begin" :: rest =>
    match (kv rest "h") >>= parseNat?, (kv rest "t") >>= parseTime? with
    | some h, some t =>
      let used := parseUsed (field rest "used")
      let d := { d with height := h, time := t, events := [], oevents := [], used := used }
      let vd := v (verdictBegin d)
      let (o, ex) := match impl with
        | some i => if implOk then (observeBegin d.o i, (parseImplExec (field (words i) "exec")).map (fun (x : ImplExec) => x.id)) else (d.o, [])
        | none => (d.o, [])
      match processTriggers d.s (costOf used) with
      | some (s', xs) =>
        ({ d with s := s', o := if impl.isNone then s' else o,
                  executed := (if impl.isNone then xs.map (fun (x : Exec) => x.id) else ex) ++ d.executed },
         s!"ok exec={j (xs.map execStr)} bal={balStr s'.bal} reg={j ((regIds s').map toString)}", vd)
      | none => ({ d with o := o, executed := ex ++ d.executed }, "panic", vd)
    | _, _ => (d, "bad-op", "-")
  | ["end"] =>
    let vd := v (verdictEnd d)
    let o := match impl with
      | some i => if implOk then observeEnd d.o d.height d.time i else d.o
      | none => d.o
    match detectBlockEvents d.s d.events d.height d.time with
    | some (s', ts) => ({ d with s := s', o := if impl.isNone then s' else o },
        s!"ok det={j (ts.map fun t => toString t.id)}", vd)
    | none => ({ d with o := o }, "panic", vd)
  | _ => (d, "bad-op", "-")

def driver : Driver where
  σ := DState
  init := {}
  step := fun d op impl => stepOp d (words op) impl

end PvModel.Trig
