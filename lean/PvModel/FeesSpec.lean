/-
C19 — declarative side: what "the exact rational result rounded as documented" means,
as decidable predicates (used both in the theorems of `PvProofs.C19` and, executed on the
implementation's observed outputs, by the search of DESIGN §2.4).
-/
import PvModel.Fees

namespace PvModel.Fees

/-- `r = ⌈a / b⌉` for `b > 0` (no division in the statement). -/
def IsCeilDiv (a b r : Int) : Prop := b * (r - 1) < a ∧ a ≤ b * r
/-- `r = ⌊a / b⌋` for `b > 0`. -/
def IsFloorDiv (a b r : Int) : Prop := b * r ≤ a ∧ a < b * (r + 1)

instance (a b r : Int) : Decidable (IsCeilDiv a b r) := by unfold IsCeilDiv; exact inferInstance
instance (a b r : Int) : Decidable (IsFloorDiv a b r) := by unfold IsFloorDiv; exact inferInstance

/-- Round away from zero: the documented behaviour of `QuoIntRoundUp` for all signs. -/
def roundAway (a b : Int) : Int :=
  let q : Int := (a.natAbs / b.natAbs : Nat)
  let q' := if a.natAbs % b.natAbs = 0 then q else q + 1
  a.sign * b.sign * q'

/-- Ceiling division by a positive divisor via floor division. -/
def ceilDiv (a b : Int) : Int := (a + b - 1) / b

/-- The commitment settlement charge, written from x/exchange/spec/01_concepts.md
("Commitment Settlement Fee Calculation"): convert every non-fee, non-intermediary input to
the intermediary denom at 18 decimals (truncating each), sum, round up to a whole unit,
convert to the fee denom rounding up, add the fee-denom input, apply `bips / 20000`
rounding up. -/
def csfSpec (i : CsfIn) : Int × Int × Int :=
  let dec := (if i.sameDenom then 0 else i.convAmt * decOne) +
    (i.others.map fun (c, p, a) => (c * p * decOne) / a).sum
  let convInt := ceilDiv dec decOne
  let total := i.feeAmt + ceilDiv (convInt * i.navP) i.navA
  (convInt, total, ceilDiv (total * i.bips) 20000)

/-- All inputs of a `CsfIn` are in the on-chain domain: non-negative amounts, positive navs. -/
def CsfIn.wf (i : CsfIn) : Bool :=
  decide (0 ≤ i.feeAmt) && decide (0 ≤ i.convAmt) && decide (0 < i.navP ∨ i.sameDenom) && decide (0 < i.navA) &&
  i.others.all (fun (c, p, a) => decide (0 ≤ c) && decide (0 ≤ p) && decide (0 < a)) &&
  (!i.sameDenom || (i.navP == 1 && i.navA == 1))

/-! ### what a recipient of message fees is owed by one transaction -/

/-- the documented share of recipient `r` in denom `d` of ONE fee `amt den` split at `bips` for
`rcpt`: the exact `amt·bips/10000` rounded down. -/
def shareOf (r : String) (d : Denom) (den : Denom) (amt : Int) (bips : Nat) (rcpt : String) : Int :=
  if rcpt = r ∧ den = d ∧ 0 < amt then (amt * (bips : Int)) / 10000 else 0

/-- the assessed custom fee in the fee denom (usd at `rate` nhash per usd mil) -/
def assessAmt (rate : Nat) (den : Denom) (amt : Int) : Int := if den = "usd" then amt * (rate : Int) else amt

/-- the share of `r` in the fee configured for a message's type: explicit basis points — every
value from 0 to 10,000 — as given, the default 5,000 when none are given -/
def cfgWant (r : String) (d : Denom) : Option PayCfg → Int
  | some c => shareOf r d c.den c.amt (c.bips.getD 5000) c.rcpt
  | none => 0

/-- the share of `r` in an assessed custom fee: explicit basis points as given, the whole (10,000)
when none are given -/
def assessWant (rate : Nat) (r : String) (d : Denom) : Option (Denom × Int × Option Nat × String) → Int
  | some (den, amt, bs, rcpt) => shareOf r d "nhash" (assessAmt rate den amt) (bs.getD 10000) rcpt
  | none => 0

/-- the documented shares of recipient `r` in denom `d` of ONE message -/
def msgWant (rate : Nat) (cfg : List PayCfg) (r : String) (d : Denom) (m : PayMsg) : Int :=
  cfgWant r d (cfg.find? (·.typ = m.typ)) + assessWant rate r d m.assess

/-- Documentation (x/msgfees/spec): what recipient `r` is owed in denom `d` by the transaction is
the sum of its shares over the messages. -/
def payWant (rate : Nat) (cfg : List PayCfg) (msgs : List PayMsg) (r : String) (d : Denom) : Int :=
  (msgs.map (msgWant rate cfg r d)).sum

/-- the additional fees of the transaction in denom `d` (what the fee offered has to cover on top
of the base fee) -/
def payTotal (rate : Nat) (cfg : List PayCfg) (msgs : List PayMsg) (d : Denom) : Int :=
  (msgs.map fun m =>
    (match cfg.find? (·.typ = m.typ) with
     | some c => if c.den = d then c.amt else 0
     | none => 0) +
    (match m.assess with
     | some (den, amt, _, _) => if d = "nhash" then assessAmt rate den amt else 0
     | none => 0)).sum

/-- the on-chain domain of a `paytx` case: proposals and messages that pass `ValidateBasic`
(positive fees, basis points 0..10,000 and only with a recipient, one fee per msg type, assessed
amounts in usd or the fee denom) -/
def payWf (cfg : List PayCfg) (msgs : List PayMsg) : Bool :=
  cfg.all (fun c => decide (0 < c.amt) && decide (c.bips.getD 0 ≤ 10000) && !(c.rcpt = "" && c.bips.isSome)) &&
  (cfg.map (·.typ)).Nodup &&
  msgs.all (fun m => match m.assess with
    | some (den, amt, bs, _) => decide (0 < amt) && decide (bs.getD 0 ≤ 10000) && (den = "usd" || den = "nhash")
    | none => true)

end PvModel.Fees
