/-
C19 — declarative side: what "the exact rational result rounded as documented" means,
as decidable predicates (used both in the theorems of `PvProofs.C19` and, executed on the
implementation's observed outputs, by the search of DESIGN §2.4).
-/
import PvModel.Fees

namespace PvModel.Fees

/-- `r = ⌈a / b⌉` for `b > 0` (no division in the statement). -/
def IsCeilDiv (a b r : Int) : Prop := b * (r - 1) < a ∧ a ≤ b * r
/-- `r = ⌊a / b⌋` for `b > 0`. -/
def IsFloorDiv (a b r : Int) : Prop := b * r ≤ a ∧ a < b * (r + 1)

instance (a b r : Int) : Decidable (IsCeilDiv a b r) := by unfold IsCeilDiv; exact inferInstance
instance (a b r : Int) : Decidable (IsFloorDiv a b r) := by unfold IsFloorDiv; exact inferInstance

/-- Round away from zero: the documented behaviour of `QuoIntRoundUp` for all signs. -/
def roundAway (a b : Int) : Int :=
  let q : Int := (a.natAbs / b.natAbs : Nat)
  let q' := if a.natAbs % b.natAbs = 0 then q else q + 1
  a.sign * b.sign * q'

/-- Ceiling division by a positive divisor via floor division. -/
def ceilDiv (a b : Int) : Int := (a + b - 1) / b

/-- The commitment settlement charge, written from x/exchange/spec/01_concepts.md
("Commitment Settlement Fee Calculation"): convert every non-fee, non-intermediary input to
the intermediary denom at 18 decimals (truncating each), sum, round up to a whole unit,
convert to the fee denom rounding up, add the fee-denom input, apply `bips / 20000`
rounding up. -/
def csfSpec (i : CsfIn) : Int × Int × Int :=
  let dec := (if i.sameDenom then 0 else i.convAmt * decOne) +
    (i.others.map fun (c, p, a) => (c * p * decOne) / a).sum
  let convInt := ceilDiv dec decOne
  let total := i.feeAmt + ceilDiv (convInt * i.navP) i.navA
  (convInt, total, ceilDiv (total * i.bips) 20000)

/-- All inputs of a `CsfIn` are in the on-chain domain: non-negative amounts, positive navs. -/
def CsfIn.wf (i : CsfIn) : Bool :=
  decide (0 ≤ i.feeAmt) && decide (0 ≤ i.convAmt) && decide (0 < i.navP ∨ i.sameDenom) && decide (0 < i.navA) &&
  i.others.all (fun (c, p, a) => decide (0 ≤ c) && decide (0 ≤ p) && decide (0 < a)) &&
  (!i.sameDenom || (i.navP == 1 && i.navA == 1))

end PvModel.Fees
