/-
C01 — order settlement (executable model).

Mirrors, function for function (file:line of the pinned repo):
* `Order.Split`                         x/exchange/orders.go:243
* `AskOrder/BidOrder.GetHoldAmount`     x/exchange/orders.go:368,482
* `BuildSettlement`                     x/exchange/fulfillment.go:38
  - `validateCanSettle`                 :394
  - `allocateAssets` / `getFulfillmentAssetsAmt` / `distributeAssets`   :457,486,323
  - `splitPartial` / `splitOrderFulfillments` / `SplitOrder`            :499,508,358
  - `allocatePrice` / `getFulfillmentPriceAmt` / `distributePrice`      :536,640,348
  - `setFeesToPay`                      :652   (ratio fee = `Fees.applyLooselyTo`, C19's model)
  - `validateFulfillments` / `orderFulfillment.Validate`                :676,692
  - `buildTransfers` / `getAssetTransfer` / `getPriceTransfer` / `IndexedAddrAmts`  :732,804,845,88
  - `populateFilled`                    :783
* `Keeper.CollectFees` / `CollectFee` / `CalculateExchangeSplit` / `closeSettlement`
                                        x/exchange/keeper/keeper.go:236-330, keeper/fulfillment.go:267
  (as balance deltas over the shared `Ledger`).

Modelling choice (DESIGN §4 C01): the Go code mutates pairs of `orderFulfillment`s through
`distributeAssets(ask,bid,amt)` / `distributePrice(ask,bid,amt)`, which append one `distribution`
to *both* fulfillments and move `amt` between their filled/unfilled counters.  The model records
each such call as one trace entry `⟨ask index, bid index, amt⟩`; an order's `AssetDists`,
`PriceDists`, `AssetsFilledAmt`, `PriceAppliedAmt` are projections of the trace
(`filledA`, `filledB`, `distsOfAsk`, `distsOfBid`), its `…UnfilledAmt`/`PriceLeftAmt` are carried in
the list the loop recurses on (head = the order the Go index points at).

Branches of the Go code that are guarded by a check made immediately before (and so cannot fire)
are listed where they are left out.  Everything else, including every error return and the
panics (`sdkmath` 256-bit overflow, `bidOFs[b]` index out of range, "no bid orders left"), is
mirrored; `PvProofs.C01` proves which of them are unreachable.
Core-only, executable.
-/
import PvModel.IntMath
import PvModel.Coins
import PvModel.Fees
import PvModel.Util

namespace PvModel.Settle
open PvModel

/-- Result classes (the harness maps Go error texts / panics to the same names). -/
inductive Err where
  | empty          -- "no ask orders provided" / "no bid orders provided"
  | type           -- "... is not an ask order but is in the askOrders list ..."
  | denoms         -- "cannot settle with multiple ... denoms" / "cannot settle different ..."
  | assetsLeft     -- getFulfillmentAssetsAmt: "zero or negative assets left"
  | nofill         -- "has no assets filled"
  | notlast        -- "is not filled in full and is not the last ... order provided"
  | bothpartial    -- "cannot both be partially filled"
  | splitNotPositive | splitEquals | splitOver   -- Order.Split guards
  | noPartial      -- "order does not allow partial fulfillment"
  | priceDiv       -- "price ... is not evenly divisible"
  | feeDiv         -- "fee ... is not evenly divisible"
  | askGtBid       -- "total ask price ... is greater than total bid price ..."
  | ratioLookup    -- error returned by sellerFeeRatioLookup
  | ratioFee       -- "failed calculate ratio fee ..."
  | askPrice       -- Validate: "price ... is more than price filled"
  | bidPrice       -- Validate: "price ... is not equal to price filled"
  | assetsNe       -- Validate: "assets ... does not equal filled assets"
  | xferAssets     -- getAssetTransfer: amount not positive
  | xferPrice      -- getPriceTransfer: amount not positive
  | feeNeg         -- buildTransfers: "cannot pay ... in fees: negative amount"
  | overflow       -- sdkmath "integer overflow" panic
  | divzero        -- big.Int division by zero panic
  | panicIndex     -- `bidOFs[b]` index out of range in the first price pass
  | panicNoBids    -- "no bid orders left to allocate leftovers from" panic
  | fuel           -- model only: leftover loop ran out of fuel (proved unreachable)
  deriving DecidableEq, Repr

def Err.toString : Err → String
  | .empty => "err:empty" | .type => "err:type" | .denoms => "err:denoms"
  | .assetsLeft => "err:assets_left" | .nofill => "err:nofill" | .notlast => "err:notlast"
  | .bothpartial => "err:bothpartial"
  | .splitNotPositive => "err:split_notpositive" | .splitEquals => "err:split_equals"
  | .splitOver => "err:split_over" | .noPartial => "err:nopartial"
  | .priceDiv => "err:pricediv" | .feeDiv => "err:feediv"
  | .askGtBid => "err:askgtbid" | .ratioLookup => "err:ratiolookup" | .ratioFee => "err:ratiofee"
  | .askPrice => "err:askprice" | .bidPrice => "err:bidprice" | .assetsNe => "err:assetsne"
  | .xferAssets => "err:xferassets" | .xferPrice => "err:xferprice" | .feeNeg => "err:feeneg"
  | .overflow => "panic:overflow" | .divzero => "panic:divzero"
  | .panicIndex => "panic:index" | .panicNoBids => "panic:nobids" | .fuel => "model:fuel"

/-- `sdkmath.Int.Mul` (panics beyond 256 bits). -/
def mul (a b : Int) : Except Err Int :=
  if fits256 (a * b) then .ok (a * b) else .error .overflow

/-- `exchange.Order` with its `AskOrder`/`BidOrder` sub-order flattened.  An ask's `fees` is its
optional `SellerSettlementFlatFee` (zero or one coin); a bid's is `BuyerSettlementFees`. -/
structure Order where
  id : Nat
  isAsk : Bool
  owner : Addr
  assetsDenom : Denom
  assets : Int
  priceDenom : Denom
  price : Int
  fees : Coins
  allowPartial : Bool
  deriving Repr, DecidableEq, Inhabited

/-- orders.go:368 / :482 `GetHoldAmount`: ask = assets + flat fee unless the fee is in the price
denom; bid = fees + price. -/
def Order.holdAmount (o : Order) : Coins :=
  if o.isAsk then (o.assetsDenom, o.assets) :: o.fees.filter (fun c => c.1 ≠ o.priceDenom)
  else o.fees ++ [(o.priceDenom, o.price)]

/-! ### Order.Split (orders.go:243) -/

/-- The fee loop of `Split` (orders.go:274-282): each fee coin times `filled`, exactly divisible by
the order's assets or an error; the multiplication panics beyond 256 bits. -/
def splitFees (filled total : Int) : Coins → Except Err Coins
  | [] => .ok []
  | (d, x) :: rest =>
    match mul x filled with
    | .error e => .error e
    | .ok p =>
      if p.tmod total ≠ 0 then .error .feeDiv else
      match splitFees filled total rest with
      | .error e => .error e
      | .ok r => .ok ((d, p.tdiv total) :: r)

/-- pointwise `orderFees.Sub(feesFilled...)` (same denoms, same order). -/
def subFees : Coins → Coins → Coins
  | (d, x) :: rest, (_, y) :: rest' => (d, x - y) :: subFees rest rest'
  | l, _ => l

/-- `sdk.Coins` drops zero coins on `Add`/`Sub`. -/
def dropZero (c : Coins) : Coins := c.filter (fun x => x.2 ≠ 0)

/-- `Order.Split(assetsFilledAmt)` → `(filled, unfilled)`. -/
def Order.split (o : Order) (filled : Int) : Except Err (Order × Order) :=
  if filled ≤ 0 then .error .splitNotPositive
  else if filled = o.assets then .error .splitEquals
  else if filled > o.assets then .error .splitOver
  else if !o.allowPartial then .error .noPartial
  else
    match mul o.price filled with
    | .error e => .error e
    | .ok pp =>
      if pp.tmod o.assets ≠ 0 then .error .priceDiv else
      let priceFilled := pp.tdiv o.assets
      match splitFees filled o.assets o.fees with
      | .error e => .error e
      | .ok ff =>
        .ok ({ o with assets := filled, price := priceFilled, fees := dropZero ff },
             { o with assets := o.assets - filled, price := o.price - priceFilled,
                      fees := dropZero (subFees o.fees ff) })

/-! ### Trace of pairwise distributions -/

/-- One call of `distributeAssets(askOFs[ask], bidOFs[bid], amt)` / `distributePrice(…)`. -/
structure Tr where
  ask : Nat
  bid : Nat
  amt : Int
  deriving Repr, DecidableEq

/-- `AssetsFilledAmt` / `PriceAppliedAmt` of ask `i`: the sum of its distributions. -/
def filledA (t : List Tr) (i : Nat) : Int := ((t.filter (·.ask = i)).map (·.amt)).sum
/-- … of bid `j`. -/
def filledB (t : List Tr) (j : Nat) : Int := ((t.filter (·.bid = j)).map (·.amt)).sum

/-! ### validateCanSettle (fulfillment.go:394) -/

def validateCanSettle (asks bids : List Order) : Except Err Unit :=
  if asks.isEmpty ∨ bids.isEmpty then .error .empty
  else if asks.any (fun o => !o.isAsk) ∨ bids.any (fun o => o.isAsk) then .error .type
  else
    let a0 := asks.headD default
    let b0 := bids.headD default
    -- `len(total…) != 1`: all orders of a list share one asset denom and one price denom
    if asks.any (fun o => o.assetsDenom ≠ a0.assetsDenom) ∨ asks.any (fun o => o.priceDenom ≠ a0.priceDenom)
      ∨ bids.any (fun o => o.assetsDenom ≠ b0.assetsDenom) ∨ bids.any (fun o => o.priceDenom ≠ b0.priceDenom)
    then .error .denoms
    else if a0.assetsDenom ≠ b0.assetsDenom ∨ a0.priceDenom ≠ b0.priceDenom then .error .denoms
    else .ok ()

/-! ### allocateAssets (fulfillment.go:457) -/

/-- The two-pointer loop, for one ask: `a`,`b` are the Go indices, `x` = `AssetsUnfilledAmt` of
`askOFs[a]`, the list = `AssetsUnfilledAmt` of `bidOFs[b:]`.  Runs until the ask is filled (`a++`) or
the bids are used up.  `getFulfillmentAssetsAmt` rejects a non-positive side; the amount is the
minimum, so at least one side reaches zero (the Go "neither … could have assets filled in full"
return and the `DistributeAssets` overfill return cannot fire after `MinSDKInt`). -/
def fillAsk (a : Nat) : Int → Nat → List Int → Except Err (List Tr × Nat × List Int)
  | _, b, [] => .ok ([], b, [])
  | x, b, y :: ys =>
    if x ≤ 0 ∨ y ≤ 0 then .error .assetsLeft
    else if x < y then .ok ([⟨a, b, x⟩], b, (y - x) :: ys)
    else if y < x then
      match fillAsk a (x - y) (b + 1) ys with
      | .error e => .error e
      | .ok (t, b', r) => .ok (⟨a, b, y⟩ :: t, b', r)
    else .ok ([⟨a, b, x⟩], b + 1, ys)

/-- `allocateAssets`: the loop `for a < len(askOFs) && b < len(bidOFs)` as "each ask in turn takes
from the bids where the previous one stopped" (once the bids are used up nothing more happens). -/
def allocateAssets : Nat → List Int → Nat → List Int → Except Err (List Tr)
  | _, [], _, _ => .ok []
  | a, x :: xs, b, ys =>
    match fillAsk a x b ys with
    | .error e => .error e
    | .ok (t, b', r) =>
      match allocateAssets (a + 1) xs b' r with
      | .error e => .error e
      | .ok t' => .ok (t ++ t')

/-! ### splitPartial (fulfillment.go:499) -/

/-- `splitOrderFulfillments`: `i` is the Go index of the head of `orders`; `filled i` the
`AssetsFilledAmt` of order `i`; `left` is `settlement.PartialOrderLeft` so far.  Returns the orders
with the partially filled one replaced by its filled half, and the new `PartialOrderLeft`. -/
def splitOrderFulfillments (filled : Nat → Int) : Nat → List Order → Option Order →
    Except Err (List Order × Option Order)
  | _, [], left => .ok ([], left)
  | i, o :: rest, left =>
    if filled i = 0 then .error .nofill
    else if o.assets - filled i ≠ 0 then
      if !rest.isEmpty then .error .notlast
      else if left.isSome then .error .bothpartial
      else match o.split (filled i) with
        | .error e => .error e
        | .ok (f, u) => .ok ([f], some u)
    else match splitOrderFulfillments filled (i + 1) rest left with
      | .error e => .error e
      | .ok (r, l) => .ok (o :: r, l)

/-! ### allocatePrice (fulfillment.go:536) -/

/-- First pass, one ask (`for askOF.PriceLeftAmt.IsPositive() && bidOFs[b].PriceLeftAmt.IsPositive()`).
`p` = the ask's `PriceLeftAmt`, the list = `PriceLeftAmt` of `bidOFs[b:]`.  When the bid is not used up
the amount was the ask's whole remaining price, so the loop condition fails next. -/
def firstPassAsk (a : Nat) : Int → Nat → List Int → Except Err (List Tr × Nat × List Int)
  | p, b, [] => if 0 < p then .error .panicIndex else .ok ([], b, [])
  | p, b, l :: rest =>
    if 0 < p ∧ 0 < l then
      if l ≤ p then
        match firstPassAsk a (p - l) (b + 1) rest with
        | .error e => .error e
        | .ok (t, b', r) => .ok (⟨a, b, l⟩ :: t, b', r)
      else .ok ([⟨a, b, p⟩], b, (l - p) :: rest)
    else .ok ([], b, l :: rest)

/-- First pass over all asks (`for _, askOF := range askOFs`). -/
def firstPass : Nat → List Int → Nat → List Int → Except Err (List Tr × Nat × List Int)
  | _, [], b, bids => .ok ([], b, bids)
  | a, p :: ps, b, bids =>
    match firstPassAsk a p b bids with
    | .error e => .error e
    | .ok (t1, b1, r1) =>
      match firstPass (a + 1) ps b1 r1 with
      | .error e => .error e
      | .ok (t2, b2, r2) => .ok (t1 ++ t2, b2, r2)

/-- Inner `for !addPriceAmt.IsZero() && b < len(bidOFs) && bidOFs[b].PriceLeftAmt.LTE(addPriceAmt)`
(fulfillment.go:613): use up whole bids.  Returns trace, remaining `addPriceAmt`, `b`, bids. -/
def drain (a : Nat) : Int → Nat → List Int → List Tr × Int × Nat × List Int
  | add, b, [] => ([], add, b, [])
  | add, b, l :: rest =>
    if add ≠ 0 ∧ l ≤ add then
      let (t, add', b', r) := drain a (add - l) (b + 1) rest
      (⟨a, b, l⟩ :: t, add', b', r)
    else ([], add, b, l :: rest)

/-- State of the leftover loop (fulfillment.go:581-584): `nxt` = Go's `a + 1` (before the wrap test),
`fp` = `firstPass`, `lo` = `leftoverPriceAmt`, `b` and the `PriceLeftAmt` of `bidOFs[b:]`. -/
structure LoopSt where
  nxt : Nat
  fp : Bool
  lo : Int
  b : Nat
  bids : List Int
  deriving Repr, DecidableEq

/-- One round of the leftover loop body (fulfillment.go:585-633), entered with `lo ≠ 0`:
the distributions it records and the next state. -/
def leftoverStep (totalLeftover totalAssets : Int) (askFilled : List Int) (s : LoopSt) :
    Except Err (List Tr × LoopSt) :=
  -- a++; if a == len(askOFs) { a = 0; firstPass = false }
  let a := if s.nxt = askFilled.length then 0 else s.nxt
  let fp := if s.nxt = askFilled.length then false else s.fp
  if s.bids.isEmpty then .error .panicNoBids else
  match mul totalLeftover (askFilled.getD a 0) with
  | .error e => .error e
  | .ok prod =>
    if totalAssets = 0 then .error .divzero else
    if prod.tdiv totalAssets = 0 ∧ fp then .ok ([], ⟨a + 1, fp, s.lo, s.b, s.bids⟩)   -- `continue`
    else
      let add1 := if prod.tdiv totalAssets = 0 then 1 else prod.tdiv totalAssets
      let add := if add1 ≤ s.lo then add1 else s.lo
      match drain a add s.b s.bids with
      | (t1, add', b', []) =>
        -- `b == len(bidOFs)`: nothing more to take; the next round panics unless `lo` reached 0
        .ok (t1, ⟨a + 1, fp, s.lo - (add - add'), b', []⟩)
      | (t1, add', b', l :: rest) =>
        if add' ≠ 0 then
          .ok (t1 ++ [⟨a, b', add'⟩],
               ⟨a + 1, fp, s.lo - add, if l - add' = 0 then b' + 1 else b',
                if l - add' = 0 then rest else (l - add') :: rest⟩)
        else .ok (t1, ⟨a + 1, fp, s.lo - add, b', l :: rest⟩)

/-- The leftover loop `for !leftoverPriceAmt.IsZero()`.  `fuel` only makes the recursion structural;
`allocatePrice` passes a bound that `PvProofs.C01.allocatePrice_fuel_suffices` proves sufficient. -/
def leftoverLoop (totalLeftover totalAssets : Int) (askFilled : List Int) : Nat → LoopSt → Except Err (List Tr)
  | 0, s => if s.lo = 0 then .ok [] else .error .fuel
  | fuel + 1, s =>
    if s.lo = 0 then .ok [] else
    match leftoverStep totalLeftover totalAssets askFilled s with
    | .error e => .error e
    | .ok (t, s') =>
      match leftoverLoop totalLeftover totalAssets askFilled fuel s' with
      | .error e => .error e
      | .ok t' => .ok (t ++ t')

/-- `allocatePrice(askOFs, bidOFs)`: `askPrices`/`bidPrices` are the `PriceLeftAmt`s (= order prices
after `splitPartial`), `askFilled` the asks' `AssetsFilledAmt`. -/
def allocatePrice (askPrices bidPrices askFilled : List Int) : Except Err (List Tr) :=
  let totalAsk := askPrices.sum
  let totalBid := bidPrices.sum
  if totalAsk > totalBid then .error .askGtBid else
  match firstPass 0 askPrices 0 bidPrices with
  | .error e => .error e
  | .ok (t1, b, bids) =>
    let totalFirst := (t1.map (·.amt)).sum
    if totalFirst = totalBid then .ok t1 else
    let totalLeftover := totalBid - totalFirst
    let totalAssets := askFilled.sum
    match leftoverLoop totalLeftover totalAssets askFilled
        (askFilled.length + totalLeftover.toNat + 2) ⟨0, true, totalLeftover, b, bids⟩ with
    | .error e => .error e
    | .ok t2 => .ok (t1 ++ t2)

/-! ### setFeesToPay (fulfillment.go:652) -/

/-- A `FeeRatio` `price : fee`. -/
structure Ratio where
  priceDenom : Denom
  priceAmt : Int
  feeDenom : Denom
  feeAmt : Int
  deriving Repr, DecidableEq

/-- `sellerFeeRatio.ApplyToLoosely(askOF.GetPriceApplied())` (market.go:286,320). -/
def ratioFee (r : Ratio) (priceDenom : Denom) (applied : Int) : Except Err (Denom × Int) :=
  if r.priceDenom ≠ priceDenom then .error .ratioFee
  else match Fees.applyLooselyTo applied r.priceAmt r.feeAmt with
    | .error .overflow => .error .overflow
    | .error _ => .error .ratioFee
    | .ok (amt, _) => .ok (r.feeDenom, amt)

/-- `FeesToPay` of every ask: its flat fee plus the ratio fee of what it receives.  (Go collects
the per-ask errors and goes on; every ask hits the same denom / zero-divisor error before any
multiplication, so stopping at the first is the same result.) -/
def askFeesToPay (r : Option Ratio) (applied : Nat → Int) : Nat → List Order → Except Err (List Coins)
  | _, [] => .ok []
  | i, o :: rest =>
    match r with
    | none =>
      match askFeesToPay r applied (i + 1) rest with
      | .error e => .error e
      | .ok fs => .ok (o.fees :: fs)
    | some r' =>
      match ratioFee r' o.priceDenom (applied i) with
      | .error e => .error e
      | .ok fee =>
        match askFeesToPay r applied (i + 1) rest with
        | .error e => .error e
        | .ok fs => .ok ((o.fees ++ [fee]) :: fs)

/-! ### validateFulfillments (fulfillment.go:676) -/

/-- `orderFulfillment.Validate` for the orders of one side, first error wins (asks are checked
before bids, price before assets). -/
def validateSide (isAsk : Bool) (applied filled : Nat → Int) : Nat → List Order → Except Err Unit
  | _, [] => .ok ()
  | i, o :: rest =>
    if isAsk ∧ o.price > applied i then .error .askPrice
    else if ¬ isAsk ∧ o.price ≠ applied i then .error .bidPrice
    else if o.assets ≠ filled i then .error .assetsNe
    else validateSide isAsk applied filled (i + 1) rest

/-! ### IndexedAddrAmts (fulfillment.go:88) and the transfers -/

abbrev Indexed := List (Addr × Coins)

/-- every coin is zero (`sdk.Coins.IsZero`). -/
def allZero (c : Coins) : Bool := c.all (fun x => x.2 = 0)

def Indexed.insert (idx : Indexed) (addr : Addr) (coins : Coins) : Indexed :=
  match idx with
  | [] => [(addr, coins)]
  | (a, cs) :: rest => if a = addr then (a, cs ++ coins) :: rest else (a, cs) :: Indexed.insert rest addr coins

/-- `IndexedAddrAmts.Add` (a zero amount is ignored; a known address accumulates). -/
def Indexed.add (idx : Indexed) (addr : Addr) (coins : Coins) : Indexed :=
  if allZero coins then idx else idx.insert addr coins

structure Transfer where
  inputs : Indexed
  outputs : Indexed
  deriving Repr, DecidableEq

/-- the distributions of ask `i` as `(bid owner, amount)` in call order -/
def distsOfAsk (t : List Tr) (bids : List Order) (i : Nat) : List (Addr × Int) :=
  (t.filter (·.ask = i)).map fun e => ((bids.getD e.bid default).owner, e.amt)
/-- the distributions of bid `j` as `(ask owner, amount)` -/
def distsOfBid (t : List Tr) (asks : List Order) (j : Nat) : List (Addr × Int) :=
  (t.filter (·.bid = j)).map fun e => ((asks.getD e.ask default).owner, e.amt)

def indexDists (denom : Denom) (ds : List (Addr × Int)) : Indexed :=
  ds.foldl (fun idx d => idx.add d.1 [(denom, d.2)]) []

/-- `getAssetTransfer` of an ask (fulfillment.go:804): the filled amount and every distribution
must be positive (the `sumDists == assetsFilled` test compares a sum with itself here). -/
def getAssetTransfer (trA : List Tr) (bids : List Order) (i : Nat) (o : Order) : Except Err Transfer :=
  if filledA trA i ≤ 0 then .error .xferAssets
  else if (distsOfAsk trA bids i).any (fun d => d.2 ≤ 0) then .error .xferAssets
  else .ok { inputs := [(o.owner, [(o.assetsDenom, filledA trA i)])],
             outputs := indexDists o.assetsDenom (distsOfAsk trA bids i) }

/-- `getPriceTransfer` of a bid (fulfillment.go:845). -/
def getPriceTransfer (trP : List Tr) (asks : List Order) (j : Nat) (o : Order) : Except Err Transfer :=
  if filledB trP j ≤ 0 then .error .xferPrice
  else if (distsOfBid trP asks j).any (fun d => d.2 ≤ 0) then .error .xferPrice
  else .ok { inputs := [(o.owner, [(o.priceDenom, filledB trP j)])],
             outputs := indexDists o.priceDenom (distsOfBid trP asks j) }

/-- `record` of `buildTransfers` for one side: transfer, then fees (negative fee = error). -/
def recordSide (getter : Nat → Order → Except Err Transfer) :
    Nat → List Order → List Coins → Except Err (List Transfer)
  | _, [], _ => .ok []
  | i, o :: rest, fees =>
    match getter i o with
    | .error e => .error e
    | .ok t =>
      let f := fees.headD []
      if !allZero f ∧ f.any (fun c => c.2 < 0) then .error .feeNeg else
      match recordSide getter (i + 1) rest fees.tail with
      | .error e => .error e
      | .ok ts => .ok (t :: ts)

def indexFees : List Order → List Coins → Indexed → Indexed
  | o :: rest, f :: fs, idx => indexFees rest fs (idx.add o.owner f)
  | _, _, idx => idx

structure FilledOrder where
  order : Order
  actualPrice : Int
  actualFees : Coins
  deriving Repr, DecidableEq

structure Settlement where
  transfers : List Transfer
  feeInputs : Indexed
  fullyFilled : List FilledOrder
  partialFilled : Option FilledOrder
  partialLeft : Option Order
  deriving Repr, DecidableEq

/-- Everything `BuildSettlement` has decided before `validateFulfillments`: the orders after
`splitPartial`, what is left of the partial one, both traces, every order's `FeesToPay`. -/
structure Plan where
  asks : List Order
  bids : List Order
  partialLeft : Option Order
  trA : List Tr
  trP : List Tr
  askFees : List Coins
  bidFees : List Coins
  deriving Repr, DecidableEq

/-- `BuildSettlement` up to and including `setFeesToPay`.  `lookup` is `sellerFeeRatioLookup`. -/
def plan (asks bids : List Order) (lookup : Denom → Except Err (Option Ratio)) : Except Err Plan :=
  match validateCanSettle asks bids with
  | .error e => .error e
  | .ok () =>
  match allocateAssets 0 (asks.map (·.assets)) 0 (bids.map (·.assets)) with
  | .error e => .error e
  | .ok trA =>
  match splitOrderFulfillments (filledA trA) 0 asks none with
  | .error e => .error e
  | .ok (asks', left1) =>
  match splitOrderFulfillments (filledB trA) 0 bids left1 with
  | .error e => .error e
  | .ok (bids', left) =>
  match allocatePrice (asks'.map (·.price)) (bids'.map (·.price))
      ((List.range asks'.length).map (filledA trA)) with
  | .error e => .error e
  | .ok trP =>
  match lookup (asks'.headD default).priceDenom with
  | .error e => .error e
  | .ok ratio =>
  match askFeesToPay ratio (filledA trP) 0 asks' with
  | .error e => .error e
  | .ok askFees =>
    .ok { asks := asks', bids := bids', partialLeft := left, trA := trA, trP := trP,
          askFees := askFees, bidFees := bids'.map (·.fees) }

def zipFilled (os : List Order) (applied : Nat → Int) (fees : List Coins) (i : Nat) : List FilledOrder :=
  match os, fees with
  | o :: rest, f :: fs => ⟨o, applied i, f⟩ :: zipFilled rest applied fs (i + 1)
  | _, _ => []

/-- `populateFilled` (fulfillment.go:783): the order whose id equals `PartialOrderLeft`'s goes to
`PartialOrderFilled` (a later match overwrites an earlier one), the rest to `FullyFilledOrders`. -/
def populateFilled (fos : List FilledOrder) (left : Option Order) : List FilledOrder × Option FilledOrder :=
  match left with
  | none => (fos, none)
  | some l => (fos.filter (fun f => f.order.id ≠ l.id), (fos.filter (fun f => f.order.id = l.id)).getLast?)

/-- `validateFulfillments`, `buildTransfers`, `populateFilled`. -/
def Plan.settlement (p : Plan) : Except Err Settlement :=
  match validateSide true (filledA p.trP) (filledA p.trA) 0 p.asks with
  | .error e => .error e
  | .ok () =>
  match validateSide false (filledB p.trP) (filledB p.trA) 0 p.bids with
  | .error e => .error e
  | .ok () =>
  match recordSide (getAssetTransfer p.trA p.bids) 0 p.asks p.askFees with
  | .error e => .error e
  | .ok ta =>
  match recordSide (getPriceTransfer p.trP p.asks) 0 p.bids p.bidFees with
  | .error e => .error e
  | .ok tb =>
    let fos := zipFilled p.asks (filledA p.trP) p.askFees 0 ++ zipFilled p.bids (filledB p.trP) p.bidFees 0
    let (ff, pf) := populateFilled fos p.partialLeft
    .ok { transfers := ta ++ tb,
          feeInputs := indexFees p.bids p.bidFees (indexFees p.asks p.askFees []),
          fullyFilled := ff, partialFilled := pf, partialLeft := p.partialLeft }

/-- `exchange.BuildSettlement(askOrders, bidOrders, sellerFeeRatioLookup)`. -/
def buildSettlement (asks bids : List Order) (lookup : Denom → Except Err (Option Ratio)) :
    Except Err Settlement :=
  match plan asks bids lookup with
  | .error e => .error e
  | .ok p => p.settlement

/-! ### closeSettlement over the shared ledger (keeper/fulfillment.go:267, keeper.go:200-330) -/

def Indexed.debits (idx : Indexed) : Ledger := idx.flatMap fun (a, cs) => Ledger.entries a (Coins.neg cs)
def Indexed.credits (idx : Indexed) : Ledger := idx.flatMap fun (a, cs) => Ledger.entries a cs
def Indexed.total (idx : Indexed) : Coins := idx.flatMap (·.2)

/-- `DoTransfer`: every input is debited, every output credited (bank `SendCoins` /
`InputOutputCoinsProv`). -/
def Transfer.ledger (t : Transfer) : Ledger := t.inputs.debits ++ t.outputs.credits

/-- the distinct denoms of a coin list, in order of first appearance -/
def dedupDenoms : List Denom → List Denom
  | [] => []
  | d :: rest => d :: (dedupDenoms rest).filter (· ≠ d)

/-- `CalculateExchangeSplit(feeAmt)` (keeper.go:236): `feeAmt` is a merged `sdk.Coins`, so each denom is
seen once with its total; per denom `⌈amt·split/10000⌉` (`Fees.exchangeSplitCoin`, zero amounts and
zero splits are skipped). -/
def exchangeSplit (split : Denom → Nat) (total : Coins) : Except Err Coins :=
  (dedupDenoms (Coins.denoms total)).foldr (fun d acc =>
    match acc with
    | .error e => .error e
    | .ok cs =>
      match Fees.exchangeSplitCoin (Coins.amountOf total d) (split d) with
      | .error _ => .error .overflow
      | .ok none => .ok cs
      | .ok (some y) => .ok ((d, y) :: cs)) (.ok [])

/-- `IndexedAddrAmts.add` accumulates an address's fees with `sdk.Coins.Add`, whose `Int.Add` panics
("integer overflow") beyond 256 bits: every address's per-denom TOTAL of the fee inputs has to fit.
(Fees are non-negative here — a negative one is `feeNeg` — so no partial sum exceeds the total.) -/
def Indexed.sumsFit (idx : Indexed) : Bool :=
  idx.all fun e => (dedupDenoms (Coins.denoms e.2)).all fun d => fits256 (Coins.amountOf e.2 d)

/-- `exchange.BuildSettlement` as the real code behaves for sums beyond 256 bits as well: the
settlement `buildSettlement` computes, or the overflow panic of `IndexedAddrAmts.add` when one
payer's fees in one denom add up to more than 256 bits (nothing is built, the transaction fails). -/
def buildSettlementChecked (asks bids : List Order) (lookup : Denom → Except Err (Option Ratio)) :
    Except Err Settlement :=
  match buildSettlement asks bids lookup with
  | .error e => .error e
  | .ok s => if s.feeInputs.sumsFit then .ok s else .error .overflow

/-- `CollectFees`: all fee inputs to the market account, then the exchange's share from the market
to the fee collector. -/
def collectFees (market collector : Addr) (split : Denom → Nat) (feeInputs : Indexed) : Except Err Ledger :=
  match exchangeSplit split feeInputs.total with
  | .error e => .error e
  | .ok ex =>
    .ok (feeInputs.debits ++ Ledger.entries market feeInputs.total
          ++ Ledger.entries market (Coins.neg ex) ++ Ledger.entries collector ex)

/-- The balance deltas of `closeSettlement` (holds and order records are C02's subject). -/
def closeSettlement (market collector : Addr) (split : Denom → Nat) (s : Settlement) : Except Err Ledger :=
  match collectFees market collector split s.feeInputs with
  | .error e => .error e
  | .ok fl => .ok (s.transfers.flatMap Transfer.ledger ++ fl)

end PvModel.Settle
