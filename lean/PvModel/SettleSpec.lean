/-
C01 — declarative side: what "moves exactly the agreed assets, price and fees" means for a
`Settlement`, independent of how `BuildSettlement` computes it.  Everything here is a decidable
`Bool`/`Option String`: it is (a) the conclusion of the theorems in `PvProofs.C01` and (b) the checker
the driver runs on the *implementation's* output (`fail:<clause>`).
-/
import PvModel.Settle
import PvModel.FeesSpec

namespace PvModel.Settle
open PvModel PvModel.Coins

/-- An order as the exchange stores it (`AskOrder.Validate` / `BidOrder.Validate`): positive assets,
price and fees, asset denom ≠ price denom, at most one flat fee on an ask, distinct fee denoms. -/
def orderValid (o : Order) : Bool :=
  decide (0 < o.assets) && decide (0 < o.price) && o.fees.all (fun c => decide (0 < c.2))
    && decide (o.assetsDenom ≠ o.priceDenom) && (!o.isAsk || decide (o.fees.length ≤ 1))
    && decide ((o.fees.map (·.1)).Nodup)

def NonnegFees (c : Coins) : Prop := ∀ x ∈ c, 0 ≤ x.2

/-- the part of `orderValid` the theorems need: positive assets and price, non-negative fees -/
structure OrderPos (o : Order) : Prop where
  assets : 0 < o.assets
  price : 0 < o.price
  fees : NonnegFees o.fees

/-- The domain the property quantifies over: stored (valid) orders with distinct ids. -/
def inDomain (asks bids : List Order) : Bool :=
  (asks ++ bids).all orderValid && decide (((asks ++ bids).map (·.id)).Nodup)

/-- per-denom equality of two coin lists -/
def coinsEq (a b : Coins) : Bool :=
  (denoms a ++ denoms b).all fun d => decide (amountOf a d = amountOf b d)

/-- `assets : price : every fee` of `part` stand in the ratio `k : n` to those of `whole`. -/
def proportional (part whole : Order) (k n : Int) : Bool :=
  decide (part.assets * n = whole.assets * k) && decide (part.price * n = whole.price * k)
    && (denoms part.fees ++ denoms whole.fees).all fun d =>
        decide (amountOf part.fees d * n = amountOf whole.fees d * k)

/-- `a` is order `o` up to assets, price and fees (same id, side, owner, denoms, partial flag). -/
def Order.sameParty (a o : Order) : Prop :=
  a.id = o.id ∧ a.isAsk = o.isAsk ∧ a.owner = o.owner ∧ a.assetsDenom = o.assetsDenom ∧
  a.priceDenom = o.priceDenom ∧ a.allowPartial = o.allowPartial

instance (a o : Order) : Decidable (a.sameParty o) := by unfold Order.sameParty; exact inferInstance

/-- What `Order.Split` promises (orders.go:243 doc + spec/01_concepts.md "Partial Orders"):
`a` is the filled part, `b` what is left of `o` when `f` of its assets are filled. -/
def splitViolation (o : Order) (f : Int) (a b : Order) : Option String :=
  if ¬ (0 < f ∧ f < o.assets) then some "split_amount_range"
  else if ¬ o.allowPartial then some "split_not_allowed"
  else if ¬ (a.sameParty o ∧ b.sameParty o) then
    some "split_identity"
  else if ¬ (a.assets = f ∧ a.assets + b.assets = o.assets) then some "split_assets"
  else if a.price + b.price ≠ o.price then some "split_price_sum"
  else if ¬ coinsEq (a.fees ++ b.fees) o.fees then some "split_fee_sum"
  else if ¬ proportional a o f o.assets then some "split_filled_proportion"
  else if ¬ proportional b o (o.assets - f) o.assets then some "split_left_proportion"
  else if ¬ (0 < a.price ∧ 0 < b.price) then some "split_price_positive"
  else if ¬ coinsEq (a.holdAmount ++ b.holdAmount) o.holdAmount then some "split_hold"
  else none

/-! ### Settlement -/

/-- the filled orders as `BuildSettlement` sees them: every ask with what it receives and its fees,
then every bid (`populateFilled` only moves the partially filled one out of this list) -/
def Plan.filledOrders (p : Plan) : List FilledOrder :=
  zipFilled p.asks (filledA p.trP) p.askFees 0 ++ zipFilled p.bids (filledB p.trP) p.bidFees 0

def Settlement.filled (s : Settlement) : List FilledOrder := s.fullyFilled ++ s.partialFilled.toList

/-- what an order's owner gains (+) / gives (−) through the transfers -/
def FilledOrder.delta (f : FilledOrder) (d : Denom) : Int :=
  let a := if f.order.assetsDenom = d then f.order.assets else 0
  let p := if f.order.priceDenom = d then f.actualPrice else 0
  if f.order.isAsk then p - a else a - p

def expectedDelta (fos : List FilledOrder) (x : Addr) (d : Denom) : Int :=
  (fos.map fun f => if f.order.owner = x then f.delta d else 0).sum

def expectedFees (fos : List FilledOrder) (x : Addr) (d : Denom) : Int :=
  (fos.map fun f => if f.order.owner = x then amountOf f.actualFees d else 0).sum

/-- all fees of a denom paid by the filled orders -/
def totalFees (fos : List FilledOrder) (d : Denom) : Int :=
  (fos.map fun f => amountOf f.actualFees d).sum

def transfersNet (ts : List Transfer) (x : Addr) (d : Denom) : Int :=
  Ledger.bal (ts.flatMap Transfer.ledger) x d

def Indexed.amountFor (idx : Indexed) (x : Addr) (d : Denom) : Int :=
  (idx.map fun p => if p.1 = x then amountOf p.2 d else 0).sum

def Transfer.balanced (t : Transfer) : Bool :=
  (denoms t.inputs.total ++ denoms t.outputs.total).all fun d =>
    decide (amountOf t.inputs.total d = amountOf t.outputs.total d)

def Transfer.positive (t : Transfer) : Bool :=
  !t.inputs.isEmpty && !t.outputs.isEmpty &&
  (t.inputs ++ t.outputs).all fun p => !p.2.isEmpty && p.2.all (fun c => decide (0 < c.2))

/-- the ask's fees: its flat fee plus, when the market has a ratio, `⌈actual·fee/price⌉` -/
def askFeesOk (ratio : Option Ratio) (f : FilledOrder) : Bool :=
  match ratio with
  | none => coinsEq f.actualFees f.order.fees
  | some r =>
    (r.feeDenom :: denoms f.actualFees ++ denoms f.order.fees).all fun d =>
      let extra := amountOf f.actualFees d - amountOf f.order.fees d
      if d = r.feeDenom then decide (Fees.IsCeilDiv (f.actualPrice * r.feeAmt) r.priceAmt extra)
      else decide (extra = 0)

def allAddrs (s : Settlement) : List Addr :=
  (s.filled.map (·.order.owner)) ++ s.transfers.flatMap (fun t => (t.inputs ++ t.outputs).map (·.1))
    ++ s.feeInputs.map (·.1)

def allDenoms (s : Settlement) : List Denom :=
  s.filled.flatMap (fun f => [f.order.assetsDenom, f.order.priceDenom] ++ denoms f.actualFees)
    ++ s.transfers.flatMap (fun t => denoms t.inputs.total ++ denoms t.outputs.total)
    ++ denoms s.feeInputs.total

/-! The clauses of C01 for a `Settlement` `s` returned for the request `(asks, bids, ratio)`; each is
`true` when the clause holds. -/

/-- every requested order is filled exactly once (fully or partially), nothing else is -/
def clFilledIds (orig : List Order) (fos : List FilledOrder) : Bool :=
  decide (fos.length = orig.length) && orig.all (fun o => decide ((fos.filter (·.order.id = o.id)).length = 1))

/-- a partial order is left iff one is reported as partially filled -/
def clPartialPair (s : Settlement) : Bool := s.partialLeft.isSome == s.partialFilled.isSome

/-- the partially filled order is the last of its list -/
def clPartialLast (asks bids : List Order) (s : Settlement) : Bool :=
  match s.partialLeft, s.partialFilled with
  | some l, some pf =>
    match (asks ++ bids).find? (·.id = l.id) with
    | none => false
    | some o => decide (pf.order.id = l.id) && (decide (asks.getLast? = some o) || decide (bids.getLast? = some o))
  | _, _ => true

/-- the split of the partially filled order keeps the proportions (`splitViolation`) -/
def partialSplitViolation (asks bids : List Order) (s : Settlement) : Option String :=
  match s.partialLeft, s.partialFilled with
  | some l, some pf =>
    match (asks ++ bids).find? (·.id = l.id) with
    | none => none
    | some o => (splitViolation o pf.order.assets pf.order l).map ("partial_" ++ ·)
  | _, _ => none

/-- fully filled orders are the requested orders, unchanged -/
def clFullUnchanged (orig : List Order) (s : Settlement) : Bool :=
  s.fullyFilled.all fun f =>
    match orig.find? (·.id = f.order.id) with
    | none => false
    | some o => decide (f.order = o)

/-- buyers pay exactly their price -/
def clBidPaysExact (fos : List FilledOrder) : Bool :=
  fos.all fun f => f.order.isAsk || decide (f.actualPrice = f.order.price)
/-- sellers are paid at least their price -/
def clAskPaid (fos : List FilledOrder) : Bool :=
  fos.all fun f => !f.order.isAsk || decide (f.order.price ≤ f.actualPrice)
/-- buyers pay their own settlement fees -/
def clBidFees (fos : List FilledOrder) : Bool :=
  fos.all fun f => f.order.isAsk || coinsEq f.actualFees f.order.fees
/-- sellers pay flat + ⌈ratio⌉ -/
def clAskFees (ratio : Option Ratio) (fos : List FilledOrder) : Bool :=
  fos.all fun f => !f.order.isAsk || askFeesOk ratio f
def clBalanced (s : Settlement) : Bool := s.transfers.all (·.balanced)
def clPositive (s : Settlement) : Bool := s.transfers.all (·.positive)
/-- per account and denom the net of the transfers is what the account's orders say -/
def clAccountDeltas (s : Settlement) : Bool :=
  (allAddrs s).all fun x => (allDenoms s).all fun d =>
    decide (transfersNet s.transfers x d = expectedDelta s.filled x d)
/-- per account and denom the fee inputs are the fees of the account's orders -/
def clFeeInputs (s : Settlement) : Bool :=
  (allAddrs s).all fun x => (allDenoms s).all fun d =>
    decide (s.feeInputs.amountFor x d = expectedFees s.filled x d)
def clAssetsConserved (fos : List FilledOrder) : Bool :=
  decide (((fos.filter (·.order.isAsk)).map (·.order.assets)).sum = ((fos.filter (!·.order.isAsk)).map (·.order.assets)).sum)
def clPriceConserved (fos : List FilledOrder) : Bool :=
  decide (((fos.filter (·.order.isAsk)).map (·.actualPrice)).sum = ((fos.filter (!·.order.isAsk)).map (·.actualPrice)).sum)

/-- The first clause of C01 that the settlement `s` breaks for the request `(asks, bids, ratio)`,
or `none`. -/
def settlementViolation (asks bids : List Order) (ratio : Option Ratio) (s : Settlement) : Option String :=
  if !clFilledIds (asks ++ bids) s.filled then some "filled_ids"
  else if !clPartialPair s then some "partial_pair"
  else if !clPartialLast asks bids s then some "partial_not_last"
  else match partialSplitViolation asks bids s with
  | some c => some c
  | none =>
  if !clFullUnchanged (asks ++ bids) s then some "full_order_changed"
  else if !clBidPaysExact s.filled then some "bid_pays_exact_price"
  else if !clAskPaid s.filled then some "ask_paid_at_least_price"
  else if !clBidFees s.filled then some "bid_fees"
  else if !clAskFees ratio s.filled then some "ask_fees"
  else if !clBalanced s then some "transfer_balanced"
  else if !clPositive s then some "transfer_positive"
  else if !clAccountDeltas s then some "account_deltas"
  else if !clFeeInputs s then some "fee_inputs"
  else if !clAssetsConserved s.filled then some "assets_conserved"
  else if !clPriceConserved s.filled then some "price_conserved"
  else none

end PvModel.Settle
