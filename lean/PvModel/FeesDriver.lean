/-
Line-protocol driver + implementation-output checker for the C19 model (`fee`).
-/
import PvModel.FeesSpec
-- registry: fee PvModel.Fees.driver

namespace PvModel.Fees
open PvModel

private def showE {α} (f : α → String) : Except AErr α → String
  | .ok a => f a
  | .error e => e.toString

private def ints (ws : List String) : Option (List Int) := ws.mapM parseInt?

def parseTriple (s : String) : Option (Int × Int × Int) :=
  match (s.splitOn ":").mapM parseInt? with
  | some [a, b, c] => some (a, b, c)
  | _ => none

def parseCsf (ws : List String) : Option CsfIn := do
  let fee ← (kv ws "fee") >>= parseInt?
  let conv ← (kv ws "conv") >>= parseInt?
  let others ← (splitList ((kv ws "others").getD "-")).mapM parseTriple
  let nav ← kv ws "nav"
  let (p, a) ← match (nav.splitOn ":").mapM parseInt? with
    | some [p, a] => some (p, a)
    | _ => none
  let bips ← (kv ws "bips") >>= parseNat?
  let same ← kv ws "same"
  pure { feeAmt := fee, convAmt := conv, others := others, navP := p, navA := a, bips := bips, sameDenom := same = "1" }

/-- `den:amt:bips:rcpt` (`-` = no recipient) -/
def parseDistCall (s : String) : Option FeeDistCall :=
  match s.splitOn ":" with
  | [den, amt, bips, rcpt] =>
    match parseInt? amt, parseNat? bips with
    | some a, some b => some (den, a, b, if rcpt = "-" then "" else rcpt)
    | _, _ => none
  | _ => none

def distDenoms : List Denom := ["nhash", "usd", "btc"]
def distRecips : List String := ["r1", "r2", "r3"]

private def perDenom (f : Denom → Int) : String := "/".intercalate (distDenoms.map fun d => toString (f d))

def showDist (s : FeeDist) : String :=
  let rs := distRecips.map fun r => s!"{r}={perDenom (Ledger.bal s.recips r)}"
  s!"ok t={perDenom (Coins.amountOf s.total)} m={perDenom (Coins.amountOf s.module)} " ++ " ".intercalate rs

/-- parse `a/b/c` -/
def parseTripleSlash (s : String) : Option (List Int) := (s.splitOn "/").mapM parseInt?

/-- `d` = the empty basis-points string, else decimal digits -/
def parseBipsStr (s : String) : Option (Option Nat) :=
  if s = "d" then some none else (parseNat? s).map some

def parsePayCfg (s : String) : Option PayCfg :=
  match s.splitOn ":" with
  | typ :: den :: amt :: bips :: rcpt :: _ =>
    match parseInt? amt, parseBipsStr bips with
    | some a, some b => some { typ := typ, den := den, amt := a, bips := b, rcpt := if rcpt = "-" then "" else rcpt }
    | _, _ => none
  | _ => none

def parsePayMsg (s : String) : Option PayMsg :=
  match s.splitOn ":" with
  | [typ] => some { typ := typ }
  | ["assess", den, amt, bips, rcpt] =>
    match parseInt? amt, parseBipsStr bips with
    | some a, some b => some { typ := "assess", assess := some (den, a, b, if rcpt = "-" then "" else rcpt) }
    | _, _ => none
  | _ => none

/-- `123denom` -/
def parseCoin (s : String) : Option (Denom × Int) :=
  let cs := s.toList
  let ds := String.ofList (cs.takeWhile Char.isDigit)
  let den := String.ofList (cs.dropWhile Char.isDigit)
  if ds = "" ∨ den = "" then none else (parseInt? ds).map fun a => (den, a)

structure PayIn where
  rate : Nat
  base : Int
  cfg : List PayCfg
  msgs : List PayMsg
  fee : Coins

def parsePay (ws : List String) : Option PayIn := do
  let rate ← (kv ws "rate") >>= parseNat?
  let base ← (kv ws "base") >>= parseInt?
  let cfg ← (splitList ((kv ws "cfg").getD "-")).mapM parsePayCfg
  let msgs ← (splitList ((kv ws "msgs").getD "-") ",").mapM parsePayMsg
  let fee ← (splitList ((kv ws "fee").getD "-") ",").mapM parseCoin
  pure { rate := rate, base := base, cfg := cfg, msgs := msgs, fee := fee }

def payDenoms : List Denom := ["nhash", "hotdog"]

private def perPay (f : Denom → Int) : String := "/".intercalate (payDenoms.map fun d => toString (f d))

def showPay (i : PayIn) (l : Ledger) : String :=
  let rs := distRecips.map fun r => s!"{r}={perPay (Ledger.bal l r)}"
  let c := fun d => Coins.amountOf i.fee d - (distRecips.map fun r => Ledger.bal l r d).foldl (· + ·) 0
  "ok " ++ " ".intercalate rs ++ s!" c={perPay c} p={perPay fun d => - Coins.amountOf i.fee d}"

/-- Model output for one op line. -/
def run (ws : List String) : String :=
  match ws with
  | "paytx" :: rest =>
    match parsePay rest with
    | some i => match payTx i.rate i.cfg i.msgs with
      | .ok l => showPay i l
      | .error e => e
    | none => "bad-op"
  | ["dist", calls] =>
    match (splitList calls).mapM parseDistCall with
    | some cs => showE showDist (distIncreaseAll {} cs)
    | none => "bad-op"
  | ["quoup", a, b] =>
    match ints [a, b] with
    | some [a, b] => if b = 0 then "panic:divzero" else toString (quoIntRoundUp a b)
    | _ => "bad-op"
  | ["ratio", p, rp, rf] =>
    match ints [p, rp, rf] with
    | some [p, rp, rf] => showE (fun (a, r) => s!"ok {a} {boolStr r}") (applyLooselyTo p rp rf)
    | _ => "bad-op"
  | ["applyto", p, rp, rf] =>
    match ints [p, rp, rf] with
    | some [p, rp, rf] => showE (fun a => s!"ok {a}") (applyTo p rp rf)
    | _ => "bad-op"
  | ["exsplit", amt, split] =>
    match parseInt? amt, parseNat? split with
    | some a, some s => showE (fun o => match o with | some x => s!"ok {x}" | none => "ok -") (exchangeSplitCoin a s)
    | _, _ => "bad-op"
  | ["bips", amt, b] =>
    match parseInt? amt, parseNat? b with
    | some a, some b => showE (fun (r, m) => s!"ok {r} {m}") (splitCoinByBips a b)
    | _, _ => "bad-op"
  | "csf" :: rest =>
    match parseCsf rest with
    | some i => showE (fun (c, _, f) => s!"ok {c} {f}") (commitmentFee i)
    | none => "bad-op"
  | _ => "bad-op"

private def isPanic (s : String) : Bool := s.startsWith "panic"

/-- The property's conclusion evaluated on what the implementation returned
(`fail:<clause>` names the clause of C19 that the observed output breaks). -/
def check (ws : List String) (impl : String) : String :=
  let iw := words impl
  match ws with
  | "paytx" :: rest =>
    match parsePay rest with
    | some i =>
      if impl.startsWith "bad-op" then "-"
      else if !payWf i.cfg i.msgs then
        -- outside the domain (a proposal or message `ValidateBasic` refuses): it must not be paid out
        (if impl.startsWith "ok" then "fail:pay_accepts_invalid" else "ok")
      -- the fee offered has to cover the base fee and the additional fees
      else if payDenoms.any (fun d => Coins.amountOf i.fee d < (if d = "nhash" then i.base else 0) + payTotal i.rate i.cfg i.msgs d) then "-"
      else if !fits256 (Coins.amountOf i.fee "nhash") ∨ !fits256 (Coins.amountOf i.fee "hotdog") then "-"
      else
      match iw with
      | "ok" :: out =>
        match (distRecips.mapM fun r => (kv out r) >>= parseTripleSlash), (kv out "c") >>= parseTripleSlash,
              (kv out "p") >>= parseTripleSlash with
        | some rs, some c, some p =>
          let idx := List.range payDenoms.length
          let get := fun (xs : List Int) (k : Nat) => xs.getD k 0
          -- every recipient is paid exactly the sum of its shares, each rounded down
          if (distRecips.zip rs).any (fun (r, x) => idx.any fun k => get x k ≠ payWant i.rate i.cfg i.msgs r (payDenoms.getD k "")) then
            "fail:pay_recipient_share"
          -- the parts add up to the whole fee: collector + recipients = what the payer paid = the fee
          else if idx.any (fun k => get c k + (rs.map fun x => get x k).foldl (· + ·) 0 ≠ Coins.amountOf i.fee (payDenoms.getD k "")
                                    ∨ get p k ≠ - Coins.amountOf i.fee (payDenoms.getD k "")) then "fail:pay_adds_up"
          else if (c ++ rs.flatten).any (· < 0) then "fail:nonneg"
          else "ok"
        | _, _, _ => "fail:unparsed"
      | _ => "fail:never_fails:paytx"
    | none => "-"
  | ["dist", calls] =>
    match (splitList calls).mapM parseDistCall with
    | some cs =>
      -- a call is refused only when it is reached, has something to split (positive amount, a
      -- recipient) and names more than 10000 basis points (`increase_fails_iff`)
      let reachedInvalid := match distIncreaseAll {} cs with | .error _ => true | .ok _ => false
      if reachedInvalid then
        (if impl = "err:invalid" then "ok" else "fail:dist_accepts_invalid_bips")
      else
      match iw with
      | "ok" :: rest =>
        match (kv rest "t") >>= parseTripleSlash, (kv rest "m") >>= parseTripleSlash,
              (distRecips.mapM fun r => (kv rest r) >>= parseTripleSlash) with
        | some t, some m, some rs =>
          let sumR := fun (i : Nat) => (rs.map fun r => r.getD i 0).foldl (· + ·) 0
          let want := fun (d : Denom) => (cs.filter fun c => c.1 = d ∧ c.2.1 > 0).foldl (fun acc c => acc + c.2.1) (0 : Int)
          if (List.range 3).any (fun i => t.getD i 0 ≠ m.getD i 0 + sumR i) then "fail:dist_adds_up"
          else if (List.range 3).any (fun i => t.getD i 0 ≠ want (distDenoms.getD i "")) then "fail:dist_total"
          else if (m ++ rs.flatten).any (· < 0) then "fail:nonneg"
          else "ok"
        | _, _, _ => "fail:unparsed"
      | _ => "fail:never_fails:dist"
    | none => "-"
  | ["quoup", a, b] =>
    match ints [a, b], parseInt? impl with
    | some [a, b], some r => if b = 0 then "-" else if r = roundAway a b then "ok" else "fail:quoup_round_away"
    | some [_, b], none => if b = 0 then "-" else "fail:never_fails:quoup"
    | _, _ => "-"
  | ["ratio", p, rp, rf] =>
    match ints [p, rp, rf] with
    | some [p, rp, rf] =>
      if rp ≤ 0 ∨ p < 0 ∨ rf < 0 then "-" else
      match iw with
      | ["ok", a, r] =>
        match parseInt? a with
        | some a =>
          if ¬ IsCeilDiv (p * rf) rp a then "fail:ratio_is_ceil"
          else if (r = "1") ≠ decide ((p * rf) % rp ≠ 0) then "fail:ratio_rounded_flag"
          else if a < 0 then "fail:nonneg" else "ok"
        | none => "fail:unparsed"
      | ["err:invalid"] =>
        -- an orderly refusal is right exactly when the fee itself is not a coin amount (≥ 2^256)
        if fits256 (ceilDiv (p * rf) rp) then "fail:never_fails:ratio" else "ok"
      | _ => if fits256 (p * rf) then "fail:never_fails:ratio" else "fail:never_fails:ratio_product_ge_2^256"
    | _ => "-"
  | ["applyto", p, rp, rf] =>
    match ints [p, rp, rf] with
    | some [p, rp, rf] =>
      if rp ≤ 0 ∨ p < 0 ∨ rf < 0 then "-" else
      match iw with
      | ["ok", a] =>
        match parseInt? a with
        | some a => if a * rp = p * rf then "ok" else "fail:applyto_exact"
        | none => "fail:unparsed"
      | ["err:invalid"] =>
        if (p * rf) % rp ≠ 0 ∨ !fits256 (ceilDiv (p * rf) rp) then "ok" else "fail:applyto_refuses_exact"
      | _ => if fits256 (p * rf) then "fail:never_fails:applyto" else "fail:never_fails:ratio_product_ge_2^256"
    | _ => "-"
  | ["exsplit", amt, split] =>
    match parseInt? amt, parseNat? split with
    | some a, some s =>
      if a < 0 ∨ s > 10000 then "-" else
      match iw with
      | ["ok", "-"] => if a = 0 ∨ s = 0 then "ok" else "fail:exsplit_skipped"
      | ["ok", x] =>
        match parseInt? x with
        | some x => if IsCeilDiv (a * s) 10000 x ∧ 0 ≤ x ∧ x ≤ a then "ok" else "fail:exsplit_is_ceil"
        | none => "fail:unparsed"
      | _ => if fits256 (a * s) then "fail:never_fails:exsplit" else "fail:never_fails:exsplit_product_ge_2^256"
    | _, _ => "-"
  | ["bips", amt, b] =>
    match parseInt? amt, parseNat? b with
    | some a, some b =>
      if a < 0 then "-" else
      match iw with
      | ["ok", r, m] =>
        match parseInt? r, parseInt? m with
        | some r, some m =>
          if b > 10000 then "fail:bips_accepts_invalid"
          else if ¬ IsFloorDiv (a * b) 10000 r then "fail:bips_floor"
          else if r + m ≠ a then "fail:bips_adds_up"
          else if r < 0 ∨ m < 0 then "fail:nonneg" else "ok"
        | _, _ => "fail:unparsed"
      | ["err:invalid"] => if b > 10000 then "ok" else "fail:bips_rejects_valid"
      | _ => if a < 2 ^ 63 then "fail:never_fails:bips" else "fail:never_fails:bips_amount_ge_2^63"
    | _, _ => "-"
  | "csf" :: rest =>
    match parseCsf rest with
    | some i =>
      if !i.wf then "-" else
      let (c, _, f) := csfSpec i
      match iw with
      | ["ok", c', f'] =>
        if parseInt? c' ≠ some c then "fail:csf_converted_total"
        else if parseInt? f' ≠ some f then "fail:csf_fee"
        else if f < 0 then "fail:nonneg" else "ok"
      | _ => match commitmentFee i with
        | .error .overflow => "fail:never_fails:csf_intermediate_ge_2^256"
        | _ => "fail:never_fails:csf"
    | none => "-"
  | _ => "-"

def driver : Driver where
  σ := Unit
  init := ()
  step := fun _ op impl =>
    let ws := words op
    ((), run ws, match impl with | some i => check ws i | none => "-")

end PvModel.Fees
