/-
C02 — funds on hold always equal the account's open exchange obligations (executable model).

State = exchange records (orders, commitments, payments, market switches/fee options) + the hold
store + the bank, the last two as append-only `Ledger`s (PvModel/Coins.lean).

Mirrors, function for function (file:line of the pinned provenance commit):
* `AskOrder.GetHoldAmount` / `BidOrder.GetHoldAmount`       x/exchange/orders.go:368,482
* `Order.Split`                                              x/exchange/orders.go:243
* `AddHold` / `ValidateNewHold` / `ReleaseHold`              x/hold/keeper/keeper.go:67,93,137
* `placeHoldOnOrder` / `releaseHoldOnOrder`                  x/exchange/keeper/orders.go:565,582
* `CreateAskOrder` / `CreateBidOrder` / `CancelOrder` / `CancelAllOrdersForMarket`
                                                             x/exchange/keeper/orders.go:624,668,709,820
* `validateFlatFee`, `validateAskPrice`, `validateBuyerSettlementFee` (flat part)
                                                             x/exchange/keeper/market.go:143,412,539
* `allocateAssets`, `splitOrderFulfillments`, `validateCanSettle` (denoms)
                                                             x/exchange/fulfillment.go:394,457,508
* `SettleOrders` / `closeSettlement` / `FillBids` / `FillAsks`
                                                             x/exchange/keeper/fulfillment.go:42,138,229,267
* `addCommitment` / `ReleaseCommitment(s)` / `ReleaseAllCommitmentsForMarket` / `SettleCommitments`
                                                             x/exchange/keeper/commitments.go:101,157,192,210,371
* `CreatePayment` / `AcceptPayment` / `RejectPayment(s)` / `CancelPayments` / `UpdatePaymentTarget`
                                                             x/exchange/keeper/payments.go:204,226,293,322,355,389
* `CloseMarket`                                              x/exchange/keeper/market.go:1601
* `InitGenesis` (hold coverage check)                        x/exchange/keeper/genesis.go:12
* bank `SendCoins` (spendable = balance − hold for the base accounts used here)

What is *not* modelled here (other properties own it): the price/fee arithmetic of a settlement
(C01) — `settle`/`fill*` take the implementation's observed outcome class and net balance moves as
an input (`Oracle`) and model exactly which orders end filled/partial, which holds are released,
what is written back; market admission by required attributes (C20) — the harness markets have none.

Core Lean only.
-/
import PvModel.Coins
import PvModel.Util

namespace PvModel.Exhold
open PvModel

abbrev Coin := Denom × Int

/-! ### Coins helpers (merge-normalised, order-insensitive) -/

/-- `sdk.Coins.Add` for one coin: merge into the entry of the same denom, else append. -/
def addCoin (c : Coin) : Coins → Coins
  | [] => [c]
  | (d, x) :: rest => if d = c.1 then (d, x + c.2) :: rest else (d, x) :: addCoin c rest

/-- merge-normal form: one entry per denom, zero entries dropped (what `sdk.Coins` arithmetic
returns, up to order; order never matters to the hold keeper). -/
def norm (cs : Coins) : Coins :=
  (cs.foldl (fun acc c => addCoin c acc) []).filter fun c => c.2 ≠ 0

def nodupDenoms : Coins → Bool
  | [] => true
  | (d, _) :: rest => !(Coins.denoms rest).contains d && nodupDenoms rest

def sortedDenoms : Coins → Bool
  | [] => true
  | [_] => true
  | (d, _) :: (d', x) :: rest => decide (d < d') && sortedDenoms ((d', x) :: rest)

/-- `sdk.Coins.Validate` (non-empty case): strictly sorted, no duplicates, all amounts positive.
An empty list is valid. -/
def isValidCoins (cs : Coins) : Bool :=
  cs.all (fun c => decide (0 < c.2)) && nodupDenoms cs && sortedDenoms cs

/-- `sdk.Coins.IsAnyNegative` -/
def anyNegative (cs : Coins) : Bool := cs.any fun c => decide (c.2 < 0)

/-- `sdk.Coins.IsZero`: every entry is zero (empty included) -/
def allZero (cs : Coins) : Bool := cs.all fun c => decide (c.2 = 0)

/-! ### Records -/

structure Order where
  id : Nat
  market : Nat
  owner : Addr
  isAsk : Bool
  assets : Coin
  price : Coin
  /-- ask: `SellerSettlementFlatFee` (zero or one coin); bid: `BuyerSettlementFees` -/
  fees : Coins
  allowPartial : Bool
  deriving Repr, DecidableEq

structure Commitment where
  market : Nat
  account : Addr
  amount : Coins
  deriving Repr, DecidableEq

structure Payment where
  source : Addr
  extId : String
  target : Addr          -- "" = no target
  sourceAmt : Coins
  targetAmt : Coins
  deriving Repr, DecidableEq

structure Market where
  id : Nat
  acceptingOrders : Bool := true
  userSettle : Bool := true
  acceptingCommitments : Bool := true
  createAskFlat : Coins := []
  createBidFlat : Coins := []
  createCommitFlat : Coins := []
  sellerFlat : Coins := []
  buyerFlat : Coins := []
  /-- seller settlement ratios `(price denom, price amount, fee amount)` (fee denom = price denom) -/
  sellerRatio : List (Denom × Int × Int) := []
  deriving Repr, DecidableEq

structure State where
  markets : List Market := []
  orders : List Order := []
  lastOrderId : Nat := 0
  commitments : List Commitment := []
  payments : List Payment := []
  hold : Ledger := []
  bank : Ledger := []
  deriving Repr

inductive Err where
  | invalid | market | perm | fee | funds | hold | notfound | orders | denoms | alloc | split | partialx
  | exists_ | mismatch | target | commitx | oracle (cls : String) | genesis
  deriving Repr, DecidableEq

def Err.toString : Err → String
  | .invalid => "err:invalid" | .market => "err:market" | .perm => "err:perm" | .fee => "err:fee"
  | .funds => "err:funds" | .hold => "err:hold" | .notfound => "err:notfound"
  | .orders => "err:orders" | .commitx => "err:commit"
  | .denoms => "err:denoms" | .alloc => "err:alloc" | .split => "err:split"
  | .partialx => "err:partial" | .exists_ => "err:exists" | .mismatch => "err:mismatch"
  | .target => "err:target" | .oracle c => c | .genesis => "panic:genesis"

/-! ### Hold amounts -/

/-- `AskOrder.GetHoldAmount` (assets + flat fee unless the fee is in the price denom) and
`BidOrder.GetHoldAmount` (price + buyer fees). -/
def holdAmt (o : Order) : Coins :=
  if o.isAsk then
    match o.fees.head? with
    | some fee => if fee.1 ≠ o.price.1 then addCoin fee [o.assets] else [o.assets]
    | none => [o.assets]
  else addCoin o.price o.fees

def hold (s : State) (a : Addr) (d : Denom) : Int := Ledger.bal s.hold a d
def bal (s : State) (a : Addr) (d : Denom) : Int := Ledger.bal s.bank a d
/-- bank `SpendableCoins` of a base account: balance minus what the hold module locks. -/
def spendable (s : State) (a : Addr) (d : Denom) : Int := bal s a d - hold s a d

/-! ### Obligations (what the records say must be reserved) -/

def ordersObl (os : List Order) (a : Addr) (d : Denom) : Int :=
  match os with
  | [] => 0
  | o :: rest => (if o.owner = a then Coins.amountOf (holdAmt o) d else 0) + ordersObl rest a d

def commitsObl (cs : List Commitment) (a : Addr) (d : Denom) : Int :=
  match cs with
  | [] => 0
  | c :: rest => (if c.account = a then Coins.amountOf c.amount d else 0) + commitsObl rest a d

def paysObl (ps : List Payment) (a : Addr) (d : Denom) : Int :=
  match ps with
  | [] => 0
  | p :: rest => (if p.source = a then Coins.amountOf p.sourceAmt d else 0) + paysObl rest a d

def obligations (s : State) (a : Addr) (d : Denom) : Int :=
  ordersObl s.orders a d + commitsObl s.commitments a d + paysObl s.payments a d

/-! ### Hold keeper -/

/-- `ValidateNewHold`: every non-zero coin must be covered by the spendable balance. -/
def validateNewHold (s : State) (a : Addr) (funds : Coins) : Bool :=
  if allZero funds then true
  else if anyNegative funds then false
  else funds.all fun c => c.2 = 0 || decide (c.2 ≤ spendable s a c.1)

/-- `AddHold` (all-or-nothing: validation precedes every write). -/
def addHold (s : State) (a : Addr) (funds : Coins) : Option State :=
  if allZero funds then some s
  else if validateNewHold s a funds then some { s with hold := s.hold ++ Ledger.entries a funds }
  else none

/-- the loop of `ReleaseHold`: a coin that would drive the amount negative records an error and
is skipped; the other coins are still released. -/
def releaseLoop (h : Ledger) (a : Addr) : Coins → Ledger × Bool
  | [] => (h, true)
  | (d, x) :: rest =>
    if x = 0 then releaseLoop h a rest
    else if Ledger.bal h a d - x < 0 then ((releaseLoop h a rest).1, false)
    else releaseLoop (h ++ [⟨a, d, -x⟩]) a rest

/-- `ReleaseHold`: returns the store after the call and whether it returned without error. -/
def releaseHold (s : State) (a : Addr) (funds : Coins) : State × Bool :=
  if allZero funds then (s, true)
  else if anyNegative funds then (s, false)
  else
    let r := releaseLoop s.hold a funds
    ({ s with hold := r.1 }, r.2)

/-- `ReleaseHold` inside a transaction: an error discards the message's writes. -/
def releaseHoldTx (s : State) (a : Addr) (funds : Coins) : Option State :=
  let r := releaseHold s a funds
  if r.2 then some r.1 else none

/-! ### Bank -/

def canSpend (s : State) (a : Addr) (coins : Coins) : Bool :=
  coins.all fun c => decide (c.2 ≤ spendable s a c.1)

/-- bank `SendCoins` (negative amounts are invalid coins; every coin must be spendable) -/
def sendCoins (s : State) (frm to : Addr) (coins : Coins) : Option State :=
  if anyNegative coins then none
  else if canSpend s frm coins then some { s with bank := Ledger.move s.bank frm to coins } else none

def marketAddr (m : Nat) : Addr := s!"mkt{m}"

/-- `CollectFee` as seen by the payer: fee moves to the market account (the exchange's cut then
moves between the market and the fee collector, neither of which can hold). -/
def collectFee (s : State) (m : Nat) (payer : Addr) (fee : Option Coin) : Option State :=
  match fee with
  | none => some s
  | some f => if f.2 = 0 then some s else sendCoins s payer (marketAddr m) [f]

/-! ### Order store -/

def getOrder (os : List Order) (id : Nat) : Option Order :=
  match os with
  | [] => none
  | o :: rest => if o.id = id then some o else getOrder rest id

def deleteOrder (os : List Order) (id : Nat) : List Order :=
  match os with
  | [] => []
  | o :: rest => if o.id = id then rest else o :: deleteOrder rest id

/-- `setOrderInStore`: overwrite the entry with the same id, else add. -/
def setOrder (os : List Order) (n : Order) : List Order :=
  match os with
  | [] => [n]
  | o :: rest => if o.id = n.id then n :: rest else o :: setOrder rest n

def getMarket (s : State) (m : Nat) : Option Market := s.markets.find? (·.id = m)

def setMarket (s : State) (mk : Market) : State :=
  { s with markets := mk :: s.markets.filter (·.id ≠ mk.id) }

/-- `validateFlatFee` -/
def validateFlatFee (opts : Coins) (fee : Option Coin) : Bool :=
  if opts.isEmpty then true
  else match fee with
    | none => false
    | some f =>
      match opts.find? (·.1 = f.1) with
      | none => false
      | some r => decide (r.2 ≤ f.2)

/-- `getSellerSettlementRatio` + `ApplyToLoosely`: `none` = error (ratios exist, none for the
denom), `some none` = no ratio, `some (some fee)`. -/
def sellerRatioFee (mk : Market) (price : Coin) : Option (Option Int) :=
  match mk.sellerRatio.find? (·.1 = price.1) with
  | none => if mk.sellerRatio.isEmpty then some none else none
  | some (_, rp, rf) =>
    if rp = 0 then none
    else
      let prod := price.2 * rf
      some (some (if prod.tmod rp ≠ 0 then prod.tdiv rp + 1 else prod.tdiv rp))

/-- `validateAskPrice` -/
def validateAskPrice (mk : Market) (price : Coin) (flat : Option Coin) : Bool :=
  match sellerRatioFee mk price with
  | none => false
  | some ratio =>
    let checkFlat := match flat with
      | some f => f.2 ≠ 0 && price.1 = f.1
      | none => false
    let flatAmt := match flat with | some f => f.2 | none => 0
    match ratio with
    | none => !(checkFlat && decide (price.2 ≤ flatAmt))
    | some rfee =>
      if !checkFlat then !decide (price.2 ≤ rfee)
      else !decide (price.2 ≤ flatAmt + rfee)

/-- `validateBuyerSettlementFee` for a market without buyer ratios: some fee coin covers the
flat option of its denom. -/
def validateBuyerSettlementFee (mk : Market) (fees : Coins) : Bool :=
  if mk.buyerFlat.isEmpty then true
  else fees.any fun c =>
    match mk.buyerFlat.find? (·.1 = c.1) with
    | none => false
    | some r => decide (r.2 ≤ c.2)

/-- `validateMarketIsAcceptingOrders` -/
def marketAcceptingOrders (s : State) (m : Nat) : Option Market :=
  match getMarket s m with
  | none => none
  | some mk => if mk.acceptingOrders then some mk else none

/-- `validateCoin`: valid and not zero -/
def validCoin (c : Coin) : Bool := decide (0 < c.2)

/-- `AskOrder.Validate` / `BidOrder.Validate` (the parts an op line can violate) -/
def Order.validate (o : Order) : Bool :=
  o.market ≠ 0 && validCoin o.price && validCoin o.assets && o.assets.1 ≠ o.price.1 &&
  (if o.isAsk then o.fees.length ≤ 1 && o.fees.all validCoin else isValidCoins o.fees)

/-- `placeHoldOnOrder` -/
def placeHoldOnOrder (s : State) (o : Order) : Option State := addHold s o.owner (holdAmt o)

/-- the fee checks of `CreateAskOrder` (`validateCreateAskFees`, `validateAskPrice`) and
`CreateBidOrder` (`validateCreateBidFees`) -/
def orderFeesOk (mk : Market) (o : Order) (creationFee : Option Coin) : Bool :=
  if o.isAsk then
    validateFlatFee mk.createAskFlat creationFee && validateFlatFee mk.sellerFlat o.fees.head? &&
      validateAskPrice mk o.price o.fees.head?
  else validateFlatFee mk.createBidFlat creationFee && validateBuyerSettlementFee mk o.fees

/-- everything `Create*Order` checks before funds move -/
def admitOrder (s : State) (o : Order) (creationFee : Option Coin) : Except Err Unit :=
  if !o.validate then .error .invalid
  else match marketAcceptingOrders s o.market with
    | none => .error .market
    | some mk => if orderFeesOk mk o creationFee then .ok () else .error .fee

/-- the rest of `Create*Order`: collect the creation fee, assign the next id, store the order,
place the hold. -/
def storeOrder (s : State) (o : Order) (creationFee : Option Coin) : Except Err (State × Nat) :=
  match collectFee s o.market o.owner creationFee with
  | none => .error .funds
  | some s1 =>
    match placeHoldOnOrder
        { s1 with lastOrderId := s1.lastOrderId + 1,
                  orders := setOrder s1.orders { o with id := s1.lastOrderId + 1 } }
        { o with id := s1.lastOrderId + 1 } with
    | none => .error .funds
    | some s3 => .ok (s3, s1.lastOrderId + 1)

/-- `CreateAskOrder` / `CreateBidOrder`. `o.id` is ignored (assigned here). -/
def createOrder (s : State) (o : Order) (creationFee : Option Coin) : Except Err (State × Nat) :=
  match admitOrder s o creationFee with
  | .error e => .error e
  | .ok _ => storeOrder s o creationFee

def isAdmin (who : Addr) : Bool := who = "ADM" || who = "GOV"

/-- `CancelOrder` inside a transaction. -/
def cancelOrder (s : State) (id : Nat) (signer : Addr) : Except Err State :=
  match getOrder s.orders id with
  | none => .error .notfound
  | some o =>
    if signer ≠ o.owner && !isAdmin signer then .error .perm
    else match releaseHoldTx s o.owner (holdAmt o) with
      | none => .error .hold
      | some s1 => .ok { s1 with orders := deleteOrder s1.orders id }

/-- `CancelOrder` as called by `CancelAllOrdersForMarket`: no surrounding rollback, errors are
logged and dropped (the partially released hold of a failing release stays released). -/
def cancelOrderNoTx (s : State) (id : Nat) : State :=
  match getOrder s.orders id with
  | none => s
  | some o =>
    let r := releaseHold s o.owner (holdAmt o)
    if r.2 then { r.1 with orders := deleteOrder r.1.orders id } else r.1

/-- `CancelAllOrdersForMarket`: ids are collected first, then cancelled one by one. -/
def cancelAllOrdersForMarket (s : State) (m : Nat) : State :=
  ((s.orders.filter (·.market = m)).map (·.id)).foldl cancelOrderNoTx s

/-! ### Split and asset allocation -/

/-- `Order.Split`: `(filled, unfilled)`. -/
def Order.split (o : Order) (filled : Int) : Option (Order × Order) :=
  if filled ≤ 0 then none
  else if filled = o.assets.2 then none
  else if filled > o.assets.2 then none
  else if !o.allowPartial then none
  else if (o.price.2 * filled).tmod o.assets.2 ≠ 0 then none
  else if o.fees.any (fun c => (c.2 * filled).tmod o.assets.2 ≠ 0) then none
  else
    let pf := (o.price.2 * filled).tdiv o.assets.2
    some ({ o with assets := (o.assets.1, filled), price := (o.price.1, pf),
                   fees := o.fees.map fun c => (c.1, (c.2 * filled).tdiv o.assets.2) },
          { o with assets := (o.assets.1, o.assets.2 - filled), price := (o.price.1, o.price.2 - pf),
                   fees := o.fees.map fun c => (c.1, c.2 - (c.2 * filled).tdiv o.assets.2) })

/-- `allocateAssets` on `(filled, unfilled)` amounts: two pointers, each step fills the smaller
of the two current remainders. -/
def allocLoop (as bs doneA doneB : List (Int × Int)) : Option (List (Int × Int) × List (Int × Int)) :=
  match as, bs with
  | [], bs => some (doneA.reverse, doneB.reverse ++ bs)
  | as, [] => some (doneA.reverse ++ as, doneB.reverse)
  | (af, au) :: as', (bf, bu) :: bs' =>
    if au ≤ 0 ∨ bu ≤ 0 then none
    else
      let amt := min au bu
      let a' := (af + amt, au - amt)
      let b' := (bf + amt, bu - amt)
      if a'.2 = 0 then
        if b'.2 = 0 then allocLoop as' bs' (a' :: doneA) (b' :: doneB)
        else allocLoop as' (b' :: bs') (a' :: doneA) doneB
      else
        if b'.2 = 0 then allocLoop (a' :: as') bs' doneA (b' :: doneB)
        else none
termination_by as.length + bs.length
decreasing_by all_goals (simp; try omega)

/-- result of the asset half of `BuildSettlement`: the orders filled in full and at most one
partial order `(filled part, what is left)`. -/
structure Plan where
  full : List Order
  part : Option (Order × Order)
  deriving Repr

/-- `splitOrderFulfillments` for one side: `os` with their `(filled, unfilled)` amounts. -/
def splitSide (os : List Order) (amts : List (Int × Int)) (acc : Plan) : Except Err Plan :=
  match os, amts with
  | [], _ => .ok acc
  | _ :: _, [] => .error .alloc
  | o :: rest, (f, u) :: arest =>
    if f = 0 then .error .alloc
    else if u ≠ 0 then
      if !rest.isEmpty then .error .alloc
      else if acc.part.isSome then .error .alloc
      else match o.split f with
        | none => .error .split
        | some (fl, left) => .ok { acc with part := some (fl, left) }
    else splitSide rest arest { acc with full := acc.full ++ [o] }

def sameDenoms (os : List Order) (f : Order → Coin) : Bool :=
  match os with
  | [] => true
  | o :: rest => rest.all fun x => (f x).1 = (f o).1

/-- `splitPartial`: asks first, then bids (at most one partial order over both sides). -/
def splitPartial (asks bids : List Order) (ra rb : List (Int × Int)) : Except Err Plan :=
  match splitSide asks ra { full := [], part := none } with
  | .error e => .error e
  | .ok p1 => splitSide bids rb p1

/-- `validateCanSettle` (denoms) + `allocateAssets` + `splitPartial`. -/
def planSettlement (asks bids : List Order) : Except Err Plan :=
  match asks.head?, bids.head? with
  | some a, some b =>
    if !(sameDenoms asks (·.assets) && sameDenoms asks (·.price) && sameDenoms bids (·.assets) &&
         sameDenoms bids (·.price)) then .error .denoms
    else if a.assets.1 ≠ b.assets.1 ∨ a.price.1 ≠ b.price.1 then .error .denoms
    else match allocLoop (asks.map fun o => (0, o.assets.2)) (bids.map fun o => (0, o.assets.2)) [] [] with
      | none => .error .alloc
      | some (ra, rb) => splitPartial asks bids ra rb
  | _, _ => .error .invalid

/-! ### closeSettlement -/

/-- what the implementation was observed to do for the part another property owns: the result
class of the message and the net balance change of every account it touched. -/
structure Oracle where
  res : String                       -- "ok" or an error class
  moves : List (Addr × Coins)        -- net signed deltas
  deriving Repr

def movesLedger (moves : List (Addr × Coins)) : Ledger :=
  match moves with
  | [] => []
  | (a, cs) :: rest => Ledger.entries a cs ++ movesLedger rest

/-- apply observed net balance moves; the bank only lets unlocked coins leave, so afterwards
every touched balance still covers that account's hold. -/
def applyMoves (s : State) (moves : List (Addr × Coins)) : Option State :=
  let s' := { s with bank := s.bank ++ movesLedger moves }
  if moves.all fun (a, cs) => cs.all fun c => decide (hold s' a c.1 ≤ bal s' a c.1) then some s' else none

/-- release the hold of every order of a list (`releaseHoldOnOrder` in a loop; any error fails
the settlement). -/
def releaseAll (s : State) (os : List Order) : Option State :=
  match os with
  | [] => some s
  | o :: rest =>
    match releaseHoldTx s o.owner (holdAmt o) with
    | none => none
    | some s1 => releaseAll s1 rest

def deleteAll (os : List Order) (ids : List Nat) : List Order := ids.foldl deleteOrder os

/-- `closeSettlement`: release holds (filled orders with their own amount, the partial order with
the amount of its filled part), transfers and fees (observed), write back what is left of the
partial order, delete the filled orders. -/
def closeSettlement (s : State) (p : Plan) (moves : List (Addr × Coins)) : Except Err State :=
  match releaseAll s p.full with
  | none => .error .hold
  | some s1 =>
    let s2? := match p.part with
      | none => some s1
      | some (fl, _) => releaseHoldTx s1 fl.owner (holdAmt fl)
    match s2? with
    | none => .error .hold
    | some s2 =>
      match applyMoves s2 moves with
      | none => .error .funds
      | some s3 =>
        let os := match p.part with
          | none => s3.orders
          | some (_, left) => setOrder s3.orders left
        .ok { s3 with orders := deleteAll os (p.full.map (·.id)) }

/-- `getAskOrders` / `getBidOrders` -/
def getOrders (s : State) (m : Nat) (ids : List Nat) (wantAsk : Bool) (notOwner : Addr) : Except Err (List Order) :=
  match ids with
  | [] => .ok []
  | id :: rest =>
    match getOrder s.orders id with
    | none => .error .orders
    | some o =>
      if o.isAsk ≠ wantAsk then .error .orders
      else if o.market ≠ m then .error .orders
      else if o.owner = notOwner then .error .orders
      else match getOrders s m rest wantAsk notOwner with
        | .error e => .error e
        | .ok os => .ok (o :: os)

/-- `ValidateOrderIDs` -/
def validIds (ids : List Nat) : Bool := !ids.isEmpty && !ids.contains 0 && ids.Nodup

/-- `MsgMarketSettleRequest.ValidateBasic`, the `MarketSettle` guard, the order lookups of
`SettleOrders` and the asset half of `BuildSettlement`. -/
def settlePlan (s : State) (admin : Addr) (m : Nat) (askIds bidIds : List Nat) : Except Err Plan :=
  if !(askIds ++ bidIds).Nodup then .error .invalid
  else if !(validIds askIds && validIds bidIds) then .error .invalid
  else if !isAdmin admin then .error .perm
  else match getMarket s m with
    | none => .error .market
    | some _ =>
      match getOrders s m askIds true "" with
      | .error e => .error e
      | .ok asks =>
        match getOrders s m bidIds false "" with
        | .error e => .error e
        | .ok bids => planSettlement asks bids

/-- `MarketSettle` / `SettleOrders`. -/
def settleOrders (s : State) (admin : Addr) (m : Nat) (askIds bidIds : List Nat) (expectPartial : Bool)
    (orc : Oracle) : Except Err State :=
  match settlePlan s admin m askIds bidIds with
  | .error e => .error e
  | .ok plan =>
    -- the price/fee half of `BuildSettlement` is observed, not modelled
    if orc.res = "err:price" then .error (.oracle "err:price")
    else if expectPartial ≠ plan.part.isSome then .error .partialx
    else if orc.res = "err:funds" then .error (.oracle "err:funds")
    else closeSettlement s plan orc.moves

def sumAssets (os : List Order) : Coins := norm (os.map (·.assets))
def sumPrice (os : List Order) : Coins := norm (os.map (·.price))

/-- an optional coin that must be positive when given -/
def optValid (c : Option Coin) : Bool :=
  match c with
  | some f => validCoin f
  | none => true

/-- everything `FillBids` checks before the settlement is closed; the bid orders to fill. -/
def fillBidsOrders (s : State) (seller : Addr) (m : Nat) (bidIds : List Nat) (totalAssets : Coins)
    (flat : Option Coin) (creationFee : Option Coin) : Except Err (List Order) :=
  if !validIds bidIds then .error .invalid
  else if !(isValidCoins totalAssets && !totalAssets.isEmpty && optValid flat && optValid creationFee) then .error .invalid
  else match marketAcceptingOrders s m with
    | none => .error .market
    | some mk =>
      if !mk.userSettle then .error .market
      else if !(validateFlatFee mk.createAskFlat creationFee && validateFlatFee mk.sellerFlat flat) then .error .fee
      else match getOrders s m bidIds false seller with
        | .error e => .error e
        | .ok bids => if Coins.canon (sumAssets bids) ≠ Coins.canon totalAssets then .error .mismatch else .ok bids

/-- `FillBids`: the seller fills bid orders in full. -/
def fillBids (s : State) (seller : Addr) (m : Nat) (bidIds : List Nat) (totalAssets : Coins)
    (flat : Option Coin) (creationFee : Option Coin) (orc : Oracle) : Except Err State :=
  match fillBidsOrders s seller m bidIds totalAssets flat creationFee with
  | .error e => .error e
  | .ok bids =>
    if orc.res = "err:price" ∨ orc.res = "err:funds" then .error (.oracle orc.res)
    else closeSettlement s { full := bids, part := none } orc.moves

/-- everything `FillAsks` checks before the settlement is closed; the ask orders to fill. -/
def fillAsksOrders (s : State) (buyer : Addr) (m : Nat) (askIds : List Nat) (totalPrice : Coin)
    (fees : Coins) (creationFee : Option Coin) : Except Err (List Order) :=
  if !validIds askIds then .error .invalid
  else if !(validCoin totalPrice && isValidCoins fees && optValid creationFee) then .error .invalid
  else match marketAcceptingOrders s m with
    | none => .error .market
    | some mk =>
      if !mk.userSettle then .error .market
      else if !(validateFlatFee mk.createBidFlat creationFee && validateBuyerSettlementFee mk fees) then .error .fee
      else match getOrders s m askIds true buyer with
        | .error e => .error e
        | .ok asks => if Coins.canon (sumPrice asks) ≠ Coins.canon [totalPrice] then .error .mismatch else .ok asks

/-- `FillAsks`: the buyer fills ask orders in full. -/
def fillAsks (s : State) (buyer : Addr) (m : Nat) (askIds : List Nat) (totalPrice : Coin)
    (fees : Coins) (creationFee : Option Coin) (orc : Oracle) : Except Err State :=
  match fillAsksOrders s buyer m askIds totalPrice fees creationFee with
  | .error e => .error e
  | .ok asks =>
    if orc.res = "err:price" ∨ orc.res = "err:funds" then .error (.oracle orc.res)
    else closeSettlement s { full := asks, part := none } orc.moves

/-! ### Commitments -/

def getCommitment (cs : List Commitment) (m : Nat) (a : Addr) : Coins :=
  match cs with
  | [] => []
  | c :: rest => if c.market = m ∧ c.account = a then c.amount else getCommitment rest m a

def deleteCommitment (cs : List Commitment) (m : Nat) (a : Addr) : List Commitment :=
  match cs with
  | [] => []
  | c :: rest => if c.market = m ∧ c.account = a then rest else c :: deleteCommitment rest m a

def putCommitment (cs : List Commitment) (n : Commitment) : List Commitment :=
  match cs with
  | [] => [n]
  | c :: rest => if c.market = n.market ∧ c.account = n.account then n :: rest else c :: putCommitment rest n

/-- `setCommitmentAmount`: a zero amount deletes the entry. -/
def setCommitment (cs : List Commitment) (m : Nat) (a : Addr) (amt : Coins) : List Commitment :=
  if allZero amt then deleteCommitment cs m a else putCommitment cs ⟨m, a, amt⟩

/-- `addCommitment` (after the optional market checks). -/
def addCommitmentCore (s : State) (m : Nat) (a : Addr) (amount : Coins) : Except Err State :=
  if allZero amount then .ok s
  else if anyNegative amount then .error .invalid
  else match addHold s a amount with
    | none => .error .funds
    | some s1 =>
      .ok { s1 with commitments := setCommitment s1.commitments m a (norm (getCommitment s1.commitments m a ++ amount)) }

/-- create-commitment flat fee options of a market (none for an unknown market) -/
def commitFeeOpts (s : State) (m : Nat) : Coins :=
  match getMarket s m with
  | some mk => mk.createCommitFlat
  | none => []

/-- `MsgCommitFundsRequest.ValidateBasic` + `CommitFunds`. -/
def commitFunds (s : State) (a : Addr) (m : Nat) (amount : Coins) (creationFee : Option Coin) : Except Err State :=
  if m = 0 ∨ allZero amount ∨ !isValidCoins amount then .error .invalid
  else
    -- the creation fee is validated and collected before the market is looked at
    if !validateFlatFee (commitFeeOpts s m) creationFee then .error .fee
    else match collectFee s m a creationFee with
      | none => .error .funds
      | some s1 =>
        match getMarket s m with
        | none => .error .market
        | some mk =>
          if !mk.acceptingCommitments then .error .market
          else addCommitmentCore s1 m a amount

/-- `ReleaseCommitment` inside a transaction. An empty `amount` releases everything. -/
def releaseCommitment (s : State) (m : Nat) (a : Addr) (amount : Coins) : Except Err State :=
  if anyNegative amount then .error .invalid
  else
    let cur := getCommitment s.commitments m a
    if allZero cur then .error .commitx
    else if !allZero amount then
      let newAmt := norm (Coins.sub cur amount)
      if anyNegative newAmt then .error .commitx
      else match releaseHoldTx s a amount with
        | none => .error .hold
        | some s1 => .ok { s1 with commitments := setCommitment s1.commitments m a newAmt }
    else match releaseHoldTx s a cur with
      | none => .error .hold
      | some s1 => .ok { s1 with commitments := setCommitment s1.commitments m a [] }

/-- `ReleaseCommitments`: all entries, any error fails the message. -/
def releaseCommitments (s : State) (m : Nat) (entries : List (Addr × Coins)) : Except Err State :=
  match entries with
  | [] => .ok s
  | (a, amt) :: rest =>
    match releaseCommitment s m a amt with
    | .error e => .error e
    | .ok s1 => releaseCommitments s1 m rest

/-- `MsgMarketReleaseCommitmentsRequest.ValidateBasic` + `MarketReleaseCommitments`. -/
def marketReleaseCommitments (s : State) (admin : Addr) (m : Nat) (entries : List (Addr × Coins)) : Except Err State :=
  if m = 0 ∨ entries.isEmpty ∨ !(entries.all fun e => isValidCoins e.2) then .error .invalid
  else if !isAdmin admin then .error .perm
  else releaseCommitments s m entries

/-- `ReleaseCommitment` as called by `ReleaseAllCommitmentsForMarket` (errors logged, dropped). -/
def releaseCommitmentNoTx (s : State) (m : Nat) (a : Addr) : State :=
  let cur := getCommitment s.commitments m a
  if allZero cur then s
  else
    let r := releaseHold s a cur
    if r.2 then { r.1 with commitments := setCommitment r.1.commitments m a [] } else r.1

def releaseAllCommitmentsForMarket (s : State) (m : Nat) : State :=
  ((s.commitments.filter (·.market = m)).map (·.account)).foldl (fun st a => releaseCommitmentNoTx st m a) s

/-- `SimplifyAccountAmounts`: one entry per account, amounts merged. -/
def simplify (entries : List (Addr × Coins)) : List (Addr × Coins) :=
  entries.foldl (fun acc e =>
    if acc.any (·.1 = e.1) then acc.map fun x => if x.1 = e.1 then (x.1, norm (x.2 ++ e.2)) else x
    else acc ++ [(e.1, norm e.2)]) []

def sumEntries (entries : List (Addr × Coins)) : Coins :=
  match entries with
  | [] => []
  | e :: rest => e.2 ++ sumEntries rest

def debitAll (s : State) (entries : List (Addr × Coins)) : Option State :=
  match entries with
  | [] => some s
  | (a, cs) :: rest =>
    if canSpend s a cs then debitAll { s with bank := Ledger.debit s.bank a cs } rest else none

def creditAll (s : State) (entries : List (Addr × Coins)) : State :=
  match entries with
  | [] => s
  | (a, cs) :: rest => creditAll { s with bank := Ledger.credit s.bank a cs } rest

def sendAllTo (s : State) (to : Addr) (entries : List (Addr × Coins)) : Option State :=
  match entries with
  | [] => some s
  | (a, cs) :: rest =>
    match sendCoins s a to cs with
    | none => none
    | some s1 => sendAllTo s1 to rest

def commitAll (s : State) (m : Nat) (entries : List (Addr × Coins)) : Except Err State :=
  match entries with
  | [] => .ok s
  | (a, cs) :: rest =>
    match addCommitmentCore s m a cs with
    | .error e => .error e
    | .ok s1 => commitAll s1 m rest

/-- `MsgMarketCommitmentSettleRequest.ValidateBasic` + `MarketCommitmentSettle` + `SettleCommitments`:
release inputs+fees, move inputs to outputs and fees to the market, re-commit the outputs.
(Which input pays which output is `BuildCommitmentTransfers`' business; every debit is checked
against the spendable balance, all debits of the primary transfers before the credits.) -/
def settleCommitments (s : State) (admin : Addr) (m : Nat) (inputs outputs fees : List (Addr × Coins)) : Except Err State :=
  if m = 0 ∨ inputs.isEmpty ∨ outputs.isEmpty ∨
     !((inputs ++ outputs ++ fees).all fun e => isValidCoins e.2 && !e.2.isEmpty) ∨
     Coins.canon (sumEntries inputs) ≠ Coins.canon (sumEntries outputs) then .error .invalid
  else if !isAdmin admin then .error .perm
  else
    let ins := simplify inputs
    let outs := simplify outputs
    let fs := simplify fees
    match releaseCommitments s m (simplify (ins ++ fs)) with
    | .error e => .error e
    | .ok s1 =>
      match debitAll s1 ins with
      | none => .error .funds
      | some s2 =>
        match sendAllTo (creditAll s2 outs) (marketAddr m) fs with
        | none => .error .funds
        | some s3 => commitAll s3 m outs

/-! ### Payments -/

def getPayment (ps : List Payment) (src : Addr) (ext : String) : Option Payment :=
  match ps with
  | [] => none
  | p :: rest => if p.source = src ∧ p.extId = ext then some p else getPayment rest src ext

def deletePayment (ps : List Payment) (src : Addr) (ext : String) : List Payment :=
  match ps with
  | [] => []
  | p :: rest => if p.source = src ∧ p.extId = ext then rest else p :: deletePayment rest src ext

def setPayment (ps : List Payment) (n : Payment) : List Payment :=
  match ps with
  | [] => [n]
  | p :: rest => if p.source = n.source ∧ p.extId = n.extId then n :: rest else p :: setPayment rest n

/-- `Payment.Validate` -/
def Payment.validate (p : Payment) : Bool :=
  isValidCoins p.sourceAmt && isValidCoins p.targetAmt && !(p.sourceAmt.isEmpty && p.targetAmt.isEmpty)

/-- `CreatePayment` -/
def createPayment (s : State) (p : Payment) : Except Err State :=
  if !p.validate then .error .invalid
  else if (getPayment s.payments p.source p.extId).isSome then .error .exists_
  else
    let s1 := { s with payments := setPayment s.payments p }
    match addHold s1 p.source p.sourceAmt with
    | none => .error .funds
    | some s2 => .ok s2

/-- `deletePaymentAndReleaseHold` -/
def deletePaymentAndReleaseHold (s : State) (p : Payment) : Option State :=
  releaseHoldTx { s with payments := deletePayment s.payments p.source p.extId } p.source p.sourceAmt

/-- `AcceptPayment`: `p` is the payment as the target states it. -/
def acceptPayment (s : State) (p : Payment) : Except Err State :=
  if !p.validate then .error .invalid
  else if p.target = "" then .error .invalid
  else match getPayment s.payments p.source p.extId with
    | none => .error .notfound
    | some ex =>
      if Coins.canon p.sourceAmt ≠ Coins.canon ex.sourceAmt then .error .mismatch
      else if p.target ≠ ex.target then .error .mismatch
      else if Coins.canon p.targetAmt ≠ Coins.canon ex.targetAmt then .error .mismatch
      else match deletePaymentAndReleaseHold s ex with
        | none => .error .hold
        | some s1 =>
          let s2? := if allZero ex.sourceAmt then some s1 else sendCoins s1 ex.source ex.target ex.sourceAmt
          match s2? with
          | none => .error .funds
          | some s2 =>
            let s3? := if allZero ex.targetAmt then some s2 else sendCoins s2 ex.target ex.source ex.targetAmt
            match s3? with
            | none => .error .funds
            | some s3 => .ok s3

/-- `RejectPayment` -/
def rejectPayment (s : State) (target src : Addr) (ext : String) : Except Err State :=
  match getPayment s.payments src ext with
  | none => .error .notfound
  | some ex =>
    if ex.target = "" then .error .target
    else if ex.target ≠ target then .error .target
    else match deletePaymentAndReleaseHold s ex with
      | none => .error .hold
      | some s1 => .ok s1

def deletePaymentsAndReleaseHolds (s : State) (ps : List Payment) : Option State :=
  match ps with
  | [] => some s
  | p :: rest =>
    match deletePaymentAndReleaseHold s p with
    | none => none
    | some s1 => deletePaymentsAndReleaseHolds s1 rest

/-- How a message spells an account. Bech32 is case-insensitive: the all-upper-case string names
the same account as the (canonical) lower-case one but is a different string; a mixed-case string
is not valid bech32 (`sdk.AccAddressFromBech32` fails). -/
inductive Spelling where
  | lower | upper | mixed
  deriving DecidableEq, Repr

/-- an account as a message spells it (two `Spelled` are equal iff the strings are) -/
structure Spelled where
  acct : Addr
  sp : Spelling
  deriving DecidableEq, Repr

/-- `getPaymentsForTargetAndSourceFromStore` payments.go:96 -/
def paymentsForTargetAndSource (ps : List Payment) (target src : Addr) : List Payment :=
  ps.filter fun p => p.target = target ∧ p.source = src

/-- the loop of `RejectPayments` payments.go:341-352 over the parsed sources: a source that was
`seen` already is skipped, every other one must have at least one payment for the target; the
payments are collected source by source. -/
def collectRejected (ps : List Payment) (target : Addr) : List Addr → List Addr → Option (List Payment)
  | [], _ => some []
  | src :: rest, seen =>
    if seen.contains src then collectRejected ps target rest seen
    else
      let sp := paymentsForTargetAndSource ps target src
      if sp.isEmpty then none
      else match collectRejected ps target rest (src :: seen) with
        | none => none
        | some l => some (sp ++ l)

/-- `MsgRejectPaymentsRequest.ValidateBasic` msgs.go:606 (at least one source, no two equal
STRINGS, every string valid bech32), the msg server's `AccAddressFromBech32` of every source
msg_server.go:320 (the spelling is gone from here on), then `RejectPayments` payments.go:330:
every payment of each listed account that names the target (each account must have at least
one), each account handled once however often and however spelled it is listed. -/
def rejectPayments (s : State) (target : Addr) (sources : List Spelled) : Except Err State :=
  if sources.isEmpty ∨ !sources.Nodup ∨ sources.any (fun x => x.sp = .mixed) then .error .invalid
  else match collectRejected s.payments target (sources.map (·.acct)) [] with
    | none => .error .notfound
    | some ps =>
      match deletePaymentsAndReleaseHolds s ps with
      | none => .error .hold
      | some s1 => .ok s1

/-- the lookups of `CancelPayments`: every external id must name a payment of the source -/
def lookupPayments (ps : List Payment) (src : Addr) : List String → Option (List Payment)
  | [] => some []
  | e :: rest =>
    match getPayment ps src e with
    | none => none
    | some p =>
      match lookupPayments ps src rest with
      | none => none
      | some l => some (p :: l)

/-- `CancelPayments` -/
def cancelPayments (s : State) (src : Addr) (exts : List String) : Except Err State :=
  if exts.isEmpty ∨ !exts.Nodup then .error .invalid
  else match lookupPayments s.payments src exts with
    | none => .error .notfound
    | some found =>
      match deletePaymentsAndReleaseHolds s found with
      | none => .error .hold
      | some s1 => .ok s1

/-- `UpdatePaymentTarget` -/
def updatePaymentTarget (s : State) (src : Addr) (ext : String) (newTarget : Addr) : Except Err State :=
  match getPayment s.payments src ext with
  | none => .error .notfound
  | some ex =>
    if ex.target = newTarget then .error .target
    else .ok { s with payments := setPayment s.payments { ex with target := newTarget } }

/-! ### Market close, bank send, genesis -/

/-- `CloseMarket` (`GovCloseMarket`): switches off, cancels every order, releases every commitment. -/
def closeMarket (s : State) (m : Nat) : State :=
  let s1 := match getMarket s m with
    | none => s
    | some mk => setMarket s { mk with acceptingOrders := false, acceptingCommitments := false }
  releaseAllCommitmentsForMarket (cancelAllOrdersForMarket s1 m) m

/-- a plain bank send by a user (`MsgSend` on base accounts). -/
def bankSend (s : State) (frm to : Addr) (coins : Coins) : Except Err State :=
  if !isValidCoins coins ∨ coins.isEmpty then .error .invalid
  else match sendCoins s frm to coins with
    | none => .error .funds
    | some s1 => .ok s1

/-- the chain's bond denom (staking `Params.BondDenom`; the harness chain bonds `fig`). -/
def bondDenom : Denom := "fig"

/-- the staking module's bonded pool (a module account: no holds, not a party of any record). -/
def bondedPool : Addr := "bondedpool"

/-- bank `DelegateCoins` (forked SDK `x/bank/keeper/keeper.go:125`): per coin, what is available is
the balance minus the locked coins asked for WITH the vesting-locked bypass — the hold module's
`GetLockedCoins` (`x/hold/keeper/locked_coins.go:15`) ignores that bypass, so funds on hold are
not available ("Funds in a vesting account can still be delegated. Funds locked by other means
cannot."); then the coins move to the pool. -/
def delegateCoins (s : State) (frm pool : Addr) (amt : Coins) : Option State :=
  if anyNegative amt then none
  else if canSpend s frm amt then some { s with bank := Ledger.move s.bank frm pool amt } else none

/-- staking `MsgDelegate` by a user (base account) to the bonded validator
(`x/staking/keeper/msg_server.go:250`): the amount must be a valid positive coin of the bond
denom; `Keeper.Delegate` then takes it with `DelegateCoinsFromAccountToModule`. -/
def stakeDelegate (s : State) (frm : Addr) (coin : Coin) : Except Err State :=
  if !validCoin coin then .error .invalid
  else if coin.1 ≠ bondDenom then .error .invalid
  else match delegateCoins s frm bondedPool [coin] with
    | none => .error .funds
    | some s1 => .ok s1

/-- Exchange genesis: records and the holds the hold module's genesis placed. -/
structure Genesis where
  orders : List Order
  lastOrderId : Nat
  commitments : List Commitment
  payments : List Payment
  holds : List (Addr × Coins)
  deriving Repr

def genesisHoldLedger (hs : List (Addr × Coins)) : Ledger :=
  match hs with
  | [] => []
  | (a, cs) :: rest => Ledger.entries a cs ++ genesisHoldLedger rest

def loadCommitments (cs : List Commitment) (acc : List Commitment) : List Commitment :=
  match cs with
  | [] => acc
  | c :: rest => loadCommitments rest (setCommitment acc c.market c.account (norm (getCommitment acc c.market c.account ++ c.amount)))

def loadPayments (ps : List Payment) (acc : List Payment) : Option (List Payment) :=
  match ps with
  | [] => some acc
  | p :: rest => if (getPayment acc p.source p.extId).isSome then none else loadPayments rest (setPayment acc p)

/-- every account/denom mentioned by a record -/
def recordKeys (s : State) : List (Addr × Denom) :=
  (s.orders.map fun o => (holdAmt o).map fun c => (o.owner, c.1)).flatten ++
  (s.commitments.map fun c => c.amount.map fun x => (c.account, x.1)).flatten ++
  (s.payments.map fun p => p.sourceAmt.map fun x => (p.source, x.1)).flatten

/-- `GenesisState.Validate` (orders, commitments, payments): distinct non-zero order ids, every
record valid. -/
def Genesis.validate (g : Genesis) : Bool :=
  (g.orders.map (·.id)).Nodup && g.orders.all (fun o => o.id ≠ 0 && o.validate) &&
  g.commitments.all (fun c => c.market ≠ 0 && isValidCoins c.amount) && g.payments.all Payment.validate

/-- `InitGenesis` on top of a state that has markets and balances but no records: store the
records, then panic unless every account's hold covers (≥) what its records need. -/
def initGenesis (s : State) (g : Genesis) : Except Err State :=
  let maxId := g.orders.foldl (fun m o => max m o.id) 0
  if !g.validate then .error .invalid
  else if g.lastOrderId < maxId then .error .genesis
  else match loadPayments g.payments [] with
    | none => .error .genesis
    | some ps =>
      let s1 : State := { s with orders := g.orders.foldl setOrder [], lastOrderId := g.lastOrderId,
                                  commitments := loadCommitments g.commitments [], payments := ps,
                                  hold := genesisHoldLedger g.holds }
      if (recordKeys s1).all fun k => decide (obligations s1 k.1 k.2 ≤ hold s1 k.1 k.2) then .ok s1
      else .error .genesis

/-! ### Operations -/

inductive Op where
  | setMarket (mk : Market)
  | fund (a : Addr) (coins : Coins)
  | genesis (g : Genesis)
  | createOrder (o : Order) (creationFee : Option Coin)
  | cancel (id : Nat) (signer : Addr)
  | settle (admin : Addr) (m : Nat) (asks bids : List Nat) (expectPartial : Bool) (orc : Oracle)
  | fillBids (seller : Addr) (m : Nat) (bids : List Nat) (total : Coins) (flat cfee : Option Coin) (orc : Oracle)
  | fillAsks (buyer : Addr) (m : Nat) (asks : List Nat) (total : Coin) (fees : Coins) (cfee : Option Coin) (orc : Oracle)
  | commit (a : Addr) (m : Nat) (amount : Coins) (cfee : Option Coin)
  | release (admin : Addr) (m : Nat) (entries : List (Addr × Coins))
  | csettle (admin : Addr) (m : Nat) (inputs outputs fees : List (Addr × Coins))
  | pay (p : Payment)
  | accept (p : Payment)
  | reject (target src : Addr) (ext : String)
  | rejectAll (target : Addr) (sources : List Spelled)
  | cancelPay (src : Addr) (exts : List String)
  | retarget (src : Addr) (ext : String) (newTarget : Addr)
  | closeMarket (m : Nat)
  | send (frm to : Addr) (coins : Coins)
  | delegate (frm : Addr) (coin : Coin)
  deriving Repr

/-- One message = one transaction: an error leaves the state unchanged. Returns the new state
and the result line. -/
def applyOp (s : State) (op : Op) : State × String :=
  let fin (r : Except Err State) : State × String :=
    match r with
    | .ok s' => (s', "ok")
    | .error e => (s, e.toString)
  match op with
  | .setMarket mk => (setMarket s mk, "ok")
  | .fund a coins => (if anyNegative coins then s else { s with bank := Ledger.credit s.bank a coins }, "ok")
  | .genesis g => fin (initGenesis s g)
  | .createOrder o fee =>
    match createOrder s o fee with
    | .ok (s', id) => (s', s!"ok {id}")
    | .error e => (s, e.toString)
  | .cancel id signer => fin (cancelOrder s id signer)
  | .settle admin m asks bids ep orc => fin (settleOrders s admin m asks bids ep orc)
  | .fillBids seller m bids total flat cfee orc => fin (fillBids s seller m bids total flat cfee orc)
  | .fillAsks buyer m asks total fees cfee orc => fin (fillAsks s buyer m asks total fees cfee orc)
  | .commit a m amount cfee => fin (commitFunds s a m amount cfee)
  | .release admin m entries => fin (marketReleaseCommitments s admin m entries)
  | .csettle admin m i o f => fin (settleCommitments s admin m i o f)
  | .pay p => fin (createPayment s p)
  | .accept p => fin (acceptPayment s p)
  | .reject t src ext => fin (rejectPayment s t src ext)
  | .rejectAll t srcs => fin (rejectPayments s t srcs)
  | .cancelPay src exts => fin (cancelPayments s src exts)
  | .retarget src ext nt => fin (updatePaymentTarget s src ext nt)
  | .closeMarket m => (closeMarket s m, "ok")
  | .send f t coins => fin (bankSend s f t coins)
  | .delegate f coin => fin (stakeDelegate s f coin)

def step (s : State) (op : Op) : State := (applyOp s op).1

def run (s : State) (ops : List Op) : State := ops.foldl step s

end PvModel.Exhold
