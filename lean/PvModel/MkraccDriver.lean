/-
Line-protocol drivers + implementation-output checkers for C12.

* `mkracc`    — pure stream on the real `MarkerTransferAuthorization.Accept`:
                `grant limit=<coins> allow=<A|B|->`, then `use <coin> <to>` lines.
* `mkraccapp` — app stream through the real marker `MsgServer`:
                `probe op=<Name> acc=<a+b|-> mgr= gov= st= ty= ft= gc= ctl= dest= circ=`
                `xsetup acc= st= ty= ft= src=<kind> grant=<coins;allow|-> bal=<n>` followed by
                `xfer amt=<n> to=<P1|P2|P3|RD|RN|BL> [via=ibc] [by=K]` lines (many transfers under
                the grants of one history). Optional on `xsetup`: `rgrant=` (a grant the administrator C
                gave to the source account), `kgrant=` / `krgrant=` (source → second administrator K
                and back), `acc2=` (the rights of K). `via=ibc` sends a MsgIbcTransferRequest (the ibc
                transfer module is a stand-in that takes the token into the channel's escrow account),
                `by=K` makes K the signing administrator. An accepted transfer prints all four grants.
                `smk` / `sadd` / `sdel` / `smint` / `sburn` / `swd`: a marker created with
                MsgAddFinalizeActivateMarker and then driven by real messages of named accounts;
                `sprop` (MsgAddMarker: proposed, manager A) / `sfin` / `sact` / `scan`: the same through
                the marker's life cycle (MsgFinalize / MsgActivate / MsgCancel).
                Optional `rec=<recorded supply> cbal=<caller balance> sup=<coins in existence>`
                on a `probe` line replace the `ctl` flag by what `accountControlsAllSupply` computes.
-/
import PvModel.MkraccSpec
-- registry: mkracc PvModel.Mkracc.driver
-- registry: mkraccapp PvModel.Mkracc.appDriver

namespace PvModel.Mkracc
open PvModel

/-! ## Rendering -/

def showAllow (xs : List String) : String := if xs.isEmpty then "-" else "|".intercalate xs

def showLimit (cs : Coins) : String := showCoins (Coins.canon cs)

/-- `<coins>;<allow>` or `-` -/
def showStored : Option Grant → String
  | none => "-"
  | some g => s!"{showLimit g.limit};{showAllow g.allow}"

def parseGrant? (s : String) : Option (Option Grant) :=
  if s = "-" then some none else
  match s.splitOn ";" with
  | [cs, al] => (parseCoins? cs).map fun l => some { limit := l, allow := splitList al }
  | _ => none

def parseAccess? (s : String) : Option (List Access) := (splitList s "+").mapM Access.ofString?

def parseBool? : String → Option Bool
  | "1" => some true | "0" => some false | _ => none

/-! ## Pure stream: sequences of uses of one grant -/

structure PState where
  g0 : Option Grant := none       -- the grant as given
  cur : Option Grant := none      -- the stored grant (model)
  movedImpl : Coins := []         -- what the implementation accepted so far
  nAcc : Nat := 0                 -- number of uses the implementation accepted

def showAccept : AcceptRes → String
  | .rejectLimit => "err:limit"
  | .rejectRecipient => "err:recipient"
  | .panicNegative => "panic:other"
  | .accept del g => s!"accept del={boolStr del} limit={showLimit g.limit} allow={showAllow g.allow}"

/-- The property's conclusion on one accepted use, against the ORIGINAL grant `g0` and what
was accepted before: recipient on the allow list (if any), total within the limit. -/
def useVerdict (g0 : Grant) (movedBefore : Coins) (nAcc : Nat) (u : Use) : String :=
  if !Spec.recipientAllowed g0 u.to then
    (if nAcc > 0 then "fail:allowlist_dropped_after_partial_use" else "fail:recipient_not_on_allow_list")
  else if Coins.amountOf movedBefore u.denom + u.amount > Coins.amountOf g0.limit u.denom then
    "fail:limit_exceeded"
  else "ok"

def pureStep (s : PState) (ws : List String) (impl : Option String) : PState × String × String :=
  match ws with
  | "grant" :: rest =>
    match (kv rest "limit") >>= parseCoins? with
    | some l =>
      let g : Grant := { limit := l, allow := splitList ((kv rest "allow").getD "-") }
      ({ g0 := some g, cur := some g }, "ok", "-")
    | none => (s, "bad-op", "-")
  | ["use", coin, to] =>
    match parseCoin? coin with
    | none => (s, "bad-op", "-")
    | some (d, a) =>
      let u : Use := { denom := d, amount := a, to := to }
      let (cur', out) : Option Grant × String :=
        match s.cur with
        | none => (none, "err:noauthz")
        | some g =>
          let r := accept g u
          (match r with
            | .accept true _ => none
            | .accept false g' => some g'
            | _ => some g, showAccept r)
      let implAccepted := match impl with
        | some i => (words i).headD "" == "accept"
        | none => out.startsWith "accept"
      -- a negative amount is no transfer (`ValidateBasic` refuses the message): nothing to judge
      let v := if a < 0 then "-" else match impl, s.g0 with
        | some i, some g0 =>
          if (words i).headD "" == "accept" then
            let v := useVerdict g0 s.movedImpl s.nAcc u
            if v != "ok" then v
            else
              -- exact accounting: what the implementation says is left
              let left := Coins.sub (Coins.sub g0.limit s.movedImpl) [(d, a)]
              if (kv (words i) "limit") != some (showLimit left) then "fail:remaining_limit_wrong" else "ok"
          else "ok"
        | some i, none => if (words i).headD "" == "accept" then "fail:accept_without_grant" else "ok"
        | none, _ => "-"
      -- follow the implementation's state when it is given
      let cur' := match impl with
        | some i =>
          let iw := words i
          if iw.headD "" == "accept" then
            (if kv iw "del" == some "1" then none
             else match (kv iw "limit") >>= parseCoins? with
               | some l => some { limit := l, allow := splitList ((kv iw "allow").getD "-") }
               | none => cur')
          else s.cur
        | none => cur'
      let s' := { s with cur := cur',
                         movedImpl := if implAccepted then s.movedImpl ++ [(d, a)] else s.movedImpl,
                         nAcc := if implAccepted then s.nAcc + 1 else s.nAcc }
      (s', out, v)
  | _ => (s, "bad-op", "-")

def driver : Driver where
  σ := PState
  init := {}
  step := fun s op impl => pureStep s (words op) impl

/-! ## App stream -/

def parseCfg? (ws : List String) : Option Cfg := do
  let acc ← (kv ws "acc") >>= parseAccess?
  let st ← (kv ws "st") >>= Status.ofString?
  let ty ← (kv ws "ty") >>= MType.ofString?
  let b (k : String) : Option Bool := match kv ws k with
    | some v => parseBool? v
    | none => some false
  pure { acc := acc, mgr := ← b "mgr", gov := ← b "gov", status := st, mtype := ty,
         forced := ← b "ft", govCtl := ← b "gc", ctlSupply := ← b "ctl" }

/-- `(recorded supply, caller balance, coins in existence)` of a probe line; `ctl=1` without
them means the caller holds the whole recorded and existing supply of 1000. -/
def parseSupplyView (ws : List String) (ctl : Bool) : Int × Int × Int :=
  match (kv ws "rec") >>= parseInt?, (kv ws "cbal") >>= parseInt?, (kv ws "sup") >>= parseInt? with
  | some r, some b, some s => (r, b, s)
  | _, _, _ => if ctl then (1000, 1000, 1000) else (1000, 0, 1000)

/-- the configuration with the whole-supply credential as DOCUMENTED (holds every existing
coin, and there are some) instead of as computed by `accountControlsAllSupply` -/
def honestCfg (c : Cfg) (callerBal circulating : Int) : Cfg :=
  { c with ctlSupply := Spec.holdsWholeSupply callerBal circulating }

/-- kinds of source account the harness sets up -/
def parseSrc? : String → Option (Bool × Acct)
  | "self" => some (true, { isGroup := false, present := true, seqNonZero := true, isMarker := false, isMarket := false })
  | "user" => some (false, { isGroup := false, present := true, seqNonZero := true, isMarker := false, isMarket := false })
  | "fresh" => some (false, { isGroup := false, present := true, seqNonZero := false, isMarker := false, isMarket := false })
  | "module" => some (false, { isGroup := false, present := true, seqNonZero := false, isMarker := false, isMarket := false })
  | "marker" => some (false, { isGroup := false, present := true, seqNonZero := false, isMarker := true, isMarket := false })
  | "market" => some (false, { isGroup := false, present := true, seqNonZero := false, isMarker := false, isMarket := true })
  | "absent" => some (false, { isGroup := false, present := false, seqNonZero := false, isMarker := false, isMarket := false })
  | _ => none

def destOfName : String → Dest
  | "RD" => .rmkDep | "RN" => .rmkNoDep | "BL" => .blocked | _ => .plain

/-- the denom of the marker under test in the app stream -/
def tokDenom : Denom := "mkrtok"

/-- the accounts of a transfer history: `C` and `K` sign as administrators (`K` is the second
one, with its own rights on the marker), the coins leave the source account — `S`, or `C` itself
when the source kind is `self` -/
structure AState where
  cfg : Option Cfg := none               -- the marker as administrator C sees it
  acc2 : List Access := []               -- the rights of administrator K on the marker
  srcName : String := "S"
  src : Acct := { isGroup := false, present := true, seqNonZero := true, isMarker := false, isMarket := false }
  g0 : AuthzStore := .empty       -- the grants as given
  stored : AuthzStore := .empty   -- the authz store (follows the implementation)
  bal : Int := 0
  movedImpl : List (Pair × (Denom × Int)) := []   -- what the implementation moved under each grant
  mkr : MState := {}

/-- the four grants of a transfer history, by the key they are printed under:
source→C, C→source, source→K, K→source -/
def AState.pairs (s : AState) : List (String × Pair) :=
  [("g", (s.srcName, "C")), ("r", ("C", s.srcName)), ("kg", (s.srcName, "K")), ("kr", ("K", s.srcName))]

def AState.movedOf (s : AState) (p : Pair) : Coins :=
  (s.movedImpl.filter (fun e => e.1 == p)).map (·.2)

def showStore (s : AState) (t : AuthzStore) : String :=
  " ".intercalate (s.pairs.map fun (k, p) => s!"{k}={showStored (t p)}")

/-- The property's conclusion for one operation the implementation accepted. -/
def probeVerdict (op : Op) (c honest : Cfg) (impl : String) : String :=
  let ws := words impl
  if ws.headD "" != "ok" then "ok"
  else if Spec.noop op c then
    (if kv ws "changed" == some "1" then "fail:cancel_noop_changed_state" else "ok")
  else if !Spec.available op c then s!"fail:{op.name}_in_undocumented_status_or_type"
  else if Spec.authorised op honest then "ok"
  -- the only credential is `accountControlsAllSupply` answering yes for a caller who does
  -- not hold the coins in existence (recorded supply 0 or stale)
  else if Spec.authorised op c then "fail:access_change_by_vacuous_supply_control"
  else s!"fail:{op.name}_without_right"

/-- The property's conclusion for one transfer the implementation accepted (`MsgTransferRequest`,
or `MsgIbcTransferRequest` when `ibc`), signed by `by_` whose view of the marker is `c`, against
the ORIGINAL grant of (source, `by_`) and the transfers that used it before. No other grant —
the administrator's to the source, the source's to another administrator — can justify it. -/
def xferVerdict (s : AState) (c : Cfg) (ibc : Bool) (by_ : String) (u : Use) (dest : Dest) : String :=
  let self := by_ == s.srcName
  let p : Pair := (s.srcName, by_)
  -- only the source account's own grant to this administrator (as originally given) can justify it
  let byGrant := match s.g0 p with
    | none => "none"
    | some g0 => useVerdict g0 (s.movedOf p) (s.movedOf p).length u
  if ibc then
    -- 03_messages.md Msg/IbcTransfer: restricted coins, "an account with the transfer permission
    -- as well as approval from the account the funds will be withdrawn from"
    if c.mtype != .restricted then "fail:ibc_transfer_of_unrestricted_marker"
    else if !c.has .transfer then "fail:ibc_transfer_without_right"
    else if self then "ok"
    else if byGrant == "none" then "fail:transfer_without_grant"
    else byGrant
  else
  if c.status != .active || c.mtype != .restricted then "fail:transfer_on_inactive_or_unrestricted_marker"
  else if !(c.has .transfer || c.has .forceTransfer) then "fail:transfer_without_right"
  else if dest == .rmkNoDep then "fail:transfer_deposit_right_missing"
  else if dest == .blocked then "fail:transfer_to_blocked_recipient"
  else if self then "ok"
  else if c.forced && c.has .forceTransfer && !Spec.moduleOrContractLike s.src then "ok"
  else
    if byGrant == "ok" then "ok"
    else if c.forced && c.has .forceTransfer then "fail:forced_from_module_or_contract"
    else if byGrant == "none" then
      (if c.has .forceTransfer then "fail:forced_on_marker_that_disallows_it" else "fail:transfer_without_grant")
    else byGrant

/-- The authz store the implementation reports after an accepted transfer: the grant the
transfer went through (if it went through one) holds the original limit minus everything moved
under it, and is gone when that is nothing; every other grant is as it was. -/
def storeVerdict (s : AState) (charged : Bool) (p : Pair) (u : Use) (iw : List String) : String :=
  let bad := s.pairs.filterMap fun (k, q) =>
    let got := (kv iw k).getD "?"
    if charged && q == p then
      match s.g0 p with
      | none => none     -- judged by `xferVerdict`
      | some g0 =>
        let left := Coins.sub (Coins.sub g0.limit (s.movedOf p)) [(u.denom, u.amount)]
        let want := if Coins.isZero left then "-" else showLimit left
        let gotLimit := if Coins.isZero left then got else (got.splitOn ";").headD ""
        if gotLimit == want then none else some "fail:remaining_limit_wrong"
    else if got == showStored (s.stored q) then none else some "fail:unrelated_grant_changed"
  bad.headD "ok"

private def insertSortedBy {α} (lt : α → α → Bool) (x : α) : List α → List α
  | [] => [x]
  | y :: ys => if lt x y then x :: y :: ys else y :: insertSortedBy lt x ys

/-- canonical rendering of the marker after a successful message -/
def showMState (m : MState) : String :=
  let rs := m.rights.foldl (fun acc r => insertSortedBy (fun (a b : String × List Access) => a.1 < b.1) r acc) []
  let acl := rs.map fun r => s!"{r.1}:{if r.2.isEmpty then "-" else "+".intercalate (r.2.map Access.toString)}"
  let bs := (m.bals.filter (·.2 != 0)).foldl (fun acc r => insertSortedBy (fun (a b : String × Int) => a.1 < b.1) r acc) []
  let bals := bs.map fun b => s!"{b.1}:{b.2}"
  s!"st={m.status.toString} mgr={m.manager.getD "-"} rec={m.record} esc={m.escrow} sup={m.circulating} acl={if acl.isEmpty then "-" else "|".intercalate acl} bals={if bals.isEmpty then "-" else "|".intercalate bals}"

/-- read the implementation's dump back (the checker then judges the next message in the
state the implementation is really in, so one disagreement does not cascade) -/
def parseMState? (prev : MState) (ws : List String) : Option MState := do
  let record ← (kv ws "rec") >>= parseInt?
  let escrow ← (kv ws "esc") >>= parseInt?
  let rights ← (splitList ((kv ws "acl").getD "-")).mapM fun ent =>
    match ent.splitOn ":" with
    | [a, rs] => (parseAccess? rs).map fun r => (a, r)
    | _ => none
  let bals ← (splitList ((kv ws "bals").getD "-")).mapM fun ent =>
    match ent.splitOn ":" with
    | [a, v] => (parseInt? v).map fun x => (a, x)
    | _ => none
  let status ← (kv ws "st") >>= Status.ofString?
  let mgr ← kv ws "mgr"
  pure { prev with live := true, record := record, escrow := escrow, rights := rights, bals := bals,
                   status := status, manager := if mgr == "-" then none else some mgr }

/-- scenario op, its caller, and the `Op` whose credentials the checker looks at -/
def parseSOp? (w : String) (ws : List String) : Option (SOp × String × Option Op) :=
  match w with
  | "smk" => do
    let amt ← (kv ws "amt") >>= parseInt?
    let fixed ← (kv ws "fixed") >>= parseBool?
    let ty ← (kv ws "ty") >>= MType.ofString?
    let acc ← (kv ws "acc") >>= parseAccess?
    pure (.create amt fixed ty acc, "A", none)
  | "sprop" => do
    let amt ← (kv ws "amt") >>= parseInt?
    let fixed ← (kv ws "fixed") >>= parseBool?
    let ty ← (kv ws "ty") >>= MType.ofString?
    let acc ← (kv ws "acc") >>= parseAccess?
    pure (.propose amt fixed ty acc, "A", none)
  | "sfin" => do pure (.finalize (← kv ws "by"), ← kv ws "by", some .finalize)
  | "sact" => do pure (.activate (← kv ws "by"), ← kv ws "by", some .activate)
  | "scan" => do pure (.cancel (← kv ws "by"), ← kv ws "by", some .cancel)
  | "sadd" => do
    let rights ← (kv ws "rights") >>= parseAccess?
    pure (.add (← kv ws "by") (← kv ws "to") rights, ← kv ws "by", some .addAccess)
  | "sdel" => do pure (.del (← kv ws "by") (← kv ws "who"), ← kv ws "by", some .deleteAccess)
  | "smint" => do pure (.mint (← kv ws "by") (← (kv ws "amt") >>= parseInt?), ← kv ws "by", some .mint)
  | "sburn" => do pure (.burn (← kv ws "by") (← (kv ws "amt") >>= parseInt?), ← kv ws "by", some .burn)
  | "swd" => do
    pure (.withdraw (← kv ws "by") (← kv ws "to") (← (kv ws "amt") >>= parseInt?), ← kv ws "by", some .withdraw)
  | _ => none

def appStep (s : AState) (ws : List String) (impl : Option String) : AState × String × String :=
  match ws with
  | "probe" :: rest =>
    match (kv rest "op") >>= Op.ofString?, parseCfg? rest with
    | some op, some c0 =>
      let (rec, cbal, sup) := parseSupplyView rest c0.ctlSupply
      let c := { c0 with ctlSupply := accountControlsAllSupply cbal rec sup }
      let e : Env := { dest := ((kv rest "dest") >>= Dest.ofString?).getD .plain,
                       circ := ((kv rest "circ") >>= parseBool?).getD false }
      let out := match runOp op c e with
        | .ok () => s!"ok changed={boolStr (op != .cancel || cancelChangesState c)}"
        | .error err => err.toString
      let v := match impl with
        | some i => probeVerdict op c (honestCfg c cbal sup) i
        | none => "-"
      (s, out, v)
    | _, _ => (s, "bad-op", "-")
  | "xsetup" :: rest =>
    let grantOf (k : String) : Option (Option Grant) := match kv rest k with
      | some v => parseGrant? v
      | none => some none
    match parseCfg? rest, (kv rest "src") >>= parseSrc?, grantOf "grant", (kv rest "bal") >>= parseInt?,
        grantOf "rgrant", grantOf "kgrant", grantOf "krgrant", parseAccess? ((kv rest "acc2").getD "-") with
    | some c, some (self, a), some g, some b, some r, some kg, some kr, some acc2 =>
      let sn := if self then "C" else "S"
      -- same order as the harness saves them (a later one replaces an earlier one of the same pair)
      let t : AuthzStore := (((AuthzStore.empty.put (sn, "C") g).put ("C", sn) r).put (sn, "K") kg).put ("K", sn) kr
      ({ cfg := some c, acc2 := acc2, srcName := sn, src := a, g0 := t, stored := t, bal := b }, "ok", "-")
    | _, _, _, _, _, _, _, _ => (s, "bad-op", "-")
  | "xfer" :: rest =>
    match s.cfg, (kv rest "amt") >>= parseInt?, kv rest "to" with
    | some cC, some amt, some to =>
      let ibc := kv rest "via" == some "ibc"
      let by_ := (kv rest "by").getD "C"
      let c : Cfg := if by_ == "C" then cC else { cC with acc := s.acc2 }
      let u : Use := { denom := tokDenom, amount := amt, to := to }
      -- the destination marker RD lists C (and governance) with `deposit`, not K
      let dest := if by_ == "K" && to == "RD" then Dest.rmkNoDep else destOfName to
      let m : TMsg := { ibc := ibc, admin := by_, from_ := s.srcName, cfg := c,
                        x := { selfFrom := by_ == s.srcName, src := s.src, dest := dest,
                               stored := s.stored (s.srcName, by_), use := u, fromBal := s.bal } }
      let r := m.runWith keepAllowListOnUpdate s.stored
      let (s1, out) : AState × String := match r with
        | .ok t' => ({ s with stored := t', bal := s.bal - amt }, s!"ok {showStore s t'} recv={amt}")
        | .error e => (s, e.toString)
      let iw := match impl with
        | some i => words i
        | none => []
      let implOk := iw.headD "" == "ok"
      let used := implOk && m.charges
      let v := match impl with
        | some _ =>
          if implOk then
            let v := xferVerdict s c ibc by_ u dest
            if v != "ok" then v else storeVerdict s used (s.srcName, by_) u iw
          else "ok"
        | none => "-"
      -- follow the implementation's state when it is given
      let s1 := match impl with
        | some _ =>
          if implOk then
            let t' := s.pairs.foldl (fun (t : AuthzStore) (k, q) =>
              match (kv iw k) >>= parseGrant? with
              | some g => t.put q g
              | none => t) s1.stored
            { s with stored := t', bal := s.bal - amt }
          else s
        | none => s1
      let s2 := { s1 with movedImpl := if used then s.movedImpl ++ [((s.srcName, by_), (tokDenom, amt))] else s.movedImpl }
      (s2, out, v)
    | _, _, _ => (s, "bad-op", "-")
  | w :: rest =>
    match parseSOp? w rest with
    | none => (s, "bad-op", "-")
    | some (sop, by_, mop) =>
      let r := scenStep s.mkr sop
      let (mk', out) : MState × String := match r with
        | .ok m' => (m', "ok " ++ showMState m')
        | .error e => (s.mkr, e.toString)
      let v := match impl, mop with
        | some i, some op =>
          let c := s.mkr.cfg by_
          let v := probeVerdict op c (honestCfg c (s.mkr.balOf by_) s.mkr.circulating) i
          -- the credential-free success (`Cancel` of a cancelled marker) must leave the marker as it was
          if v == "ok" && Spec.noop op c && (words i).headD "" == "ok"
              && " ".intercalate ((words i).drop 1) != showMState s.mkr then "fail:cancel_noop_changed_state"
          else v
        | some _, none => "-"
        | none, _ => "-"
      -- follow the implementation's state when it is given
      let mk'' := match impl with
        | some i =>
          let iw := words i
          if iw.headD "" == "ok" then
            let base := match sop with
              | .create _ fixed ty _ => { mk' with fixed := fixed, mtype := ty }
              | .propose _ fixed ty _ => { mk' with fixed := fixed, mtype := ty }
              | _ => s.mkr
            (parseMState? base iw).getD mk'
          else s.mkr
        | none => mk'
      ({ s with mkr := mk'' }, out, v)
  | _ => (s, "bad-op", "-")

def appDriver : Driver where
  σ := AState
  init := {}
  step := fun s op impl => appStep s (words op) impl

end PvModel.Mkracc
