/-
C07 — declarative side: what the property text and x/quarantine/spec say, as predicates on a
state (opt-ins, auto-responses, records, index, balances).  They are used in two places:
  * the theorems of `PvProofs.C07` prove them of every state the model reaches;
  * the driver parses the *implementation's* dumped state into the same `State` type and
    evaluates the `…B` (Bool) forms on it after every operation.
Nothing here looks at the model's control flow.
-/
import PvModel.Quar

namespace PvModel.Quar
open PvModel

/-- What the holder has beyond the total of all records, per denom. -/
def slack (s : State) (d : Denom) : Int := Ledger.bal s.bank s.holder d - outstanding s d

/-- "whose balance always covers the total of all quarantine records" -/
def HolderCovers (s : State) : Prop := ∀ d, outstanding s d ≤ Ledger.bal s.bank s.holder d

/-- ghost ledger: everything ever quarantined is either released or still on record -/
def GhostLedger (s : State) : Prop :=
  ∀ d, Coins.amountOf s.qin d = Coins.amountOf s.qout d + outstanding s d

/-- a record is stored under the key recomputed from its own senders -/
def KeyOK (s : State) : Prop :=
  ∀ e ∈ s.recs, e.1.2 = createRecordSuffix e.2.getAllFromAddrs

/-- no stored record is fully accepted (such a record is paid and deleted instead) -/
def NoneFullyAccepted (s : State) : Prop := ∀ e ∈ s.recs, e.2.isFullyAccepted = false

/-- no record holds a negative amount -/
def RecsNonneg (s : State) : Prop := ∀ e ∈ s.recs, ∀ d, 0 ≤ Coins.amountOf e.2.coins d

/-- store keys are unique -/
def KeysNodup (s : State) : Prop := (s.recs.map (·.1)).Nodup

/-- every multi-sender record is listed in the suffix index of each of its senders -/
def IndexOK (s : State) : Prop :=
  ∀ e ∈ s.recs, 1 < e.2.getAllFromAddrs.length →
    ∀ f ∈ e.2.getAllFromAddrs, e.1.2 ∈ getIdx s.index e.1.1 f

/-- Spec of who gets the coins of a transfer `from_ → to`: a recipient that opted in does not
get them unless it set `from_` to auto-accept (a send to oneself and a send by the holder are
never quarantined). -/
def quarantines (s : State) (from_ to : Addr) : Bool :=
  isQuarantinedAddr s to && !(getAutoResponse s to from_ = .accept) && !(from_ = s.holder)

def destOf (s : State) (x : Xfer) : Addr := if quarantines s x.from_ x.to then s.holder else x.to

/-- expected balance change of account `a` in denom `d` caused by the transfers `xs`
(all evaluated in the state *before* the message). -/
def expDelta (s : State) (xs : List Xfer) (a : Addr) (d : Denom) : Int :=
  match xs with
  | [] => 0
  | x :: rest =>
    (if destOf s x = a then Coins.amountOf x.amt d else 0)
      - (if x.from_ = a then Coins.amountOf x.amt d else 0) + expDelta s rest a d

/-- expected growth of the record total caused by the transfers `xs` -/
def expQuarantined (s : State) (xs : List Xfer) (d : Denom) : Int :=
  match xs with
  | [] => 0
  | x :: rest => (if quarantines s x.from_ x.to then Coins.amountOf x.amt d else 0) + expQuarantined s rest d

/-- expected growth of one single-sender record `(to, [f])` -/
def expRecord (s : State) (xs : List Xfer) (to f : Addr) (d : Denom) : Int :=
  match xs with
  | [] => 0
  | x :: rest =>
    (if quarantines s x.from_ x.to ∧ x.to = to ∧ x.from_ = f then Coins.amountOf x.amt d else 0)
      + expRecord s rest to f d

/-- the bank transfers a successful operation asks for -/
def Op.xfers : Op → List Xfer
  | .send f t c => [⟨f, t, c⟩]
  | .msend f outs => outs.map fun o => ⟨f, o.1, o.2⟩
  | .iosend ins t => ins.map fun i => ⟨i.1, t, i.2⟩
  | _ => []

/-- the holder's key signs nothing (it is a module account) -/
def Op.holderNeverSigns (h : Addr) : Op → Bool
  | .optIn a | .optOut a => a ≠ h
  | .auto to _ => to ≠ h
  | .send f _ _ => f ≠ h
  | .msend f _ => f ≠ h
  | .iosend ins _ => ins.all fun i => i.1 ≠ h
  | .bsend f _ _ => f ≠ h
  | .accept to _ _ | .decline to _ _ => to ≠ h
  | .qadd _ _ _ p => p ≠ h

/-- … and nobody names the holder as a recipient -/
def Op.holderNotNamed (h : Addr) : Op → Bool
  | .send f t _ => f ≠ h && t ≠ h
  | .msend f outs => f ≠ h && outs.all fun o => o.1 ≠ h
  | .iosend ins t => t ≠ h && ins.all fun i => i.1 ≠ h
  | .bsend f t _ => f ≠ h && t ≠ h
  | .qadd to _ _ p => p ≠ h && to ≠ h
  | op => op.holderNeverSigns h

/-- the operations that, per the property, "never move or lose funds" -/
def Op.movesNoFunds : Op → Bool
  | .optIn _ | .optOut _ | .auto _ _ | .decline _ _ _ => true
  | _ => false

/-- coins of the record stored under a key (`[]` when there is none) -/
def coinsAt (s : State) (to : Addr) (sfx : Suffix) : Coins :=
  match kvGet s.recs (to, sfx) with
  | some r => r.coins
  | none => []

/-- the records of `to` that an `accept to froms` completes: every still-unaccepted sender is named -/
def completes (froms : List Addr) (r : Record) : Bool :=
  r.unacc.all fun a => froms.contains a

/-- what `accept to froms` has to pay: the coins of the records of `to` it completes -/
def expReleased (recs : List ((Addr × Suffix) × Record)) (to : Addr) (froms : List Addr) (d : Denom) : Int :=
  match recs with
  | [] => 0
  | (k, r) :: rest =>
    (if k.1 = to ∧ completes froms r then Coins.amountOf r.coins d else 0) + expReleased rest to froms d

/-! ### what the HISTORY of successful messages says

The store's own bookkeeping (the accepted / unaccepted lists of a record, the auto-response
entries, the opt-in flags) is the thing under test, so the two clauses "a record is paid only
when EVERY sender on it is currently accepted" and "funds arrive directly only from senders
whose auto-response is accept at that time" are judged against what the receiver has actually
said so far: `Hist` is rebuilt from the successful messages alone (plus WHICH record keys exist,
never the lists stored in them). -/

structure Hist where
  /-- receivers that opted in and have not opted out since -/
  optin : List (Addr × Unit)
  /-- auto-responses as set by `UpdateAutoResponses`, permanent accepts and permanent declines -/
  auto : List ((Addr × Addr) × AutoResp)
  /-- per stored record: the senders the receiver has accepted (or had on auto-accept when the
  record was created) and not declined since -/
  acc : List ((Addr × Suffix) × List Addr)

def Hist.empty : Hist := ⟨[], [], []⟩

/-- `UpdateAutoResponses` read as a specification: later updates win, `unspec` removes. -/
def applyUps (auto : List ((Addr × Addr) × AutoResp)) (to : Addr) :
    List (Addr × AutoResp) → List ((Addr × Addr) × AutoResp)
  | [] => auto
  | (f, r) :: rest => applyUps (if r = .unspec then kvDel auto (to, f) else kvSet auto (to, f) r) to rest

/-- the auto-response of `to` for `f` according to the history (an address always accepts itself) -/
def Hist.autoResp (h : Hist) (to f : Addr) : AutoResp :=
  if to = f then .accept else (kvGet h.auto (to, f)).getD .unspec

/-- the senders of record `k` accepted so far according to the history -/
def Hist.accepted (h : Hist) (k : Addr × Suffix) : List Addr := (kvGet h.acc k).getD []

def Hist.stepOptin (h : Hist) : Op → List (Addr × Unit)
  | .optIn a => kvSet h.optin a ()
  | .optOut a => kvDel h.optin a
  | _ => h.optin

/-- only three messages change auto-responses; a one-time accept or decline does not -/
def Hist.stepAuto (h : Hist) : Op → List ((Addr × Addr) × AutoResp)
  | .auto to ups => applyUps h.auto to ups
  | .accept to froms true => applyUps h.auto to (froms.map fun f => (f, AutoResp.accept))
  | .decline to froms true => applyUps h.auto to (froms.map fun f => (f, AutoResp.decline))
  | _ => h.auto

/-- an accept marks the named senders accepted on every record of the receiver they are on;
a decline takes every named sender's acceptance back; nothing else touches an acceptance -/
def Hist.stepAccExisting (h : Hist) : Op → List ((Addr × Suffix) × List Addr)
  | .accept to froms _ => h.acc.map fun e =>
      (e.1, if e.1.1 = to then e.2 ++ e.1.2.filter (fun a => froms.contains a) else e.2)
  | .decline to froms _ => h.acc.map fun e =>
      (e.1, if e.1.1 = to then e.2.filter (fun a => !froms.contains a) else e.2)
  | _ => h.acc

/-- the accepted senders of record `k` after a successful `op`: a record that is new starts with
the senders that are on auto-accept at that moment -/
def Hist.accAfter (h : Hist) (op : Op) (k : Addr × Suffix) : List Addr :=
  match kvGet (h.stepAccExisting op) k with
  | some a => a
  | none => k.2.filter fun f => h.autoResp k.1 f = AutoResp.accept

/-- The history after a successful `op` that left the record keys `keysAfter` in the store
(a record that is gone is forgotten). -/
def Hist.step (h : Hist) (op : Op) (keysAfter : List (Addr × Suffix)) : Hist :=
  { optin := h.stepOptin op,
    auto := h.stepAuto op,
    acc := keysAfter.map fun k => (k, h.accAfter op k) }

/-- start of a history (and after a genesis import, which is outside the property): take the
store's word once -/
def Hist.ofState (s : State) : Hist := ⟨s.optin, s.auto, s.recs.map fun e => (e.1, e.2.acc)⟩

/-- The state as the history says it has to be read: balances, record keys and coins are the
store's, opt-ins / auto-responses / who is accepted on which record are the history's. -/
def Hist.view (h : Hist) (p : State) : State :=
  { p with optin := h.optin, auto := h.auto,
           recs := p.recs.map fun e =>
             (e.1, { e.2 with unacc := e.1.2.filter (fun a => !(h.accepted e.1).contains a),
                              acc := e.1.2.filter (fun a => (h.accepted e.1).contains a) }) }

/-! ### the exact effect of EVERY operation on balances and on every record's coins

`expDelta`/`expRecord` above describe the three bank sends.  The functions below extend them to all
ten operations, so that one theorem (`every_op_exact_effect`) can say: a successful operation
changes every balance and the coins under every record key by exactly this much. -/

/-- expected growth, by the transfers `xs`, of the record stored under ANY key `k`: a bank send
creates / tops up single-sender records only -/
def expRecordAt (s : State) (xs : List Xfer) (k : Addr × Suffix) (d : Denom) : Int :=
  match k.2 with
  | [f] => expRecord s xs k.1 f d
  | _ => 0

/-- the record under `k` is one that `accept to froms` completes (and therefore pays and deletes) -/
def completedAt (s : State) (to : Addr) (froms : List Addr) (k : Addr × Suffix) : Bool :=
  decide (k.1 = to) && match kvGet s.recs k with
    | some r => completes froms r
    | none => false

/-- what a successful `op` does to the balance of `a`, per denom -/
def Op.expBalDelta (s : State) (op : Op) (a : Addr) (d : Denom) : Int :=
  match op with
  | .send _ _ _ | .msend _ _ | .iosend _ _ => expDelta s op.xfers a d
  | .bsend f t c => (if t = a then Coins.amountOf c d else 0) - (if f = a then Coins.amountOf c d else 0)
  | .qadd _ _ c p => (if s.holder = a then Coins.amountOf c d else 0) - (if p = a then Coins.amountOf c d else 0)
  | .accept to froms _ =>
    (if to = a then expReleased s.recs to froms d else 0) - (if s.holder = a then expReleased s.recs to froms d else 0)
  | _ => 0

/-- what a successful `op` does to the coins of the record under key `k`, per denom -/
def Op.expRecDelta (s : State) (op : Op) (k : Addr × Suffix) (d : Denom) : Int :=
  match op with
  | .send _ _ _ | .msend _ _ | .iosend _ _ => expRecordAt s op.xfers k d
  | .qadd to froms c _ => if k = (to, createRecordSuffix froms) then Coins.amountOf c d else 0
  | .accept to froms _ => if completedAt s to froms k then - Coins.amountOf (coinsAt s k.1 k.2) d else 0
  | _ => 0

/-! ### per receiver: quarantined for it, released to it, still on record for it -/

def sumRecsFor (to : Addr) : List ((Addr × Suffix) × Record) → Denom → Int
  | [], _ => 0
  | (k, r) :: t, d => (if k.1 = to then Coins.amountOf r.coins d else 0) + sumRecsFor to t d

/-- total of the records on file for receiver `to` -/
def outstandingFor (s : State) (to : Addr) (d : Denom) : Int := sumRecsFor to s.recs d

/-- what the transfers `xs` quarantine for receiver `to` -/
def expQuarantinedFor (s : State) (xs : List Xfer) (to : Addr) (d : Denom) : Int :=
  match xs with
  | [] => 0
  | x :: rest =>
    (if quarantines s x.from_ x.to ∧ x.to = to then Coins.amountOf x.amt d else 0) + expQuarantinedFor s rest to d

/-- what a successful `op` quarantines for receiver `to` -/
def Op.quarantinedFor (s : State) (op : Op) (to : Addr) (d : Denom) : Int :=
  match op with
  | .send _ _ _ | .msend _ _ | .iosend _ _ => expQuarantinedFor s op.xfers to d
  | .qadd t _ c _ => if t = to then Coins.amountOf c d else 0
  | _ => 0

/-- total quarantined for `to` by the successful operations of the history `ops` from `s` -/
def quarantinedForRun (s : State) (to : Addr) (d : Denom) : List Op → Int
  | [] => 0
  | op :: ops =>
    (match exec s op with
      | .ok _ => op.quarantinedFor s to d
      | .error _ => 0) + quarantinedForRun (step s op) to d ops

/-- what `to`'s balance gained over an operation, counted only when the operation is an accept
signed by `to` -/
def Op.observedRelease (op : Op) (before after : Ledger) (to : Addr) (d : Denom) : Int :=
  match op with
  | .accept t _ _ => if t = to then Ledger.bal after to d - Ledger.bal before to d else 0
  | _ => 0

/-- total CREDITED to `to` by its accepts over the history `ops` from `s`, read off the balances
(a rejected accept changes nothing) -/
def creditedByReleases (s : State) (to : Addr) (d : Denom) : List Op → Int
  | [] => 0
  | op :: ops => op.observedRelease s.bank (step s op).bank to d + creditedByReleases (step s op) to d ops

/-! ### who may be credited: the context bypass

`quarantine.WithBypass(ctx)` switches the quarantine send restriction off.  Its call sites
(regenerated from the source on every run: `Generated.QuarBypass`, checked in
`PvProofs.C07Facts`) are the release of accepted funds inside `AcceptQuarantinedFunds` (part of
`.accept` here) and three functions of the exchange module, which `.bsend` stands for. -/

/-- the operation is a transfer made by the exchange module under the context bypass -/
def Op.exchangeBypass : Op → Bool
  | .bsend _ _ _ => true
  | _ => false

/-- what `a` receives by the transfers `xs` from senders it has on auto-accept (or from itself) -/
def acceptedCredit (s : State) (xs : List Xfer) (a : Addr) (d : Denom) : Int :=
  match xs with
  | [] => 0
  | x :: rest =>
    (if x.to = a ∧ getAutoResponse s a x.from_ = .accept then Coins.amountOf x.amt d else 0)
      + acceptedCredit s rest a d

/-- what `a` pays as a sender of the transfers `xs` -/
def sentBy (xs : List Xfer) (a : Addr) (d : Denom) : Int :=
  match xs with
  | [] => 0
  | x :: rest => (if x.from_ = a then Coins.amountOf x.amt d else 0) + sentBy rest a d

/-- what `a` is named to receive by the transfers `xs` -/
def receivedBy (xs : List Xfer) (a : Addr) (d : Denom) : Int :=
  match xs with
  | [] => 0
  | x :: rest => (if x.to = a then Coins.amountOf x.amt d else 0) + receivedBy rest a d

/-- what `a`'s OWN accept releases to it -/
def Op.ownRelease (s : State) (op : Op) (a : Addr) (d : Denom) : Int :=
  match op with
  | .accept to froms _ => if to = a then expReleased s.recs to froms d else 0
  | _ => 0

/-- what `a` pays by `op` -/
def Op.paidBy (op : Op) (a : Addr) (d : Denom) : Int :=
  match op with
  | .qadd _ _ c p => if p = a then Coins.amountOf c d else 0
  | op => sentBy op.xfers a d

/-! ### Bool forms, run on the implementation's dumped state -/

def denomsOf (s : State) : List Denom :=
  (s.bank.map (·.denom)) ++ (s.recs.flatMap fun e => Coins.denoms e.2.coins)

def holderCoversB (s : State) (ds : List Denom) : Bool :=
  ds.all fun d => decide (outstanding s d ≤ Ledger.bal s.bank s.holder d)

def keyOKB (s : State) : Bool :=
  s.recs.all fun e => e.1.2 = createRecordSuffix e.2.getAllFromAddrs

def noneFullyAcceptedB (s : State) : Bool := s.recs.all fun e => !e.2.isFullyAccepted

def indexOKB (s : State) : Bool :=
  s.recs.all fun e => !(decide (1 < e.2.getAllFromAddrs.length)) ||
    e.2.getAllFromAddrs.all fun f => (getIdx s.index e.1.1 f).contains e.1.2

/-- `Simplify` result: strictly increasing (sorted, no duplicates) -/
def strictSorted : List Suffix → Bool
  | [] => true
  | [_] => true
  | a :: b :: rest => sfxLt a b && strictSorted (b :: rest)

/-! ### the clauses the driver evaluates on the implementation's `Simplify` output and on the
chain's own invariant verdict (moved here from the driver so that theorems can talk about them) -/

/-- clause `simplify_not_sorted_unique` -/
def simplifySortedUnique (out : List Suffix) : Bool := strictSorted out
/-- clause `simplify_invented_or_kept_removed`: every output entry was in the input and was not to be removed -/
def simplifyNothingInvented (rm l out : List Suffix) : Bool := out.all fun x => l.contains x && !rm.contains x
/-- clause `simplify_lost_suffix`: every input entry not to be removed is in the output -/
def simplifyNothingLost (rm l out : List Suffix) : Bool := l.all fun x => rm.contains x || out.contains x

/-- the verdict on an implementation `Simplify(rm)` result `out` for the input `l` -/
def simplifyVerdict (rm l out : List Suffix) : String :=
  if !simplifySortedUnique out then "fail:simplify_not_sorted_unique"
  else if !simplifyNothingInvented rm l out then "fail:simplify_invented_or_kept_removed"
  else if !simplifyNothingLost rm l out then "fail:simplify_lost_suffix"
  else "ok"

/-- clause `chain_invariant_wrong`: what the chain's `FundsHolderBalanceInvariant` reported
(`invOk` = not broken) is what "the holder covers the records" says on the denoms `ds` -/
def chainInvariantAgrees (invOk : Bool) (c : State) (ds : List Denom) : Bool := invOk = holderCoversB c ds

end PvModel.Quar
