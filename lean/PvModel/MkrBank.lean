/-
C04 — the bank wiring: how the (forked) SDK bank keeper calls the marker send restriction when coins
move.  Mirrors, function by function (Go names kept; github.com/provenance-io/cosmos-sdk v0.50.10-pio-1):

  x/bank/keeper/send.go     SendCoins (311-356), subUnlockedCoins (360-401), addCoins (405-427),
                            InputOutputCoinsProv (152-307), sendRestriction.apply (605-610)
  x/bank/keeper/keeper.go   DelegateCoins (125-175)
  x/bank/types/inputs_outputs.go  ValidateInputsOutputs (18-41), Input/Output.ValidateBasic (44-58)
  x/bank/types/restrictions.go    ComposeSendRestrictions (79-103): run in order, first error wins,
                            the receiver returned by one restriction is handed to the next
  types/coin.go             Coins.Validate (233-275)
  x/marker/keeper/keeper.go:127   bankKeeper.AppendSendRestriction(rv.SendRestrictionFn) — the marker
                            restriction is the FIRST one appended (app/app.go builds the marker keeper
                            before sanction and quarantine), so it sees the original receiver.

Balances live in `PvModel.Ledger` (append-only deltas; meaning = `bal`).  Every function returns
`Except Err Ledger`: on an error the Go functions leave partial writes in the context they were given
(SendCoins has already debited the sender when the restriction refuses) and rely on the caller's cache
context (baseapp runTx / the msg-service router; `Try` in the harness) to drop them — `commit` is that
step, `sendCoinsRaw` keeps the partial write visible.

The restrictions appended after the marker's are a parameter (`World.later`); `appLater` is the app's
composition (x/sanction/keeper/send_restriction.go:15, x/quarantine/keeper/send_restriction.go:15).
`inputOutputCoinsProvMerged` is InputOutputCoinsProv with the merged per-address `sdk.Coins` of the Go text.

Not modelled: denom syntax (`ValidateDenom`), bech32 decoding of Input/Output addresses, events,
creation of the receiver's base account, vesting delegation tracking.  Core-only.
-/
import PvModel.MkrSend

namespace PvModel.MkrSend.Bank
open PvModel

inductive Err
  | invalid            -- ErrInvalidCoins: !amt.IsValid() (or !IsAllPositive in ValidateBasic)
  | funds              -- ErrInsufficientFunds
  | noInputs           -- ErrNoInputs
  | noOutputs          -- ErrNoOutputs
  | manyToMany         -- ErrManyToMany
  | mismatch           -- ErrInputOutputMismatch
  | noModuleAcc        -- DelegateCoins: module account does not exist
  | denied (r : Reason)  -- the marker restriction refused
  | later              -- a restriction appended after the marker's (sanction, quarantine) refused
  deriving DecidableEq, Repr

/-- The context and the stores as the restriction sees them for one (sender, receiver) pair. -/
def pairCfg (env : Cfg) (f t : Addr) : Cfg := { env with fromAddr := f, toAddr := t }

/-- What surrounds the marker restriction in the bank keeper.  `env.fromAddr`/`env.toAddr` are not read
(every call sets them, `pairCfg`). -/
structure World where
  env : Cfg
  /-- `k.LockedCoins(ctx, addr).AmountOf(denom)` (vesting, holds, …) -/
  locked : Addr → Denom → Int
  /-- the restrictions appended after the marker's, composed: `none` = one refused,
      `some to'` = the (possibly redirected, e.g. quarantined) receiver -/
  later : Addr → Addr → Coins → Option Addr
  /-- `ak.GetAccount(moduleAccAddr) != nil` (DelegateCoins only) -/
  hasAccount : Addr → Bool

/-- No further restriction: the receiver is returned unchanged. -/
def noLater : Addr → Addr → Coins → Option Addr := fun _ t _ => some t

/-- What the two restrictions the app appends after the marker's read (app/app.go: sanction keeper :681,
quarantine keeper :720, both `bankKeeper.AppendSendRestriction` in their `NewKeeper`), without their
context bypasses (`sanction.WithBypass`, `quarantine.WithBypass`: only the modules' own keepers set them). -/
structure LaterCfg where
  /-- `sanctionKeeper.IsSanctionedAddr` -/
  sanctioned : Addr → Bool
  /-- `quarantineKeeper.IsQuarantinedAddr` (the address opted in) -/
  quarantined : Addr → Bool
  /-- `quarantineKeeper.IsAutoAccept(ctx, toAddr, fromAddr)` -/
  autoAccept : Addr → Addr → Bool
  /-- `quarantineKeeper.GetFundsHolder()` -/
  fundsHolder : Addr

/-- x/sanction/keeper/send_restriction.go:15 — a sanctioned SENDER is refused; the receiver is not looked at. -/
def sanctionRestriction (c : LaterCfg) (f t : Addr) : Option Addr :=
  if c.sanctioned f then none else some t

/-- x/quarantine/keeper/send_restriction.go:15 — coins for a receiver that opted in (and does not
auto-accept this sender) go to the funds holder instead (and are recorded as quarantined; that record is
not a balance).  Sends to oneself and sends by the funds holder pass. -/
def quarantineRestriction (c : LaterCfg) (f t : Addr) : Option Addr :=
  if f = t || f = c.fundsHolder then some t
  else if !c.quarantined t || c.autoAccept t f then some t
  else some c.fundsHolder

/-- `ComposeSendRestrictions` of the two, in the app's order: sanction, then quarantine on the receiver
sanction returned. -/
def appLater (c : LaterCfg) : Addr → Addr → Coins → Option Addr := fun f t _ =>
  match sanctionRestriction c f t with
  | none => none
  | some t' => quarantineRestriction c f t'

/-- `sdk.Coins.Validate` (types/coin.go:233) without the denom-syntax test: amounts positive, denoms
strictly ascending (each coin compared with the previous one). -/
def isValid : Coins → Bool
  | [] => true
  | [(_, a)] => Decidable.decide (0 < a)
  | (d0, a0) :: (d1, a1) :: rest => Decidable.decide (0 < a0) && Decidable.decide (d0 < d1) && isValid ((d1, a1) :: rest)

/-- "Funds suffice": every coin is covered by the sender's spendable (balance − locked) amount. -/
def fundsSuffice (w : World) (l : Ledger) (addr : Addr) (amt : Coins) : Bool :=
  amt.all fun c => Decidable.decide (c.2 ≤ l.bal addr c.1 - w.locked addr c.1)

/-- `sendRestriction.apply` with the app's composition: the marker restriction first (it returns the
receiver unchanged), then the rest. -/
def applyRestriction (w : World) (f t : Addr) (amt : Coins) : Except Err Addr :=
  match MkrSend.decide (pairCfg w.env f t) amt with
  | .error r => .error (.denied r)
  | .ok _ =>
    match w.later f t amt with
    | none => .error .later
    | some t' => .ok t'

/-- The coin loop of `subUnlockedCoins` (send.go:367-392): balance, locked, spendable, new balance —
coin by coin on the balances already written. -/
def subLoop (w : World) (addr : Addr) : Ledger → Coins → Except Err Ledger
  | l, [] => .ok l
  | l, (d, a) :: rest =>
    let balance := l.bal addr d
    let locked := w.locked addr d
    if balance - locked < 0 then .error .funds             -- "locked amount exceeds account balance funds"
    else if balance - locked - a < 0 then .error .funds    -- "spendable balance … is smaller than …"
    else subLoop w addr (l.debit addr [(d, a)]) rest

/-- `subUnlockedCoins` (send.go:360). -/
def subUnlockedCoins (w : World) (l : Ledger) (addr : Addr) (amt : Coins) : Except Err Ledger :=
  if !isValid amt then .error .invalid else subLoop w addr l amt

/-- `addCoins` (send.go:405): `balance.Add(coin)` per coin. -/
def addCoins (l : Ledger) (addr : Addr) (amt : Coins) : Except Err Ledger :=
  if !isValid amt then .error .invalid else .ok (l.credit addr amt)

/-- `SendCoins` (send.go:311). -/
def sendCoins (w : World) (l : Ledger) (f t : Addr) (amt : Coins) : Except Err Ledger :=
  match subUnlockedCoins w l f amt with
  | .error e => .error e
  | .ok l1 =>
    match applyRestriction w f t amt with
    | .error e => .error e
    | .ok t' => addCoins l1 t' amt

/-- `SendCoins` without the caller's cache context: the balances the function leaves behind in the
context it was handed, together with its result. -/
def sendCoinsRaw (w : World) (l : Ledger) (f t : Addr) (amt : Coins) : Ledger × Option Err :=
  match subUnlockedCoins w l f amt with
  | .error e => (l, some e)       -- (the loop's own partial debits on a funds error are not tracked here)
  | .ok l1 =>
    match applyRestriction w f t amt with
    | .error e => (l1, some e)
    | .ok t' =>
      match addCoins l1 t' amt with
      | .error e => (l1, some e)
      | .ok l2 => (l2, none)

/-- `DelegateCoins` (keeper.go:125): the same wiring, except that the receiver the restrictions return
is dropped (`_`) and the coins go to the module account itself.  `w.locked` stands for
`LockedCoins(WithVestingLockedBypass(ctx), …)` here. -/
def delegateCoins (w : World) (l : Ledger) (delegator moduleAcc : Addr) (amt : Coins) : Except Err Ledger :=
  if !w.hasAccount moduleAcc then .error .noModuleAcc
  else
    match subUnlockedCoins w l delegator amt with
    | .error e => .error e
    | .ok l1 =>
      match applyRestriction w delegator moduleAcc amt with
      | .error e => .error e
      | .ok _ => addCoins l1 moduleAcc amt

/-- What the caller's cache context does with a result: written only on success. -/
def commit (l : Ledger) : Except Err Ledger → Ledger
  | .ok l' => l'
  | .error _ => l

/-! ### InputOutputCoinsProv -/

/-- `types.Input` / `types.Output`. -/
structure IO where
  addr : Addr
  coins : Coins
  deriving Repr

def sumCoins (ios : List IO) : Coins := ios.flatMap (·.coins)

/-- `Input.ValidateBasic` / `Output.ValidateBasic`: valid and all positive (so: not empty). -/
def ioValid (io : IO) : Bool := isValid io.coins && !io.coins.isEmpty

/-- `totalIn.Equal(totalOut)` on the merged sums: the same amount of every denom. -/
def sumsMatch (ins outs : List IO) : Bool :=
  (Coins.denoms (sumCoins ins) ++ Coins.denoms (sumCoins outs)).all fun d =>
    Decidable.decide (Coins.amountOf (sumCoins ins) d = Coins.amountOf (sumCoins outs) d)

/-- `ValidateInputsOutputs` (inputs_outputs.go:18). -/
def validateInputsOutputs (ins outs : List IO) : Except Err Unit :=
  if !(ins.all ioValid && outs.all ioValid) then .error .invalid
  else if !sumsMatch ins outs then .error .mismatch
  else .ok ()

/-- send.go:172-199: the inputs are merged per address (`inputAmounts[key] = amt.Add(input.Coins...)`,
order of first appearance) and each address is debited once with its merged amount through
`subUnlockedCoins`.  The merged `sdk.Coins` is represented by the unmerged concatenation `mine`
(its meaning is `amountOf`): the coin loop over the merged coins tests, per denom present,
`merged amount ≤ balance − locked` and writes `balance − merged amount`. -/
def debitPhaseAux (w : World) : Nat → Ledger → List IO → Except Err Ledger
  | 0, l, _ => .ok l
  | _ + 1, l, [] => .ok l
  | n + 1, l, i :: rest =>
    let mine := i.coins ++ sumCoins (rest.filter fun j => j.addr = i.addr)
    if (Coins.denoms mine).all fun d =>
        Decidable.decide (Coins.amountOf mine d ≤ l.bal i.addr d - w.locked i.addr d) then
      debitPhaseAux w n (l.debit i.addr mine) (rest.filter fun j => ¬ j.addr = i.addr)
    else .error .funds

/-- (the fuel `ins.length` is enough: every step removes at least the head) -/
def debitPhase (w : World) (l : Ledger) (ins : List IO) : Except Err Ledger :=
  debitPhaseAux w ins.length l ins

/-- send.go:241-256: with several inputs the restriction is applied per input (towards the one
output), otherwise per output (from the one input). -/
def pairs : List IO → List IO → List (Addr × Addr × Coins)
  | [i], outs => outs.map fun o => (i.addr, o.addr, o.coins)
  | ins, o :: _ => ins.map fun i => (i.addr, o.addr, i.coins)
  | _, [] => []

/-- `applySendRestriction` over the pairs in order, stopping at the first refusal; yields the
(receiver returned by the restrictions, coins) list that `outputAmounts` accumulates. -/
def restrictAll (w : World) : List (Addr × Addr × Coins) → Except Err (List (Addr × Coins))
  | [] => .ok []
  | (f, t, c) :: rest =>
    match applyRestriction w f t c with
    | .error e => .error e
    | .ok t' =>
      match restrictAll w rest with
      | .error e => .error e
      | .ok out => .ok ((t', c) :: out)

/-- send.go:259-272: credit the receivers.  (Go merges the amounts per returned address first and
credits each address once; crediting pair by pair gives the same balances.) -/
def creditAll (l : Ledger) : List (Addr × Coins) → Ledger
  | [] => l
  | (t, c) :: rest => creditAll (l.credit t c) rest

/-- `InputOutputCoinsProv` (send.go:152). -/
def inputOutputCoinsProv (w : World) (l : Ledger) (ins outs : List IO) : Except Err Ledger :=
  if ins.isEmpty then .error .noInputs
  else if outs.isEmpty then .error .noOutputs
  else if ins.length > 1 && outs.length > 1 then .error .manyToMany
  else
    match validateInputsOutputs ins outs with
    | .error e => .error e
    | .ok _ =>
      match debitPhase w l ins with
      | .error e => .error e
      | .ok l1 =>
        match restrictAll w (pairs ins outs) with
        | .error e => .error e
        | .ok credits => .ok (creditAll l1 credits)

/-! ### InputOutputCoinsProv as written: one merged `sdk.Coins` per address

`debitPhase` / `creditAll` above work on unmerged coin lists (their meaning is `amountOf`).  The Go code
keeps a map address → merged `sdk.Coins` plus the order of first appearance, debits each paying address
once through `subUnlockedCoins` and credits each returned receiver once through `addCoins` (which tests
`IsValid` again).  The functions below follow that text literally; `PvProofs.C04.inputOutputCoinsProv_merged_same`
shows both give the same result (same error, or ledgers with the same balances and supply). -/

/-- `amt.Add(coins...)` (types/coins.go `Add` → `safeAdd` + sort + `removeZeroCoins`): one entry per denom,
ascending denoms, zero amounts dropped. -/
def coinsAdd (amt coins : Coins) : Coins := Coins.canon (amt ++ coins)

/-- `m[key] = m[key].Add(coins...)`, remembering the order in which keys first appear
(`inputAmounts`/`inputOrder` send.go:172-186, `outputAmounts`/`outputOrder` :224-230). -/
def addAmount (a : Addr) (c : Coins) : List (Addr × Coins) → List (Addr × Coins)
  | [] => [(a, coinsAdd [] c)]
  | (b, x) :: rest => if b = a then (b, coinsAdd x c) :: rest else (b, x) :: addAmount a c rest

def mergeAmounts (xs : List (Addr × Coins)) : List (Addr × Coins) :=
  xs.foldl (fun acc p => addAmount p.1 p.2 acc) []

/-- send.go:189-199: `subUnlockedCoins` per paying address, in `inputOrder`. -/
def debitMerged (w : World) : Ledger → List (Addr × Coins) → Except Err Ledger
  | l, [] => .ok l
  | l, (a, amt) :: rest =>
    match subUnlockedCoins w l a amt with
    | .error e => .error e
    | .ok l1 => debitMerged w l1 rest

/-- send.go:259-272: `addCoins` per returned receiver, in `outputOrder`. -/
def creditMerged : Ledger → List (Addr × Coins) → Except Err Ledger
  | l, [] => .ok l
  | l, (a, amt) :: rest =>
    match addCoins l a amt with
    | .error e => .error e
    | .ok l1 => creditMerged l1 rest

/-- `InputOutputCoinsProv` (send.go:152) with the merged maps. -/
def inputOutputCoinsProvMerged (w : World) (l : Ledger) (ins outs : List IO) : Except Err Ledger :=
  if ins.isEmpty then .error .noInputs
  else if outs.isEmpty then .error .noOutputs
  else if ins.length > 1 && outs.length > 1 then .error .manyToMany
  else
    match validateInputsOutputs ins outs with
    | .error e => .error e
    | .ok _ =>
      match debitMerged w l (mergeAmounts (ins.map fun i => (i.addr, i.coins))) with
      | .error e => .error e
      | .ok l1 =>
        match restrictAll w (pairs ins outs) with
        | .error e => .error e
        | .ok credits => creditMerged l1 (mergeAmounts credits)

end PvModel.MkrSend.Bank
