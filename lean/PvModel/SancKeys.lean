/-
C06 — byte-level model of the sanction store keys (x/sanction/keeper/keys.go).  A byte is a
`Nat` below 256; `bytes.Compare` is `lexLt`.  The abstract store of `PvModel.Sanc` is keyed
by `(addr, id)`; the theorems in `PvProofs.C06` (key layout) show that under one address
prefix the byte order of `CreateTemporaryKey` is the numeric order of proposal ids and that
prefix iteration selects exactly one address / one proposal.  Core-only.
-/
namespace PvModel.SancKeys

abbrev Bytes := List Nat

/-- big-endian, `k` bytes -/
def be : Nat → Nat → Bytes
  | 0, _ => []
  | k + 1, n => (n / 256 ^ k) % 256 :: be k (n % 256 ^ k)

/-- `sdk.Uint64ToBigEndian` -/
def be8 (n : Nat) : Bytes := be 8 n

/-- `address.MustLengthPrefix` (panics above 255 bytes) -/
def lengthPrefix (a : Bytes) : Bytes := a.length :: a

/-- keys.go:83 `CreateSanctionedAddrKey` -/
def sanctionedAddrKey (a : Bytes) : Bytes := 1 :: lengthPrefix a

/-- keys.go:97 `CreateTemporaryAddrPrefix` (non-empty address) -/
def temporaryAddrPrefix (a : Bytes) : Bytes := 2 :: lengthPrefix a

/-- keys.go:108 `CreateTemporaryKey` -/
def temporaryKey (a : Bytes) (p : Nat) : Bytes := temporaryAddrPrefix a ++ be8 p

/-- keys.go:171 `CreateProposalTempIndexPrefix` (with an id) -/
def proposalTempIndexPrefix (p : Nat) : Bytes := 3 :: be8 p

/-- keys.go:181 `CreateProposalTempIndexKey` -/
def proposalTempIndexKey (p : Nat) (a : Bytes) : Bytes := proposalTempIndexPrefix p ++ lengthPrefix a

/-- `bytes.Compare(x, y) < 0` -/
def lexLt : Bytes → Bytes → Bool
  | [], [] => false
  | [], _ :: _ => true
  | _ :: _, [] => false
  | x :: xs, y :: ys => decide (x < y) || (x == y && lexLt xs ys)

def hexDigit (n : Nat) : Char := "0123456789abcdef".toList.getD n '?'
def toHex (b : Bytes) : String := String.ofList (b.flatMap fun x => [hexDigit (x / 16), hexDigit (x % 16)])

def hexVal (c : Char) : Option Nat :=
  if '0' ≤ c ∧ c ≤ '9' then some (c.toNat - '0'.toNat)
  else if 'a' ≤ c ∧ c ≤ 'f' then some (c.toNat - 'a'.toNat + 10)
  else none

def fromHexChars : List Char → Option Bytes
  | [] => some []
  | [_] => none
  | a :: b :: r => do
    let x ← hexVal a
    let y ← hexVal b
    let rest ← fromHexChars r
    pure ((x * 16 + y) :: rest)

def fromHex (s : String) : Option Bytes := fromHexChars s.toList

end PvModel.SancKeys
