/-
Line-protocol drivers + implementation-output checkers for C15.

`name`    (stateful, app stream): the real name MsgServer / keeper / query server against the
          model with `H := id` (the pre-image itself is the key, so every collision of the real
          key derivation is a collision in the model).  The verdict is computed from what the
          IMPLEMENTATION showed: its previous `dump`, the message, its answer, its next `dump`.
`namekey` (pure stream): `types.GetNameKeyPrefix`, `types.NormalizeName`, `types.ValidateName`,
          `types.IsValidUUID`, `Keeper.Normalize`, key comparison of pairs, exhaustive collision
          search; here `H := 0x03 ‖ SHA-256` so the model's pre-image is compared through the real hash.

Names in op lines: `~` is the empty string, `+` a space, everything else the ASCII byte itself.
Addresses: `A B C D` accounts, `N` a valid address without an account, `G` the gov module account
(keeper authority), `X` not bech32, `-` the empty string.  A trailing `^` (`A^`) is the all-upper-case
bech32 spelling of the same address: `sdk.AccAddressFromBech32` accepts it, `addr.String()` of the
parsed address is the canonical `A`.

`genesis <min> <max> <levels> <name/addr/restricted,…>` starts (or continues) a history with the real
`GenesisState.Validate` + `Keeper.InitGenesis` on a generated genesis state (names and addresses in
either spelling, children before parents, orphans, duplicates, malformed entries);
`rlookup <addr>` is the `ReverseLookup` query asked with the address spelled as given;
`export` is `Keeper.ExportGenesis` of the current state (all bindings, sorted).
-/
import PvModel.NameSpec
import PvModel.Sha256
-- registry: name PvModel.Name.driver
-- registry: namekey PvModel.Name.keyDriver

namespace PvModel.Name
open PvModel

def decName (w : String) : Bytes :=
  if w = "~" then [] else w.toUTF8.toList.map fun b => if b = 43 then 32 else b

def encName (b : Bytes) : String :=
  if b.isEmpty then "~" else String.ofList (b.map fun c => if c = 32 then '+' else Char.ofNat c.toNat)

def decAddr (w : String) : Addr := if w = "-" then "" else w
def encAddr (a : Addr) : String := if a = "" then "-" else a

def knownAddrs : List Addr := ["A", "B", "C", "D", "N", "G"]

/-- canonical spelling of a symbolic address: `A^` ↦ `A` -/
def canonD (a : Addr) : Addr := if a.endsWith "^" then (a.dropEnd 1).toString else a

def mkCfg {κ : Type} (H : Bytes → κ) (minSeg maxSeg maxLevels : Nat) : Cfg κ :=
  { H := H, minSeg := minSeg, maxSeg := maxSeg, maxLevels := maxLevels, authority := "G",
    addrOk := fun a => knownAddrs.contains (canonD a),
    canon := canonD,
    hasAccount := fun a => knownAddrs.contains a && a != "N" }

def showRes {α : Type} (f : α → String) : Except Err α → String
  | .ok a => f a
  | .error e => e.toString

def sortStrs (l : List String) : List String := l.mergeSort fun a b => !(decide (b < a))

def joinOr (l : List String) (sep : String) : String := if l.isEmpty then "-" else sep.intercalate l

def showRec (r : Record) : String := s!"{encName r.name}/{encAddr r.addr}/{boolStr r.restricted}"

def parseRec (s : String) : Option Record :=
  match s.splitOn "/" with
  | [n, a, r] => some ⟨decName n, decAddr a, r = "1"⟩
  | _ => none

/-- the observable state: all records, the per-address listing (`GetRecordsByAddress`) and the
names of the `ReverseLookup` query. -/
structure Dump where
  recs : List Record
  idx : List (Addr × List Record)
  rev : List (Addr × List Bytes)

def showDump (d : Dump) : String :=
  let R := joinOr (sortStrs (d.recs.map showRec)) ","
  let I := "|".intercalate (d.idx.map fun (a, l) => a ++ "=" ++ joinOr (sortStrs (l.map showRec)) ";")
  let V := "|".intercalate (d.rev.map fun (a, l) => a ++ "=" ++ joinOr (sortStrs (l.map fun n => encName n ++ "/")) ";")
  s!"R {R} I {I} V {V}"

def parseDump (s : String) : Option Dump :=
  match words s with
  | ["R", r, "I", i, "V", v] => do
    let recs ← (splitList r ",").mapM parseRec
    let idx ← (splitList i "|").mapM fun e =>
      match e.splitOn "=" with
      | [a, l] => (splitList l ";").mapM parseRec >>= fun rs => some (a, rs)
      | _ => none
    let rev ← (splitList v "|").mapM fun e =>
      match e.splitOn "=" with
      | [a, l] => some (a, (splitList l ";").map fun w => decName ((w.dropEnd 1).toString))
      | _ => none
    pure ⟨recs, idx, rev⟩
  | _ => none

def dumpOf (cfg : Cfg Bytes) (st : State Bytes) : Dump :=
  let _ := cfg
  { recs := allRecords st,
    idx := knownAddrs.map fun a => (a, getRecordsByAddress st a),
    rev := knownAddrs.map fun a => (a, (getRecordsByAddress st a).map (·.name)) }

def parseBool (s : String) : Bool := s = "1"

def parseOp (ws : List String) : Option Op :=
  match ws with
  | ["root", a, n, o, r] => some (.root (decAddr a) (decName n) (decAddr o) (parseBool r))
  | ["bind", pn, pa, rn, ra, r] => some (.bind (decName pn) (decAddr pa) (decName rn) (decAddr ra) (parseBool r))
  | ["modify", a, n, ad, r] => some (.modify (decAddr a) (decName n) (decAddr ad) (parseBool r))
  | ["delete", n, a] => some (.delete (decName n) (decAddr a))
  | _ => none

/-! ### the checker: the property's conclusion on the implementation's observations -/

def findByName (recs : List Record) (n : Bytes) : Option Record := recs.find? fun r => r.name = n

def samePreimage (a b : Bytes) : Bool :=
  match preimage a, preimage b with
  | .ok x, .ok y => x = y
  | _, _ => false

/-- some stored record has a different name with the same key pre-image as `n` -/
def collides (recs : List Record) (n : Bytes) : Bool :=
  recs.any fun r => r.name ≠ n && samePreimage r.name n

/-- a record with its address in canonical spelling: "the signer is the owner" is a statement about
addresses (bytes), not about the spelling a message or a stored record uses -/
def canonRec (r : Record) : Record := { r with addr := canonD r.addr }

/-- "A name can be bound only under an existing parent and, if the parent is restricted, only by
the parent's owner", judged for a name that a bind message brought into being: its IMMEDIATE
parent (the name minus its first segment — whatever parent the message mentioned) must be a
record of the implementation's state before the message, and if that record is restricted the
signer must own it. -/
def parentProblem (pre : List Record) (signer : Addr) (name : Bytes) : Option String :=
  if (splitDot name).length < 2 then some "fail:bind_created_parentless_name" else
  let p := immediateParent name
  match findByName pre p with
  | none => if collides pre p then some "fail:key_collision" else some "fail:bind_immediate_parent_missing"
  | some par =>
    if bindAllowed (some (canonRec par)) (canonD signer) then none
    else some "fail:bind_under_restricted_parent_nonowner"

/-- verdict for a message the implementation ACCEPTED, against the implementation's state before it -/
def checkAccepted (pre : Dump) : Op → String
  | .root a _ _ _ => if rootAllowed "G" (canonD a) then "ok" else "fail:root_nonauthority"
  | .bind pn pa rn _ _ =>
    let p := normalizeName pn
    match findByName pre.recs p with
    | none => if collides pre.recs p then "fail:key_collision" else "fail:bind_no_parent"
    | some par =>
      if !bindAllowed (some (canonRec par)) (canonD pa) then "fail:bind_restricted_nonowner"
      else (parentProblem pre.recs pa (normalizeName (rn ++ dot :: pn))).getD "ok"
  | .modify a n _ _ =>
    let t := normalizeName n
    match findByName pre.recs t with
    | none => if collides pre.recs t then "fail:key_collision" else "fail:modify_unbound"
    | some e => if modifyAllowed "G" (some (canonRec e)) (canonD a) then "ok" else "fail:modify_nonowner"
  | .delete n a =>
    let t := normalizeName n
    match findByName pre.recs t with
    | none => if collides pre.recs t then "fail:key_collision" else "fail:delete_unbound"
    | some e => if deleteAllowed (some (canonRec e)) (canonD a) then "ok" else "fail:delete_nonowner"

def recsKey (l : List Record) : List String := sortStrs (l.map showRec)

/-- "the by-address lookup lists exactly the names currently bound to each address": the listing of
address `a` is, up to order, the records whose address string PARSES to `a` — a record stored with
another spelling of `a` is still bound to `a` (its index entry sits under `a`'s bytes). -/
def indexProblem (d : Dump) : Option String :=
  let bad := d.idx.find? fun (a, l) => recsKey l != recsKey (d.recs.filter fun r => canonD r.addr = a)
  if bad.isSome then some "fail:index_mismatch" else
  let bad := d.rev.find? fun (a, l) =>
    sortStrs (l.map encName) != sortStrs ((d.recs.filter fun r => canonD r.addr = a).map (encName ·.name))
  if bad.isSome then some "fail:reverse_lookup_mismatch" else
  if d.recs.any (fun r => !(d.idx.any fun (a, _) => a = canonD r.addr)) then some "fail:index_mismatch" else none

def effectOk (pre post : Dump) : Op → Bool
  | .root _ n o r =>
    (rootSuffixes n).all fun s =>
      match findByName pre.recs s with
      | some e => findByName post.recs s == some e
      | none => findByName post.recs s == some ⟨s, canonD o, r⟩
  | .bind pn _ rn ra r =>
    let t := normalizeName (rn ++ dot :: pn)
    (findByName pre.recs t).isNone && findByName post.recs t == some ⟨t, canonD ra, r⟩
  | .modify _ n ad r => let t := normalizeName n; findByName post.recs t == some ⟨t, canonD ad, r⟩
  | .delete n _ => (findByName post.recs (normalizeName n)).isNone

def isNormalizedB {κ : Type} (cfg : Cfg κ) (n : Bytes) : Bool :=
  match normalize cfg n with
  | .ok m => m == n
  | .error _ => false

/-- what happened since the previous dump: a message, or a genesis import, and whether the
implementation accepted it -/
inductive Last
  | msg (op : Op) (accepted : Bool)
  | genesis (bindings : List Record) (accepted : Bool)

/-- verdict for a `dump`: index agreement on the dumped state, and "records never change except
by these messages" against the previous dump and the message in between; every stored name is
valid, normalized and within the limits. -/
def checkDump (cfg : Cfg Bytes) (pre : Dump) (last : Option Last) (d : Dump) : String :=
  if (d.recs.map (·.name)).eraseDups.length ≠ d.recs.length then "fail:duplicate_name" else
  if d.recs.any (fun r => !isNormalizedB cfg r.name) then "fail:stored_name_outside_limits" else
  match indexProblem d with
  | some c => c
  | none =>
    match last with
    | none => "ok"
    | some (.genesis bs accepted) =>
      if !accepted then
        if recsKey pre.recs == recsKey d.recs then "ok" else "fail:rejected_genesis_changed_state"
      else
        -- the import binds every binding of the file (normalized name, the address it parses to,
        -- its restriction) and nothing else; what was there stays
        let want := bs.map fun b => (⟨normalizeName b.name, canonD b.addr, b.restricted⟩ : Record)
        if recsKey d.recs == recsKey (pre.recs ++ want) then "ok" else "fail:genesis_effect"
    | some (.msg op accepted) =>
      if !accepted then
        if recsKey pre.recs == recsKey d.recs then "ok" else "fail:rejected_op_changed_state"
      else
        let targets := op.targets
        let lost := pre.recs.filter fun r => !targets.contains r.name && !d.recs.contains r
        let gained := d.recs.filter fun r => !targets.contains r.name && !pre.recs.contains r
        if !(lost ++ gained).isEmpty then
          if (lost ++ gained).any fun r => targets.any fun t => samePreimage r.name t
          then "fail:key_collision" else "fail:unrelated_record_changed"
        else
        -- every name a bind brought into being sits under an existing parent that admits the signer
        let born : List Bytes := match op with
          | .bind .. => (d.recs.filter fun (r : Record) => (findByName pre.recs r.name).isNone).map Record.name
          | _ => []
        match born.findSome? (parentProblem pre.recs op.signer) with
        | some c => c
        | none =>
        -- "only a name's owner or governance can modify it and only its owner can delete it", on the
        -- outcome whatever the message kind: an existing record that is altered or gone was the
        -- signer's (the address the signer string parses to) or the signer is governance
        if pre.recs.any (fun r => !d.recs.contains r && canonD op.signer != canonD r.addr && canonD op.signer != "G")
        then "fail:record_changed_by_nonowner_nongov" else
        -- root creation establishes every level: no name it brought into being hangs below an unbound name
        let rootBorn : List Bytes := match op with
          | .root .. => (d.recs.filter fun (r : Record) => (findByName pre.recs r.name).isNone).map Record.name
          | _ => []
        let hanging := rootBorn.filter fun n => (splitDot n).length ≥ 2 && (findByName d.recs (immediateParent n)).isNone
        if !hanging.isEmpty then
          if hanging.all fun n => collides d.recs (immediateParent n) then "fail:key_collision"
          else "fail:root_created_name_under_unbound_parent"
        else
        if effectOk pre d op then "ok"
        else if targets.any fun t => collides pre.recs t then "fail:key_collision"
        else match op with
          | .root .. => "fail:root_effect" | .bind .. => "fail:bind_effect"
          | .modify .. => "fail:modify_effect" | .delete .. => "fail:delete_effect"

/-- verdict for `resolve n` -/
def checkResolve (pre : Dump) (n : Bytes) (impl : List String) : String :=
  let t := normalizeName n
  match impl with
  | ["ok", a, r, stored] =>
    if decName stored ≠ t then
      -- the known way two names share a record: different segmentations of ONE byte string (the
      -- segments are hashed without separator).  Any other pair of distinct names that resolves to
      -- one record is a different defect.
      if samePreimage (decName stored) t then "fail:key_collision"
      else "fail:distinct_names_resolve_to_same_record"
    else if findByName pre.recs t == some ⟨t, decAddr a, parseBool r⟩ then "ok"
    else "fail:lookups_disagree"
  | ["err:notfound"] => if (findByName pre.recs t).isSome then "fail:lookups_disagree" else "ok"
  | _ => "ok"

/-- verdict for `rlookup a`: the `ReverseLookup` query must list exactly the names bound to the
address the request string parses to, however it is spelled. -/
def checkRLookup (pre : Dump) (a : Addr) (impl : List String) : String :=
  let want := sortStrs ((pre.recs.filter fun r => canonD r.addr = canonD a).map (encName ·.name ++ "/"))
  match impl with
  | ["ok", l] =>
    if sortStrs (splitList l ";") == want then "ok"
    else if a ≠ canonD a then "fail:reverse_lookup_spelling" else "fail:reverse_lookup_mismatch"
  | _ => if knownAddrs.contains (canonD a) then "fail:reverse_lookup_mismatch" else "ok"

/-- verdict for `export`: `Keeper.ExportGenesis` is a third listing of the name records; it must
list exactly the records of the implementation's last dump (name, address, restriction of each). -/
def checkExport (pre : Dump) (impl : List String) : String :=
  match impl with
  | ["ok", l] =>
    match (splitList l ",").mapM parseRec with
    | some rs => if recsKey rs == recsKey pre.recs then "ok" else "fail:export_differs_from_records"
    | none => "fail:unparsed"
  | _ => "fail:export_failed"

structure DSt where
  minSeg : Nat := 2
  maxSeg : Nat := 32
  maxLevels : Nat := 16
  st : State Bytes := {}
  /-- the implementation's last dump -/
  pre : Option Dump := none
  /-- the message / genesis import since the last dump and whether the implementation accepted it -/
  last : Option Last := none

def DSt.cfg (d : DSt) : Cfg Bytes := mkCfg id d.minSeg d.maxSeg d.maxLevels

def DSt.view (d : DSt) : Dump := d.pre.getD (dumpOf d.cfg d.st)

def stepName (d : DSt) (op : String) (impl : Option String) : DSt × String × String :=
  let ws := words op
  let cfg := d.cfg
  match ws with
  | ["params", a, b, c] =>
    match parseNat? a, parseNat? b, parseNat? c with
    | some a, some b, some c => ({ d with minSeg := a, maxSeg := b, maxLevels := c }, "ok", "-")
    | _, _, _ => (d, "bad-op", "-")
  | ["dump"] =>
    let out := showDump (dumpOf cfg d.st)
    match impl.bind parseDump with
    | some di => ({ d with pre := some di, last := none }, out, checkDump cfg d.view d.last di)
    | none => ({ d with last := none }, out, if impl.isSome then "fail:unparsed" else "-")
  | ["genesis", a, b, c, bs] =>
    match parseNat? a, parseNat? b, parseNat? c, (splitList bs ",").mapM parseRec with
    | some a, some b, some c, some bs =>
      let gcfg := mkCfg id a b c
      let (d', out) :=
        if !validateGenesis bs then (d, "err:basic")
        else match initGenesis gcfg d.st bs with
          | .ok st' => ({ d with minSeg := a, maxSeg := b, maxLevels := c, st := st' }, "ok")
          | .error e => (d, "panic:" ++ (e.toString.drop 4).toString)
      let accepted := match impl with | some i => i = "ok" | none => out = "ok"
      ({ d' with last := some (.genesis bs accepted) }, out, if impl.isSome then "ok" else "-")
    | _, _, _, _ => (d, "bad-op", "-")
  | ["export"] =>
    let out := "ok " ++ joinOr (sortStrs ((exportGenesis d.st).map showRec)) ","
    (d, out, match impl with | some i => checkExport d.view (words i) | none => "-")
  | ["rlookup", a] =>
    let a := decAddr a
    let out := match reverseLookup cfg d.st a with
      | .ok l => "ok " ++ joinOr (sortStrs (l.map fun n => encName n ++ "/")) ";"
      | .error e => e.toString
    (d, out, match impl with | some i => checkRLookup d.view a (words i) | none => "-")
  | ["resolve", n] =>
    let n := decName n
    let out := match normalize cfg n with
      | .error e => e.toString
      | .ok nn => match getRecordByName cfg d.st nn with
        | some r => s!"ok {encAddr r.addr} {boolStr r.restricted} {encName r.name}"
        | none => "err:notfound"
    (d, out, match impl with | some i => checkResolve d.view n (words i) | none => "-")
  | _ =>
    match parseOp ws with
    | none => (d, "bad-op", "-")
    | some o =>
      let res := step cfg d.st o
      let out := showRes (fun _ => "ok") res
      let st' := match res with | .ok s => s | .error _ => d.st
      let accepted := match impl with | some i => i = "ok" | none => res.toBool
      let verdict := match impl with
        | some i => if i = "ok" then checkAccepted d.view o else "ok"
        | none => "-"
      ({ d with st := st', last := some (.msg o accepted) }, out, verdict)

def driver : Driver where
  σ := DSt
  init := {}
  step := stepName

/-! ### pure stream -/

def realKey (pre : Bytes) : Bytes := 3 :: Sha256.hash pre

/-- all names with 1..maxSegs segments, each a word of length minLen..maxLen over the alphabet -/
def wordsOfLen (alpha : Bytes) : Nat → List Bytes
  | 0 => [[]]
  | n + 1 => (wordsOfLen alpha n).flatMap fun w => alpha.map fun c => c :: w

def allSegs (alpha : Bytes) (minLen maxLen : Nat) : List Bytes :=
  (List.range (maxLen + 1 - minLen)).flatMap fun i => wordsOfLen alpha (minLen + i)

def allNames (segs : List Bytes) : Nat → List (List Bytes)
  | 0 => []
  | n + 1 => (segs.map fun s => [s]) ++ (allNames segs n).flatMap fun nm => segs.map fun s => s :: nm

/-- group names by pre-image; classes (≥ 2 names) rendered `n1=n2=…`, sorted. -/
def collisionClasses (names : List Bytes) : Nat × List String :=
  let keyed := names.filterMap fun n => match preimage n with
    | .ok p => some (encName p, encName n) | .error _ => none
  let sorted := keyed.mergeSort fun a b => !(decide (b.1 < a.1 ∨ (b.1 = a.1 ∧ b.2 < a.2)))
  let groups := sorted.splitBy fun a b => a.1 == b.1
  (groups.length, sortStrs ((groups.filter (·.length ≥ 2)).map fun g => "=".intercalate (g.map (·.2))))

def search (alpha : Bytes) (minLen maxLen maxSegs : Nat) : String :=
  let names := (allNames (allSegs alpha minLen maxLen) maxSegs).map joinDot
  let (keys, classes) := collisionClasses names
  let colliding := (classes.map fun c => (c.splitOn "=").length).foldl (· + ·) 0
  let mx := (classes.map fun c => (c.splitOn "=").length).foldl max 0
  s!"ok names={names.length} keys={keys} classes={classes.length} colliding={colliding} max={mx} sample={joinOr (classes.take 3) ";"}"

def runKey (ws : List String) : String :=
  match ws with
  | ["key", n] => showRes (fun p => "ok " ++ Sha256.hex (realKey p)) (preimage (decName n))
  | ["norm", n] => "ok " ++ encName (normalizeName (decName n))
  | ["valid", n] =>
    let b := decName n
    s!"ok {boolStr (validateName b)} uuid={boolStr (isValidUUID b)}"
  | ["knorm", a, b, c, n] =>
    match parseNat? a, parseNat? b, parseNat? c with
    | some a, some b, some c => showRes (fun x => "ok " ++ encName x) (normalize (mkCfg realKey a b c) (decName n))
    | _, _, _ => "bad-op"
  | ["pair", _, _, _, n1, n2] =>
    match preimage (decName n1), preimage (decName n2) with
    | .ok p1, .ok p2 => if realKey p1 = realKey p2 then "ok same" else "ok diff"
    | _, _ => "err:name"
  | ["search", alpha, a, b, c] =>
    match parseNat? a, parseNat? b, parseNat? c with
    | some a, some b, some c => search (decName alpha) a b c
    | _, _, _ => "bad-op"
  | _ => "bad-op"

/-- "Two different valid names never resolve to the same record" on the implementation's keys. -/
def checkKey (ws : List String) (impl : String) : String :=
  match ws with
  | ["pair", a, b, c, n1, n2] =>
    match parseNat? a, parseNat? b, parseNat? c with
    | some a, some b, some c =>
      let cfg := mkCfg realKey a b c
      let (n1, n2) := (decName n1, decName n2)
      if isNormalizedB cfg n1 && isNormalizedB cfg n2 && n1 != n2 then
        if impl = "ok same" then
          if profile n1 = profile n2 then "fail:key_injective_same_profile"
          else if samePreimage n1 n2 then "fail:key_collision"
          else "fail:distinct_names_share_key"
        else if impl = "ok diff" then "ok" else "fail:valid_name_has_no_key"
      else "-"
    | _, _, _ => "-"
  | ["search", _, _, _, _] =>
    match kv (words impl) "classes" with
    | some "0" => "ok"
    | some _ => "fail:key_collision"
    | none => "fail:unparsed"
  | ["key", n] =>
    -- a name Normalize accepts under the default limits must have a key
    let n := decName n
    if isNormalizedB (mkCfg realKey 2 32 16) n then
      if impl.startsWith "ok " then "ok" else "fail:valid_name_has_no_key"
    else "-"
  | _ => "-"

def keyDriver : Driver where
  σ := Unit
  init := ()
  step := fun _ op impl =>
    let ws := words op
    ((), runKey ws, match impl with | some i => checkKey ws i | none => "-")

end PvModel.Name
