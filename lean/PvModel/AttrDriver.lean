/-
Line-protocol driver + checker for the C16 model (`attr`).

Op lines (symbolic addresses `A`,`B`,…, `gov`; `-` = empty / none):
  init now=<t> accts=A|B names=kyc.vf:A|aml.vf:B
  add <signer> <acct> <name> <value> <type> <exp|->      (a <value>: `_` = one space, `1_` = "1 ")
  upd <signer> <acct> <name> <origValue> <origType> <newValue> <newType>
  updexp <signer> <acct> <name> <value> <exp|->
  del <signer> <acct> <name>
  deld <signer> <acct> <name> <value>
  bind <name> <owner>
  xfer <authority> <name> <newOwner>
  delname <signer> <name>
  begin <t>
  bulk <signer> <acct> <name> <base> <n> <type> <exp|->
  sweep <t> <limit>
  regen <t>
  dump
`bulk` is `n` `MsgAddAttribute` messages in one transaction (all or nothing): the values are the
decimal numbers `base`, `base+1`, …, `base+n-1`, everything else is shared — the way to put many
attributes with one expiration into a history.  `sweep` sets the block time and calls
`Keeper.DeleteExpiredAttributes(ctx, limit)` directly (result `ok <number deleted>`): the chain
always passes `MaxExpiredAttributionCount`; a small limit exercises the cap logic of the loop
(counter, `break`, key order) on a few attributes.  `regen` is a genesis round trip of the attribute
module: `ExportGenesis`, the attribute store emptied, block time set to `t`, `InitGenesis` with the
export (result `ok <number of exported records>`); the history continues on the re-initialised store.
A `<name>` is the RAW spelling of the message's name with `_` standing for a space
(`KYC.vf`, `_kyc.vf`, `kyc_.vf`): `parseName` computes the normalised name (`Normalize`) and the
`Spelling` flags by running the three Go key functions on the raw string.  `bind` takes the
record segment from the raw name up to its last dot; the parent is always the root `vf`.
Result lines are `ok` / `err:<class>`; `dump` renders the whole state canonically
(`now= names= recs= look= cnt= q=`, every list sorted).  The verdict is given on the `dump`
line that follows an op: the property clauses (`AttrSpec.verdict`) evaluated on the state the
implementation dumped before and after the op.
-/
import PvModel.Util
import PvModel.AttrSpec
-- registry: attr PvModel.Attr.driver

namespace PvModel.Attr
open PvModel

def AType.toStr : AType → String
  | .unspecified => "unspecified" | .string => "string" | .int => "int"
  | .float => "float" | .proto => "proto" | .bytes => "bytes"

def parseType (s : String) : AType :=
  match s with
  | "string" => .string | "int" => .int | "float" => .float
  | "proto" => .proto | "bytes" => .bytes | _ => .unspecified

def dash (s : String) : String := if s = "-" then "" else s

/-- A VALUE token of an op line: `-` = nil, `_` = one space (`1_` is the value `"1 "`): values may
carry surrounding white space, which `types.NewAttribute` strips for the textual types only. -/
def parseVal (s : String) : String := (dash s).replace "_" " "
def showVal (v : String) : String := v.replace " " "_"
def parseExp (s : String) : Option Nat := if s = "-" then none else s.toNat?
def showExp : Option Nat → String
  | none => "-"
  | some e => toString e

def sortStrs (l : List String) : List String := (l.toArray.qsort (· < ·)).toList
def joinOr (l : List String) (sep : String) : String := if l.isEmpty then "-" else sep.intercalate l

/-- `strings.TrimSpace` on the ASCII white space the harness uses. -/
def trimSp (s : String) : String := s.trimAscii.toString

/-- `nametypes.NormalizeName` (name/types/name.go:42): lower-case and trim every segment. -/
def normalizeName (raw : String) : String :=
  ".".intercalate ((raw.splitOn ".").map fun seg => (trimSp seg).toLower)

/-- The raw name of an op line (`_` = space) → (normalised name, spelling flags).
`nameKeyHit`: `GetNameKeyPrefix` (name/types/keys.go:33) hashes the trimmed, NOT lower-cased
segments; `attrKeyHit`: `GetNameKeyBytes` (attribute/types/keys.go:107) hashes the lower-cased,
outer-trimmed string. -/
def parseName (tok : String) : String × Spelling :=
  let raw := tok.replace "_" " "
  let canon := normalizeName raw
  (canon, { exact := raw == canon,
            nameKeyHit := (raw.splitOn ".").map trimSp == canon.splitOn ".",
            attrKeyHit := (trimSp raw).toLower == canon })

def parseOp (ws : List String) : Option SOp :=
  match ws with
  | ["add", sg, ac, n, v, ty, e] =>
    let (n, sp) := parseName n
    -- msg_server.go:30: the stored attribute is what `types.NewAttribute` makes of the message
    some ⟨sp, .add sg (newAttribute ⟨dash ac, n, parseVal v, parseType ty, parseExp e⟩)⟩
  | ["upd", sg, ac, n, ov, ot, nv, nt] =>
    let (n, sp) := parseName n
    some ⟨sp, .update sg (dash ac) n (parseVal ov) (parseType ot) (parseVal nv) (parseType nt)⟩
  | ["updexp", sg, ac, n, v, e] =>
    let (n, sp) := parseName n
    some ⟨sp, .updateExp sg (dash ac) n (parseVal v) (parseExp e)⟩
  | ["del", sg, ac, n] =>
    let (n, sp) := parseName n
    some ⟨sp, .delete sg (dash ac) n⟩
  | ["deld", sg, ac, n, v] =>
    let (n, sp) := parseName n
    some ⟨sp, .deleteDistinct sg (dash ac) n (parseVal v)⟩
  | ["bind", n, o] =>
    let (n, sp) := parseName n
    some ⟨sp, .bind n o⟩
  | ["xfer", au, n, o] =>
    let (n, sp) := parseName n
    some ⟨sp, .transfer au n o⟩
  | ["delname", sg, n] =>
    let (n, sp) := parseName n
    some ⟨sp, .deleteName sg n⟩
  | ["begin", t] => t.toNat?.map fun t => ⟨{}, .beginBlock t⟩
  | _ => none

/-- the attributes of a `bulk` line -/
def bulkAttrs (ac n : String) (base cnt : Nat) (ty : AType) (e : Option Nat) : List Attribute :=
  (List.range cnt).map fun i => ⟨ac, n, toString (base + i), ty, e⟩

def parseInit (ws : List String) : State :=
  let now := ((kv ws "now").bind String.toNat?).getD 0
  let accts := splitList ((kv ws "accts").getD "-")
  let names := (splitList ((kv ws "names").getD "-")).filterMap fun e =>
    match e.splitOn ":" with
    | [n, o] => some (n, o)
    | _ => none
  { now := now, accts := accts, names := names }

/-- Canonical rendering of a state (what the Go harness prints from the real store). -/
def dump (s : State) : String :=
  let names := sortStrs (s.names.map fun (n, o) => s!"{n}:{o}")
  let recs := sortStrs (s.recs.map fun r => s!"{r.addr}/{r.name}/{showVal r.value}/{r.ty.toStr}/{showExp r.exp}")
  let lnames := (s.cnt.map (·.1.1)).eraseDups
  let look := sortStrs (lnames.map fun n => s!"{n}:{"+".intercalate (sortStrs (accountsByAttribute s n))}")
  let cnt := sortStrs (s.cnt.map fun ((n, a), c) => s!"{n}/{a}/{c}")
  let q := sortStrs (s.queue.map fun (t, (a, n, v)) => s!"{t}/{a}/{n}/{showVal v}")
  s!"now={s.now} names={joinOr names ","} recs={joinOr recs ","} look={joinOr look ","} cnt={joinOr cnt ","} q={joinOr q ","}"

/-- Parse a dump back into a `State` (the observed state of the implementation; the lookup
is rebuilt as counters so that `accountsByAttribute` returns exactly what was observed). -/
def parseDump (line : String) : Option State := do
  let ws := words line
  let now ← (kv ws "now") >>= String.toNat?
  let names ← (splitList (← kv ws "names") ",").mapM fun e =>
    match e.splitOn ":" with
    | [n, o] => some (n, o)
    | _ => none
  let recs ← (splitList (← kv ws "recs") ",").mapM fun e =>
    match e.splitOn "/" with
    | [a, n, v, ty, ex] => some (⟨a, n, v.replace "_" " ", parseType ty, parseExp ex⟩ : Attribute)
    | _ => none
  let look ← (splitList (← kv ws "look") ",").mapM fun e =>
    match e.splitOn ":" with
    | [n, as] => some ((as.splitOn "+").filter (· ≠ "") |>.map fun a => ((n, a), 1))
    | _ => none
  let q ← (splitList (← kv ws "q") ",").mapM fun e =>
    match e.splitOn "/" with
    | [t, a, n, v] => t.toNat?.map fun t => (t, (a, n, v.replace "_" " "))
    | _ => none
  pure { now := now, names := names, recs := recs, cnt := look.flatten, queue := q }

/-- what was executed since the last dump -/
inductive Pending
  | op (o : Op)
  | bulk (signer : String) (attrs : List Attribute)
  | sweep (t limit : Nat)
  | regen (t : Nat)

structure DState where
  model : State := {}
  /-- last state dumped by the implementation -/
  obs : Option State := none
  obsStr : String := ""
  /-- the op executed since the last dump and whether the implementation accepted it -/
  pending : Option (Pending × Bool) := none

def pendingVerdict (prev : State) (p : Pending) (acc : Bool) (next : State) : String :=
  match p with
  | .op o => verdict prev o acc next
  | .bulk signer attrs => verdictBulk prev signer attrs acc next
  | .regen t => verdictGenesis prev t acc next
  | .sweep t limit =>
    -- a sweep with its own limit: leaving expired attributes behind is what the code promises
    -- when (and only when) more than `limit` were expired and `limit` of them are gone
    match verdictCap limit prev (.beginBlock t) acc next with
    | "fail:expired_survives_begin_block:more_expired_than_the_sweep_cap" => "ok"
    | v => v

def stepLine (d : DState) (op : String) (impl : Option String) : DState × String × String :=
  let ws := words op
  match ws with
  | "init" :: rest =>
    ({ model := parseInit rest }, "ok", "-")
  | ["dump"] =>
    let out := dump d.model
    match impl with
    | none => ({ d with pending := none }, out, "-")
    | some i =>
      match parseDump i with
      | none => ({ d with pending := none }, out, "fail:unparsed_dump")
      | some next =>
        let v :=
          match d.pending, d.obs with
          | some (o, acc), some prev =>
            if !acc ∧ i ≠ d.obsStr then "fail:rejected_op_changed_state" else pendingVerdict prev o acc next
          | _, _ => if lookupComplete next then "ok" else "fail:lookup_omits_holder"
        ({ d with obs := some next, obsStr := i, pending := none }, out, v)
  | ["bulk", sg, ac, n, base, cnt, ty, e] =>
    let acc := match impl with | some i => i.startsWith "ok" | none => false
    let (n, sp) := parseName n
    let attrs := bulkAttrs (dash ac) n (base.toNat?.getD 0) (cnt.toNat?.getD 0) (parseType ty) (parseExp e)
    match stepAll d.model (attrs.map fun a => ⟨sp, .add sg a⟩) with
    | .ok s' => ({ d with model := s', pending := some (.bulk sg attrs, acc) }, "ok", "-")
    | .error e => ({ d with pending := some (.bulk sg attrs, acc) }, e.toString, "-")
  | ["sweep", t, limit] =>
    let acc := match impl with | some i => i.startsWith "ok" | none => false
    let t := t.toNat?.getD 0
    let limit := limit.toNat?.getD 0
    let s' := deleteExpiredAttributes { d.model with now := t } limit
    ({ d with model := s', pending := some (.sweep t limit, acc) },
      s!"ok {d.model.recs.length - s'.recs.length}", "-")
  | ["regen", t] =>
    let acc := match impl with | some i => i.startsWith "ok" | none => false
    let t := t.toNat?.getD 0
    match regenesis d.model t with
    | .ok s' => ({ d with model := s', pending := some (.regen t, acc) },
        s!"ok {(exportGenesis d.model).length}", "-")
    | .error e => ({ d with pending := some (.regen t, acc) }, e.toString, "-")
  | _ =>
    match parseOp ws with
    | none => (d, "bad-op", "-")
    | some o =>
      let acc := match impl with | some i => i.startsWith "ok" | none => false
      -- the checker judges the message by its NORMALISED name (`o.op`)
      match stepS d.model o with
      | .ok s' => ({ d with model := s', pending := some (.op o.op, acc) }, "ok", "-")
      | .error e => ({ d with pending := some (.op o.op, acc) }, e.toString, "-")

def driver : Driver where
  σ := DState
  init := {}
  step := stepLine

end PvModel.Attr
