/-
C07 — executable model of x/quarantine over the shared bank `Ledger`.

Mirrors, function by function (Go names kept, `file:line` of the pinned repo):
  x/quarantine/quarantine.go      findAddresses:27, AcceptFrom:211, DeclineFrom:230,
                                  GetAllFromAddrs:249, IsFullyAccepted:205, AddCoins:200,
                                  QuarantineRecordSuffixIndex.AddSuffixes:263 / Simplify:268
  x/quarantine/keys.go            createRecordSuffix:120 (sort + sha256 — here: the sorted
                                  sender list itself, i.e. an injective stand-in for the hash)
  x/quarantine/keeper/keeper.go   SetOptIn:46 SetOptOut:54 IsQuarantinedAddr:62
                                  SetAutoResponse:90 GetAutoResponse:102 IsAutoAccept:113
                                  IsAutoDecline:123 SetQuarantineRecord:166 GetQuarantineRecord:222
                                  GetQuarantineRecords:236 AddQuarantinedCoins:252
                                  AcceptQuarantinedFunds:289 DeclineQuarantinedFunds:320
                                  get/set/add/deleteQuarantineRecordSuffixIndex(es):357-424
  x/quarantine/keeper/send_restriction.go  SendRestrictionFn:16
  x/quarantine/keeper/msg_server.go        OptIn OptOut Accept Decline UpdateAutoResponses
  x/quarantine/keeper/invariants.go        fundsHolderBalanceInvariantHelper:27
  forked SDK x/bank/keeper/send.go  SendCoins:308 (sub, restrict, add),
                                    InputOutputCoinsProv:153 (sub all inputs, one restriction
                                    call per input or per output, add to the returned addresses)
  x/marker/keeper/send_restrictions.go validateSendDenom:103 — only the branch that matters
                                    here: a restricted denom without required attributes may be
                                    sent by an address with transfer access or by a bypass address
                                    (the quarantine holder is one, app/app.go:566).

The KV store is an association list (`kvGet/kvSet/kvDel`); the three ghost fields `qin`,
`qout` only record what was quarantined / released and never influence behaviour.
Core Lean only.
-/
import PvModel.Coins

namespace PvModel.Quar
open PvModel

/-! ### association lists (the KV store) -/

def kvGet {κ ν} [DecidableEq κ] : List (κ × ν) → κ → Option ν
  | [], _ => none
  | (k', v) :: t, k => if k' = k then some v else kvGet t k

/-- `store.Set`: replace the entry in place, else append. -/
def kvSet {κ ν} [DecidableEq κ] : List (κ × ν) → κ → ν → List (κ × ν)
  | [], k, v => [(k, v)]
  | (k', v') :: t, k, v => if k' = k then (k, v) :: t else (k', v') :: kvSet t k v

/-- `store.Delete`. -/
def kvDel {κ ν} [DecidableEq κ] : List (κ × ν) → κ → List (κ × ν)
  | [], _ => []
  | (k', v') :: t, k => if k' = k then t else (k', v') :: kvDel t k

/-! ### types -/

inductive AutoResp where
  | unspec | accept | decline
  deriving DecidableEq, Repr

inductive Err where
  | invalid   -- ValidateBasic / invalid coins
  | funds     -- insufficient funds
  | perm      -- marker restriction: no transfer access for a restricted denom
  | state     -- "already fully accepted"
  | panic     -- InitGenesis: holder cannot cover the imported records
  deriving DecidableEq, Repr

def Err.toString : Err → String
  | .invalid => "err:invalid"
  | .funds => "err:funds"
  | .perm => "err:perm"
  | .state => "err:state"
  | .panic => "panic:other"

/-- `QuarantineRecord` (quarantine.pb.go): order of the two address lists is kept. -/
structure Record where
  unacc : List Addr
  acc : List Addr
  coins : Coins
  declined : Bool
  deriving Repr, DecidableEq

/-- A record suffix. In Go: the sender address itself for one sender, `sha256` of the sorted
concatenated addresses for several (keys.go:120). Here: the sorted sender list. -/
abbrev Suffix := List Addr

def addrLe (a b : Addr) : Bool := decide (a ≤ b)

/-- insertion into a sorted address list -/
def insertAddr (a : Addr) : List Addr → List Addr
  | [] => [a]
  | b :: t => if addrLe a b then a :: b :: t else b :: insertAddr a t

/-- `sort.Slice(addrs, bytes.Compare < 0)` (the order only has to be canonical) -/
def sortAddrs : List Addr → List Addr
  | [] => []
  | a :: t => insertAddr a (sortAddrs t)

/-- keys.go:120 `createRecordSuffix`. -/
def createRecordSuffix (froms : List Addr) : Suffix := sortAddrs froms

/-- `bytes.Compare(a, b) < 0` on suffixes (lexicographic). -/
def sfxLt : Suffix → Suffix → Bool
  | [], [] => false
  | [], _ :: _ => true
  | _ :: _, [] => false
  | a :: as, b :: bs => decide (a < b) || (decide (a = b) && sfxLt as bs)

structure State where
  holder : Addr
  /-- restricted marker denoms (no required attributes) -/
  restricted : List Denom
  /-- addresses with transfer access on every restricted denom -/
  xfer : List Addr
  optin : List (Addr × Unit)
  auto : List ((Addr × Addr) × AutoResp)
  recs : List ((Addr × Suffix) × Record)
  index : List ((Addr × Addr) × List Suffix)
  bank : Ledger
  /-- ghost: everything ever recorded as quarantined -/
  qin : Coins
  /-- ghost: everything ever released by an accept -/
  qout : Coins

/-! ### quarantine.go -/

namespace Record

def isFullyAccepted (r : Record) : Bool := r.unacc.isEmpty
def getAllFromAddrs (r : Record) : List Addr := r.unacc ++ r.acc
def addCoins (r : Record) (c : Coins) : Record := { r with coins := Coins.add r.coins c }

/-- quarantine.go:27 `findAddresses`: (those of `all` named in `toFind`, the others). -/
def findAddresses (all toFind : List Addr) : List Addr × List Addr :=
  (all.filter (fun a => toFind.contains a), all.filter (fun a => !toFind.contains a))

/-- quarantine.go:211 `AcceptFrom`; `none` = returned false (nothing changed). -/
def acceptFrom (r : Record) (addrs : List Addr) : Option Record :=
  let (now, left) := findAddresses r.unacc addrs
  if now.isEmpty then none else some { r with acc := r.acc ++ now, unacc := left }

/-- quarantine.go:230 `DeclineFrom`; `none` = returned false. -/
def declineFrom (r : Record) (addrs : List Addr) : Option Record :=
  let (back, left) := findAddresses r.acc addrs
  if back.isEmpty then
    if r.declined then none else some { r with declined := true }
  else some { r with declined := true, unacc := r.unacc ++ back, acc := left }

end Record

/-- insert before the first greater element -/
def insertSorted (x : Suffix) : List Suffix → List Suffix
  | [] => [x]
  | y :: ys => if sfxLt x y then x :: y :: ys else y :: insertSorted x ys

/-- insert into a sorted duplicate-free suffix list -/
def insertSfx (x : Suffix) (l : List Suffix) : List Suffix :=
  if l.contains x then l else insertSorted x l

/-- quarantine.go:268 `Simplify(toRemove...)`: sorted, no duplicates, none of `toRemove`. -/
def simplify (toRemove : List Suffix) (l : List Suffix) : List Suffix :=
  (l.filter fun x => !toRemove.contains x).foldr insertSfx []

/-! ### keeper.go: opt-in and auto-responses -/

def setOptIn (s : State) (a : Addr) : State := { s with optin := kvSet s.optin a () }
def setOptOut (s : State) (a : Addr) : State := { s with optin := kvDel s.optin a }
def isQuarantinedAddr (s : State) (a : Addr) : Bool := (kvGet s.optin a).isSome

def setAutoResponse (s : State) (to from_ : Addr) (r : AutoResp) : State :=
  if r = .unspec then { s with auto := kvDel s.auto (to, from_) }
  else { s with auto := kvSet s.auto (to, from_) r }

def getAutoResponse (s : State) (to from_ : Addr) : AutoResp :=
  if to = from_ then .accept else (kvGet s.auto (to, from_)).getD .unspec

def isAutoAccept (s : State) (to : Addr) (froms : List Addr) : Bool :=
  froms.all fun f => getAutoResponse s to f = .accept

def isAutoDecline (s : State) (to : Addr) (froms : List Addr) : Bool :=
  froms.any fun f => getAutoResponse s to f = .decline

/-! ### keeper.go: suffix index -/

abbrev Index := List ((Addr × Addr) × List Suffix)

def getIdx (idx : Index) (to f : Addr) : List Suffix := (kvGet idx (to, f)).getD []

/-- keeper.go:357 `setQuarantineRecordSuffixIndex`: an empty list deletes the entry. -/
def setIdx (idx : Index) (to f : Addr) (v : List Suffix) : Index :=
  if v.isEmpty then kvDel idx (to, f) else kvSet idx (to, f) v

/-- keeper.go:403 `addQuarantineRecordSuffixIndexes`. -/
def addIdx (idx : Index) (to : Addr) (sfx : Suffix) : List Addr → Index
  | [] => idx
  | f :: fs => addIdx (setIdx idx to f (simplify [[f]] (getIdx idx to f ++ [sfx]))) to sfx fs

/-- keeper.go:414 `deleteQuarantineRecordSuffixIndexes`. -/
def delIdx (idx : Index) (to : Addr) (sfx : Suffix) : List Addr → Index
  | [] => idx
  | f :: fs => delIdx (setIdx idx to f (simplify [[f], sfx] (getIdx idx to f))) to sfx fs

/-- the suffixes collected before `Simplify` in keeper.go:391 -/
def rawSuffixes (idx : Index) (to : Addr) : List Addr → List Suffix
  | [] => []
  | f :: fs => getIdx idx to f ++ [f] :: rawSuffixes idx to fs

/-- keeper.go:391 `getQuarantineRecordSuffixes`. -/
def getQuarantineRecordSuffixes (idx : Index) (to : Addr) (froms : List Addr) : List Suffix :=
  simplify [] (rawSuffixes idx to froms)

/-! ### keeper.go: records -/

/-- keeper.go:166 `SetQuarantineRecord`. -/
def setQuarantineRecord (s : State) (to : Addr) (r : Record) : State :=
  let froms := r.getAllFromAddrs
  let sfx := createRecordSuffix froms
  if r.isFullyAccepted then
    { s with recs := kvDel s.recs (to, sfx),
             index := if froms.length > 1 then delIdx s.index to sfx froms else s.index }
  else
    { s with recs := kvSet s.recs (to, sfx) r,
             index := if froms.length > 1 then addIdx s.index to sfx froms else s.index }

/-- keeper.go:222 `GetQuarantineRecord`. -/
def getQuarantineRecord (s : State) (to : Addr) (froms : List Addr) : Option Record :=
  kvGet s.recs (to, createRecordSuffix froms)

/-- keeper.go:236 `GetQuarantineRecords`: a snapshot of the records behind the suffixes. -/
def getQuarantineRecords (s : State) (to : Addr) (froms : List Addr) : List Record :=
  (getQuarantineRecordSuffixes s.index to froms).filterMap fun sfx => kvGet s.recs (to, sfx)

/-- keeper.go:253-266: the existing record with the coins added, or a new record whose senders
are split by the current auto-accept settings. -/
def toppedUpOrNew (s : State) (coins : Coins) (to : Addr) (froms : List Addr) : Record :=
  match getQuarantineRecord s to froms with
  | some r => r.addCoins coins
  | none =>
    { unacc := froms.filter (fun f => !isAutoAccept s to [f]),
      acc := froms.filter (fun f => isAutoAccept s to [f]),
      coins := coins, declined := false }

/-- keeper.go:252 `AddQuarantinedCoins`. -/
def addQuarantinedCoins (s : State) (coins : Coins) (to : Addr) (froms : List Addr) : Except Err State :=
  if (toppedUpOrNew s coins to froms).isFullyAccepted then .error .state
  else
    .ok (setQuarantineRecord { s with qin := Coins.add s.qin coins } to
      { toppedUpOrNew s coins to froms with declined := isAutoDecline s to froms })

/-! ### the bank (forked SDK x/bank/keeper/send.go) -/

def strictDenoms : List Denom → Bool
  | [] => true
  | [_] => true
  | a :: b :: rest => decide (a < b) && strictDenoms (b :: rest)

/-- `Coins.IsValid() && Coins.IsAllPositive()`: non-empty, positive, strictly sorted by denom. -/
def coinsValid (c : Coins) : Bool :=
  !c.isEmpty && c.all (fun p => decide (0 < p.2)) && strictDenoms (c.map (·.1))

/-- send.go:349 `subUnlockedCoins` (none of the model accounts has locked coins). -/
def subUnlockedCoins (b : Ledger) (a : Addr) (amt : Coins) : Except Err Ledger :=
  if (Coins.denoms amt).all fun d => decide (Coins.amountOf amt d ≤ Ledger.bal b a d)
  then .ok (Ledger.debit b a amt) else .error .funds

def addCoins (b : Ledger) (a : Addr) (amt : Coins) : Ledger := Ledger.credit b a amt

/-- marker `validateSendDenom` for a restricted denom without required attributes. -/
def markerAllows (s : State) (from_ : Addr) (amt : Coins) : Bool :=
  (Coins.denoms amt).all fun d =>
    !s.restricted.contains d || s.xfer.contains from_ || from_ = s.holder

/-- keeper/send_restriction.go:16 `SendRestrictionFn`; `bypass` = `quarantine.HasBypass(ctx)`. -/
def sendRestrictionFn (s : State) (bypass : Bool) (from_ to : Addr) (amt : Coins) : Except Err (State × Addr) :=
  if bypass then .ok (s, to)
  else if from_ = to ∨ from_ = s.holder then .ok (s, to)
  else if !isQuarantinedAddr s to || isAutoAccept s to [from_] then .ok (s, to)
  else match addQuarantinedCoins s amt to [from_] with
    | .error e => .error e
    | .ok s' => .ok (s', s.holder)

/-- the app's restriction chain: marker, (sanction: nobody is sanctioned here), quarantine. -/
def restrictionChain (s : State) (bypass : Bool) (from_ to : Addr) (amt : Coins) : Except Err (State × Addr) :=
  if !markerAllows s from_ amt then .error .perm
  else sendRestrictionFn s bypass from_ to amt

/-- A transfer the bank is asked to make. -/
structure Xfer where
  from_ : Addr
  to : Addr
  amt : Coins
  deriving Repr

/-- phase 1 of `InputOutputCoinsProv`/`SendCoins`: debit every input. -/
def debitAll (b : Ledger) : List Xfer → Except Err Ledger
  | [] => .ok b
  | x :: xs => match subUnlockedCoins b x.from_ x.amt with
    | .error e => .error e
    | .ok b' => debitAll b' xs

/-- phase 2: one restriction call per transfer, in order; collects the returned addresses. -/
def applyRestrictions (s : State) (bypass : Bool) : List Xfer → Except Err (State × List (Addr × Coins))
  | [] => .ok (s, [])
  | x :: xs => match restrictionChain s bypass x.from_ x.to x.amt with
    | .error e => .error e
    | .ok (s', dest) => match applyRestrictions s' bypass xs with
      | .error e => .error e
      | .ok (s'', outs) => .ok (s'', (dest, x.amt) :: outs)

/-- phase 3: credit the returned addresses. -/
def creditAll (b : Ledger) : List (Addr × Coins) → Ledger
  | [] => b
  | (a, c) :: rest => creditAll (addCoins b a c) rest

/-- `SendCoins` (one transfer) and `InputOutputCoinsProv` (several) share this shape. -/
def bankTransfers (s : State) (bypass : Bool) (xs : List Xfer) : Except Err State :=
  match debitAll s.bank xs with
  | .error e => .error e
  | .ok b1 => match applyRestrictions { s with bank := b1 } bypass xs with
    | .error e => .error e
    | .ok (s2, outs) => .ok { s2 with bank := creditAll s2.bank outs }

/-! ### keeper.go: accept / decline -/

/-- the loop body of keeper.go:289 `AcceptQuarantinedFunds` over the snapshot of records. -/
def acceptLoop (s : State) (to : Addr) (froms : List Addr) : List Record → Coins → Except Err (State × Coins)
  | [], rel => .ok (s, rel)
  | r :: rest, rel =>
    match r.acceptFrom froms with
    | none => acceptLoop s to froms rest rel
    | some r' =>
      if r'.isFullyAccepted then
        match bankTransfers s true [⟨s.holder, to, r'.coins⟩] with
        | .error e => .error e
        | .ok s1 =>
          acceptLoop (setQuarantineRecord { s1 with qout := Coins.add s1.qout r'.coins } to r') to froms rest
            (Coins.add rel r'.coins)
      else
        let r'' := { r' with declined := isAutoDecline s to r'.unacc }
        acceptLoop (setQuarantineRecord s to r'') to froms rest rel

def acceptQuarantinedFunds (s : State) (to : Addr) (froms : List Addr) : Except Err (State × Coins) :=
  acceptLoop s to froms (getQuarantineRecords s to froms) []

def declineLoop (s : State) (to : Addr) (froms : List Addr) : List Record → State
  | [] => s
  | r :: rest =>
    match r.declineFrom froms with
    | none => declineLoop s to froms rest
    | some r' => declineLoop (setQuarantineRecord s to r') to froms rest

/-- keeper.go:320 `DeclineQuarantinedFunds`. -/
def declineQuarantinedFunds (s : State) (to : Addr) (froms : List Addr) : State :=
  declineLoop s to froms (getQuarantineRecords s to froms)

def setAutoResponses (s : State) (to : Addr) : List (Addr × AutoResp) → State
  | [] => s
  | (f, r) :: rest => setAutoResponses (setAutoResponse s to f r) to rest

/-! ### operations (msg servers + the keeper entry points other modules use) -/

inductive Op where
  | optIn (a : Addr)
  | optOut (a : Addr)
  | auto (to : Addr) (ups : List (Addr × AutoResp))
  /-- bank `MsgSend` -/
  | send (from_ to : Addr) (amt : Coins)
  /-- bank `MsgMultiSend`: one input (the sum), several outputs -/
  | msend (from_ : Addr) (outs : List (Addr × Coins))
  /-- bank keeper `InputOutputCoinsProv` with several inputs and one output (one restriction call
  per input) -/
  | iosend (ins : List (Addr × Coins)) (to : Addr)
  /-- bank keeper `SendCoins` under `quarantine.WithBypass(ctx)`: how the exchange module pays
  settlements and payments (x/exchange/keeper/keeper.go:204, payments.go:275 — creating the order /
  accepting the payment counts as the receiver's acceptance) -/
  | bsend (from_ to : Addr) (amt : Coins)
  | accept (to : Addr) (froms : List Addr) (perm : Bool)
  | decline (to : Addr) (froms : List Addr) (perm : Bool)
  /-- keeper `AddQuarantinedCoins` for a sender *set* plus the matching transfer of the coins
  from `payer` to the holder (what a many-sender transfer does; also how genesis records arise) -/
  | qadd (to : Addr) (froms : List Addr) (amt : Coins) (payer : Addr)
  deriving Repr

/-- msg_server.go `Accept`. -/
def msgAccept (s : State) (to : Addr) (froms : List Addr) (perm : Bool) : Except Err (State × Coins) :=
  if froms.isEmpty then .error .invalid else
  match acceptQuarantinedFunds s to froms with
  | .error e => .error e
  | .ok (s', rel) =>
    .ok (if perm then setAutoResponses s' to (froms.map fun f => (f, AutoResp.accept)) else s', rel)

/-- msg_server.go `Decline`. -/
def msgDecline (s : State) (to : Addr) (froms : List Addr) (perm : Bool) : Except Err State :=
  if froms.isEmpty then .error .invalid else
  let s' := declineQuarantinedFunds s to froms
  .ok (if perm then setAutoResponses s' to (froms.map fun f => (f, AutoResp.decline)) else s')

def msgSend (s : State) (from_ to : Addr) (amt : Coins) : Except Err State :=
  if !coinsValid amt then .error .invalid else bankTransfers s false [⟨from_, to, amt⟩]

def msgMultiSend (s : State) (from_ : Addr) (outs : List (Addr × Coins)) : Except Err State :=
  if outs.isEmpty || !outs.all (fun o => coinsValid o.2) then .error .invalid
  else bankTransfers s false (outs.map fun o => ⟨from_, o.1, o.2⟩)

def ioSend (s : State) (ins : List (Addr × Coins)) (to : Addr) : Except Err State :=
  if ins.isEmpty || !ins.all (fun i => coinsValid i.2) then .error .invalid
  else bankTransfers s false (ins.map fun i => ⟨i.1, to, i.2⟩)

def bypassSend (s : State) (from_ to : Addr) (amt : Coins) : Except Err State :=
  if !coinsValid amt then .error .invalid else bankTransfers s true [⟨from_, to, amt⟩]

def qAdd (s : State) (to : Addr) (froms : List Addr) (amt : Coins) (payer : Addr) : Except Err State :=
  if froms.isEmpty || !coinsValid amt then .error .invalid else
  match bankTransfers s true [⟨payer, s.holder, amt⟩] with
  | .error e => .error e
  | .ok s1 => addQuarantinedCoins s1 amt to froms

/-- One operation; the second component is the coins an accept released. -/
def exec (s : State) : Op → Except Err (State × Coins)
  | .optIn a => .ok (setOptIn s a, [])
  | .optOut a => .ok (setOptOut s a, [])
  | .auto to ups => if ups.isEmpty then .error .invalid else .ok (setAutoResponses s to ups, [])
  | .send f t c => (msgSend s f t c).map (·, [])
  | .msend f outs => (msgMultiSend s f outs).map (·, [])
  | .iosend ins t => (ioSend s ins t).map (·, [])
  | .bsend f t c => (bypassSend s f t c).map (·, [])
  | .accept t fs p => msgAccept s t fs p
  | .decline t fs p => (msgDecline s t fs p).map (·, [])
  | .qadd t fs c p => (qAdd s t fs c p).map (·, [])

/-- A rejected operation changes nothing (the message's cached context is dropped). -/
def step (s : State) (op : Op) : State :=
  match exec s op with
  | .ok (s', _) => s'
  | .error _ => s

def run (s : State) (ops : List Op) : State := ops.foldl step s

/-- total of the coins of all stored records, per denom (what invariants.go:27 adds up) -/
def sumRecs : List ((Addr × Suffix) × Record) → Denom → Int
  | [], _ => 0
  | (_, r) :: t, d => Coins.amountOf r.coins d + sumRecs t d

def outstanding (s : State) (d : Denom) : Int := sumRecs s.recs d

/-- invariants.go:27 `fundsHolderBalanceInvariantHelper`: `true` = not broken. -/
def fundsHolderBalanceInvariant (s : State) : Bool :=
  (s.recs.flatMap fun e => Coins.denoms e.2.coins).all fun d =>
    decide (outstanding s d ≤ Ledger.bal s.bank s.holder d)

/-! ### genesis export / import (x/quarantine/keeper/genesis.go — not among the anchored files,
modelled because an export followed by an import is how a chain is restarted from state) -/

/-- `QuarantinedFunds`: what `ExportGenesis` writes per record (`AsQuarantinedFunds`,
quarantine.go:258): the accepted senders are NOT exported. -/
structure GenFunds where
  to : Addr
  unacc : List Addr
  coins : Coins
  declined : Bool
  deriving Repr

/-- genesis.go:54 `ExportGenesis` (the funds part; opt-ins and auto-responses round-trip as is) -/
def exportGenesis (s : State) : List GenFunds :=
  s.recs.map fun e => ⟨e.1.1, e.2.unacc, e.2.coins, e.2.declined⟩

/-- genesis.go BEFORE fix b5c01b2ec: `SetQuarantineRecord(toAddr, NewQuarantineRecord(unaccepted,
coins, declined))` for every exported entry, in order — an entry overwrote an earlier one with
the same receiver and unaccepted senders. Kept for the historical observation theorems. -/
def initGenesisFundsPreFix (s : State) : List GenFunds → State
  | [] => s
  | g :: rest => initGenesisFundsPreFix (setQuarantineRecord s g.to ⟨g.unacc, [], g.coins, g.declined⟩) rest

/-- genesis.go (current, after b5c01b2ec): entries of one import that share receiver and
unaccepted senders are combined (coins added, declined or-ed) instead of overwriting. The
quarantine record store is empty when the import starts, so "already imported" = "in the store". -/
def initGenesisFunds (s : State) : List GenFunds → State
  | [] => s
  | g :: rest =>
    let r : Record := match getQuarantineRecord s g.to g.unacc with
      | some prev => { prev with coins := Coins.add prev.coins g.coins, declined := prev.declined || g.declined }
      | none => ⟨g.unacc, [], g.coins, g.declined⟩
    initGenesisFunds (setQuarantineRecord s g.to r) rest

def genTotal (l : List GenFunds) (d : Denom) : Int :=
  match l with
  | [] => 0
  | g :: rest => Coins.amountOf g.coins d + genTotal rest d

/-- genesis.go:12 `InitGenesis` into an empty quarantine store: panics when the holder does not
cover the total of the imported funds. `order` is the order of the entries in the genesis file. -/
def regenesisWith (initFunds : State → List GenFunds → State) (s : State)
    (order : List GenFunds → List GenFunds) : Except Err State :=
  let funds := order (exportGenesis s)
  let s' := initFunds { s with recs := [], index := [] } funds
  if (funds.flatMap fun g => Coins.denoms g.coins).all fun d =>
      decide (genTotal funds d ≤ Ledger.bal s.bank s.holder d)
  then .ok s' else .error .panic

/-- current code -/
def regenesis (s : State) (order : List GenFunds → List GenFunds) : Except Err State :=
  regenesisWith initGenesisFunds s order

/-- before fix b5c01b2ec (historical) -/
def regenesisPreFix (s : State) (order : List GenFunds → List GenFunds) : Except Err State :=
  regenesisWith initGenesisFundsPreFix s order

/-- fresh chain: nothing quarantined, given balances. -/
def init (holder : Addr) (restricted : List Denom) (xfer : List Addr) (bank : Ledger) : State :=
  { holder, restricted, xfer, optin := [], auto := [], recs := [], index := [], bank, qin := [], qout := [] }

end PvModel.Quar
