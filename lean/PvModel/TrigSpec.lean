/-
C17 — declarative side: what x/trigger/spec (01_concepts.md, 02_state.md,
06_begin_and_end_blocker.md) and the property text say, as decidable predicates that do not follow
the model's control flow.  Used in the theorems of `PvProofs.C17` and, evaluated on the
implementation's observed output, by the checker in `TrigDriver`.
-/
import PvModel.Trig

namespace PvModel.Trig

/-- 01_concepts.md "Block Event": a transaction event's criteria are met by an ABCI event of the
same type carrying every listed attribute (an empty value matches any value); a height/time event's
by a block height/time greater than or equal to the defined value (times are full timestamps, in
unix nanoseconds: a block in the same second but before the trigger's time does not meet it). -/
def conditionMet (ev : Event) (events : List AbciEvent) (height time : Nat) : Bool :=
  match ev with
  | .tx name attrs => events.any fun e =>
      e.type == name && attrs.all fun a => e.attrs.any fun o => o.1 == a.1 && (a.2 == "" || o.2 == a.2)
  | .height h => decide (h ≤ height)
  | .time t => decide (t ≤ time)

/-- Where a trigger id is. -/
inductive Place where
  | unborn | waiting | queued | gone
  deriving DecidableEq, Repr

def Place.rank : Place → Nat
  | .unborn => 0 | .waiting => 1 | .queued => 2 | .gone => 3

def registered (s : State) (id : Nat) : Bool := (s.triggers id).isSome
def queued (s : State) (id : Nat) : Bool := (qIds s).contains id

/-- The place of `id` in `s` (well defined because `registered` and `queued` exclude each other in
every reachable state: `PvProofs.C17.never_waiting_and_queued`). -/
def place (s : State) (id : Nat) : Place :=
  if registered s id then .waiting
  else if queued s id then .queued
  else if 1 ≤ id ∧ id < s.nextId then .gone
  else .unborn

/-- per-block caps of 06_begin_and_end_blocker.md -/
def withinCaps (xs : List Exec) : Bool :=
  decide (xs.length ≤ MaximumActions) && decide ((xs.map (·.gas)).sum ≤ MaximumQueueGas)

/-- 06_begin_and_end_blocker.md "throttling limit": how many heads of the queue `ids` (front to
back) fit one BeginBlock — at most `n` of them, and their stored gas limits, added to the `gas`
already reserved in this block, stay within `MaximumQueueGas`; counting stops at the first that does
not fit (the queue is first in, first out: nothing overtakes it).  `ProcessTriggers` must run exactly
this many (`fail:stopped_early` when it runs fewer, `fail:cap_count` / `fail:cap_gas` when more). -/
def fitCount (s : State) : List Nat → Nat → Nat → Nat
  | [], _, _ => 0
  | id :: rest, n, gas =>
    if n = 0 then 0 else
    let g := (s.gasLimits id).getD 0
    if g + gas > MaximumQueueGas then 0 else 1 + fitCount s rest (n - 1) (gas + g)

/-- The action handlers a BeginBlock invoked (one outcome per action it started: the completed ones
and the one that failed, panicked or was cut off by the gas meter). -/
def actionsRun (xs : List Exec) : Nat := (xs.map (·.outcomes.length)).sum

/-- Gas consumed by the actions of one executed trigger that ran to their end (succeeded or returned
an error; the action the gas meter cut off is not counted: what it did is rolled back and how far
it got is not a consumption the creator can be charged beyond the limit).  `cost i` = gas action
`i` consumed, `outs` = the per-action outcomes, `i` = index of the first of them. -/
def completedCost (cost : Nat → Nat) : List Outcome → Nat → Nat
  | [], _ => 0
  | o :: os, i => (if o = .oog then 0 else cost i) + completedCost cost os (i + 1)

/-- 01_concepts.md "Gas Payment" / 06_begin_and_end_blocker.md: a trigger's actions run on the gas
its creator prepaid.  The work done by its completed actions stays within the stored limit — in
particular a trigger all of whose actions succeeded consumed at most its limit, and one whose
actions together need more fails as a whole. -/
def withinPrepaid (limit : Nat) (cost : Nat → Nat) (outs : List Outcome) : Bool :=
  decide (completedCost cost outs 0 ≤ limit)

/-- every required signer of every action signed the creating transaction -/
def signersCovered (m : CreateMsg) : Bool :=
  m.actions.all fun a => a.signers.all fun s => m.authorities.contains s

/-- All-or-nothing reference semantics of one executed trigger on the balances: a successful one
applies every `send` in order, a failed one applies nothing. (`kill`/`boom` do not move coins.) -/
def applySends (bal : Addr → Nat) : List Action → Addr → Nat
  | [] => bal
  | .send f t a :: rest =>
    let b1 : Addr → Nat := fun x => if x = f then bal f - a else bal x
    applySends (fun x => if x = t then b1 t + a else b1 x) rest
  | _ :: rest => applySends bal rest

def expectedBal (bal : Addr → Nat) : List Exec → Addr → Nat
  | [] => bal
  | x :: xs => expectedBal (if x.success then applySends bal x.actions else bal) xs

/-- ids of the triggers a successful execution destroys (its `kill` actions) -/
def killsOf (xs : List Exec) : List Nat :=
  xs.flatMap fun x => if x.success then x.actions.filterMap fun a =>
    match a with | .kill _ id => some id | _ => none else []

def Out.executedIds : Out → List Nat
  | .executed xs => xs.map (·.id)
  | _ => []

def Out.detectedIds : Out → List Nat
  | .detected ts => ts.map (·.id)
  | _ => []

/-- ids whose actions were run, over a whole log, in order -/
def executedIds (log : List Out) : List Nat := log.flatMap Out.executedIds

/-- ids whose event was detected, over a whole log, in order of detection -/
def detectedIds (log : List Out) : List Nat := log.flatMap Out.detectedIds

/-- the triggers stored anywhere: registered or in the queue -/
def stored (s : State) (t : Trigger) : Prop :=
  s.triggers t.id = some t ∨ ∃ q ∈ qList s, q.trigger = t

/-- No trigger sits in the listener bucket of another event kind (what
`TransactionEvent.Validate` does not enforce): the type assertions of the detector cannot fail. -/
def CleanBuckets (s : State) (events : List AbciEvent) : Prop :=
  ∀ id t, s.triggers id = some t →
    (norm t.event.pfx = norm BlockHeightPrefix → ∃ h, t.event = .height h) ∧
    (norm t.event.pfx = norm BlockTimePrefix → ∃ x, t.event = .time x) ∧
    (∀ ev ∈ events, norm t.event.pfx = norm ev.type → ∃ n a, t.event = .tx n a)

end PvModel.Trig
