/-
Line-protocol driver + implementation-output checker for the C01 model (`settle`).

Ops
* `settle A=<order>|<order>… B=<order>|… R=<ratio>`   → `exchange.BuildSettlement`
* `split <order> <assetsFilledAmt>`                   → `Order.Split`
* `close M=<market> C=<collector> S=<denom>:<bips>,… <settlement>`  (model only; used by examples)

`<order>` = `<a|b>:<id>:<owner>:<assets coin>:<price coin>:<fee coins or ->:<allowPartial 0|1>`,
`<ratio>` = `none` | `err` | `<price coin>:<fee coin>`.

Output of `settle`: `ok T=<transfers> F=<fee inputs> FF=<fully filled> PF=<partial filled> PL=<partial left>`
with transfer = `<parties>><parties>` joined by `;`, parties = `<addr>:<coins>` joined by `|`,
filled = `<id>:<assets coin>:<order price coin>:<actual price coin>:<order fees>:<actual fees>`; or `err:<class>` /
`panic:<class>`.
-/
import PvModel.SettleSpec
-- registry: settle PvModel.Settle.driver

namespace PvModel.Settle
open PvModel

def parseOrder? (s : String) : Option Order :=
  match s.splitOn ":" with
  | [k, id, owner, assets, price, fees, part] => do
    let id ← id.toNat?
    let (ad, aa) ← parseCoin? assets
    let (pd, pa) ← parseCoin? price
    let fs ← parseCoins? fees
    if k ≠ "a" ∧ k ≠ "b" then none
    pure { id := id, isAsk := k = "a", owner := owner, assetsDenom := ad, assets := aa,
           priceDenom := pd, price := pa, fees := fs, allowPartial := part = "1" }
  | _ => none

def parseRatio? (s : String) : Option (Denom → Except Err (Option Ratio)) :=
  if s = "none" then some fun _ => .ok none
  else if s = "err" then some fun _ => .error .ratioLookup
  else match s.splitOn ":" with
    | [p, f] => do
      let (pd, pa) ← parseCoin? p
      let (fd, fa) ← parseCoin? f
      pure fun _ => .ok (some ⟨pd, pa, fd, fa⟩)
    | _ => none

def showC (c : Coins) : String := showCoins (Coins.canon c)

def showOrder (o : Order) : String :=
  s!"{if o.isAsk then "a" else "b"}:{o.id}:{o.owner}:{o.assets}{o.assetsDenom}:{o.price}{o.priceDenom}:{showC o.fees}:{boolStr o.allowPartial}"

def showParties (idx : Indexed) : String :=
  if idx.isEmpty then "-" else "|".intercalate (idx.map fun (a, cs) => s!"{a}:{showC cs}")

def showTransfer (t : Transfer) : String := s!"{showParties t.inputs}>{showParties t.outputs}"

def showFilled (f : FilledOrder) : String :=
  s!"{f.order.id}:{f.order.assets}{f.order.assetsDenom}:{f.order.price}{f.order.priceDenom}:{f.actualPrice}{f.order.priceDenom}:{showC f.order.fees}:{showC f.actualFees}"

def showSettlement (s : Settlement) : String :=
  let ts := if s.transfers.isEmpty then "-" else ";".intercalate (s.transfers.map showTransfer)
  let ff := if s.fullyFilled.isEmpty then "-" else "|".intercalate (s.fullyFilled.map showFilled)
  let pf := match s.partialFilled with | some f => showFilled f | none => "-"
  let pl := match s.partialLeft with | some o => showOrder o | none => "-"
  s!"ok T={ts} F={showParties s.feeInputs} FF={ff} PF={pf} PL={pl}"

structure SettleIn where
  asks : List Order
  bids : List Order
  ratio : String
  lookup : Denom → Except Err (Option Ratio)

def parseSettle (ws : List String) : Option SettleIn := do
  let a ← kv ws "A"
  let b ← kv ws "B"
  let r ← kv ws "R"
  let asks ← (splitList a).mapM parseOrder?
  let bids ← (splitList b).mapM parseOrder?
  let lk ← parseRatio? r
  pure ⟨asks, bids, r, lk⟩

def run (ws : List String) : String :=
  match ws with
  | "settle" :: rest =>
    match parseSettle rest with
    | some i =>
      match buildSettlementChecked i.asks i.bids i.lookup with
      | .ok s => showSettlement s
      | .error e => e.toString
    | none => "bad-op"
  | ["split", o, amt] =>
    match parseOrder? o, parseInt? amt with
    | some o, some f =>
      match o.split f with
      | .ok (a, b) => s!"ok {showOrder a} {showOrder b}"
      | .error e => e.toString
    | _, _ => "bad-op"
  | _ => "bad-op"

/-! ### parsing the implementation's output back (for the property checker) -/

def parseParties? (s : String) : Option Indexed :=
  (splitList s).mapM fun p =>
    match p.splitOn ":" with
    | [a, cs] => do let c ← parseCoins? cs; pure (a, c)
    | _ => none

def parseTransfer? (s : String) : Option Transfer :=
  match s.splitOn ">" with
  | [i, o] => do
    let i ← parseParties? i
    let o ← parseParties? o
    pure ⟨i, o⟩
  | _ => none

/-- a filled order as printed; the owner / flags are looked up by id in the request -/
def parseFilled? (orig : List Order) (s : String) : Option FilledOrder :=
  match s.splitOn ":" with
  | [id, assets, price, actual, ofees, fees] => do
    let id ← id.toNat?
    let (ad, aa) ← parseCoin? assets
    let (pd, pa) ← parseCoin? price
    let (_, xa) ← parseCoin? actual
    let fs ← parseCoins? fees
    let ofs ← parseCoins? ofees
    let o ← orig.find? (·.id = id)
    pure ⟨{ o with assetsDenom := ad, assets := aa, priceDenom := pd, price := pa, fees := ofs }, xa, fs⟩
  | _ => none

def parseSettlement? (orig : List Order) (impl : String) : Option Settlement :=
  let ws := words impl
  match ws with
  | "ok" :: rest => do
    let t ← kv rest "T"
    let f ← kv rest "F"
    let ff ← kv rest "FF"
    let pf ← kv rest "PF"
    let pl ← kv rest "PL"
    let ts ← (splitList t ";").mapM parseTransfer?
    let fi ← parseParties? f
    let ffs ← (splitList ff).mapM (parseFilled? orig)
    let pfo ← if pf = "-" then some none else (parseFilled? orig pf).map some
    let plo ← if pl = "-" then some none else (parseOrder? pl).map some
    pure ⟨ts, fi, ffs, pfo, plo⟩
  | _ => none

/-- The property's conclusion on what the implementation returned. -/
def check (ws : List String) (impl : String) : String :=
  match ws with
  | "settle" :: rest =>
    match parseSettle rest with
    | some i =>
      if !inDomain i.asks i.bids then "-" else
      if impl.startsWith "ok" then
        match parseSettlement? (i.asks ++ i.bids) impl with
        | some s =>
          let ratio := match i.lookup "" with | .ok r => r | .error _ => none
          match settlementViolation i.asks i.bids ratio s with
          | none => "ok"
          | some c => "fail:" ++ c
        | none => "fail:unparsed"
      else "-"   -- a rejected settlement moves nothing: nothing to check on a pure function
    | none => "-"
  | ["split", o, amt] =>
    match parseOrder? o, parseInt? amt with
    | some o, some f =>
      if !orderValid o then "-" else
      match words impl with
      | ["ok", a, b] =>
        match parseOrder? a, parseOrder? b with
        | some a, some b =>
          match splitViolation o f a b with
          | none => "ok"
          | some c => "fail:" ++ c
        | _, _ => "fail:unparsed"
      | _ => "-"
    | _, _ => "-"
  | _ => "-"

def driver : Driver where
  σ := Unit
  init := ()
  step := fun _ op impl =>
    let ws := words op
    ((), run ws, match impl with | some i => check ws i | none => "-")

end PvModel.Settle
