/-
C16 — executable model of the attribute module's store and of the part of the name module
it depends on.  Core Lean only.

Go code mirrored (provenance `x/attribute`, `x/name`), function by function, error
branches included:

* `x/attribute/types/keys.go`: `AddrAttributeKey` = addr | sha256(reversed name) |
  sha256(value)  →  `Key = (addr, name, value)` (the two hashes are taken injective);
  `AttributeExpireKey` = time | attribute key  →  `(time, Key)`;
  `AttributeNameAddrKeyPrefix` = name hash | addr  →  `(name, addr)`.
* `x/attribute/keeper/keeper.go`: `SetAttribute` :136, `IncAttrNameAddressLookup` :188,
  `DecAttrNameAddressLookup` :201, `UpdateAttribute` :216, `UpdateAttributeExpiration` :299,
  `AccountsByAttribute` :357, `DeleteAttribute` :373, `PurgeAttribute` :443,
  `DeleteExpiredAttributes` :532, `addAttributeExpireLookup` :574,
  `deleteAttributeExpireLookup` :582, `ValidateExpirationDate` :590.
* `x/attribute/keeper/msg_server.go`: AddAttribute, UpdateAttribute,
  UpdateAttributeExpiration, DeleteAttribute, DeleteDistinctAttribute.
* `x/attribute/abci.go`: `BeginBlocker` = `DeleteExpiredAttributes(ctx, MaxExpiredAttributionCount)`,
  the constant being 100 000 (the sweep as
  repaired by commit f2249cacd; the earlier sweep is kept as `stepPreFix` for the witnesses).
* `x/name/keeper/msg_server.go`: BindName :32 (`bindName` under an unrestricted parent,
  `bindNameUnder` with the parent record: a restricted parent lets only its owner bind), DeleteName :99
  (`DeleteRecord` then `attrKeeper.PurgeAttribute`), ModifyName :162 (does not touch
  attributes); `x/name/keeper/keeper.go`: `ResolvesTo` :81, `NameExists` :173.

The KV store is three association lists (records, counters, expiration queue): the three
key spaces have distinct one-byte prefixes, so writes to one never touch another.
Names in messages need not be normalised: a message is an `SOp` = the message with the
NORMALISED name (`Op`) plus a `Spelling` saying how the three key functions of the Go code treat
the raw spelling (section "non-normalised spellings" below, `stepS`).  Stored names (name
records, attribute records) are always normalised, so `State` is unchanged.
The sweep's per-block cap (`attribute.MaxExpiredAttributionCount` = 100 000, abci.go:12) IS
modelled: `deleteExpiredAttributes s limit` is the Go loop with its deletion counter and `break`,
run over the due queue entries in STORE-KEY order (time, address, sha256(reversed name),
sha256(value)) — `storeOrder`, the only place where the real SHA-256 (`PvModel.Sha256`) enters;
the lemmas about the sweep hold for every processing order (`PvProofs.Lemmas.AttrCap`).
Not modelled (assumptions of `checks/C16.json`): the max-value-length parameter, metadata scope
addresses as attribute holders.
-/
import PvModel.Sha256

namespace PvModel.Attr

/-! ### association lists with unique keys (one per key space of the store) -/

def kvGet {α β} [DecidableEq α] : List (α × β) → α → Option β
  | [], _ => none
  | (k', v) :: t, k => if k' = k then some v else kvGet t k

def kvErase {α β} [DecidableEq α] (l : List (α × β)) (k : α) : List (α × β) :=
  l.filter (fun p => decide (p.1 ≠ k))

def kvSet {α β} [DecidableEq α] (l : List (α × β)) (k : α) (v : β) : List (α × β) :=
  (k, v) :: kvErase l k

/-! ### attributes -/

/-- `types.AttributeType` restricted to the kinds the harness draws from
(`unspecified` is the invalid one). -/
inductive AType
  | unspecified | string | int | float | proto | bytes
  deriving DecidableEq, Repr, Inhabited

/-- `AddrAttributeKey`: (address, name, value) — the two sha256 hashes are injective. -/
abbrev Key := String × String × String

structure Attribute where
  addr : String
  name : String
  value : String
  ty : AType
  /-- `ExpirationDate` in unix seconds (`nil` = none). -/
  exp : Option Nat
  deriving DecidableEq, Repr, Inhabited

def Attribute.key (a : Attribute) : Key := (a.addr, a.name, a.value)

inductive Err
  | invalid | noacct | perm | notfound | exists
  deriving DecidableEq, Repr

def Err.toString : Err → String
  | .invalid => "err:invalid"
  | .noacct => "err:noacct"
  | .perm => "err:perm"
  | .notfound => "err:notfound"
  | .exists => "err:exists"

structure State where
  /-- `ctx.BlockTime().Unix()` -/
  now : Nat := 0
  /-- addresses for which `authKeeper.GetAccount` returns an account -/
  accts : List String := []
  /-- name records: name ↦ owner address -/
  names : List (String × String) := []
  /-- attribute records (prefix 0x02) -/
  recs : List Attribute := []
  /-- name→address lookup counters (prefix 0x03): (name, addr) ↦ count -/
  cnt : List ((String × String) × Nat) := []
  /-- expiration queue (prefix 0x04): (time, attribute key) -/
  queue : List (Nat × Key) := []
  deriving Repr

/-- The governance module account (authority of `MsgModifyName`). -/
def govAddr : String := "gov"

/-! ### name keeper -/

/-- `GetRecordByName` (owner address of the record). -/
def getRecordByName (s : State) (name : String) : Option String := kvGet s.names name

/-- `ResolvesTo` (name/keeper/keeper.go:81). -/
def resolvesTo (s : State) (name addr : String) : Bool := decide (getRecordByName s name = some addr)

/-- `NameExists` (name/keeper/keeper.go:173). -/
def nameExists (s : State) (name : String) : Bool := (getRecordByName s name).isSome

/-! ### attribute keeper: store primitives -/

/-- `store.Get(attrKey)` -/
def getAttr (s : State) (k : Key) : Option Attribute := s.recs.find? (fun r => decide (r.key = k))

/-- `store.Set(AddrAttributeKey(attr), bz)`: overwrites whatever is stored under the key. -/
def setRec (s : State) (a : Attribute) : State :=
  { s with recs := a :: s.recs.filter (fun r => decide (r.key ≠ a.key)) }

/-- `store.Delete(attrKey)` -/
def delRec (s : State) (k : Key) : State :=
  { s with recs := s.recs.filter (fun r => decide (r.key ≠ k)) }

def getCnt (s : State) (name addr : String) : Nat := (kvGet s.cnt (name, addr)).getD 0

/-- `IncAttrNameAddressLookup` (keeper.go:188). -/
def incAttrNameAddressLookup (s : State) (name addr : String) : State :=
  { s with cnt := kvSet s.cnt (name, addr) (getCnt s name addr + 1) }

/-- `DecAttrNameAddressLookup` (keeper.go:201): nothing when absent, removed at ≤ 1. -/
def decAttrNameAddressLookup (s : State) (name addr : String) : State :=
  match kvGet s.cnt (name, addr) with
  | none => s
  | some v =>
    if v ≤ 1 then { s with cnt := kvErase s.cnt (name, addr) }
    else { s with cnt := kvSet s.cnt (name, addr) (v - 1) }

/-- `addAttributeExpireLookup` (keeper.go:574): no-op without an expiration date. -/
def addAttributeExpireLookup (s : State) (a : Attribute) : State :=
  match a.exp with
  | none => s
  | some e => { s with queue := (e, a.key) :: s.queue.filter (fun q => decide (q ≠ (e, a.key))) }

/-- `deleteAttributeExpireLookup` (keeper.go:582): removes the entry at the attribute's own
expiration date only. -/
def deleteAttributeExpireLookup (s : State) (a : Attribute) : State :=
  match a.exp with
  | none => s
  | some e => { s with queue := s.queue.filter (fun q => decide (q ≠ (e, a.key))) }

/-- `ValidateExpirationDate` (keeper.go:590): an expiration strictly before the block time is
refused; equal is accepted. -/
def validateExpirationDate (s : State) (a : Attribute) : Bool :=
  match a.exp with
  | none => true
  | some e => decide (s.now ≤ e)

def isNumeric (v : String) : Bool := !v.isEmpty && v.toList.all Char.isDigit

/-- the white space of the line protocol (`strings.TrimSpace` also strips the other Unicode
spaces, which the harness does not draw) -/
def isSpace (c : Char) : Bool := c = ' ' || c = '\t' || c = '\n' || c = '\r'

/-- `strings.TrimSpace` of a VALUE (list based, so that it computes in proofs). -/
def trimSpace (v : String) : String :=
  String.ofList ((v.toList.dropWhile isSpace).reverse.dropWhile isSpace).reverse

/-- `types.NewAttribute` (types/attribute.go:22): the value of every type but `bytes` and `proto`
is stored without its surrounding white space; `bytes` / `proto` values are kept verbatim.  Only
`MsgAddAttribute` goes through it (msg_server.go:30, msgs.go:39); the attributes of
`MsgUpdateAttribute`, `MsgUpdateAttributeExpiration` and `MsgDeleteDistinctAttribute` carry the
value of the message as it is.  `Op.add` carries the attribute `NewAttribute` returned. -/
def newAttribute (a : Attribute) : Attribute :=
  match a.ty with
  | .bytes | .proto => a
  | _ => { a with value := trimSpace a.value }

/-- `isValidValueForType` (types/attribute.go:117) on the value alphabet of the harness (decimal
digit strings and strings starting with a letter, with or without surrounding white space): the
textual types are judged on the TRIMMED value (`isValidString` :148, `isValidInt` :161,
`isValidFloat` :168), the value itself is not changed. -/
def isValidValueForType (ty : AType) (v : String) : Bool :=
  match ty with
  | .unspecified => false
  | .string => !(trimSpace v).isEmpty
  | .int => isNumeric (trimSpace v)
  | .float => isNumeric (trimSpace v)
  | .proto => true
  | .bytes => true

/-- `Attribute.ValidateBasic` (types/attribute.go:52). `""` stands for a nil value / empty
address. -/
def validateBasic (a : Attribute) : Bool :=
  !a.name.isEmpty && !a.value.isEmpty && !a.addr.isEmpty && isValidValueForType a.ty a.value

/-- `AccountsByAttribute` (keeper.go:357): the addresses that have a counter under the name. -/
def accountsByAttribute (s : State) (name : String) : List String :=
  (s.cnt.filter (fun p => decide (p.1.1 = name))).map (fun p => p.1.2)

/-! ### attribute keeper: the anchored functions -/

/-- `SetAttribute` (keeper.go:136).  There is no look-up of an entry already stored under the
same key: the record is overwritten, the counter incremented and a queue entry added. -/
def setAttribute (s : State) (attr : Attribute) (owner : String) : Except Err State :=
  if !validateExpirationDate s attr then .error .invalid
  else if !validateBasic attr then .error .invalid
  else if !s.accts.contains owner then .error .noacct
  else if !resolvesTo s attr.name owner then .error .perm
  else .ok (addAttributeExpireLookup (incAttrNameAddressLookup (setRec s attr) attr.name attr.addr) attr)

/-- `UpdateAttribute` (keeper.go:216). `orig`/`upd` carry no expiration (msg_server.go:69-81). -/
def updateAttribute (s : State) (orig upd : Attribute) (owner : String) : Except Err State :=
  if !validateBasic orig then .error .invalid
  else if !validateBasic upd then .error .invalid
  else if upd.name ≠ orig.name then .error .invalid
  else if !s.accts.contains owner then .error .noacct
  else if !resolvesTo s upd.name owner then .error .perm
  else match getAttr s orig.key with
    | none => .error .notfound
    | some cur =>
      if cur.ty = orig.ty then
        let s1 := deleteAttributeExpireLookup (decAttrNameAddressLookup (delRec s orig.key) cur.name orig.addr) cur
        .ok (addAttributeExpireLookup (incAttrNameAddressLookup (setRec s1 upd) upd.name upd.addr) upd)
      else .error .notfound

/-- `UpdateAttributeExpiration` (keeper.go:299). -/
def updateAttributeExpiration (s : State) (upd : Attribute) (owner : String) : Except Err State :=
  if !validateExpirationDate s upd then .error .invalid
  else if !s.accts.contains owner then .error .noacct
  else if !resolvesTo s upd.name owner then .error .perm
  else match getAttr s upd.key with
    | none => .error .notfound
    | some cur =>
      let cur' := { cur with exp := upd.exp }
      .ok (addAttributeExpireLookup (setRec (deleteAttributeExpireLookup s cur) cur') cur')

/-- One iteration of the deletion loop of `DeleteAttribute` (keeper.go:414-418). -/
def deleteOne (s : State) (a : Attribute) : State :=
  deleteAttributeExpireLookup (decAttrNameAddressLookup (delRec s a.key) a.name a.addr) a

/-- The selection loop of `DeleteAttribute` (keeper.go:400-410): the records under the
`(addr, name)` prefix, restricted to one value when deleting distinct. -/
def toDelete (s : State) (addr name : String) (value : Option String) : List Attribute :=
  s.recs.filter (fun r => decide (r.addr = addr) && decide (r.name = name) &&
    (match value with | none => true | some v => decide (r.value = v)))

/-- `DeleteAttribute` (keeper.go:373); `value = none` deletes every value under the name.
When the name is not bound at all the permission check is skipped (:385-390). -/
def deleteAttribute (s : State) (addr name : String) (value : Option String) (owner : String) :
    Except Err State :=
  if !s.accts.contains owner then .error .noacct
  else if !resolvesTo s name owner && nameExists s name then .error .perm
  else if (toDelete s addr name value).isEmpty then .error .notfound
  else .ok ((toDelete s addr name value).foldl deleteOne s)

/-- `getAddrAttributesKeysByName` (keeper.go:471). -/
def getAddrAttributesKeysByName (s : State) (acct name : String) : List Key :=
  (s.recs.filter (fun r => decide (r.addr = acct) && decide (r.name = name))).map Attribute.key

/-- Inner loop body of `PurgeAttribute` (:461-464): the record and one counter unit go; the
expiration queue is not touched. -/
def purgeOne (name acct : String) (s : State) (k : Key) : State :=
  decAttrNameAddressLookup (delRec s k) name acct

def purgeAcct (name : String) (s : State) (acct : String) : State :=
  (getAddrAttributesKeysByName s acct name).foldl (purgeOne name acct) s

/-- `PurgeAttribute` (keeper.go:443). -/
def purgeAttribute (s : State) (name owner : String) : Except Err State :=
  if !s.accts.contains owner then .error .noacct
  else if !resolvesTo s name owner && nameExists s name then .error .perm
  else .ok ((accountsByAttribute s name).foldl (purgeAcct name) s)

/-- Loop body of `DeleteExpiredAttributes` (keeper.go:543-573, after commit f2249cacd): the
attribute stored under the key of the queue entry is deleted only when the entry is the one of
its currently stored expiration date
(`bytes.Equal(types.AttributeExpireKey(attribute), expirationKey)`); a stale entry (left by
`SetAttribute` over an identical key, `UpdateAttribute` onto a stored value, `PurgeAttribute`)
is just dropped.  The queue entry always goes. -/
def expireOne (s : State) (q : Nat × Key) : State :=
  let s1 := match getAttr s q.2 with
    | some a => if a.exp = some q.1 then decAttrNameAddressLookup (delRec s q.2) a.name a.addr else s
    | none => s
  { s1 with queue := s1.queue.filter (fun q' => decide (q' ≠ q)) }

/-- `attribute.MaxExpiredAttributionCount` (x/attribute/abci.go:12): the most attributes one
`BeginBlocker` deletes. -/
def maxExpiredAttributionCount : Nat := 100000

/-- The test of keeper.go:546-551 on one queue entry: an attribute is stored under the entry's key
and the entry is the one of its currently stored expiration — exactly the entries for which the
loop deletes a record and increments `count`. -/
def isLive (s : State) (q : Nat × Key) : Bool :=
  match getAttr s q.2 with
  | some a => decide (a.exp = some q.1)
  | none => false

/-- The deletion loop of `DeleteExpiredAttributes` (keeper.go:542-573) over the collected
`expirationKeys`: `count` is the number of attributes deleted so far; after each entry
`if limit != 0 && count >= limit { break }`. -/
def expireLoop (limit : Nat) : Nat → List (Nat × Key) → State → State
  | _, [], s => s
  | count, q :: rest, s =>
    let count' := if isLive s q then count + 1 else count
    if limit ≠ 0 ∧ limit ≤ count' then expireOne s q else expireLoop limit count' rest (expireOne s q)

/-! #### store-key order of the expiration queue

`AttributeExpireKey` (types/keys.go:53) = 0x04 | 8-byte big-endian unix time | length-prefixed
address | sha256(reversed lower-cased name) | sha256(value); the iterator of
`DeleteExpiredAttributes` returns the keys in ascending byte order.  Addresses are symbolic in the
model; the harness' account addresses are equally long and ordered like their symbols. -/

def orderedInsert {α} (le : α → α → Bool) (a : α) : List α → List α
  | [] => [a]
  | b :: t => if le a b then a :: b :: t else b :: orderedInsert le a t

def insertionSort {α} (le : α → α → Bool) : List α → List α
  | [] => []
  | a :: t => orderedInsert le a (insertionSort le t)

/-- a digest as the big-endian number (comparing digests as byte strings = comparing these) -/
def digestNat (bs : List UInt8) : Nat := bs.foldl (fun acc b => acc * 256 + b.toNat) 0

/-- `reverse` (types/keys.go:128): the segments of a name in reverse order. -/
def reverseName (name : String) : String := ".".intercalate (name.splitOn ".").reverse

/-- `GetNameKeyBytes` (types/keys.go:107) of a normalised name. -/
def nameKeyHash (name : String) : Nat := digestNat (Sha256.sumString (reverseName name))

/-- `Attribute.Hash` (types/attribute.go:44). -/
def valueHash (value : String) : Nat := digestNat (Sha256.sumString value)

/-- a queue entry with the two digests of its key -/
abbrev Decorated := (Nat × Key) × Nat × Nat

def decorate (q : Nat × Key) : Decorated := (q, nameKeyHash q.2.2.1, valueHash q.2.2.2)

/-- byte order of two expiration keys; a digest is looked at only where the hashed strings differ -/
def storeLe (a b : Decorated) : Bool :=
  if a.1.1 ≠ b.1.1 then decide (a.1.1 < b.1.1)
  else if a.1.2.1 ≠ b.1.2.1 then decide (a.1.2.1 < b.1.2.1)
  else if a.1.2.2.1 ≠ b.1.2.2.1 then decide (a.2.1 ≤ b.2.1)
  else if a.1.2.2.2 ≠ b.1.2.2.2 then decide (a.2.2 ≤ b.2.2)
  else true

/-- the entries in the order the store iterator returns them -/
def storeOrder (l : List (Nat × Key)) : List (Nat × Key) :=
  (insertionSort storeLe (l.map decorate)).map (·.1)

/-- The collection loop of `DeleteExpiredAttributes` (keeper.go:536-540): every queue entry with
time strictly before the block time (`store.Iterator(prefix, prefix|blockTime)`, end exclusive),
in key order. -/
def dueEntries (s : State) : List (Nat × Key) :=
  storeOrder (s.queue.filter (fun q => decide (q.1 < s.now)))

/-- `DeleteExpiredAttributes(ctx, limit)` (keeper.go:532); `limit = 0` means no limit. -/
def deleteExpiredAttributes (s : State) (limit : Nat) : State :=
  expireLoop limit 0 (dueEntries s) s

/-! ### name module messages -/

/-- `BindName` under an unrestricted parent: refused when the name is already bound. -/
def bindName (s : State) (name owner : String) : Except Err State :=
  if nameExists s name then .error .exists
  else .ok { s with names := kvSet s.names name owner }

/-- `BindName` (msg_server.go:32-55) in full: the parent record is fetched (:40, an error when there
is none); when it is RESTRICTED the parent address of the message — its signer — must be the address
the parent name resolves to (:46-:54); the rest is the bind under an unrestricted parent.
`restricted` is the flag of the stored parent record (the model's name records carry the owner
only, so the flag comes with the message); every error of `BindName` but "already bound" is an
`ErrInvalidRequest`. -/
def bindNameUnder (s : State) (parent : String) (restricted : Bool) (signer name owner : String) :
    Except Err State :=
  match getRecordByName s parent with
  | none => .error .invalid
  | some _ =>
    if restricted && !resolvesTo s parent signer then .error .invalid
    else bindName s name owner

/-- `ModifyName` (msg_server.go:162): authority is the governance account or the current
owner; attributes are not touched. -/
def modifyName (s : State) (authority name newOwner : String) : Except Err State :=
  match getRecordByName s name with
  | none => .error .notfound
  | some cur =>
    if authority ≠ govAddr ∧ authority ≠ cur then .error .perm
    else .ok { s with names := kvSet s.names name newOwner }

/-- `DeleteName` (msg_server.go:99): `DeleteRecord`, then `PurgeAttribute(name, signer)`. -/
def deleteName (s : State) (signer name : String) : Except Err State :=
  if !nameExists s name then .error .notfound
  else if !resolvesTo s name signer then .error .perm
  else purgeAttribute { s with names := kvErase s.names name } name signer

/-! ### messages and histories -/

inductive Op
  /-- `MsgAddAttribute`; `attr` is what `types.NewAttribute` made of the message (`newAttribute`) -/
  | add (signer : String) (attr : Attribute)
  /-- `MsgUpdateAttribute` -/
  | update (signer addr name ov : String) (ot : AType) (nv : String) (nt : AType)
  /-- `MsgUpdateAttributeExpiration` -/
  | updateExp (signer addr name value : String) (exp : Option Nat)
  /-- `MsgDeleteAttribute` -/
  | delete (signer addr name : String)
  /-- `MsgDeleteDistinctAttribute` -/
  | deleteDistinct (signer addr name value : String)
  /-- `MsgBindName` (record owner `owner`) -/
  | bind (name owner : String)
  /-- `MsgModifyName` -/
  | transfer (authority name newOwner : String)
  /-- `MsgDeleteName` -/
  | deleteName (signer name : String)
  /-- a new block at time `t`: `attribute.BeginBlocker` -/
  | beginBlock (t : Nat)
  deriving Repr

def step (s : State) : Op → Except Err State
  | .add signer attr =>
    -- msg_server.go:43 validates the expiration before the keeper does it again
    if !validateExpirationDate s attr then .error .invalid else setAttribute s attr signer
  | .update signer addr name ov ot nv nt =>
    updateAttribute s ⟨addr, name, ov, ot, none⟩ ⟨addr, name, nv, nt, none⟩ signer
  | .updateExp signer addr name value exp =>
    updateAttributeExpiration s ⟨addr, name, value, .unspecified, exp⟩ signer
  | .delete signer addr name =>
    if addr.isEmpty then .error .invalid else deleteAttribute s addr name none signer
  | .deleteDistinct signer addr name value =>
    if addr.isEmpty then .error .invalid else deleteAttribute s addr name (some value) signer
  | .bind name owner => bindName s name owner
  | .transfer authority name newOwner => modifyName s authority name newOwner
  | .deleteName signer name => deleteName s signer name
  | .beginBlock t => .ok (deleteExpiredAttributes { s with now := t } maxExpiredAttributionCount)

/-- A rejected message changes nothing (the transaction is rolled back). -/
def apply (s : State) (op : Op) : State :=
  match step s op with
  | .ok s' => s'
  | .error _ => s

def run (s : State) (ops : List Op) : State := ops.foldl apply s

/-! ### non-normalised spellings of the name in a message

A message may spell its name differently from the stored (normalised) form: letter case,
white space around the whole name, white space around a segment.  Such messages pass
`ValidateBasic` (only `strings.TrimSpace(name) != ""` is demanded, `x/attribute/types/msgs.go`,
`x/name/types/msgs.go`).  Three functions of the Go code map a raw spelling to a store key, and
they do not agree:

* `nameKeeper.Normalize` (name/keeper/keeper.go:258, `types.NormalizeName`): lower-case and
  trim every segment — the normalised name `Op` carries;
* `nametypes.GetNameKeyPrefix` (name/types/keys.go:33; used by `GetRecordByName`, `ResolvesTo`,
  `NameExists`): trims every segment, does NOT lower-case;
* `attrtypes.GetNameKeyBytes` (attribute/types/keys.go:107; every attribute store key):
  lower-cases and trims the whole string, NOT the segments.

`Spelling` records, for the raw name of one message, whether it is the normalised name itself
(`exact`), whether the name-module key of the raw spelling is the key of the normalised name
(`nameKeyHit`) and whether the attribute-module key is (`attrKeyHit`).  The driver computes the
three flags from the raw string; stored names are always normalised, so a look-up by the raw
spelling finds the record of the normalised name when the flag is set and nothing otherwise
(sha256 injective).  When `exact` holds the other two flags are irrelevant. -/

structure Spelling where
  exact : Bool := true
  nameKeyHit : Bool := true
  attrKeyHit : Bool := true
  deriving DecidableEq, Repr, Inhabited

/-- A message: `op` carries the NORMALISED name, `sp` how the raw name was spelt. -/
structure SOp where
  sp : Spelling
  op : Op
  deriving Repr

/-- `UpdateAttribute` (keeper.go:216) when the attribute key of the raw name misses: both names
are normalised for the checks (:233-:247), the signer must own the normalised name (:251-:257),
but the original record is fetched under `AddrAttributeKey(addr, originalAttribute)` whose
name is still the raw one (:260-:262) → nothing found. -/
def updateAttributeKeyMiss (s : State) (orig upd : Attribute) (owner : String) : Except Err State :=
  if !validateBasic orig then .error .invalid
  else if !validateBasic upd then .error .invalid
  else if !s.accts.contains owner then .error .noacct
  else if !resolvesTo s upd.name owner then .error .perm
  else .error .notfound

/-- `DeleteAttribute` (keeper.go:373) with a raw name that is not the normalised one: the owner
check resolves the RAW name (:385-:390: enforced when the name key hits, skipped — "name does
not exist (anymore)" — when it misses); the scan runs over the attribute-key prefix of the raw
name (:393) but keeps only records with `attr.Name == name` (:407), and stored names are
normalised, so nothing is selected and the message is refused (:431-:436). -/
def deleteAttributeMisspelt (s : State) (sp : Spelling) (name owner : String) : Except Err State :=
  if !s.accts.contains owner then .error .noacct
  else if sp.nameKeyHit && (!resolvesTo s name owner && nameExists s name) then .error .perm
  else .error .notfound

/-- One message with a possibly non-normalised name. -/
def stepS (s : State) (x : SOp) : Except Err State :=
  if x.sp.exact then step s x.op
  else match x.op with
    -- SetAttribute :157, UpdateAttributeExpiration :311, DeleteName msg_server.go:108,
    -- BindName msg_server.go:58 normalise before any look-up
    | .add .. | .updateExp .. | .deleteName .. | .bind .. | .beginBlock .. => step s x.op
    | .update signer addr name ov ot nv nt =>
      if x.sp.attrKeyHit then step s x.op
      else updateAttributeKeyMiss s ⟨addr, name, ov, ot, none⟩ ⟨addr, name, nv, nt, none⟩ signer
    | .delete signer addr name =>
      if addr.isEmpty then .error .invalid else deleteAttributeMisspelt s x.sp name signer
    | .deleteDistinct signer addr name _ =>
      if addr.isEmpty then .error .invalid else deleteAttributeMisspelt s x.sp name signer
    -- ModifyName msg_server.go:165 looks the RAW name up, then UpdateNameRecord normalises
    | .transfer _ _ _ => if x.sp.nameKeyHit then step s x.op else .error .notfound

def applyS (s : State) (x : SOp) : State :=
  match stepS s x with
  | .ok s' => s'
  | .error _ => s

def runS (s : State) (xs : List SOp) : State := xs.foldl applyS s

/-! ### histories in which names are also bound under restricted parents -/

/-- A message of such a history: a plain message, or `MsgBindName` with its parent record. -/
inductive ROp
  | plain (op : Op)
  | bindUnder (parent : String) (restricted : Bool) (signer name owner : String)
  deriving Repr

def stepR (s : State) : ROp → Except Err State
  | .plain op => step s op
  | .bindUnder p r sg n o => bindNameUnder s p r sg n o

def applyR (s : State) (x : ROp) : State :=
  match stepR s x with
  | .ok s' => s'
  | .error _ => s

def runR (s : State) (xs : List ROp) : State := xs.foldl applyR s

/-- All messages of one transaction: the first refusal rolls everything back (op line `bulk`:
many `MsgAddAttribute` messages that differ only in the value). -/
def stepAll (s : State) : List SOp → Except Err State
  | [] => .ok s
  | x :: t => match stepS s x with
    | .ok s' => stepAll s' t
    | .error e => .error e

/-! ### genesis export / import (x/attribute/keeper/genesis.go; cited by C18)

Only the attribute RECORDS are exported; the lookup counters (0x03) and the expiration queue
(0x04) are rebuilt by `importAttribute`, record by record. -/

/-- `ExportGenesis` (genesis.go:88): `IterateRecords` over prefix 0x02 — every attribute record,
whatever its expiration (an attribute the capped sweep has not reached yet is exported too). -/
def exportGenesis (s : State) : List Attribute := s.recs

/-- `importAttribute` (keeper.go:501): an attribute whose expiration is before the block time is
skipped silently (:502-505); otherwise the record is stored, the name→address counter
incremented and the expiration-queue entry of the STORED expiration added.  No name / owner
check.  (`ValidateBasic` :508 cannot fail after `GenesisState.ValidateBasic`; `Normalize` :514 is
the identity on stored names.) -/
def importAttribute (s : State) (a : Attribute) : State :=
  if !validateExpirationDate s a then s
  else addAttributeExpireLookup (incAttrNameAddressLookup (setRec s a) a.name a.addr) a

/-- `GenesisState.ValidateBasic` (types/genesis.go:12): every attribute passes `ValidateBasic`. -/
def genesisValid (attrs : List Attribute) : Bool := attrs.all validateBasic

/-- `InitGenesis` (genesis.go:14) into an EMPTY attribute store, at block time `now`, the account
and name modules having been initialised already (`accts`, `names`): panics (`.error`) when the
genesis state is invalid, else replays `importAttribute` over the records in their order. -/
def initGenesis (now : Nat) (accts : List String) (names : List (String × String))
    (attrs : List Attribute) : Except Err State :=
  if !genesisValid attrs then .error .invalid
  else .ok (attrs.foldl importAttribute { now := now, accts := accts, names := names })

/-- Export the attribute module of `s` and initialise a fresh chain from it at block time `t`
(accounts and name records as in `s`: their own round trip is not this module's). -/
def regenesis (s : State) (t : Nat) : Except Err State :=
  initGenesis t s.accts s.names (exportGenesis s)

/-! ### the sweep before commit f2249cacd (historical; only for the `…_before_fix` witnesses)

Until f2249cacd ("fix: expired-attribute sweep deleted attributes through stale
expiration-queue entries") the loop body deleted whatever attribute was stored under the key of
the queue entry, whatever its own expiration date was. -/

def expireOnePreFix (s : State) (q : Nat × Key) : State :=
  let s1 := match getAttr s q.2 with
    | some a => decAttrNameAddressLookup (delRec s q.2) a.name a.addr
    | none => s
  { s1 with queue := s1.queue.filter (fun q' => decide (q' ≠ q)) }

def deleteExpiredAttributesPreFix (s : State) : State :=
  (s.queue.filter (fun q => decide (q.1 < s.now))).foldl expireOnePreFix s

def stepPreFix (s : State) : Op → Except Err State
  | .beginBlock t => .ok (deleteExpiredAttributesPreFix { s with now := t })
  | op => step s op

def applyPreFix (s : State) (op : Op) : State :=
  match stepPreFix s op with
  | .ok s' => s'
  | .error _ => s

def runPreFix (s : State) (ops : List Op) : State := ops.foldl applyPreFix s

end PvModel.Attr
