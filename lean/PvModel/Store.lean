/-
C18 — the common shape of every module's genesis export/import (executable model).

A module store is a byte-sorted key/value store; `ExportGenesis` iterates it in key order and
writes the records out, `InitGenesis` replays `Set` for every record of the genesis file
into an empty store (x/*/keeper/genesis.go all have this shape, with params/counters as
extra scalar fields).  Keys are modelled as natural numbers (any order-preserving injective
encoding of the key bytes).
-/
namespace PvModel.Store

abbrev KV := List (Nat × String)

/-- `store.Set`: insert or overwrite, keeping key order. -/
def put : KV → Nat → String → KV
  | [], k, v => [(k, v)]
  | (k', v') :: rest, k, v =>
    if k < k' then (k, v) :: (k', v') :: rest
    else if k = k' then (k, v) :: rest
    else (k', v') :: put rest k v

def get : KV → Nat → Option String
  | [], _ => none
  | (k', v') :: rest, k => if k = k' then some v' else get rest k

def del : KV → Nat → KV
  | [], _ => []
  | (k', v') :: rest, k => if k = k' then rest else (k', v') :: del rest k

/-- strictly increasing keys: what an iterator over a KV store yields -/
def Sorted : KV → Prop
  | [] => True
  | [_] => True
  | (k₁, _) :: (k₂, v₂) :: rest => k₁ < k₂ ∧ Sorted ((k₂, v₂) :: rest)

/-- `ExportGenesis`: iterate in key order. -/
def exportStore (s : KV) : List (Nat × String) := s

/-- `InitGenesis`: `Set` every record into an empty store, in file order. -/
def importStore (recs : List (Nat × String)) : KV := recs.foldl (fun s (k, v) => put s k v) []

/-- `GenesisState.Validate`-style check: no key twice. -/
def noDupKeys : List (Nat × String) → Bool
  | [] => true
  | (k, _) :: rest => !(rest.any (·.1 == k)) && noDupKeys rest

/-- A module genesis: several stores plus scalar fields (params, counters). -/
structure ModuleState where
  stores : List KV
  scalars : List String
  deriving Repr

structure ModuleGenesis where
  records : List (List (Nat × String))
  scalars : List String
  deriving Repr

def exportModule (s : ModuleState) : ModuleGenesis := { records := s.stores.map exportStore, scalars := s.scalars }
def importModule (g : ModuleGenesis) : ModuleState := { stores := g.records.map importStore, scalars := g.scalars }
def validateModule (g : ModuleGenesis) : Bool := g.records.all noDupKeys

end PvModel.Store
