/-
SHA-256 (FIPS 180-4), core Lean only.  Used ONLY by the `namekey` driver so that the model's
pre-image can be compared with the bytes the real `types.GetNameKeyPrefix` returns
(`0x03 ‖ sha256(pre-image)`).  No theorem mentions this file: in `PvProofs.C15` the hash is an
abstract function parameter whose injectivity is a hypothesis.
-/
namespace PvModel.Sha256

def K : Array UInt32 := #[
  0x428a2f98, 0x71374491, 0xb5c0fbcf, 0xe9b5dba5, 0x3956c25b, 0x59f111f1, 0x923f82a4, 0xab1c5ed5,
  0xd807aa98, 0x12835b01, 0x243185be, 0x550c7dc3, 0x72be5d74, 0x80deb1fe, 0x9bdc06a7, 0xc19bf174,
  0xe49b69c1, 0xefbe4786, 0x0fc19dc6, 0x240ca1cc, 0x2de92c6f, 0x4a7484aa, 0x5cb0a9dc, 0x76f988da,
  0x983e5152, 0xa831c66d, 0xb00327c8, 0xbf597fc7, 0xc6e00bf3, 0xd5a79147, 0x06ca6351, 0x14292967,
  0x27b70a85, 0x2e1b2138, 0x4d2c6dfc, 0x53380d13, 0x650a7354, 0x766a0abb, 0x81c2c92e, 0x92722c85,
  0xa2bfe8a1, 0xa81a664b, 0xc24b8b70, 0xc76c51a3, 0xd192e819, 0xd6990624, 0xf40e3585, 0x106aa070,
  0x19a4c116, 0x1e376c08, 0x2748774c, 0x34b0bcb5, 0x391c0cb3, 0x4ed8aa4a, 0x5b9cca4f, 0x682e6ff3,
  0x748f82ee, 0x78a5636f, 0x84c87814, 0x8cc70208, 0x90befffa, 0xa4506ceb, 0xbef9a3f7, 0xc67178f2]

def H0 : Array UInt32 := #[
  0x6a09e667, 0xbb67ae85, 0x3c6ef372, 0xa54ff53a, 0x510e527f, 0x9b05688c, 0x1f83d9ab, 0x5be0cd19]

@[inline] def rotr (x : UInt32) (n : UInt32) : UInt32 := (x >>> n) ||| (x <<< (32 - n))

/-- message ‖ 0x80 ‖ zeros ‖ 64-bit big-endian bit length; a multiple of 64 bytes. -/
def pad (msg : List UInt8) : Array UInt8 :=
  let n := msg.length
  let a := (msg.toArray).push 0x80
  let z := (64 - ((n + 1 + 8) % 64)) % 64
  let a := a ++ Array.replicate z (0 : UInt8)
  let bits := n * 8
  (List.range 8).foldl (fun a i => a.push (UInt8.ofNat ((bits >>> (8 * (7 - i))) % 256))) a

def word (a : Array UInt8) (i : Nat) : UInt32 :=
  ((a[i]!).toUInt32 <<< 24) ||| ((a[i+1]!).toUInt32 <<< 16) ||| ((a[i+2]!).toUInt32 <<< 8) ||| (a[i+3]!).toUInt32

def schedule (a : Array UInt8) (off : Nat) : Array UInt32 :=
  let w : Array UInt32 := (List.range 16).foldl (fun w i => w.push (word a (off + 4 * i))) #[]
  (List.range 48).foldl (fun w j =>
    let i := j + 16
    let w15 := w[i - 15]!
    let w2 := w[i - 2]!
    let s0 := rotr w15 7 ^^^ rotr w15 18 ^^^ (w15 >>> 3)
    let s1 := rotr w2 17 ^^^ rotr w2 19 ^^^ (w2 >>> 10)
    w.push (w[i - 16]! + s0 + w[i - 7]! + s1)) w

def compress (h : Array UInt32) (w : Array UInt32) : Array UInt32 :=
  let init := (h[0]!, h[1]!, h[2]!, h[3]!, h[4]!, h[5]!, h[6]!, h[7]!)
  let (a, b, c, d, e, f, g, hh) := (List.range 64).foldl (fun (a, b, c, d, e, f, g, hh) i =>
    let s1 := rotr e 6 ^^^ rotr e 11 ^^^ rotr e 25
    let ch := (e &&& f) ^^^ ((~~~ e) &&& g)
    let t1 := hh + s1 + ch + K[i]! + w[i]!
    let s0 := rotr a 2 ^^^ rotr a 13 ^^^ rotr a 22
    let maj := (a &&& b) ^^^ (a &&& c) ^^^ (b &&& c)
    let t2 := s0 + maj
    (t1 + t2, a, b, c, d + t1, e, f, g)) init
  #[h[0]! + a, h[1]! + b, h[2]! + c, h[3]! + d, h[4]! + e, h[5]! + f, h[6]! + g, h[7]! + hh]

def hash (msg : List UInt8) : List UInt8 :=
  let p := pad msg
  let h := (List.range (p.size / 64)).foldl (fun h blk => compress h (schedule p (64 * blk))) H0
  h.toList.flatMap fun (x : UInt32) =>
    [(x >>> 24).toUInt8, (x >>> 16).toUInt8, (x >>> 8).toUInt8, x.toUInt8]

def hexDigit (n : Nat) : Char := if n < 10 then Char.ofNat (48 + n) else Char.ofNat (87 + n)

def hex (bs : List UInt8) : String :=
  String.ofList (bs.flatMap fun b => [hexDigit (b.toNat / 16), hexDigit (b.toNat % 16)])

end PvModel.Sha256
