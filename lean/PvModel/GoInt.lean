/-
Primitives the generated translation of the Go fee kernels (`Generated/FeeArith.lean`, written
by `tools/extract/arith.go` on every run) is expressed in. This file is the *trusted* semantics
of the `cosmossdk.io/math` / `sdk.Coin` operations the translated functions use:

* `sdkmath.Int` is an unbounded `Int` whose every arithmetic result must satisfy `fits256`
  (`Int.Mul/Add/Sub` and the `…Raw` variants panic with "integer overflow" otherwise);
* `Int.Quo` is T-division and panics on a zero divisor; `Int.Mod` is `big.Int.Mod` (Euclidean);
* `QuoRemInt` (x/exchange/helpers.go, written with `math/big` directly) is `big.Int.QuoRem`:
  T-division and its remainder, panic on a zero divisor;
* `*big.Int` values (`x.BigInt()`, `new(big.Int).Mul/Add/Sub/QuoRem`, `big.NewInt`) are unbounded
  integers without any overflow check; `BitLen` is the bit length of the absolute value;
* `sdk.NewCoin` panics for a negative amount (denominations are assumed valid);
* a panic and a returned error are both `Except.error` (the class is informative only).

The correspondence stream of C19 samples exactly these operations through the real functions.
-/
import PvModel.IntMath

namespace PvModel.GoInt
open PvModel

structure GoCoin where
  denom : String
  amount : Int
  deriving DecidableEq, Repr

structure GoFeeRatio where
  price : GoCoin
  fee : GoCoin
  deriving DecidableEq, Repr

/-- zero value of a named `sdkmath.Int` result (a nil big.Int in Go: using it would panic; the
translated functions only ever return it next to a non-nil error, where it is discarded). -/
def nilInt : Int := 0
/-- zero value of a named `sdk.Coin` result (same remark). -/
def zeroCoin : GoCoin := ⟨"", 0⟩

def isZero (a : Int) : Bool := decide (a = 0)
def isNegative (a : Int) : Bool := decide (a < 0)
def isPositive (a : Int) : Bool := decide (0 < a)
def sign (a : Int) : Int := a.sign
def gt (a b : Int) : Bool := decide (a > b)
def gte (a b : Int) : Bool := decide (a ≥ b)
def lt (a b : Int) : Bool := decide (a < b)
def lte (a b : Int) : Bool := decide (a ≤ b)
def eq (a b : Int) : Bool := decide (a = b)

def mul (a b : Int) : Except AErr Int := mul256 a b
def add (a b : Int) : Except AErr Int := add256 a b
def sub (a b : Int) : Except AErr Int :=
  let p := a - b
  if fits256 p then .ok p else .error .overflow
def quo (a b : Int) : Except AErr Int :=
  if b = 0 then .error .divzero else .ok (a.tdiv b)
def mod (a b : Int) : Except AErr Int :=
  if b = 0 then .error .divzero else .ok (a.emod b)
def quoRemInt (a b : Int) : Except AErr (Int × Int) :=
  if b = 0 then .error .divzero else .ok (a.tdiv b, a.tmod b)
/-- `big.Int.BitLen`: length of the absolute value in bits (0 for 0). -/
def bitLen (a : Int) : Int := if a = 0 then 0 else (Nat.log2 a.natAbs + 1 : Nat)
/-- `sdkmath.NewIntFromBigInt`: a nil `Int` above 256 bits (every later use panics) — modelled as
failing at the conversion. -/
def newIntFromBigInt (a : Int) : Except AErr Int :=
  if fits256 a then .ok a else .error .overflow
def newCoin (d : String) (a : Int) : Except AErr GoCoin :=
  if a < 0 then .error .invalid else .ok ⟨d, a⟩

end PvModel.GoInt
