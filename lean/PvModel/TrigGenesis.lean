/-
Trigger module — genesis export / import over the C17 model (`PvModel.Trig`).

Mirrors (Go names kept):
* `GenesisState`, `NewGenesisState`, `GenesisState.Validate`      x/trigger/types/genesis.go:14-91
* `Keeper.ExportGenesis`, `Keeper.InitGenesis`                     x/trigger/keeper/genesis.go:10-56
* `GetAllTriggers` / `GetAllGasLimits` / `GetAllQueueItems`        x/trigger/keeper/trigger.go:65,
                                                                   gas_limit.go:67, queue.go:53

Modelling decisions
* The three `GetAll…` functions iterate a key prefix in key order (big-endian ids / queue indexes,
  i.e. numeric order).  The model's sub-stores are functions `Nat → Option _`; the iteration is
  written over the key range in which keys can exist: trigger ids and gas-limit ids below the id
  counter, queue indexes in the window `qStart … qStart+qLen-1` (`qList`).  That no key exists
  outside these ranges in any reachable state is proved (`PvProofs.C18Trigger.
  no_keys_outside_the_exported_ranges`), so the lists are what the iterators yield.
* `InitGenesis` runs on the module's empty store (no key present: counters read as 0, which
  `InitGenesis` overwrites; the queue length is absent = 0 until `Enqueue` writes it).  Bank balances
  belong to another module's genesis; they are a parameter here.
* `Validate` is a `Bool` (which error comes first does not matter: `InitGenesis` panics on any).
  `internalsdk.ValidateBasic(msg)` on an action is the message's own `ValidateBasic` without the
  signer lookup of `MsgCreateTriggerRequest.ValidateBasic`: a bank `MsgSend` has none.
-/
import PvModel.Trig

namespace PvModel.Trig

/-- `GenesisState` (genesis.pb.go): next trigger id, queue start index, waiting triggers, gas limits
(trigger id, amount), queued triggers. -/
structure Genesis where
  triggerId : Nat
  queueStart : Nat
  triggers : List Trigger
  gasLimits : List (Nat × Nat)
  queuedTriggers : List QItem
  deriving DecidableEq, Repr

/-- `GetAllTriggers`: the records under `0x01`, in id order. -/
def getAllTriggers (s : State) : List Trigger := (List.range s.nextId).filterMap s.triggers

/-- `GetAllGasLimits`: the entries under `0x04`, in id order. -/
def getAllGasLimits (s : State) : List (Nat × Nat) :=
  (List.range s.nextId).filterMap fun i => (s.gasLimits i).map fun g => (i, g)

/-- `GetAllQueueItems`: the items under `0x03`, in index order. -/
def getAllQueueItems (s : State) : List QItem := qList s

/-- `Keeper.ExportGenesis` (keeper/genesis.go:10-30). -/
def exportGenesis (s : State) : Genesis :=
  { triggerId := s.nextId, queueStart := s.qStart, triggers := getAllTriggers s,
    gasLimits := getAllGasLimits s, queuedTriggers := getAllQueueItems s }

/-- `internalsdk.ValidateBasic(msg)` of an action as `GenesisState.Validate` calls it. -/
def Action.genesisValidateBasic : Action → Bool
  | .send _ _ _ => true
  | .kill a id => validAddr a && id != 0
  | .boom => true

/-- no value occurs twice (the `map[uint64]bool` checks of `Validate`) -/
def allDistinct : List Nat → Bool
  | [] => true
  | x :: xs => !xs.contains x && allDistinct xs

/-- `GenesisState.Validate` (types/genesis.go:31-91). -/
def Genesis.validate (g : Genesis) : Bool :=
  let all := g.triggers ++ g.queuedTriggers.map (·.trigger)
  g.triggerId != 0 && g.queueStart != 0 &&
  (g.triggers.length + g.queuedTriggers.length == g.gasLimits.length) &&
  allDistinct (g.gasLimits.map (·.1)) &&
  (all.all fun t =>
    t.actions.all Action.genesisValidateBasic && decide (t.id ≤ g.triggerId) && t.event.validate &&
    (g.gasLimits.map (·.1)).contains t.id) &&
  allDistinct (all.map (·.id))

/-- the module's empty store -/
def emptyStore (bal : Addr → Nat) : State :=
  { nextId := 0, triggers := fun _ => none, listeners := [], gasLimits := fun _ => none,
    qItems := fun _ => none, qStart := 0, qLen := 0, bal := bal }

/-- The writes of `Keeper.InitGenesis` (keeper/genesis.go:33-56), in its order: id counter, queue
start, (queue length 0), `SetGasLimit` per gas limit, `Enqueue` per queued trigger, `SetTrigger` +
`SetEventListener` per waiting trigger. -/
def importGenesis (bal : Addr → Nat) (g : Genesis) : State :=
  let s0 : State := { emptyStore bal with nextId := g.triggerId, qStart := g.queueStart, qLen := 0 }
  let s1 := g.gasLimits.foldl (fun s e => setGasLimit s e.1 e.2) s0
  let s2 := g.queuedTriggers.foldl enqueue s1
  g.triggers.foldl (fun s t => setEventListener (setTrigger s t) t) s2

/-- `Keeper.InitGenesis`: `none` = the panic on an invalid genesis state. -/
def initGenesis (bal : Addr → Nat) (g : Genesis) : Option State :=
  if g.validate then some (importGenesis bal g) else none

end PvModel.Trig
