/-
C13 — exchange records and their lookups (model `exrec`).

Executable KV model of the exchange module's order / payment / commitment / market records
with the REAL key bytes of `x/exchange/keeper/keys.go`.  Values are kept abstract (`Val`)
because protobuf encoding is outside the property; keys are byte lists (`List Nat`, every
element < 256) so that byte-lexicographic iteration order, prefix scans and the paging
routine are the ones of the Go code.

Go functions are mirrored one to one (names kept, `file:line` cited, paths relative to
`x/exchange/keeper/`).  A handler is `State → … → Option (State × result)`; `none` is the
rejected call (every MsgServer error is wrapped as `ErrInvalidRequest`), which leaves the
state unchanged by construction.  Order ids are `UInt64`, market ids `UInt32` — they wrap
exactly like the Go counters.
-/
namespace PvModel.Exrec

abbrev Bytes := List Nat

/-! ### Byte encoders (keys.go:182-211) -/

/-- `uint32Bz` keys.go:183 -/
def u32Bz (n : UInt32) : Bytes :=
  [n.toNat / 16777216 % 256, n.toNat / 65536 % 256, n.toNat / 256 % 256, n.toNat % 256]

/-- `uint64Bz` keys.go:199 -/
def u64Bz (n : UInt64) : Bytes :=
  [n.toNat / 72057594037927936 % 256, n.toNat / 281474976710656 % 256,
   n.toNat / 1099511627776 % 256, n.toNat / 4294967296 % 256,
   n.toNat / 16777216 % 256, n.toNat / 65536 % 256, n.toNat / 256 % 256, n.toNat % 256]

/-- `uint64FromBz` keys.go:206: the first 8 bytes, `none` when there are fewer. -/
def u64FromBz : Bytes → Option UInt64
  | b0 :: b1 :: b2 :: b3 :: b4 :: b5 :: b6 :: b7 :: _ =>
    some (UInt64.ofNat (b0 * 72057594037927936 + b1 * 281474976710656 + b2 * 1099511627776
      + b3 * 4294967296 + b4 * 16777216 + b5 * 65536 + b6 * 256 + b7))
  | _ => none

/-- `address.MustLengthPrefix` -/
def lengthPrefix (a : Bytes) : Bytes := a.length :: a

/-- `ParseIndexKeySuffixOrderID` keys.go:652: the LAST 8 bytes of the key as an order id. -/
def parseIndexKeySuffixOrderID (key : Bytes) : Option UInt64 :=
  if key.length < 8 then none else u64FromBz (key.drop (key.length - 8))

/-- `ParseKeyOrder` keys.go:640 (input: key with or without the order-type byte). -/
def parseKeyOrder (key : Bytes) : Option UInt64 :=
  if key.length < 8 ∨ key.length > 9 then none
  else if key.length = 9 ∧ key.head? ≠ some 0 ∧ key.head? ≠ some 1 then none
  else u64FromBz (key.drop (key.length - 8))

/-! ### Key makers (keys.go) -/

def keyLastMarketID : Bytes := [6]                                     -- keys.go:260
def prefixKnownMarket : Bytes := [7]
def keyKnownMarketID (m : UInt32) : Bytes := 7 :: u32Bz m              -- keys.go:275
def keyLastOrderID : Bytes := [8]                                      -- keys.go:290
def keyMarketNotAcceptingOrders (m : UInt32) : Bytes := 1 :: (u32Bz m ++ [6])
def keyMarketAcceptingCommitments (m : UInt32) : Bytes := 1 :: (u32Bz m ++ [16])
def prefixOrder : Bytes := [2]
def keyOrder (id : UInt64) : Bytes := 2 :: u64Bz id                    -- keys.go:627
def prefixMarketToOrder (m : UInt32) : Bytes := 3 :: u32Bz m           -- keys.go:665
def idxMarketToOrder (m : UInt32) (id : UInt64) : Bytes := 3 :: (u32Bz m ++ u64Bz id)  -- :670
def prefixAddressToOrder (a : Bytes) : Bytes := 4 :: lengthPrefix a    -- keys.go:719
def idxAddressToOrder (a : Bytes) (id : UInt64) : Bytes := 4 :: (lengthPrefix a ++ u64Bz id) -- :724
/-- keys.go:765-771: type byte, then the denom bytes — no length, no terminator. -/
def prefixAssetToOrder (denom : Bytes) : Bytes := 5 :: denom
def idxAssetToOrder (denom : Bytes) (id : UInt64) : Bytes := 5 :: (denom ++ u64Bz id) -- :775
def idxMarketExternalIDToOrder (m : UInt32) (ext : Bytes) : Bytes := 9 :: (u32Bz m ++ ext) -- :809
def prefixCommitment : Bytes := [99]
def prefixMarketCommitments (m : UInt32) : Bytes := 99 :: u32Bz m
def keyCommitment (m : UInt32) (a : Bytes) : Bytes := 99 :: (u32Bz m ++ lengthPrefix a) -- :845
def prefixPayment : Bytes := [112]
def prefixPaymentsForSource (s : Bytes) : Bytes := 112 :: lengthPrefix s -- keys.go:910
def keyPayment (s ext : Bytes) : Bytes := 112 :: (lengthPrefix s ++ ext)  -- keys.go:915
def prefixTargetToPayments (t : Bytes) : Bytes := 16 :: lengthPrefix t    -- keys.go:964
def prefixTargetToPaymentsForSource (t s : Bytes) : Bytes := 16 :: (lengthPrefix t ++ lengthPrefix s)
def idxTargetToPayment (t s ext : Bytes) : Bytes :=
  16 :: (lengthPrefix t ++ (lengthPrefix s ++ ext))                      -- keys.go:974

/-- `parseLengthPrefixedAddr` keys.go:214 -/
def parseLengthPrefixedAddr : Bytes → Option (Bytes × Bytes)
  | [] => none
  | l :: rest => if l = 0 then none else if rest.length < l then none
                 else some (rest.take l, rest.drop l)

/-! ### Records -/

structure Order where
  id : UInt64
  isBid : Bool
  market : UInt32
  owner : Bytes
  assetDenom : Bytes
  assetAmt : Nat
  priceDenom : Bytes
  priceAmt : Nat
  ext : Bytes
  allowPartial : Bool
  /-- the owner string was given in the UPPER-case bech32 spelling (same account bytes; the record keeps
  the string as it was sent, x/exchange/orders.go:386 only decodes it) -/
  ownerUp : Bool := false
deriving DecidableEq, Repr

/-- order type byte: ask 0x00, bid 0x01 -/
def Order.tb (o : Order) : Nat := if o.isBid then 1 else 0

/-- An empty `target` is "no target".  `source` / `target` are the ACCOUNT BYTES (what every key is
built from); a bech32 address has two valid spellings (all lower case = canonical, all upper case)
and the record keeps the string as it was sent (`Payment.Validate` x/exchange/payments.go:11 only
decodes it): `sourceUp` / `targetUp` say that the stored string is the upper-case one.  The code
compares these STRINGS in a few places (payments.go:103, :253, :265, :314, :409). -/
structure Payment where
  source : Bytes
  srcAmt : Nat
  target : Bytes
  tgtAmt : Nat
  ext : Bytes
  sourceUp : Bool := false
  targetUp : Bool := false
deriving DecidableEq, Repr

/-- Store values, abstracted: what the bytes decode to. -/
inductive Val
  | order (o : Order)        -- `<type byte> | protobuf(order)`; the id is NOT part of the value
  | tbyte (b : Nat)          -- index entries: the order type byte
  | u64 (n : UInt64)
  | u32 (n : UInt32)
  | empty
  | payment (p : Payment)
  | coins (n : Nat)          -- commitment amount (single denom in this model)
deriving DecidableEq, Repr

/-! ### The KV store -/

abbrev Store := List (Bytes × Val)

def Store.get : Store → Bytes → Option Val
  | [], _ => none
  | (k', v) :: r, k => if k' = k then some v else Store.get r k

def Store.has (s : Store) (k : Bytes) : Bool := (s.get k).isSome
def Store.del (s : Store) (k : Bytes) : Store := s.filter (fun e => decide (e.1 ≠ k))
def Store.set (s : Store) (k : Bytes) (v : Val) : Store := (k, v) :: s.del k

/-- The store is the map `get`; its entries are the keys with their live values, each key once
(`set` never leaves an older entry behind, so on reachable stores this is the list itself). -/
def Store.entries : Store → List (Bytes × Val)
  | [] => []
  | (k, v) :: r => (k, v) :: (Store.entries r).filter (fun e => decide (e.1 ≠ k))

/-- byte-lexicographic `<` (the iteration order of the IAVL / cachekv store) -/
def bytesLt : Bytes → Bytes → Bool
  | [], [] => false
  | [], _ :: _ => true
  | _ :: _, [] => false
  | a :: as, b :: bs => decide (a < b) || (decide (a = b) && bytesLt as bs)

def bytesLe (a b : Bytes) : Bool := !bytesLt b a

abbrev Entry := Bytes × Val

def insertEntry (e : Entry) : List Entry → List Entry
  | [] => [e]
  | x :: r => if bytesLe e.1 x.1 then e :: x :: r else x :: insertEntry e r

/-- sort by key (byte-lexicographic) -/
def sortEntries (l : List Entry) : List Entry := l.foldr insertEntry []

/-- `prefix.NewStore(store, pre)` viewed as its sorted entry list, keys stripped of `pre`. -/
def prefixStore (s : Store) (pre : Bytes) : List Entry :=
  sortEntries ((Store.entries (s.filter (fun e => pre.isPrefixOf e.1))).map (fun e => (e.1.drop pre.length, e.2)))

def inRange (start stop : Option Bytes) (k : Bytes) : Bool :=
  (match start with | none => true | some st => bytesLe st k) &&
  (match stop with | none => true | some e => bytesLt k e)

/-- `Iterator(start, end)`: ascending, start inclusive, end exclusive, `nil` = open. -/
def iter (ps : List Entry) (start stop : Option Bytes) : List Entry :=
  ps.filter (fun e => inRange start stop e.1)

/-- `ReverseIterator(start, end)`: same range, descending. -/
def revIter (ps : List Entry) (start stop : Option Bytes) : List Entry := (iter ps start stop).reverse

/-! ### Paging (orders.go:299-439 and the SDK's types/query) -/

structure PageReq where
  key : Option Bytes := none     -- `nil` vs bytes (`len(key) == 0` is treated like nil)
  offset : Nat := 0
  limit : Nat := 0
  countTotal : Bool := false
  reverse : Bool := false
deriving Repr

structure PageResp where
  nextKey : Option Bytes := none
  total : Nat := 0
deriving Repr, DecidableEq

inductive PErr | invalid | panic
deriving DecidableEq, Repr

def defaultLimit : Nat := 100

/-- `end = itr.Key()` after one `Next()` (orders.go:413-418 / pagination.go:127-133):
`Key()` on an exhausted iterator panics (`prefixIterator invalid, cannot call Key()`). -/
def reverseEnd (ps : List Entry) (start : Option Bytes) : Except PErr (Option Bytes) :=
  match start with
  | none => .ok none
  | some st =>
    match iter ps (some st) none with
    | [] => .ok none
    | [_] => .error .panic
    | _ :: (k, _) :: _ => .ok (some k)

/-- `getOrderIterator` orders.go:416.  Both directions start at the key of `afterOrderID + 1`, guarded
against the uint64 overflow (for `afterOrderID = MaxUint64` the iterator starts AT key MaxUint64). -/
def getOrderIterator (ps : List Entry) (start : Option Bytes) (reverse : Bool) (after : UInt64) :
    Except PErr (List Entry) :=
  if reverse then
    match reverseEnd ps start with
    | .error e => .error e
    | .ok stop =>
      -- orders.go:429-435
      let orderIDKey :=
        if after ≠ 0 then some (u64Bz (if after ≠ 18446744073709551615 then after + 1 else after)) else none
      .ok (revIter ps orderIDKey stop)
  else
    -- orders.go:442-447
    let start' :=
      if (start = none ∨ start = some []) ∧ after ≠ 0 then
        some (u64Bz (if after ≠ 18446744073709551615 then after + 1 else after))
      else start
    .ok (iter ps (match start' with | some [] => none | x => x) none)

/-- HISTORICAL (before commit 9462d3706): the reverse branch computed `uint64Bz(afterOrderID + 1)`
without the overflow guard.  Kept only for the witness `after_max_reverse_lists_all_before_fix`. -/
def getOrderIteratorPreFix (ps : List Entry) (start : Option Bytes) (reverse : Bool) (after : UInt64) :
    Except PErr (List Entry) :=
  if reverse then
    match reverseEnd ps start with
    | .error e => .error e
    | .ok stop =>
      let orderIDKey := if after ≠ 0 then some (u64Bz (after + 1)) else none
      .ok (revIter ps orderIDKey stop)
  else getOrderIterator ps start reverse after

/-- key-mode loop, orders.go:339-356: accumulate while `numHits < limit`; the NextKey is the key of
the next HIT. -/
def keyLoop (hit : Entry → Bool) (limit : Nat) : List Entry → Nat → List Entry → List Entry × Option Bytes
  | [], _, acc => (acc, none)
  | e :: rest, numHits, acc =>
    if hit e then
      if numHits = limit then (acc, some e.1)
      else keyLoop hit limit rest (numHits + 1) (acc ++ [e])
    else keyLoop hit limit rest numHits acc

/-- offset-mode loop, orders.go:374-398 -/
def offLoop (hit : Entry → Bool) (offset stop : Nat) (countTotal : Bool) :
    List Entry → Nat → List Entry → Option Bytes → List Entry × Option Bytes × Nat
  | [], numHits, acc, nk => (acc, nk, numHits)
  | e :: rest, numHits, acc, nk =>
    let accumulate := decide (numHits ≥ offset ∧ numHits < stop)
    let h := hit e
    let acc' := if h ∧ accumulate then acc ++ [e] else acc
    let numHits' := if h then numHits + 1 else numHits
    if numHits' = stop + 1 then
      let nk' := match nk with | none => some e.1 | some k => some k
      if countTotal then offLoop hit offset stop countTotal rest numHits' acc' nk'
      else (acc', nk', numHits')
    else offLoop hit offset stop countTotal rest numHits' acc' nk

/-- `filteredPaginateAfterOrder` orders.go:299.  `hit e` is `onResult`'s first result; the
accumulated entries are returned (the caller maps them to orders). -/
def filteredPaginateAfterOrder (ps : List Entry) (req : PageReq) (after : UInt64) (hit : Entry → Bool) :
    Except PErr (List Entry × PageResp) :=
  let keyEmpty := (req.key = none ∨ req.key = some [])
  if req.offset > 0 ∧ req.key ≠ none then .error .invalid
  else
    let limit := if req.limit = 0 then defaultLimit else req.limit
    let countTotal := if req.limit = 0 then true else req.countTotal
    if ¬ keyEmpty then
      match getOrderIterator ps req.key req.reverse after with
      | .error e => .error e
      | .ok it =>
        let (acc, nk) := keyLoop hit limit it 0 []
        .ok (acc, { nextKey := nk, total := 0 })
    else
      match getOrderIterator ps none req.reverse after with
      | .error e => .error e
      | .ok it =>
        let (acc, nk, n) := offLoop hit req.offset (req.offset + limit) countTotal it 0 [] none
        .ok (acc, { nextKey := nk, total := if countTotal then n else 0 })

/-- SDK `getIterator` types/query/pagination.go:124 -/
def sdkGetIterator (ps : List Entry) (start : Option Bytes) (reverse : Bool) : Except PErr (List Entry) :=
  if reverse then
    match reverseEnd ps start with
    | .error e => .error e
    | .ok stop => .ok (revIter ps none stop)
  else .ok (iter ps start none)

/-- SDK key-mode loop (pagination.go:70-83, filtered_pagination.go:43-53): NextKey is the next ENTRY. -/
def sdkKeyLoop (hit : Entry → Bool) (limit : Nat) : List Entry → Nat → List Entry → List Entry × Option Bytes
  | [], _, acc => (acc, none)
  | e :: rest, numHits, acc =>
    if numHits = limit then (acc, some e.1)
    else if hit e then sdkKeyLoop hit limit rest (numHits + 1) (acc ++ [e])
    else sdkKeyLoop hit limit rest numHits acc

/-- SDK `FilteredPaginate` (filtered_pagination.go:21); `Paginate` (pagination.go:52) is the instance
`hit = fun _ => true` (same NextKey / Total / accumulation; checked by the correspondence run). -/
def sdkFilteredPaginate (ps : List Entry) (req : PageReq) (hit : Entry → Bool) :
    Except PErr (List Entry × PageResp) :=
  let key := match req.key with | some [] => none | k => k   -- initPageRequestDefaults
  if req.offset > 0 ∧ key ≠ none then .error .invalid
  else
    let limit := if req.limit = 0 then defaultLimit else req.limit
    let countTotal := if req.limit = 0 then true else req.countTotal
    match sdkGetIterator ps key req.reverse with
    | .error e => .error e
    | .ok it =>
      if key ≠ none then
        let (acc, nk) := sdkKeyLoop hit limit it 0 []
        .ok (acc, { nextKey := nk, total := 0 })
      else
        let (acc, nk, n) := offLoop hit req.offset (req.offset + limit) countTotal it 0 [] none
        .ok (acc, { nextKey := nk, total := if countTotal then n else 0 })

/-! ### Orders (orders.go) -/

def getLastOrderID (s : Store) : UInt64 :=                      -- orders.go:21
  match s.get keyLastOrderID with | some (.u64 n) => n | _ => 0

/-- `nextOrderID` orders.go:37 -/
def nextOrderID (s : Store) : Store × UInt64 :=
  let id := getLastOrderID s + 1
  (s.set keyLastOrderID (.u64 id), id)

/-- `createConstantIndexEntries` orders.go:122 -/
def createConstantIndexEntries (o : Order) : List Entry :=
  [(idxMarketToOrder o.market o.id, .tbyte o.tb),
   (idxAddressToOrder o.owner o.id, .tbyte o.tb),
   (idxAssetToOrder o.assetDenom o.id, .tbyte o.tb)]

/-- `createMarketExternalIDToOrderEntry` orders.go:148 -/
def createMarketExternalIDToOrderEntry (o : Order) : Option Entry :=
  if o.ext = [] then none else some (idxMarketExternalIDToOrder o.market o.ext, .u64 o.id)

/-- `getOrderFromStore` orders.go:160 — the id comes from the key, not from the value. -/
def getOrderFromStore (s : Store) (id : UInt64) : Option Order :=
  match s.get (keyOrder id) with
  | some (.order o) => some { o with id := id }
  | _ => none

/-- `setOrderInStore` orders.go:174 -/
def setOrderInStore (s : Store) (o : Order) : Option Store :=
  let extEntry := createMarketExternalIDToOrderEntry o
  let conflict : Bool :=
    match extEntry with
    | some (k, _) => (match s.get k with | some (.u64 other) => decide (other ≠ o.id) | _ => false)
    | none => false
  if conflict then none
  else
    let isUpdate := s.has (keyOrder o.id)
    let s1 := s.set (keyOrder o.id) (.order o)
    let s2 := if isUpdate then s1
              else (createConstantIndexEntries o).foldl (fun acc e => acc.set e.1 e.2) s1
    some (match extEntry with | some (k, v) => s2.set k v | none => s2)

/-- `deleteAndDeIndexOrder` orders.go:207 -/
def deleteAndDeIndexOrder (s : Store) (o : Order) : Store :=
  let s1 := s.del (keyOrder o.id)
  let s2 := (createConstantIndexEntries o).foldl (fun acc e => acc.del e.1) s1
  match createMarketExternalIDToOrderEntry o with
  | some (k, _) => s2.del k
  | none => s2

/-- HISTORICAL (before commit bdda88322): `iterateOrderIndex` without the 8-byte suffix test — it also
yielded the entries of longer prefixes (asset `apples` while iterating asset `apple`).  Kept only for
the `…_before_fix` theorems. -/
def iterateOrderIndexPreFix (s : Store) (pre : Bytes) : List (UInt64 × Nat) :=
  (prefixStore s pre).filterMap fun e =>
    match e.2, parseIndexKeySuffixOrderID e.1 with
    | .tbyte b, some id => some (id, b)
    | _, _ => none

/-- `iterateOrderIndex` orders.go:222 collecting every (order id, type byte): an entry counts only if
exactly the 8 order-id bytes follow the prefix (orders.go:226). -/
def iterateOrderIndex (s : Store) (pre : Bytes) : List (UInt64 × Nat) :=
  ((prefixStore s pre).filter (fun e => decide (e.1.length = 8))).filterMap fun e =>
    match e.2, parseIndexKeySuffixOrderID e.1 with
    | .tbyte b, some id => some (id, b)
    | _, _ => none

/-- order-type filter of `getPageOfOrdersFromIndex` orders.go:240-257: `none` = unknown type (error),
`some none` = no filter, `some (some b)` = filter on type byte `b`. -/
def parseOrderType (orderType : String) : Option (Option Nat) :=
  if orderType.isEmpty then some none
  else
    let ot := String.ofList (orderType.toLower.toList.take 3)
    if ot = "ask" then some (some 0) else if ot = "bid" then some (some 1) else none

/-- HISTORICAL (before commit bdda88322): the accumulator's hit decision without the 8-byte suffix test -/
def indexHitPreFix (filter : Option Nat) (e : Entry) : Bool :=
  (match filter with
   | none => true
   | some b => (match e.2 with | .tbyte b' => decide (b' = b) | _ => false)) &&
  (parseIndexKeySuffixOrderID e.1).isSome

/-- the accumulator's hit decision, orders.go:263-277: exactly 8 bytes after the prefix, the requested
order type, a parsable id -/
def indexHit (filter : Option Nat) (e : Entry) : Bool :=
  decide (e.1.length = 8) && indexHitPreFix filter e

/-- `getPageOfOrdersFromIndex` orders.go:233 -/
def getPageOfOrdersFromIndex (s : Store) (pre : Bytes) (req : PageReq) (orderType : String)
    (after : UInt64) : Except PErr (List Order × PageResp) :=
  match parseOrderType orderType with
  | none => .error .invalid
  | some filter =>
    match filteredPaginateAfterOrder (prefixStore s pre) req after (indexHit filter) with
    | .error e => .error e
    | .ok (acc, resp) =>
      .ok (acc.filterMap (fun e => (parseIndexKeySuffixOrderID e.1).bind (getOrderFromStore s)), resp)

/-- `GetAllOrders` grpc_query.go:186 (SDK `FilteredPaginate` over prefix 0x02) -/
def getAllOrders (s : Store) (req : PageReq) : Except PErr (List Order × PageResp) :=
  match sdkFilteredPaginate (prefixStore s prefixOrder) req (fun e => (parseKeyOrder e.1).isSome) with
  | .error e => .error e
  | .ok (acc, resp) =>
    .ok (acc.filterMap (fun e =>
      match parseKeyOrder e.1, e.2 with
      | some id, .order o => some { o with id := id }
      | _, _ => none), resp)

/-- `GetOrderByExternalID` orders.go:604 -/
def getOrderByExternalID (s : Store) (m : UInt32) (ext : Bytes) : Option Order :=
  if ext = [] ∨ ext.length > 100 then none
  else match s.get (idxMarketExternalIDToOrder m ext) with
    | some (.u64 id) => getOrderFromStore s id
    | _ => none

/-! ### Markets (market.go) -/

def isMarketKnown (s : Store) (m : UInt32) : Bool := s.has (keyKnownMarketID m)      -- market.go:51
def isMarketAcceptingOrders (s : Store) (m : UInt32) : Bool := !s.has (keyMarketNotAcceptingOrders m)
def isMarketAcceptingCommitments (s : Store) (m : UInt32) : Bool := s.has (keyMarketAcceptingCommitments m)

def getLastAutoMarketID (s : Store) : UInt32 :=
  match s.get keyLastMarketID with | some (.u32 n) => n | _ => 0

/-- the `for` loop of `nextMarketID` market.go:39-45 with an explicit bound on the iterations -/
def nextMarketIDLoop (s : Store) : Nat → UInt32 → UInt32
  | 0, m => m
  | fuel + 1, m => if s.has (keyKnownMarketID m) then nextMarketIDLoop s fuel (m + 1) else m

def knownMarketCount (s : Store) : Nat :=
  (Store.entries (s.filter (fun e => prefixKnownMarket.isPrefixOf e.1))).length

/-- `nextMarketID` market.go:37.  The Go loop has no bound; `knownMarketCount + 1` iterations are
enough (theorem `nextMarketID_unused`). -/
def nextMarketID (s : Store) : Store × UInt32 :=
  let m := nextMarketIDLoop s (knownMarketCount s + 1) (getLastAutoMarketID s + 1)
  (s.set keyLastMarketID (.u32 m), m)

structure State where
  kv : Store := []
  /-- the auth keeper's market accounts (`exchange.GetMarketAddress(id)` ↦ details name) -/
  accts : List (UInt32 × String) := []
deriving Repr

/-- `storeMarket` market.go:1397 (the entries this model tracks) -/
def storeMarket (s : Store) (m : UInt32) : Store :=
  ((s.set (keyKnownMarketID m) .empty).del (keyMarketNotAcceptingOrders m)).set
    (keyMarketAcceptingCommitments m) .empty

/-- `CreateMarket` market.go:1446 (`id = 0`: pick the next free id) -/
def createMarket (st : State) (id : UInt32) (name : String) : Option (State × UInt32) :=
  let (kv1, mid) := if id = 0 then nextMarketID st.kv else (st.kv, id)
  if st.accts.any (fun a => a.1 = mid) then none   -- HasAccount(marketAddr)
  else some ({ kv := storeMarket kv1 mid, accts := (mid, name) :: st.accts }, mid)

/-- the one admin account every harness market grants all permissions to -/
def admin : Bytes := [97, 100, 109, 95, 95, 95, 95, 95, 95, 95, 95, 95, 95, 95, 95, 95, 95, 95, 95, 95]
/-- stands for the governance authority (has every permission, `HasPermission` market.go:1017) -/
def authority : Bytes := [103, 111, 118]

/-- `HasPermission` market.go:1016 for the harness's markets: the authority, or the admin of a
market that exists (permission entries live under the market's keys). -/
def hasPermission (s : Store) (m : UInt32) (who : Bytes) : Bool :=
  who = authority || (who = admin && isMarketKnown s m)

/-! ### Order handlers -/

/-- `AskOrder.Validate` / `BidOrder.Validate` (x/exchange/orders.go:377) on the modelled fields -/
def orderValid (o : Order) : Bool :=
  o.market ≠ 0 && o.owner ≠ [] && o.priceAmt ≠ 0 && o.assetAmt ≠ 0 &&
  o.assetDenom ≠ o.priceDenom && o.ext.length ≤ 100

/-- `CreateAskOrder` / `CreateBidOrder` orders.go:624,668 (no fees configured; holds assumed funded) -/
def createOrder (s : Store) (o : Order) : Option (Store × UInt64) :=
  if ¬ orderValid o then none
  else if ¬ isMarketKnown s o.market then none
  else if ¬ isMarketAcceptingOrders s o.market then none
  else
    let (s1, id) := nextOrderID s
    match setOrderInStore s1 { o with id := id } with
    | none => none
    | some s2 => some (s2, id)

/-- `CancelOrder` orders.go:719 (the message's `ValidateBasic`, id ≠ 0, is in `apply`).  `signer != orderOwner` (orders.go:729)
compares the STRINGS: the owner is recognised only in the spelling the order was created with
(`signerUp`: the signer string is the upper-case spelling); permissions go by account bytes. -/
def cancelOrder (s : Store) (id : UInt64) (signer : Bytes) (signerUp : Bool) : Option Store :=
  match getOrderFromStore s id with
  | none => none
  | some o =>
    if (signer ≠ o.owner ∨ signerUp ≠ o.ownerUp) ∧ ¬ hasPermission s o.market signer then none
    else some (deleteAndDeIndexOrder s o)

/-- `SetOrderExternalID` orders.go:738 behind `MarketSetOrderExternalID` msg_server.go:143 -/
def setOrderExternalID (s : Store) (m : UInt32) (id : UInt64) (newExt : Bytes) (signer : Bytes) :
    Option Store :=
  if m = 0 ∨ id = 0 ∨ newExt.length > 100 then none
  else if ¬ hasPermission s m signer then none
  else match getOrderFromStore s id with
    | none => none
    | some o =>
      if m ≠ o.market then none
      else if o.ext = newExt then none
      else
        let s1 := if o.ext ≠ [] then s.del (idxMarketExternalIDToOrder o.market o.ext) else s
        setOrderInStore s1 { o with ext := newExt }

/-- `CancelAllOrdersForMarket` orders.go:820 -/
def cancelAllOrdersForMarket (s : Store) (m : UInt32) (signer : Bytes) : Store :=
  (iterateOrderIndex s (prefixMarketToOrder m)).foldl
    (fun acc e => match cancelOrder acc e.1 signer false with | some s' => s' | none => acc) s

/-- the store updates of `closeSettlement` fulfillment.go:300-310 when one order is filled in part:
`setOrderInStore` of the part left, `deleteAndDeIndexOrder` of the filled order -/
def settlePartial (s : Store) (left filled : Order) : Option Store :=
  match setOrderInStore s left with
  | none => none
  | some s1 => some (deleteAndDeIndexOrder s1 filled)

/-- What `BuildSettlement` / `Order.Split` (x/exchange/fulfillment.go:38, orders.go:243) decide for
ONE ask `a` and ONE bid `b` of the same market, no fees: `none` = the settlement is refused,
`some none` = both orders are filled in full, `some (some (left, filled))` = `filled` is filled
in full and `left` is what remains of the other order. -/
def settleDecide (a b : Order) (expectPartial : Bool) : Option (Option (Order × Order)) :=
  if a.assetDenom ≠ b.assetDenom ∨ a.priceDenom ≠ b.priceDenom then none
  else
    let filled := min a.assetAmt b.assetAmt
    if a.assetAmt > filled then
      -- the ask is filled in part
      if ¬ a.allowPartial ∨ (a.priceAmt * filled) % a.assetAmt ≠ 0 then none
      else
        let pf := a.priceAmt * filled / a.assetAmt
        if b.priceAmt < pf ∨ ¬ expectPartial then none
        else some (some ({ a with assetAmt := a.assetAmt - filled, priceAmt := a.priceAmt - pf }, b))
    else if b.assetAmt > filled then
      if ¬ b.allowPartial ∨ (b.priceAmt * filled) % b.assetAmt ≠ 0 then none
      else
        let pf := b.priceAmt * filled / b.assetAmt
        if pf < a.priceAmt ∨ ¬ expectPartial then none
        else some (some ({ b with assetAmt := b.assetAmt - filled, priceAmt := b.priceAmt - pf }, a))
    else
      if b.priceAmt < a.priceAmt ∨ expectPartial then none else some none

/-- `SettleOrders` fulfillment.go:229 + `closeSettlement` :267 for one ask and one bid: the
guards, the decision, and the store updates (`setOrderInStore` of the part left,
`deleteAndDeIndexOrder` of the filled orders). -/
def settle (s : Store) (m : UInt32) (askId bidId : UInt64) (expectPartial : Bool) (signer : Bytes) :
    Option Store :=
  if m = 0 ∨ askId = 0 ∨ bidId = 0 ∨ askId = bidId then none
  else if ¬ hasPermission s m signer then none
  else if ¬ isMarketKnown s m then none
  else match getOrderFromStore s askId, getOrderFromStore s bidId with
    | some a, some b =>
      if a.isBid ∨ ¬ b.isBid ∨ a.market ≠ m ∨ b.market ≠ m then none
      else match settleDecide a b expectPartial with
        | none => none
        | some none => some (deleteAndDeIndexOrder (deleteAndDeIndexOrder s a) b)
        | some (some (left, filled)) => settlePartial s left filled
    | _, _ => none

/-! ### User settlements: `FillBids` / `FillAsks` (fulfillment.go:42,138) -/

/-- `sdk.Coins.AmountOf` on a list of (denom, amount) pairs -/
def coinAmountOf (cs : List (Bytes × Nat)) (d : Bytes) : Nat :=
  (cs.filter (fun c => c.1 = d)).foldl (fun n c => n + c.2) 0

/-- `sdk.Coins.Equal` on normalised coins: the same amount of every denom -/
def coinsEqual (a b : List (Bytes × Nat)) : Bool :=
  (a ++ b).all fun c => coinAmountOf a c.1 = coinAmountOf b c.1

/-- `getBidOrders` / `getAskOrders` orders.go:496,536 called by a user settlement: every id must be an
order of the wanted type in market `m` whose owner STRING differs from the filler's (`buyer == seller`
orders.go:523,563 compares strings: same account AND same spelling). -/
def getOrdersToFill (s : Store) (m : UInt32) (wantBid : Bool) (filler : Bytes) (fillerUp : Bool) :
    List UInt64 → Option (List Order)
  | [] => some []
  | id :: r =>
    match getOrderFromStore s id with
    | none => none
    | some o =>
      if o.isBid ≠ wantBid ∨ o.market ≠ m ∨ (o.owner = filler ∧ o.ownerUp = fillerUp) then none
      else (getOrdersToFill s m wantBid filler fillerUp r).map (o :: ·)

/-- what the message's total is compared with (`sumAssetsAndPrice` fulfillment.go:66,162): the ASSETS of
the bids a seller fills (`TotalAssets` is `sdk.Coins`: the bids may be for several asset denoms), the
PRICES of the asks a buyer fills (`TotalPrice` is one coin) -/
def fillSum (wantBid : Bool) (os : List Order) : List (Bytes × Nat) :=
  os.map fun o => if wantBid then (o.assetDenom, o.assetAmt) else (o.priceDenom, o.priceAmt)

/-- `FillBids` (`wantBid = true`, the filler sells) / `FillAsks` (`wantBid = false`, the filler buys)
fulfillment.go:42,138 with the messages' `ValidateBasic` (x/exchange/msgs.go:157,197; order ids
non-empty, no zero, no duplicate orders.go:87), on the harness's markets (user settlement allowed, no
fees, no required attributes; transfers assumed funded).  Every listed order is filled in FULL:
`closeSettlement` fulfillment.go:307-309 deletes and de-indexes each of them. -/
def fillOrders (s : Store) (m : UInt32) (wantBid : Bool) (filler : Bytes) (fillerUp : Bool)
    (ids : List UInt64) (total : List (Bytes × Nat)) : Option Store :=
  if m = 0 ∨ filler = [] ∨ ids = [] ∨ (0 : UInt64) ∈ ids ∨ ¬ ids.Nodup ∨ total.all (fun c => c.2 = 0) then none
  else if ¬ isMarketKnown s m ∨ ¬ isMarketAcceptingOrders s m then none
  else match getOrdersToFill s m wantBid filler fillerUp ids with
    | none => none
    | some os =>
      if ¬ coinsEqual (fillSum wantBid os) total then none
      else some (os.foldl deleteAndDeIndexOrder s)

/-! ### Commitments (commitments.go) -/

def getCommitmentAmount (s : Store) (m : UInt32) (a : Bytes) : Nat :=
  match s.get (keyCommitment m a) with | some (.coins n) => n | _ => 0

/-- `setCommitmentAmount` commitments.go:56 -/
def setCommitmentAmount (s : Store) (m : UInt32) (a : Bytes) (n : Nat) : Store :=
  if n = 0 then s.del (keyCommitment m a) else s.set (keyCommitment m a) (.coins n)

/-- `MsgCommitFunds` msg_server.go:48 → `addCommitment` commitments.go:101 -/
def commitFunds (s : Store) (m : UInt32) (a : Bytes) (amt : Nat) : Option Store :=
  if m = 0 ∨ amt = 0 ∨ a = [] then none
  else if ¬ isMarketKnown s m ∨ ¬ isMarketAcceptingCommitments s m then none
  else some (setCommitmentAmount s m a (getCommitmentAmount s m a + amt))

/-- `ReleaseCommitment` commitments.go:157 (`amt = 0`: release everything) -/
def releaseCommitment (s : Store) (m : UInt32) (a : Bytes) (amt : Nat) : Option Store :=
  let cur := getCommitmentAmount s m a
  if cur = 0 then none
  else if amt ≠ 0 ∧ cur < amt then none
  else some (setCommitmentAmount s m a (if amt ≠ 0 then cur - amt else 0))

/-- `MarketReleaseCommitments` msg_server.go:130 with one entry -/
def marketReleaseCommitment (s : Store) (m : UInt32) (a : Bytes) (amt : Nat) (signer : Bytes) :
    Option Store :=
  if m = 0 ∨ a = [] then none
  else if ¬ hasPermission s m signer then none
  else releaseCommitment s m a amt

/-- `ReleaseAllCommitmentsForMarket` commitments.go:210 -/
def releaseAllCommitmentsForMarket (s : Store) (m : UInt32) : Store :=
  (prefixStore s (prefixMarketCommitments m)).foldl
    (fun acc e => match parseLengthPrefixedAddr e.1 with
      | some (a, []) => (match releaseCommitment acc m a 0 with | some s' => s' | none => acc)
      | _ => acc) s

/-- `CloseMarket` market.go:1601: "disables order and commitment creation in a market, cancels all its
existing orders, and releases all its commitments" — the two flag updates may fail (the flag is already
off) and their errors are DISCARDED; the orders are cancelled and the commitments released in any case. -/
def closeMarket (s : Store) (m : UInt32) : Store :=
  let s1 := if isMarketAcceptingOrders s m then s.set (keyMarketNotAcceptingOrders m) .empty else s
  let s2 := if isMarketAcceptingCommitments s1 m then s1.del (keyMarketAcceptingCommitments m) else s1
  releaseAllCommitmentsForMarket (cancelAllOrdersForMarket s2 m authority) m

/-- `UpdateMarketAcceptingOrders` market.go:898 behind msg_server.go:190 -/
def updateAcceptingOrders (s : Store) (m : UInt32) (accepting : Bool) (signer : Bytes) : Option Store :=
  if m = 0 then none
  else if ¬ hasPermission s m signer then none
  else if isMarketAcceptingOrders s m = accepting then none
  else some (if accepting then s.del (keyMarketNotAcceptingOrders m)
             else s.set (keyMarketNotAcceptingOrders m) .empty)

/-- `MarketUpdateAcceptingCommitments` msg_server.go:216 → `UpdateMarketAcceptingCommitments`
market.go:934.  The harness's markets define no commitment fees, so only the authority may switch
commitments ON (`validateMarketUpdateAcceptingCommitments` market.go:822-827 is skipped for it). -/
def updateAcceptingCommitments (s : Store) (m : UInt32) (accepting : Bool) (signer : Bytes) : Option Store :=
  if m = 0 then none
  else if ¬ hasPermission s m signer then none
  else if isMarketAcceptingCommitments s m = accepting then none
  else if accepting = true ∧ signer ≠ authority then none
  else some (if accepting then s.set (keyMarketAcceptingCommitments m) .empty
             else s.del (keyMarketAcceptingCommitments m))

/-! ### Payments (payments.go) -/

/-- `getPaymentFromStore` payments.go:41 -/
def getPaymentFromStore (s : Store) (source ext : Bytes) : Option Payment :=
  match s.get (keyPayment source ext) with
  | some (.payment p) => some p
  | _ => none

/-- `setPaymentInStore` payments.go:80 -/
def setPaymentInStore (s : Store) (p : Payment) : Store :=
  let iKey0 := if p.target ≠ [] then some (idxTargetToPayment p.target p.source p.ext) else none
  let (iKey, oldIKey) : Option Bytes × Option Bytes :=
    match getPaymentFromStore s p.source p.ext with
    | some existing =>
      if existing.target = [] then (iKey0, none)
      -- `case payment.Target:` payments.go:103 — the same STRING: same account, same spelling
      else if existing.target = p.target ∧ existing.targetUp = p.targetUp then (none, none)
      -- otherwise the old entry is deleted FIRST and the new one written after it (payments.go:117-123);
      -- for a re-spelled target the two are the SAME key
      else (iKey0, some (idxTargetToPayment existing.target p.source p.ext))
    | none => (iKey0, none)
  let s1 := s.set (keyPayment p.source p.ext) (.payment p)
  let s2 := match oldIKey with | some k => s1.del k | none => s1
  match iKey with | some k => s2.set k .empty | none => s2

/-- `Payment.Validate` x/exchange/payments.go:11 on the modelled fields -/
def paymentValid (p : Payment) : Bool :=
  p.source ≠ [] && !(p.srcAmt = 0 && p.tgtAmt = 0) && p.ext.length ≤ 100

/-- `CreatePayment` payments.go:205 / `createPaymentInStore` :131 -/
def createPayment (s : Store) (p : Payment) : Option Store :=
  if ¬ paymentValid p then none
  else if s.has (keyPayment p.source p.ext) then none
  else some (setPaymentInStore s p)

/-- `deletePaymentFromStore` payments.go:140 -/
def deletePaymentFromStore (s : Store) (p : Payment) : Store :=
  let s1 := s.del (keyPayment p.source p.ext)
  if p.target ≠ [] then s1.del (idxTargetToPayment p.target p.source p.ext) else s1

/-- `AcceptPayment` payments.go:230; the request repeats the stored payment with source spelling
`sourceUp` and target `t` in spelling `tUp`; source and target are compared as STRINGS
(payments.go:253, :265). -/
def acceptPayment (s : Store) (source ext t : Bytes) (sourceUp tUp : Bool) : Option Store :=
  if source = [] ∨ t = [] ∨ ext.length > 100 then none
  else match getPaymentFromStore s source ext with
    | none => none
    | some existing =>
      if sourceUp ≠ existing.sourceUp ∨ t ≠ existing.target ∨ tUp ≠ existing.targetUp then none
      else some (deletePaymentFromStore s existing)

/-- `RejectPayment` payments.go:298.  The message's target is decoded to bytes by the msg server and
compared as the CANONICAL string with the stored one (`payment.Target != target.String()`
payments.go:314): a payment whose target is stored in the upper-case spelling is refused here. -/
def rejectPayment (s : Store) (t source ext : Bytes) : Option Store :=
  if t = [] ∨ source = [] ∨ ext.length > 100 then none
  else match getPaymentFromStore s source ext with
    | none => none
    | some p => if p.target = [] ∨ p.target ≠ t ∨ p.targetUp = true then none
                else some (deletePaymentFromStore s p)

/-- `getPaymentsForTargetAndSourceFromStore` payments.go:48 -/
def getPaymentsForTargetAndSource (s : Store) (t source : Bytes) : List Payment :=
  if t = [] ∨ source = [] then []
  else (prefixStore s (prefixTargetToPaymentsForSource t source)).filterMap
    (fun e => getPaymentFromStore s source e.1)

/-- `RejectPayments` payments.go:330.  `ValidateBasic` (x/exchange/msgs.go:614) refuses duplicate source
STRINGS — the two spellings of one account are different strings —, the keeper then skips the sources it
has already seen by account BYTES (payments.go:345). -/
def rejectPayments (s : Store) (t : Bytes) (sources : List (Bytes × Bool)) : Option Store :=
  if t = [] ∨ sources = [] ∨ ¬ sources.Nodup ∨ sources.any (·.1 = []) then none
  else
    let per := (sources.map (·.1)).eraseDups.map (getPaymentsForTargetAndSource s t)
    if per.any (·.isEmpty) then none
    else some (per.flatten.foldl deletePaymentFromStore s)

/-- `CancelPayments` payments.go:364 (+ `ValidateBasic`: no duplicate ids) -/
def cancelPayments (s : Store) (source : Bytes) (exts : List Bytes) : Option Store :=
  if source = [] ∨ exts = [] ∨ ¬ exts.Nodup ∨ exts.any (fun e => e.length > 100) then none
  else match exts.mapM (getPaymentFromStore s source) with
    | none => none
    | some ps => some (ps.foldl deletePaymentFromStore s)

/-- `UpdatePaymentTarget` payments.go:397.  The new target arrives as bytes and is stored in the
canonical spelling (`newTarget.String()`); "already has target" (payments.go:409) compares STRINGS,
so changing an upper-case target to the same account is an accepted change. -/
def updatePaymentTarget (s : Store) (source ext newTarget : Bytes) : Option Store :=
  if source = [] ∨ ext.length > 100 then none
  else match getPaymentFromStore s source ext with
    | none => none
    | some existing =>
      if existing.target = newTarget ∧ existing.targetUp = false then none
      else some (setPaymentInStore s { existing with target := newTarget, targetUp := false })

/-! ### Operations and histories -/

inductive Op
  | mkMarket (id : UInt32) (name : String)
  | closeMarket (m : UInt32)
  | setAccepting (m : UInt32) (accepting : Bool) (signer : Bytes)
  | setAcceptingCommitments (m : UInt32) (accepting : Bool) (signer : Bytes)
  | create (o : Order)
  | cancel (id : UInt64) (signer : Bytes) (signerUp : Bool)
  | setExt (m : UInt32) (id : UInt64) (ext : Bytes) (signer : Bytes)
  | settle (m : UInt32) (askId bidId : UInt64) (expectPartial : Bool) (signer : Bytes)
  | fill (m : UInt32) (wantBid : Bool) (filler : Bytes) (fillerUp : Bool) (ids : List UInt64)
      (total : List (Bytes × Nat))
  | commit (m : UInt32) (a : Bytes) (amt : Nat)
  | release (m : UInt32) (a : Bytes) (amt : Nat) (signer : Bytes)
  | pay (p : Payment)
  | payAccept (source ext t : Bytes) (sourceUp tUp : Bool)
  | payReject (t source ext : Bytes)
  | payRejectAll (t : Bytes) (sources : List (Bytes × Bool))
  | payCancel (source : Bytes) (exts : List Bytes)
  | payTarget (source ext newTarget : Bytes)
deriving Repr

/-- result of an accepted operation: the id it allocated, if any -/
inductive Res | none | orderId (id : UInt64) | marketId (m : UInt32)
deriving Repr, DecidableEq

def withKv (st : State) (r : Option Store) : Option (State × Res) :=
  r.map fun kv => ({ st with kv := kv }, Res.none)

/-- one message; `none` = rejected (state unchanged) -/
def apply (st : State) : Op → Option (State × Res)
  | .mkMarket id name => (createMarket st id name).map fun (st', m) => (st', .marketId m)
  | .closeMarket m => if m = 0 then none else some ({ st with kv := closeMarket st.kv m }, .none)
  | .setAccepting m a signer => withKv st (updateAcceptingOrders st.kv m a signer)
  | .setAcceptingCommitments m a signer => withKv st (updateAcceptingCommitments st.kv m a signer)
  | .create o => (createOrder st.kv o).map fun (kv, id) => ({ st with kv := kv }, .orderId id)
  | .cancel id signer up =>
    if id = 0 then none   -- `MsgCancelOrderRequest.ValidateBasic` x/exchange/msgs.go:151
    else withKv st (cancelOrder st.kv id signer up)
  | .setExt m id ext signer => withKv st (setOrderExternalID st.kv m id ext signer)
  | .settle m a b p signer => withKv st (settle st.kv m a b p signer)
  | .fill m wb f fu ids total => withKv st (fillOrders st.kv m wb f fu ids total)
  | .commit m a amt => withKv st (commitFunds st.kv m a amt)
  | .release m a amt signer => withKv st (marketReleaseCommitment st.kv m a amt signer)
  | .pay p => withKv st (createPayment st.kv p)
  | .payAccept s e t su tu => withKv st (acceptPayment st.kv s e t su tu)
  | .payReject t s e => withKv st (rejectPayment st.kv t s e)
  | .payRejectAll t ss => withKv st (rejectPayments st.kv t ss)
  | .payCancel s es => withKv st (cancelPayments st.kv s es)
  | .payTarget s e t => withKv st (updatePaymentTarget st.kv s e t)

def step (st : State) (op : Op) : State :=
  match apply st op with | some (st', _) => st' | none => st

def run (st : State) (ops : List Op) : State := ops.foldl step st

/-- the state after `InitGenesis` of an empty genesis (genesis.go:24,52 write both counters) -/
def init : State := { kv := [(keyLastOrderID, .u64 0), (keyLastMarketID, .u32 0)] }

end PvModel.Exrec
