/-
Driver for the `genesis` stream (C18): the harness reports, per seeded multi-module history,
whether two runs agreed block by block (`determinism`), whether a stop/reopen run agreed
(`restart`) and whether export → init → export reproduced every custom module's genesis
(`roundtrip`).  The model's answer is the specification: all three are `same`.
-/
import PvModel.Util
-- registry: genesis PvModel.GenesisDriver.driver

namespace PvModel.GenesisDriver
open PvModel

def expected : String := "determinism=same restart=same roundtrip=same"

def verdict (impl : String) : String :=
  let ws := words impl
  match kv ws "determinism", kv ws "restart", kv ws "roundtrip" with
  | some d, some r, some g =>
    if d ≠ "same" then s!"fail:nondeterministic:{d}"
    else if r ≠ "same" then s!"fail:restart_diverges:{r}"
    else if g ≠ "same" then s!"fail:genesis_roundtrip:{g}"
    else "ok"
  | _, _, _ => "fail:unparsed"

def driver : Driver where
  σ := Unit
  init := ()
  step := fun _ op impl =>
    match words op with
    | "case" :: _ => ((), expected, match impl with | some i => verdict i | none => "-")
    | _ => ((), "bad-op", "-")

end PvModel.GenesisDriver
