/-
C04 — what a bank movement must do, said without the bank keeper's control flow (the `bankx` checker's
side; the keeper's side is `PvModel.MkrBank`).

A call names paying addresses with coins (`ins`) and receiving addresses with coins (`outs`), one of the
two lists having one element (a plain send / a delegation: one of each).  The call is
  * `rejected`   when it is malformed or unfunded: no inputs/outputs, several of both, a coin list that is
                 not a valid non-empty `sdk.Coins`, totals that differ in some denom, or a paying address whose
                 spendable balance (balance − locked) does not cover the sum of its inputs;
  * `refused`    when the documented marker rules refuse some (payer, receiver, coins) combination, or a
                 payer is sanctioned;
  * `performed`  otherwise — then every payer has lost its inputs and every receiver has gained the coins
                 of its combinations, except that coins for a receiver that opted into quarantine (and does
                 not auto-accept the payer) sit with the quarantine funds holder; a delegation always pays
                 the module account.
In the first two cases no balance changes.  Core-only.
-/
import PvModel.MkrBank
import PvModel.MkrSendSpec

namespace PvModel.MkrSend.Bank.Spec
open PvModel PvModel.MkrSend

/-- Every (payer, receiver, coins) combination of a call: with one input the coins are the output's,
otherwise the input's. -/
def triples (ins outs : List IO) : List (Addr × Addr × Coins) :=
  ins.flatMap fun i => outs.map fun o => (i.addr, o.addr, if ins.length = 1 then o.coins else i.coins)

/-- what the inputs take from address `a` -/
def paid : List IO → Addr → Denom → Int
  | [], _, _ => 0
  | i :: rest, a, d => (if i.addr = a then Coins.amountOf i.coins d else 0) + paid rest a d

/-- where the coins of a combination end up (`direct` = a delegation: the module account itself) -/
def dest (c : LaterCfg) (direct : Bool) (f t : Addr) : Addr :=
  if direct then t
  else if c.quarantined t && !c.autoAccept t f && !(f = t) && !(f = c.fundsHolder) then c.fundsHolder
  else t

/-- what the combinations give to address `a` -/
def received (c : LaterCfg) (direct : Bool) : List (Addr × Addr × Coins) → Addr → Denom → Int
  | [], _, _ => 0
  | (f, t, cs) :: rest, a, d =>
    (if dest c direct f t = a then Coins.amountOf cs d else 0) + received c direct rest a d

def shapeOk (ins outs : List IO) : Bool :=
  !ins.isEmpty && !outs.isEmpty && (Decidable.decide (ins.length ≤ 1) || Decidable.decide (outs.length ≤ 1))

/-- a valid, non-empty `sdk.Coins`: strictly ascending denoms, positive amounts -/
def coinsOk (cs : Coins) : Bool :=
  Decidable.decide (Spec.DenomsAscending cs) && cs.all (fun c => Decidable.decide (0 < c.2)) && !cs.isEmpty

def allDenoms (ios : List IO) : List Denom := ios.flatMap fun i => Coins.denoms i.coins

def totalsEqual (ins outs : List IO) : Bool :=
  (allDenoms ins ++ allDenoms outs).all fun d =>
    Decidable.decide (Coins.amountOf (ins.flatMap (·.coins)) d = Coins.amountOf (outs.flatMap (·.coins)) d)

/-- every paying address can spend the sum of its inputs (asked for the denoms it pays) -/
def funded (locked : Addr → Denom → Int) (l : Ledger) (ins : List IO) : Bool :=
  ins.all fun i => (allDenoms (ins.filter fun j => j.addr = i.addr)).all fun d =>
    Decidable.decide (paid ins i.addr d ≤ l.bal i.addr d - locked i.addr d)

def wellFormed (locked : Addr → Denom → Int) (l : Ledger) (ins outs : List IO) : Bool :=
  shapeOk ins outs && ins.all (fun i => coinsOk i.coins) && outs.all (fun o => coinsOk o.coins) &&
  totalsEqual ins outs && funded locked l ins

/-- the documented marker rules permit every combination -/
def rulesPermit (env : Cfg) (ins outs : List IO) : Bool :=
  (triples ins outs).all fun p => Spec.permitted (pairCfg env p.1 p.2.1) p.2.2

def payerSanctioned (c : LaterCfg) (ins : List IO) : Bool := ins.any fun i => c.sanctioned i.addr

inductive Outcome
  | rejected                         -- by the bank keeper itself, before any restriction matters
  | refused (rules sanction : Bool)  -- which of the two grounds apply
  | performed
  deriving DecidableEq, Repr

def outcome (env : Cfg) (c : LaterCfg) (locked : Addr → Denom → Int) (l : Ledger) (ins outs : List IO) : Outcome :=
  if !wellFormed locked l ins outs then .rejected
  else if rulesPermit env ins outs && !payerSanctioned c ins then .performed
  else .refused (!rulesPermit env ins outs) (payerSanctioned c ins)

/-- the balance of `a` in `d` after the call -/
def expectedBal (env : Cfg) (c : LaterCfg) (direct : Bool) (locked : Addr → Denom → Int) (l : Ledger)
    (ins outs : List IO) (a : Addr) (d : Denom) : Int :=
  match outcome env c locked l ins outs with
  | .performed => l.bal a d - paid ins a d + received c direct (triples ins outs) a d
  | _ => l.bal a d

end PvModel.MkrSend.Bank.Spec
