/-
C17 — Triggers fire at most once, in order, atomically, with their creators' authority.

All theorems are about the executable model `PvModel.Trig` (tied to x/trigger of /repo by the
correspondence stream `trig`).  "History" = any list of operations (`Op`): account funding, bank
sends, `MsgCreateTriggerRequest` / `MsgDestroyTriggerRequest` transactions, BeginBlocks
(`ProcessTriggers`, with an arbitrary oracle saying how much gas each action of each trigger consumes)
and EndBlocks (`DetectBlockEvents`, with arbitrary ABCI event histories, heights and times), in
any order and number, starting from the default genesis.  `run State.init ops = (s, log)` gives the
final store `s` and the log of what every operation did.

Property clauses and the theorems that carry them
* at most once ....................... `fires_at_most_once`
* only after detection ............... `fires_only_after_detection`, `detected_only_when_condition_met`,
                                       `never_detected_on_partial_matches` (+ `txMatches_is_the_documented_condition`,
                                       `txMatches_ignores_repetition_and_order`, `txMatches_false_of_unsatisfied_attribute`)
* first detected, first run .......... `fifo_order`, `executed_is_prefix_of_detected`, `queue_is_a_fifo_list`
* all or nothing ..................... `actions_all_or_nothing`, `block_effects_only_from_successful_triggers`,
                                       `balances_all_or_nothing`
* gas prepaid, per-block caps ........ `gas_limit_capped_and_prepaid`, `per_block_caps`, `executed_gas_is_stored_limit`,
                                       `actions_run_within_prepaid_gas`, `exceeding_prepaid_gas_fails_as_a_whole`,
                                       `executed_within_creators_prepaid_gas` (end to end: the limit run with is the one
                                       the creating transaction of the history stored and paid),
                                       `gas_limit_never_changes_after_creation`, `runs_exactly_the_triggers_that_fit`,
                                       `stops_only_at_a_cap`; the documented cap of 5 ACTIONS is not enforced (the code
                                       counts triggers): `per_block_action_cap_is_not_enforced_observation`,
                                       `per_block_action_cap_partial`
* creators' authority ................ `created_actions_signed_by_authorities`, `executed_actions_were_authorised`
* exactly one place .................. `never_waiting_and_queued`, `never_queued_twice`, `place_only_moves_forward`,
                                       `place_moves_only_along_the_life_cycle`,
                                       `gone_is_forever`, `listeners_exactly_registered`,
                                       `gas_limit_exactly_waiting_or_queued`
* only the owner, only while waiting . `destroy_iff_owner_and_waiting`, `destroy_post_state`,
                                       `destroy_moves_waiting_to_gone`, `destroy_rejected_once_queued_or_gone`,
                                       `gone_never_fires`
* no starvation ...................... `head_always_fits`, `queued_trigger_runs_within_its_position`
* supporting (not clauses of C17) ..... `begin_block_never_panics`, `end_block_never_panics_with_clean_buckets`
* observations outside C17's clauses .. `…_observation` (see observations/C17.md)
* genesis export/import of this store . `PvProofs.C18Trigger` (cited by C18)
-/
import PvProofs.Lemmas.TrigFit

namespace PvProofs.C17
open PvModel.Trig PvProofs.Lemmas.Trig

/-! ## fire at most once, only after detection, in detection order -/

/-- Over every history, no trigger id is executed twice. -/
theorem fires_at_most_once (ops : List Op) : (executedIds (run State.init ops).2).Nodup := by
  have h := HInv_reach ops
  have := h.nodup
  rw [h.fifo] at this
  exact (List.nodup_append.1 this).1

/-- Over every history: the ids detected so far are, in detection order, exactly the ids executed so
far (in execution order) followed by the queue's content front to back. -/
theorem fifo_order (ops : List Op) :
    detectedIds (run State.init ops).2 =
      executedIds (run State.init ops).2 ++ qIds (run State.init ops).1 :=
  (HInv_reach ops).fifo

/-- Execution order is a prefix of detection order: a trigger detected earlier runs earlier. -/
theorem executed_is_prefix_of_detected (ops : List Op) :
    executedIds (run State.init ops).2 <+: detectedIds (run State.init ops).2 :=
  ⟨_, (fifo_order ops).symm⟩

/-- Nothing is detected twice either. -/
theorem detected_at_most_once (ops : List Op) : (detectedIds (run State.init ops).2).Nodup :=
  (HInv_reach ops).nodup

/-- After any history, whatever the next BeginBlock executes was detected by an EndBlock of that
history (so in an earlier block: BeginBlock precedes EndBlock inside a block), is distinct from
everything executed before, and is the front of the queue in order. -/
theorem fires_only_after_detection (ops : List Op) (cost : Nat → Nat → Nat) (s' : State) (xs : List Exec)
    (h : processTriggers (run State.init ops).1 cost = some (s', xs)) :
    (∀ x ∈ xs, x.id ∈ detectedIds (run State.init ops).2 ∧ x.id ∉ executedIds (run State.init ops).2) ∧
    xs.map (·.id) <+: qIds (run State.init ops).1 := by
  have hi := HInv_reach ops
  obtain ⟨s2, xs2, hp, _, hql, hids, _⟩ := processLoop_spec cost MaximumActions 0 _ hi.wf
  unfold processTriggers at h
  rw [hp] at h; cases h
  have hq : qIds (run State.init ops).1 = xs.map (·.id) ++ qIds s' := by
    unfold qIds; rw [hids]; conv_lhs => rw [hql]
    simp
  refine ⟨fun x hx => ?_, ⟨_, hq.symm⟩⟩
  have hmem : x.id ∈ qIds (run State.init ops).1 := by
    rw [hq]; exact List.mem_append_left _ (List.mem_map.2 ⟨x, hx, rfl⟩)
  refine ⟨by rw [hi.fifo]; exact List.mem_append_right _ hmem, fun he => ?_⟩
  have := hi.nodup
  rw [hi.fifo] at this
  exact (List.nodup_append.1 this).2.2 _ he _ hmem rfl

/-- A trigger is detected only if it is registered and its documented condition (01_concepts.md) is
met by that very block: an ABCI event of the same type carrying all its attributes, or a block
height / time at or past the requested one.  Detected triggers are pairwise distinct. -/
theorem detected_only_when_condition_met (ops : List Op) (evs : List AbciEvent) (h tm : Nat)
    (s' : State) (ts : List Trigger)
    (hd : detectBlockEvents (run State.init ops).1 evs h tm = some (s', ts)) :
    (ts.map (·.id)).Nodup ∧
    ∀ t ∈ ts, (run State.init ops).1.triggers t.id = some t ∧ conditionMet t.event evs h tm = true := by
  unfold detectBlockEvents at hd
  split at hd
  · next ts' hda => cases hd; exact detectAll_spec (HInv_reach ops).wf hda
  · cases hd

/-! ### a transaction event's condition: every requested attribute, on one event

The event may carry any attribute any number of times (repeated keys, several values under one key);
the request may list several attributes, the same key more than once.  What counts is that EVERY
requested attribute is satisfied by some attribute of the event — not how many attributes of the
event satisfy something. -/

/-- `TransactionEvent.Matches` decides exactly the documented criterion on that one event
(`conditionMet`, the function the checker evaluates on the implementation's detections). -/
theorem txMatches_is_the_documented_condition (n : String) (attrs : List (String × String))
    (ev : AbciEvent) (h tm : Nat) :
    txMatches n attrs ev = conditionMet (.tx n attrs) [ev] h tm := by
  rw [Bool.eq_iff_iff]
  simp only [txMatches, attrMatches, conditionMet, List.any_cons, List.any_nil, Bool.or_false,
    Bool.and_eq_true, beq_iff_eq, List.all_eq_true, List.any_eq_true, Bool.or_eq_true]
  constructor
  · rintro ⟨h1, h2⟩
    refine ⟨h1.symm, fun x hx => ?_⟩
    obtain ⟨o, ho, e1, e2⟩ := h2 x hx
    exact ⟨o, ho, e1.symm, e2.imp id Eq.symm⟩
  · rintro ⟨h1, h2⟩
    refine ⟨h1.symm, fun x hx => ?_⟩
    obtain ⟨o, ho, e1, e2⟩ := h2 x hx
    exact ⟨o, ho, e1.symm, e2.imp id Eq.symm⟩

/-- Whether an event matches depends only on WHICH attributes it carries, not on how often or in
what order: two events of one type with the same set of attributes match the same requests.  In
particular repeating attributes of an event never turns a non-match into a match. -/
theorem txMatches_ignores_repetition_and_order (n : String) (attrs : List (String × String))
    (ty : String) (as bs : List (String × String)) (hset : ∀ o, o ∈ as ↔ o ∈ bs) :
    txMatches n attrs ⟨ty, as⟩ = txMatches n attrs ⟨ty, bs⟩ := by
  have hany : ∀ a, as.any (attrMatches a) = bs.any (attrMatches a) := by
    intro a
    rw [Bool.eq_iff_iff]
    simp only [List.any_eq_true]
    exact ⟨fun ⟨o, ho, hm⟩ => ⟨o, (hset o).1 ho, hm⟩, fun ⟨o, ho, hm⟩ => ⟨o, (hset o).2 ho, hm⟩⟩
  simp only [txMatches, hany]

/-- An event whose attributes leave one requested attribute unsatisfied does not match — whatever
else it carries, however many times. -/
theorem txMatches_false_of_unsatisfied_attribute (n : String) (attrs : List (String × String))
    (ev : AbciEvent) (a : String × String) (ha : a ∈ attrs)
    (hno : ∀ o ∈ ev.attrs, ¬ (o.1 = a.1 ∧ (a.2 = "" ∨ o.2 = a.2))) :
    txMatches n attrs ev = false := by
  rw [Bool.eq_false_iff]
  intro hm
  simp only [txMatches, attrMatches, Bool.and_eq_true, beq_iff_eq, List.all_eq_true, List.any_eq_true,
    Bool.or_eq_true] at hm
  obtain ⟨o, ho, e1, e2⟩ := hm.2 a ha
  exact hno o ho ⟨e1.symm, e2.imp id Eq.symm⟩

/-- Over every history: a transaction-event trigger is NOT detected by a block in which every event
of its type leaves at least one of its requested attributes unsatisfied (missing key or other
value) — partial matches never add up, within one event or across events. -/
theorem never_detected_on_partial_matches (ops : List Op) (evs : List AbciEvent) (h tm : Nat)
    (s' : State) (ts : List Trigger)
    (hd : detectBlockEvents (run State.init ops).1 evs h tm = some (s', ts))
    (t : Trigger) (n : String) (attrs : List (String × String)) (he : t.event = .tx n attrs)
    (hpart : ∀ ev ∈ evs, ev.type = n →
      ∃ a ∈ attrs, ∀ o ∈ ev.attrs, ¬ (o.1 = a.1 ∧ (a.2 = "" ∨ o.2 = a.2))) :
    t ∉ ts := by
  intro ht
  have hc := ((detected_only_when_condition_met ops evs h tm s' ts hd).2 t ht).2
  rw [he] at hc
  simp only [conditionMet, List.any_eq_true, Bool.and_eq_true, beq_iff_eq, List.all_eq_true,
    Bool.or_eq_true] at hc
  obtain ⟨ev, hev, hty, hall⟩ := hc
  obtain ⟨a, ha, hno⟩ := hpart ev hev hty
  obtain ⟨o, ho, e1, e2⟩ := hall a ha
  exact hno o ho ⟨e1, e2⟩

/-- non-vacuity: trigger 1 waits for `settle` with any `party` and `status=done`.  The block's event
carries `party` twice and `status=open`: two of its attributes satisfy the request's first
attribute, none the second — not detected; the next block's event carries all of it — detected. -/
example : (run State.init
    [ .create ⟨["A"], .tx "settle" [("party", ""), ("status", "done")], [.send "A" "B" 1]⟩ 500000 10 1000,
      .endBlock [⟨"settle", [("party", "x"), ("party", "y"), ("status", "open")]⟩] 10 1000,
      .endBlock [⟨"settle", [("status", "done"), ("party", "y"), ("party", "x")]⟩] 11 1006 ]).2 =
    [.created 1 497490, .detected [],
     .detected [⟨1, "A", .tx "settle" [("party", ""), ("status", "done")], [.send "A" "B" 1]⟩]] := by
  decide

/-- The store-backed queue (items keyed by index, start index, length) behaves as a list:
`Enqueue` appends, `QueuePeek` reads the head, `Dequeue` removes it. -/
theorem queue_is_a_fifo_list (ops : List Op) (item : QItem) :
    let s := (run State.init ops).1
    qList (enqueue s item) = qList s ++ [item] ∧
    (s.qLen ≠ 0 → ∃ q, getQueueItem s s.qStart = some q ∧ qList s = q :: qList (dequeue s)) := by
  intro s
  have hw := (HInv_reach ops).wf
  refine ⟨qList_enqueue s item hw.qlen, fun hn => ?_⟩
  obtain ⟨q, hq, _⟩ := qList_head s hw.qlen hn
  exact ⟨q, hq, qList_dequeue s q hq hn⟩

/-! ## all or nothing -/

/-- `runActions`: either every action succeeded and the state is that of running all of them, or the
state is exactly what it was — whichever action failed, panicked or ran out of gas, and however many
actions before it had succeeded. -/
theorem actions_all_or_nothing (s : State) (acts : List Action) (oog : Nat → Bool) :
    let r := runActions s acts oog
    (r.1 = true ∧ r.2.2 = applyAll s acts ∧ r.2.1 = acts.map (fun _ => Outcome.ok)) ∨
    (r.1 = false ∧ r.2.2 = s ∧ ∃ pre last, r.2.1 = pre ++ [last] ∧ last ≠ Outcome.ok ∧
      pre.length < acts.length) := by
  intro r
  rcases runActions_spec s acts oog with ⟨a, b, c, _⟩ | ⟨a, b, pre, last, c, d, _, e⟩
  · exact Or.inl ⟨a, b, c⟩
  · exact Or.inr ⟨a, b, pre, last, c, d, e⟩

/-- What a BeginBlock leaves behind depends only on which triggers succeeded: it is the store in
which every executed trigger was dequeued and lost its gas limit, the successful ones applied all
their actions, and the failed ones applied nothing (`replay`). -/
theorem block_effects_only_from_successful_triggers (ops : List Op) (cost : Nat → Nat → Nat)
    (s' : State) (xs : List Exec) (h : processTriggers (run State.init ops).1 cost = some (s', xs)) :
    s' = replay (run State.init ops).1 xs := by
  obtain ⟨s2, xs2, hp, _, _, _, _, _, _, _, _, _, _, hrep, _⟩ :=
    processLoop_spec cost MaximumActions 0 _ (HInv_reach ops).wf
  unfold processTriggers at h
  rw [hp] at h; cases h; exact hrep

/-- The balances after a BeginBlock are the all-or-nothing reference `expectedBal` (the function the
checker evaluates on the implementation's output). -/
theorem balances_all_or_nothing (ops : List Op) (cost : Nat → Nat → Nat)
    (s' : State) (xs : List Exec) (h : processTriggers (run State.init ops).1 cost = some (s', xs)) :
    s'.bal = expectedBal (run State.init ops).1.bal xs := by
  obtain ⟨s2, xs2, hp, _, _, _, _, _, _, _, _, _, _, _, hbal, _⟩ :=
    processLoop_spec cost MaximumActions 0 _ (HInv_reach ops).wf
  unfold processTriggers at h
  rw [hp] at h; cases h; exact hbal

/-! ## gas: prepaid by the creator, capped per trigger and per block -/

/-- A created trigger's gas limit is at most `MaximumTriggerGas` and was charged to the creating
transaction's gas meter on top of the cost of storing it. -/
theorem gas_limit_capped_and_prepaid (s s' : State) (m : CreateMsg) (rem h tm id g : Nat)
    (hc : createTrigger s m rem h tm = .ok (s', id, g)) :
    g ≤ MaximumTriggerGas ∧ g + SetGasLimitCost ≤ rem ∧ s'.gasLimits id = some g := by
  obtain ⟨_, hid, hg, h1, h2, owner, rest, _, hs⟩ := createTrigger_ok hc
  refine ⟨hg ▸ gasLimitFor_le rem, by omega, ?_⟩
  subst hs; subst hid; simp [setGasLimit]

/-- Per BeginBlock, for every store whatsoever: at most `MaximumActions` triggers run and their gas
limits sum to at most `MaximumQueueGas`. -/
theorem per_block_caps (s s' : State) (cost : Nat → Nat → Nat) (xs : List Exec)
    (h : processTriggers s cost = some (s', xs)) :
    xs.length ≤ MaximumActions ∧ (xs.map (·.gas)).sum ≤ MaximumQueueGas := by
  obtain ⟨h1, h2⟩ := processLoop_caps cost MaximumActions 0 s s' xs h
  refine ⟨h1, ?_⟩
  by_cases hx : xs = []
  · subst hx; simp
  · simpa using h2 hx

/-- The gas a trigger is run with is the limit stored for it (hence prepaid and capped), and the
actions run are the stored trigger's actions. -/
theorem executed_gas_is_stored_limit (ops : List Op) (cost : Nat → Nat → Nat) (s' : State) (xs : List Exec)
    (h : processTriggers (run State.init ops).1 cost = some (s', xs)) :
    ∀ x ∈ xs, (run State.init ops).1.gasLimits x.id = some x.gas ∧ x.gas ≤ MaximumTriggerGas := by
  have hw := (HInv_reach ops).wf
  obtain ⟨s2, xs2, hp, _, _, _, _, _, _, _, _, _, hgl, _⟩ := processLoop_spec cost MaximumActions 0 _ hw
  unfold processTriggers at h
  rw [hp] at h; cases h
  exact fun x hx => ⟨hgl x hx, hw.gasCap _ _ (hgl x hx)⟩

/-- The actions of a trigger run on ONE gas meter of the limit it was run with (the stored, prepaid
one: `executed_gas_is_stored_limit`): for every store and every gas-consumption oracle, what the
actions that ran to their end consumed together is within that limit (`withinPrepaid`, the function
the checker evaluates on the implementation's observed consumption); a trigger succeeds only if all
its actions together fit; one whose actions together need more than the limit fails. -/
theorem actions_run_within_prepaid_gas (s s' : State) (cost : Nat → Nat → Nat) (xs : List Exec)
    (h : processTriggers s cost = some (s', xs)) :
    ∀ x ∈ xs, withinPrepaid x.gas (cost x.id) x.outcomes = true ∧
      (x.success = true → prefixCost (cost x.id) x.actions.length ≤ x.gas) ∧
      (x.gas < prefixCost (cost x.id) x.actions.length → x.success = false) := by
  intro x hx
  obtain ⟨h1, h2⟩ := processLoop_gas cost MaximumActions 0 s s' xs h x hx
  refine ⟨by simpa [withinPrepaid] using h1, h2, fun hlt => ?_⟩
  cases hsx : x.success with
  | false => rfl
  | true => have := h2 hsx; omega

/-- A trigger whose actions together consume more than its prepaid gas fails as a whole — however
the consumption is spread over the actions, in particular when every single action would fit the
limit on its own: no action takes effect. -/
theorem exceeding_prepaid_gas_fails_as_a_whole (s : State) (acts : List Action) (limit : Nat)
    (cost : Nat → Nat) (h : limit < prefixCost cost acts.length) :
    (runActions s acts (gasOog limit cost)).1 = false ∧ (runActions s acts (gasOog limit cost)).2.2 = s := by
  have hg := (runActions_gas s acts limit cost).2
  rcases runActions_spec s acts (gasOog limit cost) with ⟨a, _⟩ | ⟨a, b, _⟩
  · have := hg a; omega
  · exact ⟨a, b⟩

/-- END TO END, over every history and every gas-consumption oracle: whatever a BeginBlock runs, it
runs within the gas the trigger's CREATOR prepaid.  For every executed trigger `x` there is an
operation of the history — its position `i` is the same in the history and in its log — that is a
`MsgCreateTriggerRequest` transaction which passed `ValidateBasic`, was answered `created x.id x.gas`
(so: this trigger, this limit), whose action list is the one now run and whose every action signer
signed it; the limit `x.gas` the trigger is run with is `gasLimitFor` of that transaction's remaining
gas `rem` (no operation in between changed it: `gasLimits_step`), it was charged to that transaction
on top of the cost of storing it, and what the trigger's completed actions consume now, plus that
storing cost, is within what the creating transaction had left. -/
theorem executed_within_creators_prepaid_gas (ops : List Op) (cost : Nat → Nat → Nat) (s' : State)
    (xs : List Exec) (h : processTriggers (run State.init ops).1 cost = some (s', xs)) :
    ∀ x ∈ xs, ∃ (i : Nat) (m : CreateMsg) (rem hh tm : Nat),
      ops[i]? = some (.create m rem hh tm) ∧
      (run State.init ops).2[i]? = some (.created x.id x.gas) ∧
      x.gas = gasLimitFor rem ∧ x.gas + SetGasLimitCost ≤ rem ∧
      m.validateBasic = .ok () ∧ x.actions = m.actions ∧ signersCovered m = true ∧
      completedCost (cost x.id) x.outcomes 0 + SetGasLimitCost ≤ rem := by
  have hi := HInv_reach ops
  obtain ⟨s2, xs2, hp, _, _, hids, hacts, _, _, _, _, _, hgl, _⟩ :=
    processLoop_spec cost MaximumActions 0 _ hi.wf
  have hcons := processLoop_gas cost MaximumActions 0 _ s' xs h
  unfold processTriggers at h
  rw [hp] at h; cases h
  intro x hx
  obtain ⟨q, hq, e1, e2⟩ := map_pair_mem (fun x : Exec => x.id) (fun q : QItem => q.trigger.id)
    (fun x : Exec => x.actions) (fun q : QItem => q.trigger.actions) xs _ hids hacts x hx
  have hq' : q ∈ qList (run State.init ops).1 := List.mem_of_mem_take hq
  have hg : (run State.init ops).1.gasLimits q.trigger.id = some x.gas := by
    have := hgl x hx; rwa [show x.id = q.trigger.id from e1] at this
  rcases born_run ops State.init WF_init q.trigger x.gas (Or.inr ⟨q, hq', rfl⟩) hg with
    ⟨_, b⟩ | ⟨i, m, rem, hh, tm, b1, b2, b3, b4, b5, b6⟩
  · simp [State.init] at b
  · refine ⟨i, m, rem, hh, tm, b1, by rw [show x.id = q.trigger.id from e1]; exact b2, b3, b4, b5,
      by rw [show x.actions = q.trigger.actions from e2]; exact b6, ?_, ?_⟩
    · obtain ⟨_, _, _, hsig⟩ := validateBasic_ok b5
      simp only [signersCovered, List.all_eq_true]
      intro a ha sg hsg
      have := hsig a ha
      simp only [hasSigners, List.all_eq_true] at this
      exact this sg hsg
    · have := (hcons x hx).1; omega

/-- The same in the audit's wording: a create transaction of the history, a `created x.id x.gas`
entry of its log, the limit is `gasLimitFor` of that transaction's remaining gas and was prepaid. -/
theorem executed_gas_was_prepaid_by_a_create_of_the_history (ops : List Op) (cost : Nat → Nat → Nat)
    (s' : State) (xs : List Exec) (h : processTriggers (run State.init ops).1 cost = some (s', xs)) :
    ∀ x ∈ xs, ∃ m rem hh tm, Op.create m rem hh tm ∈ ops ∧
      Out.created x.id x.gas ∈ (run State.init ops).2 ∧
      x.gas = gasLimitFor rem ∧ x.gas + SetGasLimitCost ≤ rem := by
  intro x hx
  obtain ⟨i, m, rem, hh, tm, b1, b2, b3, b4, _⟩ :=
    executed_within_creators_prepaid_gas ops cost s' xs h x hx
  exact ⟨m, rem, hh, tm, List.mem_of_getElem? b1, List.mem_of_getElem? b2, b3, b4⟩

/-- No operation changes a stored gas limit: after any history, a gas limit present after one more
operation was there before with the same value, or that operation is the create transaction that
returned this id and this limit. -/
theorem gas_limit_never_changes_after_creation (ops : List Op) (op : Op) (id g : Nat)
    (h : (step (run State.init ops).1 op).1.gasLimits id = some g) :
    (run State.init ops).1.gasLimits id = some g ∨
      ∃ m rem hh tm, op = .create m rem hh tm ∧ (step (run State.init ops).1 op).2 = .created id g ∧
        g = gasLimitFor rem ∧ g + SetGasLimitCost ≤ rem := by
  rcases gasLimits_step (HInv_reach ops).wf op id g h with h | ⟨m, rem, hh, tm, a, b, _, c, d⟩
  · exact Or.inl h
  · exact Or.inr ⟨m, rem, hh, tm, a, b, c, d⟩

/-- non-vacuity: two sends of 7 000 gas each on 10 000 prepaid gas — each fits alone, together they
do not; the second is cut off, nothing moves -/
example : let s := (run State.init [.fund "A" 10]).1
    let r := runActions s [.send "A" "B" 1, .send "A" "C" 1] (gasOog 10000 (fun _ => 7000))
    (r.1, r.2.1, r.2.2.bal "A", r.2.2.bal "B") = (false, [.ok, .oog], 10, 0) ∧
    gasOog 10000 (fun _ => 7000) 0 = false := by
  decide

/-! ## creators' authority -/

/-- A create message that passes `ValidateBasic`: every required signer of every action is one of the
authorities (the signers of the creating transaction), and the owner is the first authority. -/
theorem created_actions_signed_by_authorities (s s' : State) (m : CreateMsg) (rem h tm id g : Nat)
    (hc : createTrigger s m rem h tm = .ok (s', id, g)) :
    signersCovered m = true ∧
    ∃ t, s'.triggers id = some t ∧ t.actions = m.actions ∧ m.authorities.head? = some t.owner := by
  obtain ⟨hv, hid, _, _, _, owner, rest, hauth, hs⟩ := createTrigger_ok hc
  obtain ⟨_, _, _, hsig⟩ := validateBasic_ok hv
  refine ⟨?_, ⟨s.nextId, owner, m.event, m.actions⟩, ?_, rfl, by rw [hauth]; rfl⟩
  · simp only [signersCovered, List.all_eq_true]
    intro a ha sg hsg
    have := hsig a ha
    simp only [hasSigners, List.all_eq_true] at this
    exact this sg hsg
  · subst hs; subst hid; simp [setGasLimit, setEventListener, setTrigger]

/-- Every trigger stored anywhere (waiting or queued) after any history was put there by a create
transaction of that history that passed `ValidateBasic`, unchanged: same event, same actions, owner
= its first authority, all action signers among its authorities. -/
theorem stored_triggers_were_authorised : ∀ (ops : List Op) (s : State) (log : List Out), HInv s log →
    ∀ (P : Trigger → Prop), (∀ t, stored s t → P t) →
    (∀ m rem h tm, Op.create m rem h tm ∈ ops → m.validateBasic = .ok () →
      ∀ id owner rest, m.authorities = owner :: rest → P ⟨id, owner, m.event, m.actions⟩) →
    ∀ t, stored (run s ops).1 t → P t
  | [], s, log, _, P, h0, _, t, ht => h0 t (by simpa [run] using ht)
  | op :: ops, s, log, hi, P, h0, hc, t, ht => by
    simp only [run] at ht
    refine stored_triggers_were_authorised ops (step s op).1 _ (HInv_step hi op) P ?_ ?_ t ht
    · intro t' ht'
      rcases stored_step hi.wf op t' ht' with h | ⟨m, rem, hh, tm, e, hv, owner, rest, ha, et⟩
      · exact h0 t' h
      · subst e; subst et
        exact hc m rem hh tm List.mem_cons_self hv _ owner rest ha
    · intro m rem hh tm hm
      exact hc m rem hh tm (List.mem_cons_of_mem _ hm)

/-- The actions a BeginBlock runs for a trigger are the action list of a create transaction of the
history that passed `ValidateBasic`; each action's required signers were authorities (signers) of
that transaction. -/
theorem executed_actions_were_authorised (ops : List Op) (cost : Nat → Nat → Nat) (s' : State)
    (xs : List Exec) (h : processTriggers (run State.init ops).1 cost = some (s', xs)) :
    ∀ x ∈ xs, ∃ m rem hh tm, Op.create m rem hh tm ∈ ops ∧ m.validateBasic = .ok () ∧
      x.actions = m.actions ∧ signersCovered m = true := by
  have hi := HInv_reach ops
  obtain ⟨s2, xs2, hp, _, hql, hids, hacts, hlen, _⟩ := processLoop_spec cost MaximumActions 0 _ hi.wf
  unfold processTriggers at h
  rw [hp] at h; cases h
  intro x hx
  -- x's actions are those of a queued trigger
  have : x.actions ∈ xs.map (·.actions) := List.mem_map.2 ⟨x, hx, rfl⟩
  rw [hacts] at this
  obtain ⟨q, hq, e⟩ := List.mem_map.1 this
  have hq' : q ∈ qList (run State.init ops).1 := List.mem_of_mem_take hq
  have key := stored_triggers_were_authorised ops State.init [] HInv_init
    (fun t => ∃ m rem hh tm, Op.create m rem hh tm ∈ ops ∧ m.validateBasic = .ok () ∧
      t.actions = m.actions ∧ signersCovered m = true)
    (by
      intro t ht
      rcases ht with ht | ⟨q, hq, _⟩
      · simp [State.init] at ht
      · simp [State.init, qList, qFrom] at hq)
    (by
      intro m rem hh tm hm hv id owner rest ha
      refine ⟨m, rem, hh, tm, hm, hv, rfl, ?_⟩
      obtain ⟨_, _, _, hsig⟩ := validateBasic_ok hv
      simp only [signersCovered, List.all_eq_true]
      intro a ha' sg hsg
      have := hsig a ha'
      simp only [hasSigners, List.all_eq_true] at this
      exact this sg hsg)
    q.trigger (Or.inr ⟨q, hq', rfl⟩)
  obtain ⟨m, rem, hh, tm, h1, h2, h3, h4⟩ := key
  exact ⟨m, rem, hh, tm, h1, h2, by rw [← e, h3], h4⟩

/-! ## exactly one place -/

/-- After any history no trigger id is both waiting (registered) and queued. -/
theorem never_waiting_and_queued (ops : List Op) (id : Nat) :
    ¬ (registered (run State.init ops).1 id = true ∧ queued (run State.init ops).1 id = true) := by
  rintro ⟨h1, h2⟩
  have hw := (HInv_reach ops).wf
  have : id ∈ qIds (run State.init ops).1 := by simpa [queued] using h2
  obtain ⟨x, hx, e⟩ := List.mem_map.1 this
  have := (hw.q x hx).1
  rw [e] at this
  simp [registered, this] at h1

/-- … nor queued twice. -/
theorem never_queued_twice (ops : List Op) : (qIds (run State.init ops).1).Nodup :=
  (HInv_reach ops).wf.qNodup

/-- Every operation moves every trigger id forward only: unborn → waiting → queued → gone
(waiting → gone by destruction). -/
theorem place_only_moves_forward (ops : List Op) (op : Op) (id : Nat) :
    (place (run State.init ops).1 id).rank ≤ (place (step (run State.init ops).1 op).1 id).rank :=
  place_rank_le (HInv_reach ops).wf (Mono_step (HInv_reach ops).wf op) id

/-- Every operation moves every trigger id only along the life cycle, one legal step at a time: it
stays where it is, or goes unborn → waiting (a create), waiting → queued (a detection), waiting →
gone (a destruction) or queued → gone (an execution).  In particular an id never appears in the
queue, and is never gone, without having been waiting first (no unborn → queued, no unborn →
gone), and nothing moves backwards. -/
theorem place_moves_only_along_the_life_cycle (ops : List Op) (op : Op) (id : Nat) :
    place (step (run State.init ops).1 op).1 id = place (run State.init ops).1 id ∨
    (place (run State.init ops).1 id = .unborn ∧ place (step (run State.init ops).1 op).1 id = .waiting) ∨
    (place (run State.init ops).1 id = .waiting ∧ place (step (run State.init ops).1 op).1 id = .queued) ∨
    (place (run State.init ops).1 id = .waiting ∧ place (step (run State.init ops).1 op).1 id = .gone) ∨
    (place (run State.init ops).1 id = .queued ∧ place (step (run State.init ops).1 op).1 id = .gone) := by
  have hr := place_only_moves_forward ops op id
  cases hp : place (run State.init ops).1 id with
  | unborn =>
    rcases place_unborn_step (HInv_reach ops).wf op id hp with e | e
    · exact Or.inl e
    · exact Or.inr (Or.inl ⟨rfl, e⟩)
  | waiting =>
    rw [hp] at hr; revert hr
    cases place (step (run State.init ops).1 op).1 id <;> simp [Place.rank]
  | queued =>
    rw [hp] at hr; revert hr
    cases place (step (run State.init ops).1 op).1 id <;> simp [Place.rank]
  | gone =>
    rw [hp] at hr; revert hr
    cases place (step (run State.init ops).1 op).1 id <;> simp [Place.rank]

theorem place_rank_run : ∀ (ops : List Op) (s : State), WF s → ∀ id,
    (place s id).rank ≤ (place (run s ops).1 id).rank
  | [], s, _, id => by simp [run]
  | op :: ops, s, hw, id => by
    simp only [run]
    exact Nat.le_trans (place_rank_le hw (Mono_step hw op) id) (place_rank_run ops _ (WF_step hw op) id)

/-- Once gone (executed or destroyed), an id stays gone through every continuation. -/
theorem gone_is_forever (ops more : List Op) (id : Nat) (h : place (run State.init ops).1 id = .gone) :
    place (run (run State.init ops).1 more).1 id = .gone := by
  have := place_rank_run more _ (HInv_reach ops).wf id
  rw [h] at this
  revert this
  cases place (run (run State.init ops).1 more).1 id <;> simp [Place.rank]

/-- The event-listener sub-store holds exactly the keys of the registered triggers. -/
theorem listeners_exactly_registered (ops : List Op) (l : Listener) :
    l ∈ (run State.init ops).1.listeners ↔
      ∃ t, (run State.init ops).1.triggers l.id = some t ∧ l = listenerOf t :=
  (HInv_reach ops).wf.lis l

/-- A gas limit is stored exactly for the waiting and the queued triggers (so `GetGasLimit` in
`ProcessTriggers` cannot panic, and destroyed / executed triggers leave none behind). -/
theorem gas_limit_exactly_waiting_or_queued (ops : List Op) (id : Nat) :
    ((run State.init ops).1.gasLimits id).isSome = true ↔
      (registered (run State.init ops).1 id = true ∨ queued (run State.init ops).1 id = true) := by
  have := (HInv_reach ops).wf.gas id
  simpa [registered, queued] using this

/-! ## only the owner, only while waiting -/

/-- For every store: a destroy message succeeds iff the trigger is registered (waiting) and the
signer is its owner; it then removes the trigger, its listener key and its gas limit. -/
theorem destroy_iff_owner_and_waiting (s : State) (auth : Addr) (id : Nat) :
    (∃ s', destroyTrigger s auth id = .ok s') ↔
      (validAddr auth = true ∧ id ≠ 0 ∧ ∃ t, s.triggers id = some t ∧ t.owner = auth) := by
  constructor
  · rintro ⟨s', h⟩
    obtain ⟨h1, h2, t, h3, h4, _⟩ := destroyTrigger_ok h
    exact ⟨h1, h2, t, h3, h4⟩
  · rintro ⟨h1, h2, t, h3, h4⟩
    refine ⟨removeGasLimit (unregisterTrigger s t) t.id, ?_⟩
    simp [destroyTrigger, destroyTriggerHandler, getTrigger, h1, h2, h3, h4]

/-- For every store, the exact effect of a destroy message: it succeeds iff the trigger is registered
and the signer is its owner, and then the new store is the old one with exactly three changes — the
trigger record, its event-listener key and its gas limit are removed; the id counter, the queue
(items, start, length), every other trigger / listener key / gas limit and all balances are
untouched. -/
theorem destroy_post_state (s s' : State) (auth : Addr) (id : Nat) :
    destroyTrigger s auth id = .ok s' ↔
      (validAddr auth = true ∧ id ≠ 0 ∧ ∃ t, s.triggers id = some t ∧ t.owner = auth ∧
        s' = { s with triggers := fun i => if i = t.id then none else s.triggers i,
                      listeners := s.listeners.filter fun l => l != listenerOf t,
                      gasLimits := fun i => if i = t.id then none else s.gasLimits i }) := by
  constructor
  · intro h
    obtain ⟨h1, h2, t, h3, h4, h5⟩ := destroyTrigger_ok h
    exact ⟨h1, h2, t, h3, h4, h5⟩
  · rintro ⟨h1, h2, t, h3, h4, h5⟩
    subst h5
    simp [destroyTrigger, destroyTriggerHandler, getTrigger, h1, h2, h3, h4, removeGasLimit,
      unregisterTrigger, removeEventListener, removeTrigger]

/-- After any history, a successful destroy moves exactly this id from waiting to gone: its record,
its listener key and its gas limit are removed; every other id keeps its record, its gas limit, its
listener key and its place; the id counter, the queue and the balances are unchanged. -/
theorem destroy_moves_waiting_to_gone (ops : List Op) (auth : Addr) (id : Nat) (s' : State)
    (h : destroyTrigger (run State.init ops).1 auth id = .ok s') :
    place (run State.init ops).1 id = .waiting ∧ place s' id = .gone ∧
    s'.triggers id = none ∧ s'.gasLimits id = none ∧ (∀ l ∈ s'.listeners, l.id ≠ id) ∧
    (∀ j, j ≠ id → s'.triggers j = (run State.init ops).1.triggers j ∧
      s'.gasLimits j = (run State.init ops).1.gasLimits j ∧
      place s' j = place (run State.init ops).1 j) ∧
    (∀ l : Listener, l.id ≠ id → (l ∈ s'.listeners ↔ l ∈ (run State.init ops).1.listeners)) ∧
    s'.nextId = (run State.init ops).1.nextId ∧ s'.qItems = (run State.init ops).1.qItems ∧
    s'.qStart = (run State.init ops).1.qStart ∧ s'.qLen = (run State.init ops).1.qLen ∧
    s'.bal = (run State.init ops).1.bal := by
  have hw := (HInv_reach ops).wf
  generalize (run State.init ops).1 = s at h hw
  obtain ⟨_, _, t, ht, _, hs⟩ := destroyTrigger_ok h
  obtain ⟨hid, h1, hlt⟩ := hw.trig id t ht
  obtain ⟨hw', hf⟩ := WF_destroyTrigger hw h
  subst hs
  have hq : qIds (removeGasLimit (unregisterTrigger s t) t.id) = qIds s := hf.qIds
  have hnq : id ∉ qIds s := by
    intro hm
    obtain ⟨x, hx, e⟩ := List.mem_map.1 hm
    have := (hw.q x hx).1
    rw [e, ht] at this; cases this
  have htr : ∀ j, (removeGasLimit (unregisterTrigger s t) t.id).triggers j =
      if j = id then none else s.triggers j := fun j => by rw [← hid]; rfl
  have hgl : ∀ j, (removeGasLimit (unregisterTrigger s t) t.id).gasLimits j =
      if j = id then none else s.gasLimits j := fun j => by rw [← hid]; rfl
  refine ⟨by simp [place, registered, ht], ?_, by simp [htr], by simp [hgl], ?_, ?_, ?_,
    rfl, rfl, rfl, rfl, rfl⟩
  · unfold place registered queued
    rw [htr, hq]
    simp only [if_true, Option.isSome_none, Bool.false_eq_true, if_false]
    rw [if_neg (by simpa using hnq), if_pos ⟨h1, hlt⟩]
  · intro l hl e
    obtain ⟨t', ht', _⟩ := (hw'.lis l).1 hl
    rw [htr, if_pos e] at ht'; cases ht'
  · intro j hj
    refine ⟨by simp [htr, hj], by simp [hgl, hj], ?_⟩
    unfold place registered queued
    rw [htr, hq, if_neg hj]
    rfl
  · intro l hl
    show l ∈ s.listeners.filter (fun l => l != listenerOf t) ↔ _
    simp only [List.mem_filter, bne_iff_ne, ne_eq, and_iff_left_iff_imp]
    intro _ e
    apply hl; rw [e, ← hid]; rfl

/-- After any history, a destroy of a queued or gone (or never created) id is rejected, whoever
signs it — including the owner. -/
theorem destroy_rejected_once_queued_or_gone (ops : List Op) (auth : Addr) (id : Nat)
    (h : place (run State.init ops).1 id ≠ .waiting) :
    ∃ e, destroyTrigger (run State.init ops).1 auth id = .error e := by
  cases hd : destroyTrigger (run State.init ops).1 auth id with
  | error e => exact ⟨e, rfl⟩
  | ok s' =>
    obtain ⟨_, _, t, ht, _⟩ := destroyTrigger_ok hd
    exact absurd (by simp [place, registered, ht]) h

/-- A gone id (in particular a destroyed trigger) is never executed afterwards. -/
theorem gone_never_fires : ∀ (more : List Op) (s : State) (log : List Out), HInv s log → ∀ id,
    place s id = .gone → id ∉ executedIds (run s more).2
  | [], s, log, _, id, _ => by simp [run, executedIds]
  | op :: more, s, log, hi, id, hg => by
    simp only [run, executedIds_cons, List.mem_append, not_or]
    have hw := hi.wf
    have hg' : place (step s op).1 id = .gone := by
      have := place_rank_le hw (Mono_step hw op) id
      rw [hg] at this
      revert this
      cases place (step s op).1 id <;> simp [Place.rank]
    refine ⟨?_, gone_never_fires more _ _ (HInv_step hi op) id hg'⟩
    cases op with
    | beginBlock oog =>
      simp only [step, processTriggers]
      obtain ⟨s', xs, hp, _, hql, hids, _⟩ := processLoop_spec oog MaximumActions 0 s hw
      rw [hp]
      simp only [Out.executedIds]
      intro hmem
      rw [hids] at hmem
      obtain ⟨q, hq, e⟩ := List.mem_map.1 hmem
      have : id ∈ qIds s := List.mem_map.2 ⟨q, List.mem_of_mem_take hq, e⟩
      have hq2 : queued s id = true := by simpa [queued] using this
      unfold place at hg
      split at hg
      · cases hg
      · simp at hg
    | fund _ _ => simp [step, Out.executedIds]
    | pay _ _ _ => simp only [step]; split <;> simp [Out.executedIds]
    | create _ _ _ _ => simp only [step]; split <;> simp [Out.executedIds]
    | destroy _ _ => simp only [step]; split <;> simp [Out.executedIds]
    | endBlock _ _ _ => simp only [step]; split <;> simp [Out.executedIds]

/-! ## no starvation -/

/-- After any history, if the queue is not empty the next BeginBlock runs at least its head: a
stored gas limit never exceeds `MaximumTriggerGas = MaximumQueueGas`, so the head always fits an
empty block. -/
theorem head_always_fits (ops : List Op) (cost : Nat → Nat → Nat)
    (hq : (run State.init ops).1.qLen ≠ 0) :
    ∃ s' x xs, processTriggers (run State.init ops).1 cost = some (s', x :: xs) ∧
      (qIds (run State.init ops).1).head? = some x.id := by
  obtain ⟨s', xs, hp, _, hql, hids, _, _, _, _, _, _, _, _, _, hlive⟩ :=
    processLoop_spec cost MaximumActions 0 _ (HInv_reach ops).wf
  have hne := hlive hq (by decide) rfl
  cases xs with
  | nil => exact absurd rfl hne
  | cons x xs =>
    refine ⟨s', x, xs, hp, ?_⟩
    have : qIds (run State.init ops).1 = (x :: xs).map (·.id) ++ qIds s' := by
      unfold qIds; rw [hids]; conv_lhs => rw [hql]
      simp
    rw [this]; rfl

/-- After any history a BeginBlock runs EXACTLY as many triggers as fit the per-block caps — the
number `fitCount` computes from the queue and the stored gas limits (the function behind the
checker's `fail:stopped_early` / `fail:cap_count` / `fail:cap_gas`): never fewer, never more. -/
theorem runs_exactly_the_triggers_that_fit (ops : List Op) (cost : Nat → Nat → Nat) (s' : State)
    (xs : List Exec) (h : processTriggers (run State.init ops).1 cost = some (s', xs)) :
    xs.length = fitCount (run State.init ops).1 (qIds (run State.init ops).1) MaximumActions 0 :=
  processLoop_fit cost MaximumActions 0 _ (HInv_reach ops).wf s' xs h

/-- The same without `fitCount`'s recursion: after any history a BeginBlock stops only because the
queue is exhausted, or `MaximumActions` triggers ran, or the next trigger in line (position
`xs.length` of the queue) has a stored gas limit that no longer fits `MaximumQueueGas` on top of the
limits of the triggers that ran — no other reason (a failing, panicking or gas-exhausting trigger
does not end the block's dispatch). -/
theorem stops_only_at_a_cap (ops : List Op) (cost : Nat → Nat → Nat) (s' : State)
    (xs : List Exec) (h : processTriggers (run State.init ops).1 cost = some (s', xs)) :
    xs.length = (qIds (run State.init ops).1).length ∨ xs.length = MaximumActions ∨
    ∃ id g, (qIds (run State.init ops).1)[xs.length]? = some id ∧
      (run State.init ops).1.gasLimits id = some g ∧ (xs.map (·.gas)).sum + g > MaximumQueueGas := by
  have hw := (HInv_reach ops).wf
  have hfit := runs_exactly_the_triggers_that_fit ops cost s' xs h
  obtain ⟨s2, xs2, hp, _, _, hids, _, _, _, _, _, _, hgl, _⟩ := processLoop_spec cost MaximumActions 0 _ hw
  unfold processTriggers at h
  rw [hp] at h; cases h
  rcases fitCount_stop (run State.init ops).1 (qIds (run State.init ops).1) MaximumActions 0 with
    e | e | ⟨id, e1, e2⟩
  · exact Or.inl (hfit.trans e)
  · exact Or.inr (Or.inl (hfit.trans e))
  · right; right
    rw [← hfit] at e1 e2
    have hmem : id ∈ qIds (run State.init ops).1 := List.mem_of_getElem? e1
    obtain ⟨g, hg⟩ := Option.isSome_iff_exists.1 ((hw.gas id).2 (Or.inr hmem))
    refine ⟨id, g, e1, hg, ?_⟩
    have htake : (qIds (run State.init ops).1).take xs.length = xs.map (·.id) := by
      rw [hids]; unfold qIds; rw [List.map_take]
    have hsum : ((xs.map (·.id)).map fun i => ((run State.init ops).1.gasLimits i).getD 0) =
        xs.map (·.gas) := by
      rw [List.map_map]
      exact List.map_congr_left (fun x hx => by simp [hgl x hx])
    rw [htake, hsum, hg] at e2
    simp only [Option.getD_some] at e2
    omega

/-! ### the documented cap is on ACTIONS; the code counts TRIGGERS

06_begin_and_end_blocker.md: "a throttling limit within the module's BeginBlocker, effectively
enforcing a maximum of 5 actions and a gas limit of 2,000,000 per BeginBlock"; the property says
"the per-block action and gas caps".  Full statement (`actionsRun xs` = action handlers started):

    processTriggers s cost = some (s', xs) → actionsRun xs ≤ MaximumActions

It is FALSE for the code: `ProcessTriggers` increments `actionsProcessed` once per TRIGGER
(trigger_dispatcher.go:24,36) and a trigger may carry any number of actions
(`MsgCreateTriggerRequest.ValidateBasic` only demands at least one), so one BeginBlock runs up to
5 triggers with all their actions; only the 2 000 000 gas cap bounds the number of actions.  The
negation is proved on a concrete history (replayed on the real module: corpus/C17, history
"per-block cap counts triggers, not actions"); what does hold is `per_block_action_cap_partial`. -/

/-- five triggers for height 11, two sends each -/
def tenActions : List Op :=
  [ .fund "A" 100,
    .create ⟨["A"], .height 11, [.send "A" "B" 1, .send "A" "C" 1]⟩ 102510 10 1000,
    .create ⟨["A"], .height 11, [.send "A" "B" 1, .send "A" "C" 1]⟩ 102510 10 1000,
    .create ⟨["A"], .height 11, [.send "A" "B" 1, .send "A" "C" 1]⟩ 102510 10 1000,
    .create ⟨["A"], .height 11, [.send "A" "B" 1, .send "A" "C" 1]⟩ 102510 10 1000,
    .create ⟨["A"], .height 11, [.send "A" "B" 1, .send "A" "C" 1]⟩ 102510 10 1000,
    .endBlock [] 11 1006 ]

/-- NEGATION of the documented action cap, on a witness: the BeginBlock after `tenActions` runs five
triggers, all successfully, ten actions in all — twice `MaximumActions`. -/
theorem per_block_action_cap_is_not_enforced_observation :
    (processTriggers (run State.init tenActions).1 (fun _ _ => 5000)).map
        (fun r => (r.2.map (·.success), actionsRun r.2, r.1.bal "B", r.1.bal "C")) =
      some ([true, true, true, true, true], 10, 5, 5) ∧
    ¬ (10 ≤ MaximumActions) := by
  decide

/-- PARTIAL (the full statement above is false for the code): per BeginBlock, for every store, at
most `MaximumActions` TRIGGERS run; each starts at most the action handlers of its own action list,
so the actions run are bounded by the action-list lengths of those at most five triggers — and by
`MaximumActions` itself when every trigger has a single action.  Missing for the documented cap:
a bound on the number of actions independent of the triggers' action-list lengths. -/
theorem per_block_action_cap_partial (s s' : State) (cost : Nat → Nat → Nat) (xs : List Exec)
    (h : processTriggers s cost = some (s', xs)) :
    xs.length ≤ MaximumActions ∧ (∀ x ∈ xs, x.outcomes.length ≤ x.actions.length) ∧
    actionsRun xs ≤ (xs.map (·.actions.length)).sum ∧
    ((∀ x ∈ xs, x.actions.length ≤ 1) → actionsRun xs ≤ MaximumActions) := by
  have hlen := (per_block_caps s s' cost xs h).1
  have hout := processLoop_outcomes_le cost MaximumActions 0 s s' xs h
  refine ⟨hlen, hout, sum_map_le_sum_map _ _ xs hout, fun h1 => ?_⟩
  have := sum_map_le_length (fun x : Exec => x.outcomes.length) xs
    (fun x hx => Nat.le_trans (hout x hx) (h1 x hx))
  exact Nat.le_trans this hlen

/-- A trigger queued at position `p` (0 = head) has been executed once `p + 1` further BeginBlocks
have happened, whatever transactions, detections and gas exhaustion occur in between. -/
theorem queued_trigger_runs_within_its_position (ops more : List Op) (pre post : List Nat) (id : Nat)
    (hq : qIds (run State.init ops).1 = pre ++ id :: post) (hb : pre.length < beginCount more) :
    id ∈ executedIds (run (run State.init ops).1 more).2 :=
  drains more _ pre post id (HInv_reach ops).wf hq hb

/-! ## supporting: when the block functions are total (no clause of C17 demands it) -/

/-- After any history, `ProcessTriggers` does not panic (no missing queue item, no missing gas
limit), whatever runs out of gas. -/
theorem begin_block_never_panics (ops : List Op) (cost : Nat → Nat → Nat) :
    (processTriggers (run State.init ops).1 cost).isSome = true := by
  obtain ⟨s', xs, hp, _⟩ := processLoop_spec cost MaximumActions 0 _ (HInv_reach ops).wf
  unfold processTriggers; rw [hp]; rfl

/-- After any history, `DetectBlockEvents` does not panic provided no registered trigger sits in the
listener bucket of another event kind (`CleanBuckets`). -/
theorem end_block_never_panics_with_clean_buckets (ops : List Op) (evs : List AbciEvent) (h tm : Nat)
    (hc : CleanBuckets (run State.init ops).1 evs) :
    (detectBlockEvents (run State.init ops).1 evs h tm).isSome = true := by
  obtain ⟨ts, hts⟩ := Option.isSome_iff_exists.1 (detectAll_isSome (HInv_reach ops).wf evs h tm hc)
  simp [detectBlockEvents, hts]

/-! ## observations — outside C17's clauses; see observations/

Defects of the code that the model mirrors faithfully (a fourth, the action cap, is with the cap
theorems above).  None of the three below breaks a clause of C17 (all of which are safety statements
and still hold); they are recorded in `observations/C17.md`. -/

/-- OBSERVATION, outside C17's clauses; see observations/ (x/trigger/keeper/event_detector.go:53-56, x/trigger/types/trigger.go:86): a
`TransactionEvent` may be named like the block-height bucket.  The create transaction is accepted,
and from then on every EndBlock panics in `detectBlockHeightEvents`' unchecked type assertion. -/
def poisonHistory : List Op :=
  [ .create ⟨["A"], .tx "block-height" [], [.send "A" "B" 1]⟩ 500000 10 1000,
    .endBlock [] 10 1000,
    .endBlock [⟨"transfer", []⟩] 11 1006 ]

theorem end_block_panics_with_txevent_named_block_height_observation :
    (run State.init poisonHistory).2 = [.created 1 497490, .panicked, .panicked] := by
  decide

/-- Outside C17's clauses; see observations/.  The same with other spellings of the two reserved names. -/
theorem end_block_panics_with_txevent_named_block_time_observation :
    (run State.init [ .create ⟨["A"], .tx " Block-Time" [], [.boom]⟩ 2510 10 1000,
                      .endBlock [] 10 1000 ]).2 = [.created 1 0, .panicked] := by
  decide

/-- OBSERVATION, outside C17's clauses; see observations/ (event_detector.go:39): the per-block `detectedTriggers` map is consulted for key
*presence*, so a trigger that failed to match one event of its type is not compared with later
events of that type in the same block — the documented condition is met, the trigger is not
detected (it may be detected in a later block).  Here trigger 1 waits for `ping` with `k=2`; the
block emits `ping k=1` then `ping k=2`. -/
theorem a_later_matching_event_is_missed_observation :
    let ops := [ Op.create ⟨["A"], .tx "ping" [("k", "2")], [.send "A" "B" 1]⟩ 500000 10 1000,
                 Op.endBlock [⟨"ping", [("k", "1")]⟩, ⟨"ping", [("k", "2")]⟩] 10 1000 ]
    (run State.init ops).2 = [.created 1 497490, .detected []] ∧
    conditionMet (.tx "ping" [("k", "2")]) [⟨"ping", [("k", "1")]⟩, ⟨"ping", [("k", "2")]⟩] 10 1000 = true := by
  decide

/-- OBSERVATION, outside C17's clauses; see observations/ (trigger.go:132, event_detector.go:80-88): a block-time trigger far enough in the
future (after the year 2554) gets a wrapped-around `uint64` nanosecond order, sorts before every
sane time trigger, and the iteration's terminator stops at it: no time trigger is detected any
more.  Trigger 2 (due at 1700000005 s) is not detected at time 1700000010 s while trigger 1 exists
(times in nanoseconds). -/
theorem a_far_future_time_trigger_blocks_all_time_triggers_observation :
    let ops := [ Op.create ⟨["A"], .time 20000000000000000000, [.send "A" "B" 1]⟩ 500000 10 1700000000000000000,
                 Op.create ⟨["B"], .time 1700000005000000000, [.send "B" "A" 1]⟩ 500000 10 1700000000000000000,
                 Op.endBlock [] 11 1700000010000000000 ]
    (run State.init ops).2 = [.created 1 497490, .created 2 497490, .detected []] ∧
    conditionMet (.time 1700000005000000000) [] 11 1700000010000000000 = true := by
  decide

/-! ## non-vacuity: concrete histories exercising the hypotheses above -/

/-- A small history: two triggers for height 11 (the first sends twice, the second send is
unaffordable; the second trigger's only action needs more than its 490 prepaid gas), detected at height 11, executed in
the next BeginBlock in detection order; the failed ones leave the balances untouched. -/
def demo : List Op :=
  [ .fund "A" 10,
    .create ⟨["A"], .height 11, [.send "A" "B" 3, .send "A" "B" 100]⟩ 500000 10 1000,
    .create ⟨["A", "B"], .height 11, [.send "B" "A" 1]⟩ 3000 10 1000,
    .create ⟨["A"], .height 11, [.send "A" "C" 4]⟩ 2100000 10 1000,
    .endBlock [] 11 1006 ]

example : (run State.init demo).2 =
    [.done, .created 1 497490, .created 2 490, .created 3 2000000,
     .detected [⟨1, "A", .height 11, [.send "A" "B" 3, .send "A" "B" 100]⟩,
                ⟨2, "A", .height 11, [.send "B" "A" 1]⟩, ⟨3, "A", .height 11, [.send "A" "C" 4]⟩]] := by
  decide

example : qIds (run State.init demo).1 = [1, 2, 3] := by decide

/-- the next BeginBlock runs 1 (fails at its second action) and 2 (out of gas), and stops at 3 whose
2 000 000 gas no longer fits; 3 runs alone in the block after -/
example : (processTriggers (run State.init demo).1 (fun id _ => if id = 2 then 7630 else 5000)).map (·.2) =
    some [⟨1, 497490, false, [.ok, .err], [.send "A" "B" 3, .send "A" "B" 100]⟩,
          ⟨2, 490, false, [.oog], [.send "B" "A" 1]⟩] := by
  decide

example : (run State.init (demo ++ [.beginBlock (fun id _ => if id = 2 then 7630 else 5000), .beginBlock (fun _ _ => 5000)])).2.drop 5 =
    [.executed [⟨1, 497490, false, [.ok, .err], [.send "A" "B" 3, .send "A" "B" 100]⟩,
                ⟨2, 490, false, [.oog], [.send "B" "A" 1]⟩],
     .executed [⟨3, 2000000, true, [.ok], [.send "A" "C" 4]⟩]] := by
  decide

example : let s := (run State.init (demo ++ [.beginBlock (fun id _ => if id = 2 then 7630 else 5000), .beginBlock (fun _ _ => 5000)])).1
    (s.bal "A", s.bal "B", s.bal "C") = (6, 0, 4) := by
  decide

/-- non-vacuity of the hypothesis `processTriggers … = some (s', xs)` of the BeginBlock theorems
(`executed_within_creators_prepaid_gas`, `runs_exactly_the_triggers_that_fit`, `stops_only_at_a_cap`, …):
after `demo` it holds with two executed triggers — exactly `fitCount`: the third one's 2 000 000 gas
does not fit on top of 497 490 + 490 — created by operations 1 and 2 of the history with remaining
gas 500 000 and 3 000. -/
example : ∃ s' x xs, processTriggers (run State.init demo).1 (fun _ _ => 5000) = some (s', x :: xs) := by
  obtain ⟨s', x, xs, h, _⟩ := head_always_fits demo (fun _ _ => 5000) (by decide)
  exact ⟨s', x, xs, h⟩
example : fitCount (run State.init demo).1 (qIds (run State.init demo).1) MaximumActions 0 = 2 ∧
    (qIds (run State.init demo).1)[2]? = some 3 ∧ (run State.init demo).1.gasLimits 3 = some 2000000 ∧
    demo[1]? = some (.create ⟨["A"], .height 11, [.send "A" "B" 3, .send "A" "B" 100]⟩ 500000 10 1000) ∧
    (run State.init demo).2[1]? = some (.created 1 497490) ∧ 497490 = gasLimitFor 500000 :=
  ⟨by decide, by decide, by decide, rfl, by decide, by decide⟩

/-- a trigger id visits the places in order: 4 is unborn, waiting after its create, gone after its
owner's destroy; 1 goes from waiting to queued at the EndBlock and is gone after the BeginBlock -/
example : place (run State.init demo).1 4 = .unborn ∧
    place (run State.init (demo ++ [.create ⟨["A"], .height 20, [.boom]⟩ 5000 12 1010])).1 4 = .waiting ∧
    place (run State.init (demo ++ [.create ⟨["A"], .height 20, [.boom]⟩ 5000 12 1010, .destroy "A" 4])).1 4 = .gone ∧
    place (run State.init (demo.take 4)).1 1 = .waiting ∧ place (run State.init demo).1 1 = .queued ∧
    place (run State.init (demo ++ [.beginBlock (fun _ _ => 5000)])).1 1 = .gone := by
  decide

/-- times are full timestamps (nanoseconds): a trigger for T+0.9 s created in the block at T+0.2 s
is not detected by that block nor by the one at T+0.6 s — same second, condition not met — and is
detected by the block at T+1.1 s -/
example : (run State.init
    [ .create ⟨["A"], .time 1700000000900000000, [.send "A" "B" 1]⟩ 500000 10 1700000000200000000,
      .endBlock [] 10 1700000000200000000, .endBlock [] 11 1700000000600000000,
      .endBlock [] 12 1700000001100000000 ]).2 =
    [.created 1 497490, .detected [], .detected [],
     .detected [⟨1, "A", .time 1700000000900000000, [.send "A" "B" 1]⟩]] := by
  decide

/-- the owner can destroy only while waiting: trigger 1 of `demo` is queued — rejected; a fresh one is
waiting — accepted for its owner, rejected for a stranger -/
example : place (run State.init demo).1 1 = .queued := by decide
example : (∃ e, destroyTrigger (run State.init demo).1 "A" 1 = .error e) :=
  destroy_rejected_once_queued_or_gone demo "A" 1 (by decide)
example : let s := (run State.init (demo ++ [.create ⟨["A"], .height 20, [.boom]⟩ 5000 12 1010])).1
    place s 4 = .waiting ∧ (destroyTrigger s "B" 4).toOption.isNone ∧ (destroyTrigger s "A" 4).toOption.isSome := by
  decide

/-- `CleanBuckets` holds for an ordinary store (decided on the one registered trigger) -/
example : (detectBlockEvents (run State.init (demo.take 2)).1 [⟨"transfer", []⟩] 11 1006).isSome = true := by decide

end PvProofs.C17
