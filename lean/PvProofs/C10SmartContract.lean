/-
C10, part 5 — every endpoint IN FULL, smart-contract signers included.

"…and smart-contract signers are accepted only in the documented positions and roles."  The
theorems of `C10Callers.lean` / `C10ValueOwner.lean` / `C10Msg.lean` say which parties an accepted
call has covered (`X_only_when`, all inputs) and characterise acceptance only when no smart
contract signs (`X_iff`, hypothesis `NoContracts`).  Here, for every endpoint `X` and ALL inputs:

* `X_accepts_iff` — the call is accepted EXACTLY when the endpoint's documented preconditions
  hold, the documented parties are covered (`Spec.XReq`), the PROVENANCE-role rule holds for
  every party list the endpoint takes roles from (the proposed one and, where the roles come
  from the stored owners / session, the stored one), and the smart-contract signer rule
  `Spec.smartContractOk` holds with "signs for a party" read as `Spec.Req.used`: the signers
  that stand for a party of THAT requirement (plus, for scope writes / deletions, the signer
  that stands for the value owner).  No hypothesis about who signs;
* `X_accepted_only_when` — the `→` half as a statement of its own (the former `X_only_when`
  plus the PROVENANCE rule of the stored lists plus the smart-contract rule);
* `X_smart_contract` — an accepted call satisfies the smart-contract signer rule;
* `X_all_sign_directly_accepts` — "when every required party signs directly and the required
  roles are present the write is accepted" at endpoint level (`Spec.Req.allSignDirectly`): the
  only other hypotheses are the endpoint's own preconditions and the smart-contract rule
  (which `NoContracts` implies: `contractsOk_of_noContracts`);
* `msgWriteScope_after` / `msgDeleteScope_after` / `msgScopeDataAccess_after` — what the message
  server stores after an accepted scope write / deletion / data-access update.

`Spec.Req.used` is characterised by `used_signers_sound` / `direct_party_is_used` (C10.lean):
every such signer is a signer of the message that IS a party of the requirement or holds an
applicable authorization from one; a party that signs itself is among them.
-/
import PvProofs.Lemmas.SignersUsed
import PvProofs.C10Msg

namespace PvProofs.C10
open PvModel.Signers PvProofs.Lemmas.Signers PvProofs.Lemmas.SignersCallers PvProofs.Lemmas.SignersUsed

/-! ### writing / deleting a scope (no value owner) -/

/-- "Writing a Scope" in full (scopes without value owner), all inputs. -/
theorem writeScope_accepts_iff (env : Env) (hv : env.valid "" = false) (existing : Option Scope)
    (proposed : Scope) (specRoles : List Role) (existingSpecRoles : Option (List Role)) (signers : List Addr) :
    validateWriteScope env existing proposed specRoles existingSpecRoles signers = .ok () ↔
      Spec.rolesPresent proposed.owners specRoles = true ∧ Spec.provenanceRoleOk env proposed.owners = true
        ∧ (Spec.writeScopeReq existing proposed (existingSpecRoles.getD specRoles)).ok env "WriteScope" signers
            = true
        ∧ (Spec.writeScopeReq existing proposed (existingSpecRoles.getD specRoles)).contractsOk env
            "WriteScope" signers [] = true := by
  unfold validateWriteScope
  simp only [orElse_ok_iff, validateRolesPresent_accepts_iff, validateProvenanceRole_fresh_iff]
  refine and_congr_right fun _ => and_congr_right fun _ => ?_
  cases existing with
  | none => simp only [Spec.writeScopeReq]; exact sc_nothing env _ signers
  | some ex =>
    simp only [Spec.writeScopeReq]
    by_cases hr : ex.rollup = true
    · simp only [hr, Bool.not_true, Bool.false_eq_true, ↓reduceIte]
      exact sc_parties env hv _ _ _ _ signers
    · simp only [hr, Bool.not_false, ↓reduceIte, Bool.false_eq_true]
      by_cases he : ex.equals proposed = true
      · simp only [he, Bool.not_true, Bool.false_eq_true, ↓reduceIte]
        exact sc_nothing env _ signers
      · simp only [he, Bool.not_false, ↓reduceIte, Bool.false_eq_true]
        exact sc_addrs env hv _ signers (mem_getPartyAddresses _)

theorem writeScope_smart_contract (env : Env) (hv : env.valid "" = false) (existing : Option Scope)
    (proposed : Scope) (specRoles : List Role) (existingSpecRoles : Option (List Role)) (signers : List Addr)
    (h : validateWriteScope env existing proposed specRoles existingSpecRoles signers = .ok ()) :
    Spec.smartContractOk env "WriteScope"
      ((Spec.writeScopeReq existing proposed (existingSpecRoles.getD specRoles)).used env "WriteScope" signers)
      signers = true :=
  ((writeScope_accepts_iff env hv existing proposed specRoles existingSpecRoles signers).mp h).2.2.2

/-- "Deleting a Scope" in full (no value owner), all inputs. -/
theorem deleteScope_accepts_iff (env : Env) (hv : env.valid "" = false) (scope : Scope)
    (roles : Option (List Role)) (signers : List Addr) :
    validateDeleteScope env scope roles signers = .ok () ↔
      (Spec.deleteScopeReq scope roles).ok env "DeleteScope" signers = true
        ∧ (Spec.deleteScopeReq scope roles).contractsOk env "DeleteScope" signers [] = true := by
  unfold validateDeleteScope Spec.deleteScopeReq
  by_cases hr : scope.rollup = true
  · simp only [hr, Bool.not_true, Bool.false_eq_true, ↓reduceIte]
    cases roles with
    | none =>
      simp only
      exact sc_addrs env hv _ signers (by intro a; rw [getRequiredPartyAddresses, mem_getPartyAddresses])
    | some rs => simp only; exact sc_parties env hv _ _ _ _ signers
  · simp only [hr, Bool.not_false, ↓reduceIte, Bool.false_eq_true]
    exact sc_addrs env hv _ signers (mem_getPartyAddresses _)

theorem deleteScope_smart_contract (env : Env) (hv : env.valid "" = false) (scope : Scope)
    (roles : Option (List Role)) (signers : List Addr)
    (h : validateDeleteScope env scope roles signers = .ok ()) :
    Spec.smartContractOk env "DeleteScope" ((Spec.deleteScopeReq scope roles).used env "DeleteScope" signers)
      signers = true :=
  ((deleteScope_accepts_iff env hv scope roles signers).mp h).2

/-! ### data access, owners -/

/-- adding / deleting scope data access, all inputs: the stored owners are covered, with rollup
the PROVENANCE rule holds for them (their roles are used), and the smart-contract rule. -/
theorem scopeUpdate_accepts_iff (env : Env) (hv : env.valid "" = false) (mt : MsgType) (existing : Scope)
    (roles : List Role) (signers : List Addr) :
    validateScopeUpdateSigners env mt existing roles signers = .ok () ↔
      (Spec.scopeUpdateReq existing roles).ok env mt signers = true
        ∧ (existing.rollup = true → Spec.provenanceRoleOk env existing.owners = true)
        ∧ (Spec.scopeUpdateReq existing roles).contractsOk env mt signers [] = true := by
  unfold validateScopeUpdateSigners Spec.scopeUpdateReq
  by_cases hr : existing.rollup = true
  · simp only [hr, Bool.not_true, Bool.false_eq_true, ↓reduceIte, true_implies]
    exact dd_with env hv mt _ _ _ signers
  · simp only [hr, Bool.not_false, ↓reduceIte, Bool.false_eq_true, false_implies, true_and]
    exact dd_without env hv mt signers (mem_getPartyAddresses _)

theorem scopeUpdate_accepted_only_when (env : Env) (hv : env.valid "" = false) (mt : MsgType) (existing : Scope)
    (roles : List Role) (signers : List Addr)
    (h : validateScopeUpdateSigners env mt existing roles signers = .ok ()) :
    (Spec.scopeUpdateReq existing roles).ok env mt signers = true
      ∧ (existing.rollup = true → Spec.provenanceRoleOk env existing.owners = true)
      ∧ Spec.smartContractOk env mt ((Spec.scopeUpdateReq existing roles).used env mt signers) signers = true :=
  (scopeUpdate_accepts_iff env hv mt existing roles signers).mp h

/-- adding / deleting scope owners (`ValidateUpdateScopeOwners`), all inputs.  With rollup the
roles come from the STORED owners, but this endpoint does not apply the PROVENANCE rule to them
(scope.go:784-790; they satisfied it when they were written). -/
theorem updateScopeOwners_accepts_iff (env : Env) (hv : env.valid "" = false) (mt : MsgType)
    (existing : Scope) (proposedOwners : List Party) (roles : List Role) (signers : List Addr) :
    validateUpdateScopeOwners env mt existing proposedOwners roles signers = .ok () ↔
      (existing.rollup = false → ∀ p ∈ proposedOwners, p.optional = false)
        ∧ Spec.rolesPresent proposedOwners roles = true ∧ Spec.provenanceRoleOk env proposedOwners = true
        ∧ (Spec.scopeUpdateReq existing roles).ok env mt signers = true
        ∧ (Spec.scopeUpdateReq existing roles).contractsOk env mt signers [] = true := by
  unfold validateUpdateScopeOwners
  simp only [orElse_ok_iff, validateRolesPresent_accepts_iff, validateProvenanceRole_fresh_iff,
    validateOptionalParties_none_iff]
  refine and_congr_right fun _ => and_congr_right fun _ => and_congr_right fun _ => ?_
  unfold Spec.scopeUpdateReq
  by_cases hr : existing.rollup = true
  · simp only [hr, Bool.not_true, Bool.false_eq_true, ↓reduceIte]
    exact sc_parties env hv mt _ _ _ signers
  · simp only [hr, Bool.not_false, ↓reduceIte, Bool.false_eq_true]
    exact dd_without env hv mt signers (mem_getPartyAddresses _)

theorem updateScopeOwners_smart_contract (env : Env) (hv : env.valid "" = false) (mt : MsgType)
    (existing : Scope) (proposedOwners : List Party) (roles : List Role) (signers : List Addr)
    (h : validateUpdateScopeOwners env mt existing proposedOwners roles signers = .ok ()) :
    Spec.smartContractOk env mt ((Spec.scopeUpdateReq existing roles).used env mt signers) signers = true :=
  ((updateScopeOwners_accepts_iff env hv mt existing proposedOwners roles signers).mp h).2.2.2.2

/-! ### writing a session -/

/-- "Writing a Session" in full, all inputs: besides the clauses of `writeSession_only_when`, with
rollup the PROVENANCE rule holds for the STORED session's parties (an update takes the roles
from them), and the smart-contract rule. -/
theorem writeSession_accepts_iff (env : Env) (hv : env.valid "" = false) (scope : Scope)
    (existing : Option (List Party)) (proposed : List Party) (roles : List Role) (signers : List Addr) :
    validateWriteSession env scope existing proposed roles signers = .ok () ↔
      (scope.rollup = false → ∀ p ∈ proposed, p.optional = false)
        ∧ (scope.rollup = true → ∀ p ∈ proposed, ∃ o ∈ scope.owners, p.address = o.address ∧ p.role = o.role)
        ∧ Spec.rolesPresent proposed roles = true ∧ Spec.provenanceRoleOk env proposed = true
        ∧ (Spec.writeSessionReq scope existing proposed roles).ok env "WriteSession" signers = true
        ∧ (scope.rollup = true → ∀ ex, existing = some ex → Spec.provenanceRoleOk env ex = true)
        ∧ (Spec.writeSessionReq scope existing proposed roles).contractsOk env "WriteSession" signers []
            = true := by
  constructor
  · intro h
    obtain ⟨h1, h2, h3, h4, h5⟩ := writeSession_only_when env hv scope existing proposed roles signers h
    refine ⟨h1, h2, h3, h4, h5, ?_⟩
    unfold validateWriteSession at h
    unfold Spec.writeSessionReq
    simp only [orElse_ok_iff] at h
    by_cases hr : scope.rollup = true
    · simp only [hr, Bool.not_true, Bool.false_eq_true, ↓reduceIte, orElse_ok_iff, true_implies] at h ⊢
      cases existing with
      | some ex =>
        simp only [orElse_ok_iff] at h
        have := (dd_with env hv _ _ _ _ signers).mp h.2.2.2.2
        exact ⟨fun ex' hex => (by cases hex; exact this.2.1), this.2.2⟩
      | none =>
        simp only at h
        have := (dd_with env hv _ _ _ _ signers).mp h.2.2
        exact ⟨fun ex' hex => (by cases hex), this.2.2⟩
    · simp only [hr, Bool.not_false, ↓reduceIte, orElse_ok_iff, Bool.false_eq_true, false_implies,
        true_and] at h ⊢
      exact ((dd_without env hv _ signers (mem_getPartyAddresses _)).mp h.2.2.2).2
  · rintro ⟨h0, hp, h1, h2, h3, h4, h5⟩
    unfold validateWriteSession
    unfold Spec.writeSessionReq at h3 h5
    simp only [orElse_ok_iff, validateOptionalParties_none_iff]
    refine ⟨h0, ?_⟩
    by_cases hr : scope.rollup = true
    · simp only [hr, Bool.not_true, Bool.false_eq_true, ↓reduceIte, orElse_ok_iff,
        validatePartiesArePresent_none_iff] at h3 h5 ⊢
      refine ⟨hp hr, ?_⟩
      cases existing with
      | some ex =>
        simp only [orElse_ok_iff, validateRolesPresent_accepts_iff, validateProvenanceRole_fresh_iff]
        exact ⟨h1, h2, (dd_with env hv _ _ _ _ signers).mpr ⟨h3, h4 hr ex rfl, h5⟩⟩
      | none =>
        simp only at h3 h5 ⊢
        exact (dd_with env hv _ _ _ _ signers).mpr ⟨h3, h2, h5⟩
    · simp only [hr, Bool.not_false, ↓reduceIte, orElse_ok_iff, validateRolesPresent_accepts_iff,
        validateProvenanceRole_fresh_iff, Bool.false_eq_true] at h3 h5 ⊢
      exact ⟨h1, h2, (dd_without env hv _ signers (mem_getPartyAddresses _)).mpr ⟨h3, h5⟩⟩

theorem writeSession_accepted_only_when (env : Env) (hv : env.valid "" = false) (scope : Scope)
    (existing : Option (List Party)) (proposed : List Party) (roles : List Role) (signers : List Addr)
    (h : validateWriteSession env scope existing proposed roles signers = .ok ()) :
    (scope.rollup = false → ∀ p ∈ proposed, p.optional = false)
      ∧ (scope.rollup = true → ∀ p ∈ proposed, ∃ o ∈ scope.owners, p.address = o.address ∧ p.role = o.role)
      ∧ Spec.rolesPresent proposed roles = true ∧ Spec.provenanceRoleOk env proposed = true
      ∧ (Spec.writeSessionReq scope existing proposed roles).ok env "WriteSession" signers = true
      ∧ (scope.rollup = true → ∀ ex, existing = some ex → Spec.provenanceRoleOk env ex = true)
      ∧ Spec.smartContractOk env "WriteSession"
          ((Spec.writeSessionReq scope existing proposed roles).used env "WriteSession" signers) signers = true :=
  (writeSession_accepts_iff env hv scope existing proposed roles signers).mp h

/-! ### writing / deleting a record -/

/-- "Writing a Record" in full, all inputs: with rollup the PROVENANCE rule holds for the
session's parties (the roles come from them), and the smart-contract rule. -/
theorem writeRecord_accepts_iff (env : Env) (hv : env.valid "" = false) (scope : Scope)
    (session : List Party) (oldSession : Option (List Party)) (roles : List Role) (signers : List Addr) :
    validateWriteRecord env scope session oldSession roles signers = .ok () ↔
      (Spec.writeRecordReq scope session oldSession roles).ok env "WriteRecord" signers = true
        ∧ (scope.rollup = false → Spec.rolesPresent session roles = true)
        ∧ (scope.rollup = true → Spec.provenanceRoleOk env session = true)
        ∧ (Spec.writeRecordReq scope session oldSession roles).contractsOk env "WriteRecord" signers []
            = true := by
  unfold validateWriteRecord Spec.writeRecordReq
  by_cases hr : scope.rollup = true
  · simp only [hr, Bool.not_true, Bool.false_eq_true, ↓reduceIte, false_implies, true_implies, true_and,
      Bool.true_eq_false]
    exact dd_with env hv _ _ _ _ signers
  · have hr' : scope.rollup = false := by simpa using hr
    simp only [hr', Bool.not_false, ↓reduceIte, orElse_ok_iff, validateRolesPresent_accepts_iff,
      Bool.false_eq_true, false_implies, true_implies, true_and]
    rw [dd_without env hv _ signers (l' := Spec.addresses session ++ Spec.addresses (oldSession.getD []))
      (by intro a; simp [mem_getPartyAddresses])]
    constructor
    · rintro ⟨h1, h2, h3⟩; exact ⟨h2, h1, h3⟩
    · rintro ⟨h2, h1, h3⟩; exact ⟨h1, h2, h3⟩

theorem writeRecord_accepted_only_when (env : Env) (hv : env.valid "" = false) (scope : Scope)
    (session : List Party) (oldSession : Option (List Party)) (roles : List Role) (signers : List Addr)
    (h : validateWriteRecord env scope session oldSession roles signers = .ok ()) :
    (Spec.writeRecordReq scope session oldSession roles).ok env "WriteRecord" signers = true
      ∧ (scope.rollup = false → Spec.rolesPresent session roles = true)
      ∧ (scope.rollup = true → Spec.provenanceRoleOk env session = true)
      ∧ Spec.smartContractOk env "WriteRecord"
          ((Spec.writeRecordReq scope session oldSession roles).used env "WriteRecord" signers) signers = true :=
  (writeRecord_accepts_iff env hv scope session oldSession roles signers).mp h

/-- "Deleting a Record" in full, all inputs.  When the scope is gone (`scope = none`) the code
asks for nothing at all — not even the smart-contract rule (record.go:325). -/
theorem deleteRecord_accepts_iff (env : Env) (hv : env.valid "" = false) (scope : Option Scope)
    (roles : Option (List Role)) (signers : List Addr) :
    validateDeleteRecord env scope roles signers = .ok () ↔
      (Spec.deleteRecordReq scope roles).ok env "DeleteRecord" signers = true
        ∧ (∀ sc rs, scope = some sc → roles = some rs → sc.rollup = true →
            Spec.provenanceRoleOk env sc.owners = true)
        ∧ (scope.isSome = true →
            (Spec.deleteRecordReq scope roles).contractsOk env "DeleteRecord" signers [] = true) := by
  unfold validateDeleteRecord Spec.deleteRecordReq
  cases scope with
  | none => simp [ok_addrs_nil]
  | some sc =>
    simp only [Option.isSome_some, true_implies, Option.some.injEq]
    by_cases hr : sc.rollup = true
    · simp only [hr, Bool.not_true, Bool.false_eq_true, ↓reduceIte]
      cases roles with
      | none =>
        simp only
        rw [dd_without env hv _ signers (l' := Spec.addresses (sc.owners.filter fun p => !p.optional))
          (by intro a; rw [getRequiredPartyAddresses, mem_getPartyAddresses])]
        simp
      | some rs =>
        simp only
        rw [dd_with env hv]
        constructor
        · rintro ⟨h1, h2, h3⟩
          exact ⟨h1, fun sc' rs' hsc _ _ => by subst hsc; exact h2, h3⟩
        · rintro ⟨h1, h2, h3⟩
          exact ⟨h1, h2 sc rs rfl rfl hr, h3⟩
    · simp only [hr, Bool.not_false, ↓reduceIte, Bool.false_eq_true]
      rw [dd_without env hv _ signers (mem_getPartyAddresses _)]
      constructor
      · rintro ⟨h1, h3⟩
        exact ⟨h1, fun sc' rs' hsc _ hro => by subst hsc; exact absurd hro hr, h3⟩
      · rintro ⟨h1, _, h3⟩; exact ⟨h1, h3⟩

theorem deleteRecord_accepted_only_when (env : Env) (hv : env.valid "" = false) (sc : Scope)
    (roles : Option (List Role)) (signers : List Addr)
    (h : validateDeleteRecord env (some sc) roles signers = .ok ()) :
    (Spec.deleteRecordReq (some sc) roles).ok env "DeleteRecord" signers = true
      ∧ (∀ rs, roles = some rs → sc.rollup = true → Spec.provenanceRoleOk env sc.owners = true)
      ∧ Spec.smartContractOk env "DeleteRecord"
          ((Spec.deleteRecordReq (some sc) roles).used env "DeleteRecord" signers) signers = true := by
  obtain ⟨h1, h2, h3⟩ := (deleteRecord_accepts_iff env hv (some sc) roles signers).mp h
  exact ⟨h1, fun rs hrs hr => h2 sc rs rfl hrs hr, h3 rfl⟩

/-! ### scopes with a value owner -/

/-- the signers recorded by the owner / role part of a scope write are those of its requirement -/
theorem usedOf_writeScopeOwnerChecks (env : Env) (hv : env.valid "" = false) (existing : Option Scope)
    (storedVO : Addr) (proposed : Scope) (proposedVO : Addr) (specRoles : List Role)
    (existingSpecRoles : Option (List Role)) (signers : List Addr)
    (hacc : Accepts (writeScopeOwnerChecks env existing (lookedUpVO existing storedVO proposedVO) proposed
      proposedVO specRoles existingSpecRoles signers)) (w : Addr) :
    w ∈ Spec.usedOf (writeScopeOwnerChecks env existing (lookedUpVO existing storedVO proposedVO) proposed
        proposedVO specRoles existingSpecRoles signers) ↔
      w ∈ (Spec.writeScopeReqVO existing storedVO proposed proposedVO (existingSpecRoles.getD specRoles)).used
        env "WriteScope" signers := by
  unfold writeScopeOwnerChecks at hacc ⊢
  simp only at hacc ⊢
  cases existing with
  | none =>
    simp only [Bool.false_eq_true, ↓reduceIte, Spec.writeScopeReqVO, used_addrs_nil] at hacc ⊢
    cases hrp : validateRolesPresent proposed.owners specRoles with
    | some e => rw [hrp] at hacc; obtain ⟨_, h⟩ := hacc; cases h
    | none =>
      cases hpr : validateProvenanceRole env (buildPartyDetails [] proposed.owners) with
      | some e => rw [hrp, hpr] at hacc; obtain ⟨_, h⟩ := hacc; cases h
      | none => simp [Spec.usedOf, getUsedSigners]
  | some ex =>
    simp only at hacc ⊢
    rw [only_eq ex storedVO proposed proposedVO] at hacc ⊢
    by_cases honly : Spec.onlyValueOwnerChanges (some ex) storedVO proposed proposedVO = true
    · simp [honly, Spec.writeScopeReqVO, used_addrs_nil, Spec.usedOf, getUsedSigners]
    · have honly' : Spec.onlyValueOwnerChanges (some ex) storedVO proposed proposedVO = false := by
        simpa using honly
      simp only [honly', Bool.false_eq_true, ↓reduceIte] at hacc ⊢
      cases hrp : validateRolesPresent proposed.owners specRoles with
      | some e => rw [hrp] at hacc; obtain ⟨_, h⟩ := hacc; cases h
      | none =>
        cases hpr : validateProvenanceRole env (buildPartyDetails [] proposed.owners) with
        | some e => rw [hrp, hpr] at hacc; obtain ⟨_, h⟩ := hacc; cases h
        | none =>
          simp only
          unfold Spec.writeScopeReqVO
          simp only [honly', Bool.false_eq_true, ↓reduceIte]
          by_cases hr : ex.rollup = true
          · simp only [hr, Bool.not_true, Bool.false_eq_true, ↓reduceIte, Spec.Req.used]
          · simp only [hr, Bool.not_false, ↓reduceIte, Bool.false_eq_true]
            rw [same_eq ex storedVO proposed proposedVO]
            by_cases hs : (ex.equals proposed && (proposedVO == "" || storedVO == proposedVO)) = true
            · simp [hs, used_addrs_nil, Spec.usedOf, getUsedSigners]
            · simp only [hs, Bool.not_false, ↓reduceIte, Bool.false_eq_true, Spec.Req.used]
              exact usedOf_allRequiredSigned_congr env hv _ signers (mem_getPartyAddresses _) w

/-- "Writing a Scope" IN FULL — value owner, "only the value owner changes", owners / roles and
smart-contract signers — for ALL inputs: accepted exactly when the value owner being replaced
is covered by the signers that count, and — unless the value owner is the ONLY thing that
changes — the roles of the named specification are present in the proposed owners, the
PROVENANCE rule holds for them, the stored scope's owners / the governing specification's roles
are covered, and every smart-contract signer stands only behind smart contracts and signs for
the value owner or for a stored owner, or is authorized by all signers after it. -/
theorem writeScopeVO_accepts_iff (env : Env) (hv : env.valid "" = false) (existing : Option Scope)
    (storedVO : Addr) (proposed : Scope) (proposedVO : Addr) (specRoles : List Role)
    (existingSpecRoles : Option (List Role)) (signers : List Addr) :
    validateWriteScopeVO env existing storedVO proposed proposedVO specRoles existingSpecRoles signers = .ok () ↔
      Spec.writeScopeValueOwnerOk env existing storedVO proposedVO signers = true
        ∧ (Spec.onlyValueOwnerChanges existing storedVO proposed proposedVO = false →
            Spec.rolesPresent proposed.owners specRoles = true
              ∧ Spec.provenanceRoleOk env proposed.owners = true)
        ∧ (Spec.writeScopeReqVO existing storedVO proposed proposedVO (existingSpecRoles.getD specRoles)).ok
            env "WriteScope" signers = true
        ∧ (Spec.writeScopeReqVO existing storedVO proposed proposedVO (existingSpecRoles.getD specRoles)).contractsOk
            env "WriteScope" signers (Spec.writeScopeValueOwnerUsed env existing storedVO proposedVO signers)
            = true := by
  unfold validateWriteScopeVO
  simp only
  rw [thenVO_ok_iff]
  have hchecks := writeScopeOwnerChecks_accepts_iff env hv existing storedVO proposed proposedVO specRoles
    existingSpecRoles signers
  constructor
  · rintro ⟨hacc, hvo, hsc⟩
    obtain ⟨h2, h3⟩ := hchecks.mp hacc
    refine ⟨writeScope_valueOwner_only_when env hv existing storedVO proposedVO signers hvo, h2, h3, ?_⟩
    unfold Spec.Req.contractsOk Spec.writeScopeValueOwnerUsed
    rw [← smartContractOk_congr_append env "WriteScope" signers _
      (usedOf_writeScopeOwnerChecks env hv existing storedVO proposed proposedVO specRoles existingSpecRoles
        signers hacc)]
    exact hsc
  · rintro ⟨h1, h2, h3, h4⟩
    have hacc := hchecks.mpr ⟨h2, h3⟩
    unfold Spec.Req.contractsOk Spec.writeScopeValueOwnerUsed at h4
    refine ⟨hacc, ?_, ?_⟩
    · exact writeScope_valueOwner_of_ok env hv existing storedVO proposedVO signers
        (valueOwnerSignerAccs_isSome_of_smartContractOk env _ _ signers h4) h1
    · rw [smartContractOk_congr_append env "WriteScope" signers _
        (usedOf_writeScopeOwnerChecks env hv existing storedVO proposed proposedVO specRoles existingSpecRoles
          signers hacc)]
      exact h4

theorem writeScopeVO_smart_contract (env : Env) (hv : env.valid "" = false) (existing : Option Scope)
    (storedVO : Addr) (proposed : Scope) (proposedVO : Addr) (specRoles : List Role)
    (existingSpecRoles : Option (List Role)) (signers : List Addr)
    (h : validateWriteScopeVO env existing storedVO proposed proposedVO specRoles existingSpecRoles signers
      = .ok ()) :
    Spec.smartContractOk env "WriteScope"
      (Spec.writeScopeValueOwnerUsed env existing storedVO proposedVO signers ++
        (Spec.writeScopeReqVO existing storedVO proposed proposedVO (existingSpecRoles.getD specRoles)).used
          env "WriteScope" signers) signers = true :=
  ((writeScopeVO_accepts_iff env hv existing storedVO proposed proposedVO specRoles existingSpecRoles
    signers).mp h).2.2.2

/-- the signers recorded by the owner part of a scope deletion are those of its requirement -/
theorem usedOf_deleteScope_checks (env : Env) (hv : env.valid "" = false) (scope : Scope)
    (roles : Option (List Role)) (signers : List Addr) (w : Addr) :
    w ∈ Spec.usedOf (if !scope.rollup then
        validateAllRequiredSigned env "DeleteScope" (getPartyAddresses scope.owners) signers
      else match roles with
        | none => validateAllRequiredSigned env "DeleteScope" (getRequiredPartyAddresses scope.owners) signers
        | some rs => validateAllRequiredPartiesSigned env "DeleteScope" scope.owners scope.owners rs signers) ↔
      w ∈ (Spec.deleteScopeReq scope roles).used env "DeleteScope" signers := by
  unfold Spec.deleteScopeReq
  by_cases hr : scope.rollup = true
  · simp only [hr, Bool.not_true, Bool.false_eq_true, ↓reduceIte]
    cases roles with
    | none =>
      simp only [Spec.Req.used]
      exact usedOf_allRequiredSigned_congr env hv _ signers
        (by intro a; rw [getRequiredPartyAddresses, mem_getPartyAddresses]) w
    | some rs => simp only [Spec.Req.used]
  · simp only [hr, Bool.not_false, ↓reduceIte, Bool.false_eq_true, Spec.Req.used]
    exact usedOf_allRequiredSigned_congr env hv _ signers (mem_getPartyAddresses _) w

/-- "Deleting a Scope" IN FULL, all inputs: owners / roles, the value owner, and every
smart-contract signer signs for the value owner or a stored owner or is authorized by all signers
after it. -/
theorem deleteScopeVO_accepts_iff (env : Env) (hv : env.valid "" = false) (scope : Scope) (storedVO : Addr)
    (roles : Option (List Role)) (signers : List Addr) :
    validateDeleteScopeVO env scope storedVO roles signers = .ok () ↔
      Spec.deleteScopeValueOwnerOk env storedVO signers = true
        ∧ (Spec.deleteScopeReq scope roles).ok env "DeleteScope" signers = true
        ∧ (Spec.deleteScopeReq scope roles).contractsOk env "DeleteScope" signers
            (Spec.deleteScopeValueOwnerUsed env storedVO signers) = true := by
  unfold validateDeleteScopeVO
  simp only
  rw [thenVO_ok_iff]
  have hchk := deleteScope_checks_accepts_iff env hv scope roles signers
  have hvo := deleteScope_valueOwner_iff env hv storedVO signers
  have hused := smartContractOk_congr_append env "DeleteScope" signers
    (Spec.usedVO (validateScopeValueOwnersSigners env "DeleteScope" storedVO "" signers))
    (usedOf_deleteScope_checks env hv scope roles signers)
  unfold Spec.Req.contractsOk Spec.deleteScopeValueOwnerUsed
  constructor
  · rintro ⟨h1, h2, h3⟩
    exact ⟨(hvo.mp h2).2, hchk.mp h1, hused.symm.trans h3⟩
  · rintro ⟨h2, h1, h3⟩
    exact ⟨hchk.mpr h1, hvo.mpr ⟨valueOwnerSignerAccs_isSome_of_smartContractOk env _ _ signers h3, h2⟩,
      hused.trans h3⟩

theorem deleteScopeVO_smart_contract (env : Env) (hv : env.valid "" = false) (scope : Scope) (storedVO : Addr)
    (roles : Option (List Role)) (signers : List Addr)
    (h : validateDeleteScopeVO env scope storedVO roles signers = .ok ()) :
    Spec.smartContractOk env "DeleteScope"
      (Spec.deleteScopeValueOwnerUsed env storedVO signers ++
        (Spec.deleteScopeReq scope roles).used env "DeleteScope" signers) signers = true :=
  ((deleteScopeVO_accepts_iff env hv scope storedVO roles signers).mp h).2.2

/-! ### the owner endpoints of the message server -/

/-- `AddScopeOwner`, all inputs (no `NoContracts`): accepted with result `after` exactly when … -/
theorem msgAddScopeOwner_accepts_iff (env : Env) (hv : env.valid "" = false) (ex : Scope)
    (new : List Party) (roles : List Role) (signers : List Addr) (after : Scope) :
    msgAddScopeOwner env (some ex) new roles signers = .ok after ↔
      Spec.addOwnersWellFormed env (some ex) new signers = true
        ∧ after = { ex with owners := Spec.ownersAfterAdd ex.owners new }
        ∧ (ex.rollup = false → ∀ p ∈ after.owners, p.optional = false)
        ∧ Spec.rolesPresent after.owners roles = true ∧ Spec.provenanceRoleOk env after.owners = true
        ∧ (Spec.scopeUpdateReq ex roles).ok env "AddScopeOwner" signers = true
        ∧ (Spec.scopeUpdateReq ex roles).contractsOk env "AddScopeOwner" signers [] = true := by
  constructor
  · intro h
    obtain ⟨ex', hex, h1, h2, h3, h4, h5, h6⟩ := msgAddScopeOwner_only_when env hv _ _ _ _ _ h
    cases hex
    refine ⟨h1, h2, h3, h4, h5, h6, ?_⟩
    unfold msgAddScopeOwner at h
    split_ifs at h
    simp only at h
    cases hr : addOwners ex.owners new with
    | none => simp [hr] at h
    | some owners =>
      simp only [hr] at h
      cases hu : validateUpdateScopeOwners env "AddScopeOwner" ex owners roles signers with
      | error e => simp [hu] at h
      | ok u => exact ((updateScopeOwners_accepts_iff env hv _ ex owners roles signers).mp hu).2.2.2.2
  · rintro ⟨hw, rfl, h0, h1, h2, h3, h4⟩
    simp only [Spec.addOwnersWellFormed, Bool.and_eq_true, Bool.not_eq_true', List.all_eq_true,
      bne_iff_ne, ne_eq, List.any_eq_false, beq_iff_eq, not_and] at hw
    obtain ⟨⟨⟨⟨hne, hall⟩, hrep⟩, hs⟩, hnew⟩ := hw
    have hr : addOwners ex.owners new = some (Spec.ownersAfterAdd ex.owners new) :=
      (addOwners_some_iff _ _ _).mpr ⟨fun n hn o ho hh => hnew n hn o ho hh.1 hh.2, rfl⟩
    have hu := (updateScopeOwners_accepts_iff env hv "AddScopeOwner" ex (Spec.ownersAfterAdd ex.owners new)
      roles signers).mpr ⟨h0, h1, h2, h3, h4⟩
    have hbasic := (validatePartiesBasic_iff env new).mpr ⟨hne, hall, hrep⟩
    unfold msgAddScopeOwner
    simp [hbasic, hs, hr, hu]

/-- `DeleteScopeOwner`, all inputs (no `NoContracts`). -/
theorem msgDeleteScopeOwner_accepts_iff (env : Env) (hv : env.valid "" = false) (ex : Scope)
    (addrs : List Addr) (roles : List Role) (signers : List Addr) (after : Scope) :
    msgDeleteScopeOwner env (some ex) addrs roles signers = .ok after ↔
      Spec.removeOwnersWellFormed env (some ex) addrs signers = true
        ∧ after = { ex with owners := Spec.ownersAfterRemove ex.owners addrs }
        ∧ (ex.rollup = false → ∀ p ∈ after.owners, p.optional = false)
        ∧ Spec.rolesPresent after.owners roles = true ∧ Spec.provenanceRoleOk env after.owners = true
        ∧ (Spec.scopeUpdateReq ex roles).ok env "DeleteScopeOwner" signers = true
        ∧ (Spec.scopeUpdateReq ex roles).contractsOk env "DeleteScopeOwner" signers [] = true := by
  constructor
  · intro h
    obtain ⟨ex', hex, h1, h2, h3, h4, h5, h6⟩ := msgDeleteScopeOwner_only_when env hv _ _ _ _ _ h
    cases hex
    refine ⟨h1, h2, h3, h4, h5, h6, ?_⟩
    unfold msgDeleteScopeOwner at h
    split_ifs at h
    simp only at h
    cases hr : removeOwners ex.owners addrs with
    | none => simp [hr] at h
    | some owners =>
      simp only [hr] at h
      split_ifs at h
      cases hu : validateUpdateScopeOwners env "DeleteScopeOwner" ex owners roles signers with
      | error e => simp [hu] at h
      | ok u => exact ((updateScopeOwners_accepts_iff env hv _ ex owners roles signers).mp hu).2.2.2.2
  · rintro ⟨hw, rfl, h0, h1, h2, h3, h4⟩
    simp only [Spec.removeOwnersWellFormed, Bool.and_eq_true, Bool.not_eq_true', List.all_eq_true,
      List.contains_iff_mem] at hw
    obtain ⟨⟨⟨hne, hvalid⟩, hs⟩, hmem, hstay⟩ := hw
    have hr : removeOwners ex.owners addrs = some (Spec.ownersAfterRemove ex.owners addrs) :=
      (removeOwners_some_iff _ _ _).mpr ⟨fun a ha => by simpa using hmem a ha, rfl⟩
    have hu := (updateScopeOwners_accepts_iff env hv "DeleteScopeOwner" ex (Spec.ownersAfterRemove ex.owners addrs)
      roles signers).mpr ⟨h0, h1, h2, h3, h4⟩
    have hb : (addrs.isEmpty || addrs.any (fun a => !env.valid a) || signers.isEmpty) = false := by
      simp only [Bool.or_eq_false_iff, hne, hs, and_true, true_and, List.any_eq_false, Bool.not_eq_true',
        Bool.not_eq_false]
      exact hvalid
    unfold msgDeleteScopeOwner
    simp [hb, hr, hstay, hu]

/-! ### what the message server stores (scope write / deletion / data access) -/

/-- `msgServer.WriteScope` is accepted exactly when `ValidateWriteScope` accepts, and then stores
the message's scope; the value owner becomes the one the message names, if it names one. -/
theorem msgWriteScope_after (env : Env) (stored : Option Scope) (storedVO : Addr) (proposed : Scope)
    (proposedVO : Addr) (specRoles : List Role) (existingSpecRoles : Option (List Role)) (signers : List Addr)
    (after : Scope) (afterVO : Addr) :
    msgWriteScope env stored storedVO proposed proposedVO specRoles existingSpecRoles signers
        = .ok (after, afterVO) ↔
      validateWriteScopeVO env stored storedVO proposed proposedVO specRoles existingSpecRoles signers = .ok ()
        ∧ after = proposed ∧ afterVO = Spec.valueOwnerAfterWrite storedVO proposedVO := by
  unfold msgWriteScope Spec.valueOwnerAfterWrite
  cases validateWriteScopeVO env stored storedVO proposed proposedVO specRoles existingSpecRoles signers with
  | error e => simp
  | ok u =>
    cases u
    constructor
    · intro h
      have := Except.ok.inj h
      exact ⟨rfl, (congrArg Prod.fst this).symm, (congrArg Prod.snd this).symm⟩
    · rintro ⟨_, rfl, rfl⟩; rfl

/-- `msgServer.DeleteScope`: accepted exactly when `ValidateDeleteScope` accepts; nothing is left. -/
theorem msgDeleteScope_after (env : Env) (stored : Scope) (storedVO : Addr) (specRoles : Option (List Role))
    (signers : List Addr) (after : Option Scope) :
    msgDeleteScope env stored storedVO specRoles signers = .ok after ↔
      validateDeleteScopeVO env stored storedVO specRoles signers = .ok () ∧ after = none := by
  unfold msgDeleteScope
  cases validateDeleteScopeVO env stored storedVO specRoles signers with
  | error e => simp
  | ok u =>
    cases u
    constructor
    · intro h; exact ⟨rfl, (Except.ok.inj h).symm⟩
    · rintro ⟨_, rfl⟩; rfl

/-- `msgServer.AddScopeDataAccess` / `DeleteScopeDataAccess`: accepted exactly when the signer check
on the STORED scope accepts; the stored scope keeps owners and rollup flag, its data-access list
is one entry longer / shorter. -/
theorem msgScopeDataAccess_after (env : Env) (mt : MsgType) (stored : Scope) (specRoles : List Role)
    (signers : List Addr) (after : Scope) :
    msgScopeDataAccess env mt stored specRoles signers = .ok after ↔
      validateScopeUpdateSigners env mt stored specRoles signers = .ok ()
        ∧ after = Spec.scopeAfterDataAccess mt stored := by
  unfold msgScopeDataAccess
  cases validateScopeUpdateSigners env mt stored specRoles signers with
  | error e => simp
  | ok u =>
    cases u
    constructor
    · intro h; exact ⟨rfl, (Except.ok.inj h).symm⟩
    · rintro ⟨_, rfl⟩; rfl

theorem scopeAfterDataAccess_keeps_owners (mt : MsgType) (s : Scope) :
    (Spec.scopeAfterDataAccess mt s).owners = s.owners ∧ (Spec.scopeAfterDataAccess mt s).rollup = s.rollup := by
  unfold Spec.scopeAfterDataAccess
  split_ifs <;> exact ⟨rfl, rfl⟩

/-! ### "when every required party signs directly and the required roles are present the write is accepted" -/

/-- scope write (in full): the replaced value owner is covered, the proposed owners carry the
named specification's roles and obey the PROVENANCE rule, every stored owner the rules make
mandatory signs itself and each role of the governing specification has its own stored owner
that signs itself: accepted, provided the smart-contract signers are where they may be. -/
theorem writeScopeVO_all_sign_directly_accepts (env : Env) (hv : env.valid "" = false) (existing : Option Scope)
    (storedVO : Addr) (proposed : Scope) (proposedVO : Addr) (specRoles : List Role)
    (existingSpecRoles : Option (List Role)) (signers : List Addr)
    (hvo : Spec.writeScopeValueOwnerOk env existing storedVO proposedVO signers = true)
    (hroles : Spec.rolesPresent proposed.owners specRoles = true)
    (hprov : Spec.provenanceRoleOk env proposed.owners = true)
    (hdirect : (Spec.writeScopeReqVO existing storedVO proposed proposedVO
      (existingSpecRoles.getD specRoles)).allSignDirectly signers = true)
    (hsc : (Spec.writeScopeReqVO existing storedVO proposed proposedVO
      (existingSpecRoles.getD specRoles)).contractsOk env "WriteScope" signers
        (Spec.writeScopeValueOwnerUsed env existing storedVO proposedVO signers) = true) :
    validateWriteScopeVO env existing storedVO proposed proposedVO specRoles existingSpecRoles signers = .ok () :=
  (writeScopeVO_accepts_iff env hv existing storedVO proposed proposedVO specRoles existingSpecRoles signers).mpr
    ⟨hvo, fun _ => ⟨hroles, hprov⟩, ok_of_allSignDirectly env _ signers _ hdirect, hsc⟩

theorem deleteScopeVO_all_sign_directly_accepts (env : Env) (hv : env.valid "" = false) (scope : Scope)
    (storedVO : Addr) (roles : Option (List Role)) (signers : List Addr)
    (hvo : Spec.deleteScopeValueOwnerOk env storedVO signers = true)
    (hdirect : (Spec.deleteScopeReq scope roles).allSignDirectly signers = true)
    (hsc : (Spec.deleteScopeReq scope roles).contractsOk env "DeleteScope" signers
      (Spec.deleteScopeValueOwnerUsed env storedVO signers) = true) :
    validateDeleteScopeVO env scope storedVO roles signers = .ok () :=
  (deleteScopeVO_accepts_iff env hv scope storedVO roles signers).mpr
    ⟨hvo, ok_of_allSignDirectly env _ signers _ hdirect, hsc⟩

theorem scopeUpdate_all_sign_directly_accepts (env : Env) (hv : env.valid "" = false) (mt : MsgType)
    (existing : Scope) (roles : List Role) (signers : List Addr)
    (hdirect : (Spec.scopeUpdateReq existing roles).allSignDirectly signers = true)
    (hprov : existing.rollup = true → Spec.provenanceRoleOk env existing.owners = true)
    (hsc : (Spec.scopeUpdateReq existing roles).contractsOk env mt signers [] = true) :
    validateScopeUpdateSigners env mt existing roles signers = .ok () :=
  (scopeUpdate_accepts_iff env hv mt existing roles signers).mpr
    ⟨ok_of_allSignDirectly env _ signers _ hdirect, hprov, hsc⟩

theorem updateScopeOwners_all_sign_directly_accepts (env : Env) (hv : env.valid "" = false) (mt : MsgType)
    (existing : Scope) (proposedOwners : List Party) (roles : List Role) (signers : List Addr)
    (hopt : existing.rollup = false → ∀ p ∈ proposedOwners, p.optional = false)
    (hroles : Spec.rolesPresent proposedOwners roles = true)
    (hprov : Spec.provenanceRoleOk env proposedOwners = true)
    (hdirect : (Spec.scopeUpdateReq existing roles).allSignDirectly signers = true)
    (hsc : (Spec.scopeUpdateReq existing roles).contractsOk env mt signers [] = true) :
    validateUpdateScopeOwners env mt existing proposedOwners roles signers = .ok () :=
  (updateScopeOwners_accepts_iff env hv mt existing proposedOwners roles signers).mpr
    ⟨hopt, hroles, hprov, ok_of_allSignDirectly env _ signers _ hdirect, hsc⟩

theorem writeSession_all_sign_directly_accepts (env : Env) (hv : env.valid "" = false) (scope : Scope)
    (existing : Option (List Party)) (proposed : List Party) (roles : List Role) (signers : List Addr)
    (hopt : scope.rollup = false → ∀ p ∈ proposed, p.optional = false)
    (hpres : scope.rollup = true → ∀ p ∈ proposed, ∃ o ∈ scope.owners, p.address = o.address ∧ p.role = o.role)
    (hroles : Spec.rolesPresent proposed roles = true)
    (hprov : Spec.provenanceRoleOk env proposed = true)
    (hprovEx : scope.rollup = true → ∀ ex, existing = some ex → Spec.provenanceRoleOk env ex = true)
    (hdirect : (Spec.writeSessionReq scope existing proposed roles).allSignDirectly signers = true)
    (hsc : (Spec.writeSessionReq scope existing proposed roles).contractsOk env "WriteSession" signers [] = true) :
    validateWriteSession env scope existing proposed roles signers = .ok () :=
  (writeSession_accepts_iff env hv scope existing proposed roles signers).mpr
    ⟨hopt, hpres, hroles, hprov, ok_of_allSignDirectly env _ signers _ hdirect, hprovEx, hsc⟩

theorem writeRecord_all_sign_directly_accepts (env : Env) (hv : env.valid "" = false) (scope : Scope)
    (session : List Party) (oldSession : Option (List Party)) (roles : List Role) (signers : List Addr)
    (hroles : scope.rollup = false → Spec.rolesPresent session roles = true)
    (hprov : scope.rollup = true → Spec.provenanceRoleOk env session = true)
    (hdirect : (Spec.writeRecordReq scope session oldSession roles).allSignDirectly signers = true)
    (hsc : (Spec.writeRecordReq scope session oldSession roles).contractsOk env "WriteRecord" signers [] = true) :
    validateWriteRecord env scope session oldSession roles signers = .ok () :=
  (writeRecord_accepts_iff env hv scope session oldSession roles signers).mpr
    ⟨ok_of_allSignDirectly env _ signers _ hdirect, hroles, hprov, hsc⟩

theorem deleteRecord_all_sign_directly_accepts (env : Env) (hv : env.valid "" = false) (scope : Option Scope)
    (roles : Option (List Role)) (signers : List Addr)
    (hprov : ∀ sc rs, scope = some sc → roles = some rs → sc.rollup = true →
      Spec.provenanceRoleOk env sc.owners = true)
    (hdirect : (Spec.deleteRecordReq scope roles).allSignDirectly signers = true)
    (hsc : (Spec.deleteRecordReq scope roles).contractsOk env "DeleteRecord" signers [] = true) :
    validateDeleteRecord env scope roles signers = .ok () :=
  (deleteRecord_accepts_iff env hv scope roles signers).mpr
    ⟨ok_of_allSignDirectly env _ signers _ hdirect, hprov, fun _ => hsc⟩

/-- the smart-contract hypothesis of the `…_all_sign_directly_accepts` theorems holds whenever
no smart contract signs (all signers decode) -/
theorem contractsOk_of_noContracts (env : Env) (mt : MsgType) (signers extra : List Addr) (req : Spec.Req)
    (h : NoContracts env signers) : req.contractsOk env mt signers extra = true :=
  PvProofs.Lemmas.SignersUsed.contractsOk_of_noContracts env mt signers extra req h

/-! ### non-vacuity: concrete calls WITH smart-contract signers -/

/-- `W`, `V` are smart contracts; `A` has authorized `W` for scope writes. -/
def scEnv : Env :=
  { valid := fun a => a != "", wasm := fun a => a == "W" || a == "V",
    grant := fun g e t => g == "A" && e == "W" && t == "WriteScope" }
/-- a rollup scope owned by `A` (OWNER, required) and the contract `W` (PROVENANCE, optional) -/
def scScope : Scope := { owners := [⟨"A", 5, false⟩, ⟨"W", 8, true⟩], rollup := true }

example : scEnv.valid "" = false := by decide
-- the contract signs first, as an owner; A signs after it: accepted, and the rule holds
example : validateScopeUpdateSigners scEnv "AddScopeDataAccess" scScope [5] ["W", "A"] = .ok () := by decide
example : (Spec.scopeUpdateReq scScope [5]).contractsOk scEnv "AddScopeDataAccess" ["W", "A"] [] = true := by decide
example : (Spec.scopeUpdateReq scScope [5]).allSignDirectly ["W", "A"] = true := by decide
example : Spec.provenanceRoleOk scEnv scScope.owners = true := by decide
-- the contract after an ordinary signer: rejected, although every party is covered
example : validateScopeUpdateSigners scEnv "AddScopeDataAccess" scScope [5] ["A", "W"] ≠ .ok () := by decide
example : (Spec.scopeUpdateReq scScope [5]).ok scEnv "AddScopeDataAccess" ["A", "W"] = true := by decide
example : (Spec.scopeUpdateReq scScope [5]).contractsOk scEnv "AddScopeDataAccess" ["A", "W"] [] = false := by decide
-- a contract that is no party (`V`) is accepted only with authorizations from all later signers
example : validateScopeUpdateSigners scEnv "AddScopeDataAccess" scScope [5] ["V", "A"] ≠ .ok () := by decide
-- the contract `W` stands in for `A` through authz (scope write): accepted without `A` signing
example : validateWriteScopeVO scEnv (some scScope) "" { scScope with other := 1 } "" [5] none ["W"] = .ok () := by
  decide
example : (Spec.writeScopeReqVO (some scScope) "" { scScope with other := 1 } "" [5]).used scEnv "WriteScope" ["W"]
    = ["W", "W"] := by decide
-- value owner `W` (a contract) hands the scope over, signing first and alone
example : validateWriteScopeVO scEnv (some scScope) "W" scScope "D" [5] none ["W"] = .ok () := by decide
example : Spec.writeScopeValueOwnerUsed scEnv (some scScope) "W" "D" ["W"] = ["W"] := by decide
-- sessions / records / deletions with the contract signing
example : validateWriteSession scEnv scScope none [⟨"W", 8, true⟩] [8] ["W", "A"] = .ok () := by decide
example : validateWriteRecord scEnv scScope [⟨"W", 8, true⟩] none [8] ["W", "A"] = .ok () := by decide
example : validateDeleteRecord scEnv (some scScope) (some [5]) ["W", "A"] = .ok () := by decide
example : validateDeleteScopeVO scEnv scScope "W" (some [5]) ["W", "A"] = .ok () := by decide
example : msgDeleteScopeOwner scEnv (some scScope) ["W"] [5] ["W", "A"]
    = .ok { scScope with owners := [⟨"A", 5, false⟩] } := by decide
-- what the message server stores
example : msgWriteScope scEnv (some scScope) "W" scScope "D" [5] none ["W"] = .ok (scScope, "D") := by decide
example : msgScopeDataAccess scEnv "AddScopeDataAccess" scScope [5] ["W", "A"]
    = .ok { scScope with other := 1 } := by decide
example : msgDeleteScope scEnv scScope "W" (some [5]) ["W", "A"] = .ok none := by decide

end PvProofs.C10
