/-
C07 — fact regenerated from the repository source on every run (tools/extract/quarbypass.go),
checked against a hand-written expectation by `decide`: the complete list of places that put the
quarantine bypass (`quarantine.WithBypass`) into a context.  Under that context the quarantine send
restriction hands the coins to the named receiver whether or not it opted in, so these call sites
are exactly the routes excluded from "never credited until it accepts"
(`PvProofs.C07.credited_only_by_acceptance`, hypothesis `op.exchangeBypass = false`).  A new call
site changes the generated file and breaks the theorems here.
-/
import Generated.QuarBypass
import PvModel.QuarSpec

namespace PvProofs.C07Facts
open PvProofs.Facts Generated.QuarBypass PvModel.Quar

/-- how a call site appears in the model -/
inductive Route where
  /-- the payment of a fully accepted record inside `AcceptQuarantinedFunds`: part of `Op.accept`
  (model: `acceptLoop` calls `bankTransfers … true`) — this IS the receiver's acceptance -/
  | release
  /-- a transfer by the exchange module: `Op.bsend` (`Op.exchangeBypass`) -/
  | exchange
  deriving DecidableEq, Repr

/-- the route of each call site, by file and function -/
def routeOf (c : BypassSite) : Option Route :=
  if c.file = "x/quarantine/keeper/keeper.go" ∧ c.fn = "AcceptQuarantinedFunds" then some .release
  else if c.file = "x/exchange/keeper/keeper.go" ∧ c.fn = "DoTransfer" then some .exchange
  else if c.file = "x/exchange/keeper/payments.go" ∧ c.fn = "AcceptPayment" then some .exchange
  else if c.file = "x/exchange/keeper/market.go" ∧ c.fn = "WithdrawMarketFunds" then some .exchange
  else none

/-- **bypass_sites_expected**: the complete list of `quarantine.WithBypass` call sites —
`DoTransfer` (order settlement; hands the context to `SendCoins` or `InputOutputCoinsProv`:
creating the order counts as acceptance), `WithdrawMarketFunds` (only inside
`if toAddr.Equals(admin)`: the market admin withdrawing to itself), `AcceptPayment` (both legs of a
payment the target accepts by this very message and the source created), and the release of a
fully accepted record in `AcceptQuarantinedFunds`. -/
theorem bypass_sites_expected : sites = [
    ⟨"x/exchange/keeper/keeper.go", "DoTransfer", "", ["BlockedAddr", "SendCoins", "InputOutputCoinsProv"]⟩,
    ⟨"x/exchange/keeper/market.go", "WithdrawMarketFunds", "toAddr.Equals(admin)", ["BlockedAddr", "SendCoins"]⟩,
    ⟨"x/exchange/keeper/payments.go", "AcceptPayment", "", ["SendCoins"]⟩,
    ⟨"x/quarantine/keeper/keeper.go", "AcceptQuarantinedFunds", "record.IsFullyAccepted()", ["SendCoins"]⟩] := by
  decide

/-- **every_bypass_is_modelled**: each call site is the release of accepted funds (inside
`Op.accept`) or an exchange-module transfer (`Op.bsend`); nothing else in the repository bypasses
the quarantine restriction. -/
theorem every_bypass_is_modelled : ∀ c ∈ sites, (routeOf c).isSome = true := by decide

/-- the only bypass outside the exchange module is the release, and it is guarded by
`record.IsFullyAccepted()` — paid only once every sender on the record is accepted -/
theorem release_only_when_fully_accepted :
    ∀ c ∈ sites, routeOf c = some .release → c.cond = "record.IsFullyAccepted()" ∧ c.bank = ["SendCoins"] := by
  decide

/-- the exchange routes reach the bank only through `SendCoins` / `InputOutputCoinsProv`
(`PvProofs.C07.bypass_direct`, `bypass_transfers_direct` say what those do under the bypass) -/
theorem exchange_routes_bank_calls :
    ∀ c ∈ sites, routeOf c = some .exchange → ∀ m ∈ c.bank, m ∈ ["BlockedAddr", "SendCoins", "InputOutputCoinsProv"] := by
  decide

/-- the model operation that stands for the exchange routes is the only one flagged as bypass -/
theorem exchangeBypass_is_bsend (op : Op) : op.exchangeBypass = true ↔ ∃ f t c, op = .bsend f t c := by
  cases op <;> simp [Op.exchangeBypass]

end PvProofs.C07Facts
