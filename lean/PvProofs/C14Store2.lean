/-
C14 (store, part 2) — property theorems only:

* §1 the by-value-owner lookup is EXACT (sound and complete) after every history, and what it
  lists after `UpdateValueOwners` / `MigrateValueOwner` (for ALL states and inputs);
* §2 the abstract filters of the store model (`r.id.scope = id`, `p.1 = a`) ARE prefix scans over
  the byte keys of the KV store (`PvModel.MdAddr`), for every injective encoding of the symbolic
  ids into 16-byte uuids / accounts of 1..255 bytes;
* §3 specifications: the integrity clauses the code guarantees (invariant over all histories) and
  the two it does not (negation witnesses).
-/
import PvProofs.Lemmas.MdStore2
import PvProofs.C14
import PvProofs.C14Addr

namespace PvProofs.C14
open PvModel.MdStore PvProofs.MdLemmas

/-! ## 1. the by-value-owner lookup

The value owner of a scope is the holder of the scope's coin in the bank module
(`GetScopeValueOwner` = `DenomOwner`); "the stored content names account `a` as the value owner
of scope `id`" is `getScopeValueOwner s id = some a`. -/

/-- EXACTNESS, after every history: the by-value-owner lookup of account `a` lists scope `id`
iff `a` is the holder `GetScopeValueOwner` reports for `id`. -/
theorem scopesForValueOwner_exact (B : Addr → Addr) (H : String → NameKey) (ops : List Op) (a : Addr) (id : UUID) :
    id ∈ scopesForValueOwner (run B H State.empty ops) a ↔
      getScopeValueOwner (run B H State.empty ops) id = some a := by
  rw [mem_scopesForValueOwner, getScopeValueOwner_iff (refInv_reachable B H ops).1.keys.2.2.2.2.2.2]

/-- COMPLETENESS in the property's words: every stored scope whose value owner is account `a` is
listed for `a` (and, by `scopesForValueOwner_sound`, for no other account), after every history. -/
theorem scopesForValueOwner_complete (B : Addr → Addr) (H : String → NameKey) (ops : List Op) (a : Addr) :
    ∀ sc ∈ (run B H State.empty ops).scopes,
      getScopeValueOwner (run B H State.empty ops) sc.id = some a →
      sc.id ∈ scopesForValueOwner (run B H State.empty ops) a :=
  fun sc _ h => (scopesForValueOwner_exact B H ops a sc.id).mpr h

/-- the lookup lists a scope at most once -/
theorem scopesForValueOwner_nodup (B : Addr → Addr) (H : String → NameKey) (ops : List Op) (a : Addr) :
    (scopesForValueOwner (run B H State.empty ops) a).Nodup := by
  have hn := (refInv_reachable B H ops).1.keys.2.2.2.2.2.2
  unfold scopesForValueOwner
  exact hn.sublist (List.Sublist.map _ List.filter_sublist)

/-- `WriteScope` with a value owner (accepted, on a reachable state): afterwards the scope is
listed for the account the text denotes — or, when the text given IS the canonical text of the
current holder (`fromAddr.String() == newValueOwner`), it stays with that holder. -/
theorem writeScope_lists_value_owner (B : Addr → Addr) (H : String → NameKey) (ops : List Op) (sc : Scope)
    (vo : String) (m : Nat) (st' : State) (hvo : vo ≠ "")
    (hr : writeScope B (run B H State.empty ops) sc vo m = .ok st') :
    sc.id ∈ scopesForValueOwner st'
      (if getScopeValueOwner (run B H State.empty ops) sc.id = some vo then vo else B vo) := by
  generalize hst : run B H State.empty ops = st at hr ⊢
  have hinv : PvModel.MdStore.Inv B st := hst ▸ (refInv_reachable B H ops).1
  have key : st'.valueOwners = (setScopeValueOwner B st sc.id vo).valueOwners := by
    rw [writeScope_vo hr, if_pos hvo]
  rw [mem_scopesForValueOwner, key]
  simp only [setScopeValueOwner, hvo, if_false]
  split
  · rename_i h
    exact (getScopeValueOwner_iff hinv.keys.2.2.2.2.2.2).mp h
  · exact mem_kput.mpr (Or.inl rfl)

/-- `UpdateValueOwners` (accepted; ANY state, any ids, any new owner): afterwards an account `a`
lists scope `id` iff `id` is one of the updated scopes and `a` is the new owner's account, or
`id` is not one of them and `a` listed it before. -/
theorem updateValueOwners_lookup_exact (B : Addr → Addr) (st st' : State) (ids : List UUID) (to a : Addr) (id : UUID)
    (hr : updateValueOwners B st ids to = .ok st') :
    id ∈ scopesForValueOwner st' a ↔
      (id ∈ ids ∧ a = B to) ∨ (id ∉ ids ∧ id ∈ scopesForValueOwner st a) := by
  simp only [updateValueOwners] at hr
  repeat' split at hr
  all_goals first | cases hr | skip
  simp only [mem_scopesForValueOwner, mem_setScopeValueOwners]

/-- … in the property's words: the new owner lists exactly the updated scopes plus what it listed
before; every other account lists what it listed before minus the updated scopes (so the old
owners no longer list them); and every updated scope had a holder before. -/
theorem updateValueOwners_new_and_old_owner (B : Addr → Addr) (st st' : State) (ids : List UUID) (to : Addr)
    (hr : updateValueOwners B st ids to = .ok st') :
    (∀ id, id ∈ scopesForValueOwner st' (B to) ↔ id ∈ ids ∨ id ∈ scopesForValueOwner st (B to)) ∧
    (∀ a, a ≠ B to → ∀ id, id ∈ scopesForValueOwner st' a ↔ id ∈ scopesForValueOwner st a ∧ id ∉ ids) ∧
    (∀ id ∈ ids, ∃ old, getScopeValueOwner st id = some old ∧ old ≠ to) := by
  refine ⟨?_, ?_, ?_⟩
  · intro id
    rw [updateValueOwners_lookup_exact B st st' ids to (B to) id hr]
    by_cases h : id ∈ ids <;> simp [h]
  · intro a ha id
    rw [updateValueOwners_lookup_exact B st st' ids to a id hr]
    by_cases h : id ∈ ids <;> simp [h, ha]
  · intro id hid
    simp only [updateValueOwners] at hr
    repeat' split at hr
    all_goals first | cases hr | skip
    rename_i hnone hsame
    simp only [List.any_eq_true, not_exists, not_and, Bool.not_eq_true, decide_eq_true_eq,
      Option.isNone_eq_false_iff, Option.isSome_iff_exists] at hnone hsame
    cases hg : getScopeValueOwner st id with
    | none =>
      have := hnone id hid
      simp [hg] at this
    | some old =>
      refine ⟨old, rfl, ?_⟩
      intro e
      exact hsame id hid (by rw [hg, e])

/-- `MigrateValueOwner` (accepted; ANY state): afterwards an account `a` lists scope `id` iff the
old owner's account listed it and `a` is the new owner's account, or the old owner's account did
not list it and `a` listed it before. -/
theorem migrateValueOwner_lookup_exact (B : Addr → Addr) (st st' : State) (existing proposed a : Addr) (id : UUID)
    (hr : migrateValueOwner B st existing proposed = .ok st') :
    id ∈ scopesForValueOwner st' a ↔
      (id ∈ scopesForValueOwner st (B existing) ∧ a = B proposed) ∨
      (id ∉ scopesForValueOwner st (B existing) ∧ id ∈ scopesForValueOwner st a) := by
  simp only [migrateValueOwner] at hr
  repeat' split at hr
  all_goals first | cases hr | skip
  simp only [mem_scopesForValueOwner, mem_setScopeValueOwners]
  have : ∀ i, i ∈ (st.valueOwners.filter (fun p => p.2 = B existing)).map (·.1) ↔ (i, B existing) ∈ st.valueOwners :=
    fun i => mem_scopesForValueOwner (s := st) (a := B existing) (id := i)
  simp only [this]

/-- … in the property's words: when the two accounts differ, the old owner lists nothing any
more, the new owner lists exactly what the old one listed plus what it listed itself, and nobody
else's list changes; the old owner did list something. -/
theorem migrateValueOwner_new_and_old_owner (B : Addr → Addr) (st st' : State) (existing proposed : Addr)
    (hn : (st.valueOwners.map (·.1)).Nodup)
    (hr : migrateValueOwner B st existing proposed = .ok st') (hne : B proposed ≠ B existing) :
    scopesForValueOwner st' (B existing) = [] ∧
    (∀ id, id ∈ scopesForValueOwner st' (B proposed) ↔
      id ∈ scopesForValueOwner st (B existing) ∨ id ∈ scopesForValueOwner st (B proposed)) ∧
    (∀ a, a ≠ B existing → a ≠ B proposed → ∀ id,
      id ∈ scopesForValueOwner st' a ↔ id ∈ scopesForValueOwner st a) ∧
    scopesForValueOwner st (B existing) ≠ [] := by
  have hx := fun a id => migrateValueOwner_lookup_exact B st st' existing proposed a id hr
  -- one holder per scope
  have huniq : ∀ id a b, id ∈ scopesForValueOwner st a → id ∈ scopesForValueOwner st b → a = b := by
    intro id a b h1 h2
    rw [mem_scopesForValueOwner] at h1 h2
    have := kget_unique (key := fun p : UUID × Addr => p.1) hn h1 h2 rfl
    exact (Prod.mk.inj this).2
  refine ⟨?_, ?_, ?_, ?_⟩
  · apply List.eq_nil_iff_forall_not_mem.mpr
    intro id hid
    rcases (hx _ _).mp hid with ⟨_, e⟩ | ⟨h1, h2⟩
    · exact hne e.symm
    · exact h1 h2
  · intro id
    rw [hx]
    by_cases h : id ∈ scopesForValueOwner st (B existing) <;> simp [h]
  · intro a ha1 ha2 id
    rw [hx]
    constructor
    · rintro (⟨_, e⟩ | ⟨_, h⟩)
      · exact absurd e ha2
      · exact h
    · intro h
      refine Or.inr ⟨fun h' => ha1 (huniq id _ _ h h'), h⟩
  · simp only [migrateValueOwner] at hr
    repeat' split at hr
    all_goals first | cases hr | skip
    rename_i hemp _
    intro e
    apply hemp
    unfold scopesForValueOwner at e
    simp [e]

/-! non-vacuity of the hypotheses above: accepted `WriteScope` with a value owner,
`UpdateValueOwners` of two scopes held by two accounts, `MigrateValueOwner` between different
accounts, on a reachable state -/

def voHistory : List Op := [
  .writeContractSpec { id := "c1", owners := ["A"] },
  .writeScopeSpec { id := "p1", owners := ["A"], cspecs := ["c1"] },
  .writeScope { id := "s1", spec := "p1", owners := ["A"], dataAccess := [] } "D" 0,
  .writeScope { id := "s2", spec := "p1", owners := ["A"], dataAccess := [] } "E^" 0,
  .writeScope { id := "s3", spec := "p1", owners := ["A"], dataAccess := [] } "F" 0 ]

/-- an operation is accepted (`= .ok st'` for some `st'`) iff `toBool` of its result is true; the
state after it is then what `run` gives for the history extended by it -/
theorem accepted_iff (e : Except Err State) : e.toBool = true ↔ ∃ st', e = .ok st' := by
  cases e <;> simp [Except.toBool]

example : (writeScope witnessB (run witnessB id State.empty (voHistory.take 2))
      { id := "s1", spec := "p1", owners := ["A"], dataAccess := [] } "A^" 0).toBool = true ∧
    scopesForValueOwner (run witnessB id State.empty (voHistory.take 2 ++
      [.writeScope { id := "s1", spec := "p1", owners := ["A"], dataAccess := [] } "A^" 0])) "A" = ["s1"] := by
  decide

example : (updateValueOwners id (run id id State.empty voHistory) ["s1", "s2"] "F").toBool = true ∧
    scopesForValueOwner (run id id State.empty voHistory) "F" = ["s3"] ∧
    scopesForValueOwner (run id id State.empty voHistory) "D" = ["s1"] ∧
    scopesForValueOwner (run id id State.empty (voHistory ++ [.updateValueOwners ["s1", "s2"] "F"])) "F"
      = ["s2", "s1", "s3"] ∧
    scopesForValueOwner (run id id State.empty (voHistory ++ [.updateValueOwners ["s1", "s2"] "F"])) "D" = [] := by
  decide

example : (migrateValueOwner id (run id id State.empty voHistory) "D" "F").toBool = true ∧
    ((run id id State.empty voHistory).valueOwners.map (·.1)).Nodup ∧ id "F" ≠ id "D" ∧
    scopesForValueOwner (run id id State.empty (voHistory ++ [.migrateValueOwner "D" "F"])) "F" = ["s1", "s3"] ∧
    scopesForValueOwner (run id id State.empty (voHistory ++ [.migrateValueOwner "D" "F"])) "D" = [] := by
  decide

/-! ## 2. the abstract filters are prefix scans over the byte keys

The store model selects "the records of scope `id`" by `r.id.scope = id` and "the entries of
account `a`" by `p.1 = a`; the Go code walks the KV store under a byte prefix
(`GetScopeRecordIteratorPrefix`, `GetAddressScopeCacheIteratorPrefix`, …).  Here the symbolic ids
are encoded into the byte keys of `PvModel.MdAddr` and the two are shown to select the same
entries.  A uuid is 16 bytes and an account 1..255 bytes, so no encoding of ALL symbols can be
injective: injectivity is asked only on the symbols that occur (`InjOn … D`). -/

abbrev Bytes := PvModel.MdAddr.Bytes

/-- `store.Iterator(prefix…)`: the keys that lie under a prefix (the order of the store is not
modelled; the stored list's order is kept) -/
def prefixScan (pfx : Bytes) (keys : List Bytes) : List Bytes := keys.filter (fun k => pfx.isPrefixOf k)

/-- distinct symbols of `D` have distinct images -/
def InjOn {α β : Type} (f : α → β) (D : List α) : Prop := ∀ x ∈ D, ∀ y ∈ D, f x = f y → x = y

/-- an encoding of the symbolic identifiers of the store model into bytes: uuids, record-name
hashes (`H name` ↦ the 16 hash bytes) and accounts -/
structure KeyEnc where
  uuid : UUID → Bytes
  name : NameKey → Bytes
  acct : Addr → Bytes

/-- the encoded components have the sizes of the real ones: 16-byte uuids and name hashes,
accounts of 1..255 bytes (`address.LengthPrefix` refuses longer ones) -/
structure KeyEnc.Sized (e : KeyEnc) : Prop where
  uuid : ∀ u, (e.uuid u).length = 16
  name : ∀ k, (e.name k).length = 16
  acct : ∀ a, 0 < (e.acct a).length ∧ (e.acct a).length ≤ 255

namespace KeyEnc
open PvModel
variable (e : KeyEnc)

/-- store keys of the primary entries (the metadata addresses, `MdAddr` constructors) -/
def scopeKey (id : UUID) : Bytes := MdAddr.scopeMetadataAddress (e.uuid id)
def sessionKey (i : SessionId) : Bytes := MdAddr.sessionMetadataAddress (e.uuid i.scope) (e.uuid i.sess)
def recordKey (i : RecordId) : Bytes := MdAddr.Kind.record.byte :: (e.uuid i.scope ++ e.name i.key)
def scopeSpecKey (id : UUID) : Bytes := MdAddr.scopeSpecMetadataAddress (e.uuid id)
def contractSpecKey (id : UUID) : Bytes := MdAddr.contractSpecMetadataAddress (e.uuid id)

/-- `scopeID.ScopeRecordIteratorPrefix()` / `ScopeSessionIteratorPrefix()` (the `MdAddr` model of
the Go functions, applied to the scope's address) -/
def recordIterPrefix (id : UUID) : Bytes := MdAddr.exceptOr (MdAddr.scopeRecordIteratorPrefix (e.scopeKey id)) []
def sessionIterPrefix (id : UUID) : Bytes := MdAddr.exceptOr (MdAddr.scopeSessionIteratorPrefix (e.scopeKey id)) []

/-- `Get…CacheKey(addr, id)` / `Get…CacheIteratorPrefix(addr)` of an index whose first component
is an account (0x17, 0x19, 0x20); `second` encodes the entity id -/
def addrKey (ix : MdAddr.Index) (second : UUID → Bytes) (q : Addr × UUID) : Bytes :=
  (MdAddr.indexKey ix (e.acct q.1) (second q.2)).getD []
def addrIterPrefix (ix : MdAddr.Index) (a : Addr) : Bytes := (MdAddr.iterPrefix ix (e.acct a)).getD []

end KeyEnc

/-- the same for an index whose first component is a specification id (0x11, 0x14) -/
def idKey (ix : PvModel.MdAddr.Index) (first second : UUID → Bytes) (q : UUID × UUID) : Bytes :=
  (PvModel.MdAddr.indexKey ix (first q.1) (second q.2)).getD []
def idIterPrefix (ix : PvModel.MdAddr.Index) (first : UUID → Bytes) (u : UUID) : Bytes :=
  (PvModel.MdAddr.iterPrefix ix (first u)).getD []

section Refinement
open PvModel

/-- a prefix scan over encoded keys is the abstract filter, when "lies under the prefix" and the
abstract predicate agree on the stored entries -/
theorem prefixScan_map {α : Type} (pfx : Bytes) (f : α → Bytes) (p : α → Bool) (l : List α)
    (h : ∀ x ∈ l, pfx.isPrefixOf (f x) = p x) : prefixScan pfx (l.map f) = (l.filter p).map f := by
  unfold prefixScan
  rw [List.filter_map]
  congr 1
  apply List.filter_congr
  intro x hx
  simpa using h x hx

theorem recordIterPrefix_eq (e : KeyEnc) (hs : e.Sized) (id : UUID) :
    e.recordIterPrefix id = MdAddr.Kind.record.byte :: e.uuid id ∧
    e.sessionIterPrefix id = MdAddr.Kind.session.byte :: e.uuid id := by
  obtain ⟨h1, h2⟩ := scope_iterator_prefixes (e.uuid id) (hs.uuid id)
  simp only [KeyEnc.recordIterPrefix, KeyEnc.sessionIterPrefix, KeyEnc.scopeKey, h1, h2, MdAddr.exceptOr, and_self]

/-- a record's store key lies under a scope's record iterator prefix iff it is a record of that
scope (`under_scope_prefix_iff` + injectivity on the scope ids involved) -/
theorem recordKey_under_prefix (e : KeyEnc) (hs : e.Sized) (id : UUID) (i : RecordId)
    (hinj : InjOn e.uuid [id, i.scope]) :
    (e.recordIterPrefix id).isPrefixOf (e.recordKey i) = true ↔ i.scope = id := by
  rw [(recordIterPrefix_eq e hs id).1]
  have hwf : (⟨.record, e.uuid i.scope, e.name i.key⟩ : MdAddr.Parts).WF :=
    ⟨hs.uuid _, by rw [hs.name]; rfl⟩
  have := under_scope_prefix_iff ⟨.record, e.uuid i.scope, e.name i.key⟩ hwf (e.uuid id) (hs.uuid id)
  rw [show e.recordKey i = (⟨.record, e.uuid i.scope, e.name i.key⟩ : MdAddr.Parts).toBytes from rfl, this]
  exact ⟨fun h => hinj _ (by simp) _ (by simp) h, fun h => by rw [h]⟩

theorem sessionKey_under_prefix (e : KeyEnc) (hs : e.Sized) (id : UUID) (i : SessionId)
    (hinj : InjOn e.uuid [id, i.scope]) :
    (e.sessionIterPrefix id).isPrefixOf (e.sessionKey i) = true ↔ i.scope = id := by
  rw [(recordIterPrefix_eq e hs id).2]
  have hwf : (⟨.session, e.uuid i.scope, e.uuid i.sess⟩ : MdAddr.Parts).WF :=
    ⟨hs.uuid _, by rw [hs.uuid]; rfl⟩
  have := under_scope_prefix_iff ⟨.session, e.uuid i.scope, e.uuid i.sess⟩ hwf (e.uuid id) (hs.uuid id)
  rw [show e.sessionKey i = (⟨.session, e.uuid i.scope, e.uuid i.sess⟩ : MdAddr.Parts).toBytes from rfl, this]
  exact ⟨fun h => hinj _ (by simp) _ (by simp) h, fun h => by rw [h]⟩

theorem InjOn.mono {α β : Type} {f : α → β} {D D' : List α} (h : InjOn f D) (hs : ∀ x ∈ D', x ∈ D) : InjOn f D' :=
  fun x hx y hy e => h x (hs x hx) y (hs y hy) e

/-- RECORD WALK OF `RemoveScope` / `sessionHasRecords` / the scope's record query: the prefix scan
of the record keys under the scope's record iterator prefix returns exactly the keys of the records
the abstract filter `r.id.scope = id` selects. -/
theorem recordScan_eq_filter (e : KeyEnc) (hs : e.Sized) (recs : List Record) (id : UUID)
    (hinj : InjOn e.uuid (id :: recs.map (·.id.scope))) :
    prefixScan (e.recordIterPrefix id) (recs.map (fun r => e.recordKey r.id)) =
      (recs.filter (fun r => r.id.scope = id)).map (fun r => e.recordKey r.id) := by
  apply prefixScan_map
  intro r hr
  have := recordKey_under_prefix e hs id r.id (hinj.mono (by
    intro x hx
    simp only [List.mem_cons, List.not_mem_nil, or_false] at hx
    rcases hx with rfl | rfl
    · simp
    · exact List.mem_cons_of_mem _ (List.mem_map.mpr ⟨r, hr, rfl⟩)))
  rw [Bool.eq_iff_iff, this]; simp

/-- the same for the session walk (`ScopeSessionIteratorPrefix`) -/
theorem sessionScan_eq_filter (e : KeyEnc) (hs : e.Sized) (sess : List Session) (id : UUID)
    (hinj : InjOn e.uuid (id :: sess.map (·.id.scope))) :
    prefixScan (e.sessionIterPrefix id) (sess.map (fun x => e.sessionKey x.id)) =
      (sess.filter (fun x => x.id.scope = id)).map (fun x => e.sessionKey x.id) := by
  apply prefixScan_map
  intro r hr
  have := sessionKey_under_prefix e hs id r.id (hinj.mono (by
    intro x hx
    simp only [List.mem_cons, List.not_mem_nil, or_false] at hx
    rcases hx with rfl | rfl
    · simp
    · exact List.mem_cons_of_mem _ (List.mem_map.mpr ⟨r, hr, rfl⟩)))
  rw [Bool.eq_iff_iff, this]; simp

/-- BY-ACCOUNT INDEXES (0x17 address→scope, 0x19 owner→scope spec, 0x20 owner→contract spec): the
prefix scan under `Get…CacheIteratorPrefix(a)`, each key stripped of the prefix (what the
`Iterate…ForAddress/Owner` functions hand to their callback), is exactly the abstract lookup
`(idx.filter (·.1 = a)).map (·.2)`, encoded. -/
theorem addrIndexScan_eq_lookup (e : KeyEnc) (hs : e.Sized) (ix : MdAddr.Index) (hix : ix.lenPrefixed = true)
    (second : UUID → Bytes) (idx : List (Addr × UUID)) (a : Addr) (hinj : InjOn e.acct (a :: idx.map (·.1))) :
    (prefixScan (e.addrIterPrefix ix a) (idx.map (e.addrKey ix second))).map
        (fun k => k.drop (e.addrIterPrefix ix a).length) =
      ((idx.filter (fun q => q.1 = a)).map (·.2)).map second := by
  have key : ∀ q ∈ idx,
      ((e.addrIterPrefix ix a).isPrefixOf (e.addrKey ix second q) = true ↔ q.1 = a) ∧
      (q.1 = a → (e.addrKey ix second q).drop (e.addrIterPrefix ix a).length = second q.2) := by
    intro q hq
    obtain ⟨p, k, hp, hk, hiff, hdrop⟩ :=
      index_key_prefix_iff ix hix (e.acct a) (e.acct q.1) (second q.2) (hs.acct a) (hs.acct q.1)
    simp only [KeyEnc.addrIterPrefix, KeyEnc.addrKey, hp, hk, Option.getD_some]
    refine ⟨hiff.trans ⟨fun h => hinj _ (List.mem_cons_of_mem _ (List.mem_map.mpr ⟨q, hq, rfl⟩)) _
      (List.mem_cons_self ..) h, fun h => by rw [h]⟩, fun h => hdrop (by rw [h])⟩
  rw [prefixScan_map _ _ (fun q => decide (q.1 = a)) idx (by
    intro q hq; rw [Bool.eq_iff_iff, (key q hq).1]; simp)]
  rw [List.map_map, List.map_map]
  apply List.map_congr_left
  intro q hq
  have hqa : q.1 = a := by simpa using (List.mem_filter.mp hq).2
  exact (key q (List.mem_filter.mp hq).1).2 hqa

/-- BY-SPECIFICATION INDEXES (0x11 scope spec→scope, 0x14 contract spec→scope spec; the first
component is a specification address, all of one length): the same. -/
theorem idIndexScan_eq_lookup (ix : MdAddr.Index) (hix : ix.lenPrefixed = false) (first second : UUID → Bytes)
    (hlen : ∀ u v, (first u).length = (first v).length)
    (idx : List (UUID × UUID)) (u : UUID) (hinj : InjOn first (u :: idx.map (·.1))) :
    (prefixScan (idIterPrefix ix first u) (idx.map (idKey ix first second))).map
        (fun k => k.drop (idIterPrefix ix first u).length) =
      ((idx.filter (fun q => q.1 = u)).map (·.2)).map second := by
  have key : ∀ q ∈ idx,
      ((idIterPrefix ix first u).isPrefixOf (idKey ix first second q) = true ↔ q.1 = u) ∧
      (q.1 = u → (idKey ix first second q).drop (idIterPrefix ix first u).length = second q.2) := by
    intro q hq
    obtain ⟨p, k, hp, hk, hiff, hdrop⟩ :=
      index_key_prefix_iff_fixed ix hix (first u) (first q.1) (second q.2) (hlen _ _)
    simp only [idIterPrefix, idKey, hp, hk, Option.getD_some]
    refine ⟨hiff.trans ⟨fun h => hinj _ (List.mem_cons_of_mem _ (List.mem_map.mpr ⟨q, hq, rfl⟩)) _
      (List.mem_cons_self ..) h, fun h => by rw [h]⟩, fun h => hdrop (by rw [h])⟩
  rw [prefixScan_map _ _ (fun q => decide (q.1 = u)) idx (by
    intro q hq; rw [Bool.eq_iff_iff, (key q hq).1]; simp)]
  rw [List.map_map, List.map_map]
  apply List.map_congr_left
  intro q hq
  have hqa : q.1 = u := by simpa using (List.mem_filter.mp hq).2
  exact (key q (List.mem_filter.mp hq).1).2 hqa


/-- what an `Iterate…For…` function hands to its callback: the keys under the prefix, each
stripped of the prefix -/
def scanLookup (pfx : Bytes) (keys : List Bytes) : List Bytes := (prefixScan pfx keys).map (fun k => k.drop pfx.length)

theorem injOn_specKey (e : KeyEnc) (b : UInt8) {D : List UUID} (h : InjOn e.uuid D) :
    InjOn (fun u => b :: e.uuid u) D :=
  fun x hx y hy hxy => h x hx y hy (List.cons.inj hxy).2

/-- ALL FIVE LOOKUPS of any state are prefix scans over the byte keys of their index: the scan
under the iterator prefix of an account / specification returns exactly (the encodings of) what
the abstract lookup of the store model lists. -/
theorem lookups_are_prefix_scans (e : KeyEnc) (hs : e.Sized) (s : State) :
    (∀ a, InjOn e.acct (a :: s.idxAddrScope.map (·.1)) →
      scanLookup (e.addrIterPrefix .addrScope a) (s.idxAddrScope.map (e.addrKey .addrScope e.scopeKey)) =
        (scopesForAddress s a).map e.scopeKey) ∧
    (∀ sp, InjOn e.uuid (sp :: s.idxSpecScope.map (·.1)) →
      scanLookup (idIterPrefix .scopeSpecScope e.scopeSpecKey sp)
          (s.idxSpecScope.map (idKey .scopeSpecScope e.scopeSpecKey e.scopeKey)) =
        (scopesForScopeSpec s sp).map e.scopeKey) ∧
    (∀ a, InjOn e.acct (a :: s.idxAddrScopeSpec.map (·.1)) →
      scanLookup (e.addrIterPrefix .addrScopeSpec a) (s.idxAddrScopeSpec.map (e.addrKey .addrScopeSpec e.scopeSpecKey)) =
        (scopeSpecsForOwner s a).map e.scopeSpecKey) ∧
    (∀ c, InjOn e.uuid (c :: s.idxCSpecScopeSpec.map (·.1)) →
      scanLookup (idIterPrefix .cSpecScopeSpec e.contractSpecKey c)
          (s.idxCSpecScopeSpec.map (idKey .cSpecScopeSpec e.contractSpecKey e.scopeSpecKey)) =
        (scopeSpecsForContractSpec s c).map e.scopeSpecKey) ∧
    (∀ a, InjOn e.acct (a :: s.idxAddrCSpec.map (·.1)) →
      scanLookup (e.addrIterPrefix .addrCSpec a) (s.idxAddrCSpec.map (e.addrKey .addrCSpec e.contractSpecKey)) =
        (contractSpecsForOwner s a).map e.contractSpecKey) := by
  have hlenS : ∀ u v, (e.scopeSpecKey u).length = (e.scopeSpecKey v).length := by
    intro u v; simp [KeyEnc.scopeSpecKey, MdAddr.scopeSpecMetadataAddress, hs.uuid]
  have hlenC : ∀ u v, (e.contractSpecKey u).length = (e.contractSpecKey v).length := by
    intro u v; simp [KeyEnc.contractSpecKey, MdAddr.contractSpecMetadataAddress, hs.uuid]
  refine ⟨?_, ?_, ?_, ?_, ?_⟩
  · intro a hinj
    exact addrIndexScan_eq_lookup e hs .addrScope rfl e.scopeKey s.idxAddrScope a hinj
  · intro sp hinj
    exact idIndexScan_eq_lookup .scopeSpecScope rfl e.scopeSpecKey e.scopeKey hlenS s.idxSpecScope sp
      (injOn_specKey e _ hinj)
  · intro a hinj
    exact addrIndexScan_eq_lookup e hs .addrScopeSpec rfl e.scopeSpecKey s.idxAddrScopeSpec a hinj
  · intro c hinj
    exact idIndexScan_eq_lookup .cSpecScopeSpec rfl e.contractSpecKey e.scopeSpecKey hlenC s.idxCSpecScopeSpec c
      (injOn_specKey e _ hinj)
  · intro a hinj
    exact addrIndexScan_eq_lookup e hs .addrCSpec rfl e.contractSpecKey s.idxAddrCSpec a hinj

/-- "The by-address lookup lists exactly …" as a statement about the prefix scan over the 0x17
keys, after every history: a byte string is handed to the callback of
`IterateScopesForAddress(acct)` iff it is the address of a stored scope one of whose owner /
data-access texts denotes the account. -/
theorem scopesForAddress_scan_exact (B : Addr → Addr) (H : String → NameKey) (ops : List Op) (e : KeyEnc)
    (hs : e.Sized) (acct : Addr)
    (hinj : InjOn e.acct (acct :: (run B H State.empty ops).idxAddrScope.map (·.1))) (k : Bytes) :
    k ∈ scanLookup (e.addrIterPrefix .addrScope acct)
        ((run B H State.empty ops).idxAddrScope.map (e.addrKey .addrScope e.scopeKey)) ↔
      ∃ sc ∈ (run B H State.empty ops).scopes, k = e.scopeKey sc.id ∧
        ∃ a, (a ∈ sc.owners ∨ a ∈ sc.dataAccess) ∧ B a = acct := by
  rw [(lookups_are_prefix_scans e hs _).1 acct hinj, List.mem_map]
  constructor
  · rintro ⟨id, hid, rfl⟩
    obtain ⟨sc, hsc, rfl, h⟩ := (scopesForAddress_exact B H ops acct id).mp hid
    exact ⟨sc, hsc, rfl, h⟩
  · rintro ⟨sc, hsc, rfl, h⟩
    exact ⟨sc.id, (scopesForAddress_exact B H ops acct sc.id).mpr ⟨sc, hsc, rfl, h⟩, rfl⟩

/-- … and the by-specification lookup of scopes over the 0x11 keys. -/
theorem scopesForScopeSpec_scan_exact (B : Addr → Addr) (H : String → NameKey) (ops : List Op) (e : KeyEnc)
    (hs : e.Sized) (sp : UUID)
    (hinj : InjOn e.uuid (sp :: (run B H State.empty ops).idxSpecScope.map (·.1))) (k : Bytes) :
    k ∈ scanLookup (idIterPrefix .scopeSpecScope e.scopeSpecKey sp)
        ((run B H State.empty ops).idxSpecScope.map (idKey .scopeSpecScope e.scopeSpecKey e.scopeKey)) ↔
      ∃ sc ∈ (run B H State.empty ops).scopes, k = e.scopeKey sc.id ∧ sc.spec = sp := by
  rw [(lookups_are_prefix_scans e hs _).2.1 sp hinj, List.mem_map]
  constructor
  · rintro ⟨id, hid, rfl⟩
    obtain ⟨sc, hsc, rfl, h⟩ := (scopesForScopeSpec_exact B H ops sp id).mp hid
    exact ⟨sc, hsc, rfl, h⟩
  · rintro ⟨sc, hsc, rfl, h⟩
    exact ⟨sc.id, (scopesForScopeSpec_exact B H ops sp sc.id).mpr ⟨sc, hsc, rfl, h⟩, rfl⟩

/-- "DELETING A SCOPE REMOVES ALL OF ITS RECORDS AND SESSIONS" over the byte keys
(`deleteScope_removes_everything` through the refinement): after an accepted `DeleteScope` the
record keys (session keys) in the store are exactly the former ones that do NOT lie under the
scope's record (session) iterator prefix — so a scan under either prefix finds nothing, and no
entry of another scope is touched. -/
theorem deleteScope_removes_prefix (B : Addr → Addr) (e : KeyEnc) (hs : e.Sized) (st st' : State) (id : UUID)
    (h : PvModel.MdStore.Inv B st)
    (hinj : InjOn e.uuid (id :: (st.records.map (·.id.scope) ++ st.sessions.map (·.id.scope))))
    (hr : deleteScope B st id = .ok st') :
    (∀ k, k ∈ st'.records.map (fun r => e.recordKey r.id) ↔
      k ∈ st.records.map (fun r => e.recordKey r.id) ∧ (e.recordIterPrefix id).isPrefixOf k = false) ∧
    (∀ k, k ∈ st'.sessions.map (fun x => e.sessionKey x.id) ↔
      k ∈ st.sessions.map (fun x => e.sessionKey x.id) ∧ (e.sessionIterPrefix id).isPrefixOf k = false) ∧
    prefixScan (e.recordIterPrefix id) (st'.records.map (fun r => e.recordKey r.id)) = [] ∧
    prefixScan (e.sessionIterPrefix id) (st'.sessions.map (fun x => e.sessionKey x.id)) = [] := by
  obtain ⟨hrec, hsess⟩ := deleteScope_exact h id hr
  have hpr : ∀ r ∈ st.records, ((e.recordIterPrefix id).isPrefixOf (e.recordKey r.id) = false ↔ r.id.scope ≠ id) := by
    intro r hrm
    have := recordKey_under_prefix e hs id r.id (hinj.mono (by
      intro x hx
      simp only [List.mem_cons, List.not_mem_nil, or_false] at hx
      rcases hx with rfl | rfl
      · simp
      · exact List.mem_cons_of_mem _ (List.mem_append_left _ (List.mem_map.mpr ⟨r, hrm, rfl⟩))))
    rw [ne_eq, ← this, Bool.not_eq_true]
  have hps : ∀ x ∈ st.sessions, ((e.sessionIterPrefix id).isPrefixOf (e.sessionKey x.id) = false ↔ x.id.scope ≠ id) := by
    intro x hxm
    have := sessionKey_under_prefix e hs id x.id (hinj.mono (by
      intro y hy
      simp only [List.mem_cons, List.not_mem_nil, or_false] at hy
      rcases hy with rfl | rfl
      · simp
      · exact List.mem_cons_of_mem _ (List.mem_append_right _ (List.mem_map.mpr ⟨x, hxm, rfl⟩))))
    rw [ne_eq, ← this, Bool.not_eq_true]
  have h1 : ∀ k, k ∈ st'.records.map (fun r => e.recordKey r.id) ↔
      k ∈ st.records.map (fun r => e.recordKey r.id) ∧ (e.recordIterPrefix id).isPrefixOf k = false := by
    intro k
    simp only [List.mem_map]
    constructor
    · rintro ⟨r, hrm, rfl⟩
      obtain ⟨hr1, hr2⟩ := (hrec r).mp hrm
      exact ⟨⟨r, hr1, rfl⟩, (hpr r hr1).mpr hr2⟩
    · rintro ⟨⟨r, hrm, rfl⟩, hp⟩
      exact ⟨r, (hrec r).mpr ⟨hrm, (hpr r hrm).mp hp⟩, rfl⟩
  have h2 : ∀ k, k ∈ st'.sessions.map (fun x => e.sessionKey x.id) ↔
      k ∈ st.sessions.map (fun x => e.sessionKey x.id) ∧ (e.sessionIterPrefix id).isPrefixOf k = false := by
    intro k
    simp only [List.mem_map]
    constructor
    · rintro ⟨r, hrm, rfl⟩
      obtain ⟨hr1, hr2⟩ := (hsess r).mp hrm
      exact ⟨⟨r, hr1, rfl⟩, (hps r hr1).mpr hr2⟩
    · rintro ⟨⟨r, hrm, rfl⟩, hp⟩
      exact ⟨r, (hsess r).mpr ⟨hrm, (hps r hrm).mp hp⟩, rfl⟩
  refine ⟨h1, h2, ?_, ?_⟩
  · apply List.filter_eq_nil_iff.mpr
    intro k hk
    simp [((h1 k).mp hk).2]
  · apply List.filter_eq_nil_iff.mpr
    intro k hk
    simp [((h2 k).mp hk).2]

/-! non-vacuity: an encoding with the right sizes that is injective on the symbols of a history -/

def bytesOf (s : String) : Bytes := s.toList.map (fun c => UInt8.ofNat c.toNat)
/-- pad / cut to 16 bytes; the text itself, cut to 255 bytes (`[0]` for the empty text) -/
def demoEnc : KeyEnc where
  uuid u := (bytesOf u ++ List.replicate 16 0).take 16
  name k := (bytesOf k ++ List.replicate 16 1).take 16
  acct a := if bytesOf a = [] then [0] else (bytesOf a).take 255

theorem demoEnc_sized : demoEnc.Sized where
  uuid u := by simp [demoEnc]
  name k := by simp [demoEnc]
  acct a := by
    simp only [demoEnc]
    split
    · decide
    · rename_i h
      have : 0 < (bytesOf a).length := List.length_pos_iff.mpr h
      simp only [List.length_take]
      omega

example : InjOn demoEnc.acct ("C" :: (run id id State.empty sampleHistory).idxAddrScope.map (·.1)) ∧
    InjOn demoEnc.uuid ("p1" :: (run id id State.empty sampleHistory).idxSpecScope.map (·.1)) ∧
    (scopesForAddress (run id id State.empty sampleHistory) "C").map demoEnc.scopeKey =
      [[0, 115, 49, 0, 0, 0, 0, 0, 0, 0, 0, 0, 0, 0, 0, 0, 0]] := by
  unfold InjOn; decide

example : PvModel.MdStore.Inv id (run id id State.empty sampleHistory) ∧
    InjOn demoEnc.uuid ("s1" :: ((run id id State.empty sampleHistory).records.map (·.id.scope) ++
      (run id id State.empty sampleHistory).sessions.map (·.id.scope))) ∧
    (deleteScope id (run id id State.empty sampleHistory) "s1").toBool = true ∧
    prefixScan (demoEnc.recordIterPrefix "s1")
      ((run id id State.empty sampleHistory).records.map (fun r => demoEnc.recordKey r.id)) ≠ [] :=
  ⟨(refInv_reachable id id sampleHistory).1, by unfold InjOn; decide, by decide, by decide⟩

end Refinement


/-! ## 3. specifications: what the code guarantees, and what it does not

The write-time checks and the removal guards keep three integrity clauses true of every
reachable state (`SpecInv`): a record specification's contract specification exists
(`WriteRecordSpecification` looks it up; `DeleteContractSpecification` deletes its record
specifications first); every contract specification a scope specification lists exists
(`ValidateWriteScopeSpecification` looks up the NEW ids only — the old ones exist by this very
invariant —, `AddContractSpecToScopeSpec` looks it up, `isContractSpecUsed` reads the 0x14 index,
which is exact); a scope's specification exists (`ValidateWriteScope`; `isScopeSpecUsed` reads
the exact 0x11 index).

Two clauses one would expect are NOT kept, and the code says so itself: `isRecordSpecUsed` is
`// TODO: Check for records created from this spec.  return false`, and `isContractSpecUsed`
carries `// TODO: Look for sessions used by this contractSpecID.` — see the `…_witness`
theorems. -/

theorem specInv_empty : SpecInv State.empty := by
  refine ⟨?_, ?_, ?_⟩ <;> simp [State.empty, RecSpecsHaveCSpec, ScopeSpecCSpecsExist, ScopesHaveSpec]

/-- one operation (accepted or rejected) keeps the specification-integrity clauses -/
theorem specInv_step (B : Addr → Addr) (H : String → NameKey) (st : State) (op : Op) (hi : FullInv B st)
    (h : SpecInv st) : SpecInv (stepWith B (removeScope B) H st op) := by
  unfold stepWith
  split
  · rename_i st' hr
    exact applyOp_specInv H hi.1 h op hr
  · exact h

/-- After EVERY history, from any state that satisfies them: every record specification belongs
to an existing contract specification, every contract specification listed by a stored scope
specification exists, and every stored scope's specification exists. -/
theorem specInv_run (B : Addr → Addr) (H : String → NameKey) (st : State) (ops : List Op) (hi : FullInv B st)
    (h : SpecInv st) : SpecInv (run B H st ops) := by
  unfold run runWith
  induction ops generalizing st with
  | nil => exact h
  | cons op t ih => exact ih _ (inv_step B H st op hi) (specInv_step B H st op hi h)

/-- the same from the empty store: every reachable state -/
theorem specInv_reachable (B : Addr → Addr) (H : String → NameKey) (ops : List Op) :
    SpecInv (run B H State.empty ops) :=
  specInv_run B H State.empty ops (inv_empty B) specInv_empty

/-- in the property's words -/
theorem recordSpec_has_contractSpec (B : Addr → Addr) (H : String → NameKey) (ops : List Op) :
    ∀ rs ∈ (run B H State.empty ops).recordSpecs,
      ∃ c ∈ (run B H State.empty ops).contractSpecs, c.id = rs.id.cspec :=
  (specInv_reachable B H ops).1

theorem scopeSpec_lists_existing_contractSpecs (B : Addr → Addr) (H : String → NameKey) (ops : List Op) :
    ∀ sp ∈ (run B H State.empty ops).scopeSpecs, ∀ c ∈ sp.cspecs,
      ∃ cs ∈ (run B H State.empty ops).contractSpecs, cs.id = c :=
  (specInv_reachable B H ops).2

theorem scope_has_scopeSpec (B : Addr → Addr) (H : String → NameKey) (ops : List Op) :
    ∀ sc ∈ (run B H State.empty ops).scopes, ∃ sp ∈ (run B H State.empty ops).scopeSpecs, sp.id = sc.spec :=
  (specInv_reachable B H ops).3

/- "A specification still in use is not removed" — FULL statement (not provable, see the
witnesses below): an accepted Delete{Scope,Contract,Record}Specification removes a specification
that no stored scope (scope spec), no stored scope specification / session / record
specification-in-use (contract spec), no stored record (record spec) refers to.
PROVED PART: the scope-specification guard and the scope-specification half of the
contract-specification guard.  MISSING (refuted by the code): a record specification named by a
stored record, and a contract specification named by a stored session (and by the record
specification of a stored record), can be removed. -/
theorem spec_in_use_not_removed_partial (B : Addr → Addr) (H : String → NameKey) (ops : List Op) (id : UUID)
    (st' : State) :
    (deleteScopeSpecification B (run B H State.empty ops) id = .ok st' →
      ∀ sc ∈ (run B H State.empty ops).scopes, sc.spec ≠ id) ∧
    (deleteContractSpecification B (run B H State.empty ops) id = .ok st' →
      ∀ sp ∈ (run B H State.empty ops).scopeSpecs, id ∉ sp.cspecs) :=
  ⟨fun hr => scopeSpec_in_use_not_removed B _ st' id (refInv_reachable B H ops).1 hr,
   fun hr => contractSpec_in_use_not_removed B _ st' id (refInv_reachable B H ops).1 hr⟩

/-- A record specification in use by a stored record is deleted: write contract spec `c1` with
record spec `n1`, a scope spec, a scope, a session, the record `n1` — then
`DeleteRecordSpecification c1/n1` is ACCEPTED. -/
def recordSpecInUseWitness : List Op := [
  .writeContractSpec { id := "c1", owners := ["A"] },
  .writeRecordSpec "c1" "n1",
  .writeScopeSpec { id := "p1", owners := ["A"], cspecs := ["c1"] },
  .writeScope { id := "s1", spec := "p1", owners := ["A"], dataAccess := [] } "" 0,
  .writeSession { id := ⟨"s1", "x1"⟩, spec := "c1", parties := ["A"], name := "sess" },
  .writeRecord ⟨"s1", "x1"⟩ "n1" none,
  .deleteRecordSpec "c1" "n1" ]

/-- NEGATION WITNESS (the code as it is; `isRecordSpecUsed` answers false): after
`recordSpecInUseWitness`, every step of which is accepted, the stored record `s1/n1` names the
record specification `c1/n1`, which is no longer stored — "every record's record specification
exists" and "a record specification in use is not removed" do not hold. -/
theorem recordSpec_in_use_removed_witness :
    ¬ RecordsHaveRecSpec (run id id State.empty recordSpecInUseWitness) ∧
    (run id id State.empty recordSpecInUseWitness).records.map (fun r => (r.id, r.spec)) =
      [(⟨"s1", "n1"⟩, ⟨"c1", "n1"⟩)] ∧
    (run id id State.empty recordSpecInUseWitness).recordSpecs = [] ∧
    (run id id State.empty (recordSpecInUseWitness.take 6)).recordSpecs.map (·.id) = [⟨"c1", "n1"⟩] ∧
    RecordsHaveRecSpec (run id id State.empty (recordSpecInUseWitness.take 6)) ∧
    (deleteRecordSpecification id (run id id State.empty (recordSpecInUseWitness.take 6)) "c1" "n1").toBool = true := by
  decide

/-- A contract specification in use by a stored session (and, through its record specification,
by a stored record) is deleted: the same store; take `c1` off the scope specification's list
(`DeleteContractSpecFromScopeSpec`, which checks nothing about sessions), then
`DeleteContractSpecification c1` is ACCEPTED and takes the record specification `c1/n1` with it. -/
def contractSpecInUseWitness : List Op := [
  .writeContractSpec { id := "c1", owners := ["A"] },
  .writeRecordSpec "c1" "n1",
  .writeScopeSpec { id := "p1", owners := ["A"], cspecs := ["c1"] },
  .writeScope { id := "s1", spec := "p1", owners := ["A"], dataAccess := [] } "" 0,
  .writeSession { id := ⟨"s1", "x1"⟩, spec := "c1", parties := ["A"], name := "sess" },
  .writeRecord ⟨"s1", "x1"⟩ "n1" none,
  .delCSpecFromScopeSpec "c1" "p1",
  .deleteContractSpec "c1" ]

/-- NEGATION WITNESS (the code as it is; `isContractSpecUsed` does not look at sessions and
`isRecordSpecUsed` answers false): after `contractSpecInUseWitness`, every step of which is
accepted, the stored session `s1/x1` names contract specification `c1` and the stored record
`s1/n1` names record specification `c1/n1`; neither specification is stored any more.  Before the
last step (`DeleteContractSpecification c1`) both clauses hold, and the clauses of `SpecInv`
hold throughout (`specInv_reachable`). -/
theorem contractSpec_in_use_removed_witness :
    ¬ SessionsHaveCSpec (run id id State.empty contractSpecInUseWitness) ∧
    ¬ RecordsHaveRecSpec (run id id State.empty contractSpecInUseWitness) ∧
    (run id id State.empty contractSpecInUseWitness).sessions.map (fun x => (x.id, x.spec)) =
      [(⟨"s1", "x1"⟩, "c1")] ∧
    (run id id State.empty contractSpecInUseWitness).contractSpecs = [] ∧
    (run id id State.empty contractSpecInUseWitness).recordSpecs = [] ∧
    (run id id State.empty contractSpecInUseWitness).scopeSpecs.map (·.cspecs) = [[]] ∧
    SessionsHaveCSpec (run id id State.empty (contractSpecInUseWitness.take 7)) ∧
    RecordsHaveRecSpec (run id id State.empty (contractSpecInUseWitness.take 7)) ∧
    (deleteContractSpecFromScopeSpec id (run id id State.empty (contractSpecInUseWitness.take 6)) "c1" "p1").toBool
      = true ∧
    (deleteContractSpecification id (run id id State.empty (contractSpecInUseWitness.take 7)) "c1").toBool = true := by
  decide

/-- non-vacuity of `SpecInv` and of the guards: on `multiplicityHistory` (C14.lean) the deletion
of the listed contract specification `c1` is refused and all three clauses speak about stored
entries -/
example : (run id id State.empty sampleHistory).recordSpecs.map (·.id) = [⟨"c1", "n1"⟩] ∧
    (run id id State.empty sampleHistory).scopeSpecs.map (·.cspecs) = [["c1"]] ∧
    (run id id State.empty sampleHistory).scopes.map (·.spec) = ["p1"] ∧
    (deleteContractSpecification id (run id id State.empty sampleHistory) "c1").toBool = false ∧
    (deleteScopeSpecification id (run id id State.empty sampleHistory) "p1").toBool = false := by decide

end PvProofs.C14
