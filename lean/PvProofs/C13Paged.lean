/-
C13, Part D — paged ORDER listings end to end, at the gRPC level.

For the three index lookups (`GetMarketOrders`, `GetOwnerOrders`, `GetAssetOrders` — `l.prefixOf`) and
for `GetAllOrders`: a client that follows `next_key`, or advances `offset` by the page size, through
the real query function (`getPageOfOrdersFromIndex` / `getAllOrders`) with ANY `limit` (0 = the
default page size 100), order-type filter, after-order bound and direction, receives exactly
`specOrders` — the list the driver's checker `checkQ` judges the implementation's pages against:
the matching order RECORDS, each once, by ascending (descending) id.

Hypotheses on the store: `IndexInv` (holds after every history, `indexInv_all_histories`),
`KeysNodup` (the store is a map — holds after every history, `keysNodup_all_histories`) and
`NoMaxId` (no order has id MaxUint64, so "after `after_order_id`" means "id greater" for every bound
including MaxUint64 — holds while fewer than 2^64 − 1 orders were created, `noMaxId_all_histories`).
`orders_paged_all_histories` puts the three together for every reachable state.
-/
import PvProofs.Lemmas.ExrecListing
import PvProofs.Lemmas.ExrecAllOrders
import PvProofs.Lemmas.ExrecNodup

namespace PvProofs.C13
open PvModel.Exrec PvProofs.Exrec

/-- **Paged index lookups, key mode, end to end**: `l` = by market / by owner / by asset; any `limit`
(0 included: default 100), direction, order-type string `ty` that parses to `filter`, after-order
bound.  Following `next_key` through `getPageOfOrdersFromIndex` yields exactly `specOrders`. -/
theorem orders_paged_by_key {s : Store} (hinv : IndexInv s) (hnd : KeysNodup s) (hmax : NoMaxId s)
    (l : OrderLookup) (hl : l ≠ .all) (ty : String) (filter : Option Nat) (hty : parseOrderType ty = some filter)
    (limit : Nat) (rev : Bool) (after : UInt64) :
    followKeys (fun req => getPageOfOrdersFromIndex s l.prefixOf req ty after) limit rev
      ((prefixStore s l.prefixOf).length + 1) none = .ok (specOrders s l filter after rev) := by
  have hfun : (fun req => getPageOfOrdersFromIndex s l.prefixOf req ty after) =
      (fun req => mapPage (toOrders s)
        (filteredPaginateAfterOrder (prefixStore s l.prefixOf) req after (indexHit filter))) :=
    funext (fun req => getPage_eq hty)
  rw [hfun, followKeys_map (fun req => filteredPaginateAfterOrder (prefixStore s l.prefixOf) req after (indexHit filter))
      (toOrders s) (toOrders_append s) limit rev _ none,
    followKeys_eq_collect (indexHit filter) _ limit rev after _ none (Or.inl rfl),
    pages_partition_key _ (sorted_prefixStore _ _) _ (effLimit_pos limit) rev after _
      (fun e _ h => indexHit_key_ne_nil filter e h)]
  simp only [mapAll]
  rw [listing_eq_spec hinv hnd hmax l hl]

/-- **Paged index lookups, offset mode, end to end**: requesting offsets `0, n, 2n, …` (`n` = the page
size, 100 for `limit = 0`) while a `next_key` is reported yields the same list. -/
theorem orders_paged_by_offset {s : Store} (hinv : IndexInv s) (hnd : KeysNodup s) (hmax : NoMaxId s)
    (l : OrderLookup) (hl : l ≠ .all) (ty : String) (filter : Option Nat) (hty : parseOrderType ty = some filter)
    (limit : Nat) (rev : Bool) (after : UInt64) :
    followOffsets (fun req => getPageOfOrdersFromIndex s l.prefixOf req ty after) limit rev
      ((prefixStore s l.prefixOf).length + 1) 0 = .ok (specOrders s l filter after rev) := by
  have hfun : (fun req => getPageOfOrdersFromIndex s l.prefixOf req ty after) =
      (fun req => mapPage (toOrders s)
        (filteredPaginateAfterOrder (prefixStore s l.prefixOf) req after (indexHit filter))) :=
    funext (fun req => getPage_eq hty)
  have hlen : ((((firstIter (prefixStore s l.prefixOf) rev after).filter (indexHit filter)).drop 0).length <
      (prefixStore s l.prefixOf).length + 1) := by
    have h1 := firstIter_length_le (prefixStore s l.prefixOf) rev after
    have h2 := List.length_filter_le (indexHit filter) (firstIter (prefixStore s l.prefixOf) rev after)
    simp only [List.drop_zero]
    omega
  rw [hfun, followOffsets_map (fun req => filteredPaginateAfterOrder (prefixStore s l.prefixOf) req after (indexHit filter))
      (toOrders s) (toOrders_append s) limit rev _ 0,
    followOffsets_eq_collect (indexHit filter) _ limit rev after _ 0,
    collectByOffset_from (indexHit filter) _ (effLimit limit) (effLimit_pos limit) rev after
      (fun e _ h => indexHit_key_ne_nil filter e h) _ 0 hlen]
  simp only [mapAll, List.drop_zero]
  rw [listing_eq_spec hinv hnd hmax l hl]

/-- an order type that is neither empty nor starts with `ask` / `bid` (any case) is refused -/
theorem orders_paged_bad_type (s : Store) (pre : Bytes) (req : PageReq) (ty : String) (after : UInt64)
    (hty : parseOrderType ty = none) : getPageOfOrdersFromIndex s pre req ty after = .error .invalid := by
  unfold getPageOfOrdersFromIndex; rw [hty]

/-- non-vacuity: two markets, asks and bids over the denoms `app` ⊂ `apple`, three owners; the by-asset
listing of `app` with limit 0 / 1 / 2, both modes, reverse, a type filter and an after bound — and the
spec lists are non-trivial (the `apple` orders are NOT in the `app` listing). -/
def pagedHistory : List Op :=
  [.mkMarket 0 "a", .mkMarket 0 "b",
   .create ⟨0, false, 1, [65], [97, 112, 112], 6, [117], 12, [120], true, false⟩,
   .create ⟨0, true, 1, [66], [97, 112, 112, 108, 101], 2, [117], 6, [], true, false⟩,
   .create ⟨0, false, 2, [65], [97, 112, 112], 6, [117], 12, [], true, false⟩,
   .create ⟨0, true, 2, [67], [97, 112, 112], 3, [117], 9, [], true, true⟩,
   .cancel 1 [65] false,
   .create ⟨0, true, 1, [66], [97, 112, 112], 1, [117], 9, [], true, false⟩]

example :
    let s := (run init pagedHistory).kv
    (specOrders s (.asset [97, 112, 112]) none 0 false).map (·.id) = [3, 4, 5] ∧
    (specOrders s (.asset [97, 112, 112]) (some 1) 3 true).map (·.id) = [5, 4] ∧
    (specOrders s (.market 1) none 0 false).map (·.id) = [2, 5] ∧
    (specOrders s (.owner [66]) none 0 true).map (·.id) = [5, 2] ∧
    (followKeys (fun req => getPageOfOrdersFromIndex s (OrderLookup.asset [97, 112, 112]).prefixOf req "" 0) 1 false 9 none
      ).toOption.map (·.map (·.id)) = some [3, 4, 5] ∧
    (followOffsets (fun req => getPageOfOrdersFromIndex s (OrderLookup.asset [97, 112, 112]).prefixOf req "" 3) 0 true 9 0
      ).toOption.map (·.map (·.id)) = some [5, 4] ∧
    parseOrderType "" = some none := by
  decide

/-! ### `GetAllOrders` -/

/-- **`GetAllOrders` paged, key mode, end to end**: the SDK's `FilteredPaginate` over the order
records (filter: the key parses) with any `limit` (0 = default) and direction, following `next_key`,
yields every order record once, by ascending (descending) id: `specOrders s .all none 0 rev`. -/
theorem allOrders_paged_by_key {s : Store} (hinv : IndexInv s) (hnd : KeysNodup s) (limit : Nat) (rev : Bool) :
    followKeys (getAllOrders s) limit rev ((prefixStore s prefixOrder).length + 1) none =
      .ok (specOrders s .all none 0 rev) := by
  rw [followKeys_congr (page' := fun req => mapPage recsToOrders
      (filteredPaginateAfterOrder (prefixStore s prefixOrder) req 0 (fun _ => true)))
      (fun req hk => getAllOrders_eq hinv req hk) limit rev _ none (by simp),
    followKeys_map (fun req => filteredPaginateAfterOrder (prefixStore s prefixOrder) req 0 (fun _ => true))
      recsToOrders recsToOrders_append limit rev _ none,
    followKeys_eq_collect (fun _ => true) _ limit rev 0 _ none (Or.inl rfl),
    pages_partition_key _ (sorted_prefixStore _ _) _ (effLimit_pos limit) rev 0 _
      (fun e he _ => by obtain ⟨o, _, rfl⟩ := allScan_entry hinv he; simp [u64Bz])]
  simp only [mapAll, List.filter_true]
  rw [allListing_eq_spec hinv hnd]

/-- **`GetAllOrders` paged, offset mode, end to end.** -/
theorem allOrders_paged_by_offset {s : Store} (hinv : IndexInv s) (hnd : KeysNodup s) (limit : Nat) (rev : Bool) :
    followOffsets (getAllOrders s) limit rev ((prefixStore s prefixOrder).length + 1) 0 =
      .ok (specOrders s .all none 0 rev) := by
  have hlen : ((((firstIter (prefixStore s prefixOrder) rev 0).filter (fun _ => true)).drop 0).length <
      (prefixStore s prefixOrder).length + 1) := by
    have h1 := firstIter_length_le (prefixStore s prefixOrder) rev 0
    simp only [List.drop_zero, List.filter_true]
    omega
  have hne : ∀ e ∈ firstIter (prefixStore s prefixOrder) rev 0, (fun _ : Entry => true) e = true → e.1 ≠ [] := by
    intro e he _
    have hps : e ∈ prefixStore s prefixOrder := by
      rw [firstIter_zero] at he
      cases rev
      · exact he
      · exact List.mem_reverse.mp he
    obtain ⟨o, _, rfl⟩ := allScan_entry hinv hps
    simp [u64Bz]
  rw [followOffsets_congr (page' := fun req => mapPage recsToOrders
      (filteredPaginateAfterOrder (prefixStore s prefixOrder) req 0 (fun _ => true)))
      (fun req hk => getAllOrders_eq hinv req hk) limit rev _ 0,
    followOffsets_map (fun req => filteredPaginateAfterOrder (prefixStore s prefixOrder) req 0 (fun _ => true))
      recsToOrders recsToOrders_append limit rev _ 0,
    followOffsets_eq_collect (fun _ => true) _ limit rev 0 _ 0,
    collectByOffset_from (fun _ => true) _ (effLimit limit) (effLimit_pos limit) rev 0 hne _ 0 hlen]
  simp only [mapAll, List.drop_zero, List.filter_true]
  rw [allListing_eq_spec hinv hnd]

example :
    let s := (run init pagedHistory).kv
    (specOrders s .all none 0 true).map (·.id) = [5, 4, 3, 2] ∧
    (followKeys (getAllOrders s) 3 true 9 none).toOption.map (·.map (·.id)) = some [5, 4, 3, 2] ∧
    (followOffsets (getAllOrders s) 0 false 9 0).toOption.map (·.map (·.id)) = some [2, 3, 4, 5] := by
  decide

/-! ### every reachable state -/

/-- the store stays a map along every history: no key twice in the list (the handlers only use
`Store.set` / `Store.del`) -/
theorem keysNodup_all_histories (ops : List Op) : KeysNodup (run init ops).kv := kn_run ops init kn_init

/-- no order gets the id MaxUint64 while fewer than 2^64 − 1 messages were sent -/
theorem noMaxId_all_histories (ops : List Op) (h : ops.length < 2 ^ 64 - 1) : NoMaxId (run init ops).kv := by
  intro id v hv
  have hc := (order_ids_bounded ops (by omega)) id v hv
  have hl := lastOrderID_run_le ops init inv_init (by rw [lastOrderID_init]; simp; omega)
  rw [lastOrderID_init] at hl
  intro e
  subst e
  have : (18446744073709551615 : UInt64).toNat = 18446744073709551615 := rfl
  simp at hl
  omega

/-- **After ANY history, paging through ANY order listing returns each matching order exactly once, in
order**: by market / owner / asset with any limit (0 = default), type filter, after-order bound and
direction, in key mode and in offset mode; and `GetAllOrders` likewise. -/
theorem orders_paged_all_histories (ops : List Op) (h : ops.length < 2 ^ 64 - 1)
    (l : OrderLookup) (hl : l ≠ .all) (ty : String) (filter : Option Nat) (hty : parseOrderType ty = some filter)
    (limit : Nat) (rev : Bool) (after : UInt64) :
    let s := (run init ops).kv
    followKeys (fun req => getPageOfOrdersFromIndex s l.prefixOf req ty after) limit rev
        ((prefixStore s l.prefixOf).length + 1) none = .ok (specOrders s l filter after rev) ∧
    followOffsets (fun req => getPageOfOrdersFromIndex s l.prefixOf req ty after) limit rev
        ((prefixStore s l.prefixOf).length + 1) 0 = .ok (specOrders s l filter after rev) ∧
    followKeys (getAllOrders s) limit rev ((prefixStore s prefixOrder).length + 1) none =
        .ok (specOrders s .all none 0 rev) ∧
    followOffsets (getAllOrders s) limit rev ((prefixStore s prefixOrder).length + 1) 0 =
        .ok (specOrders s .all none 0 rev) := by
  have hinv := indexInv_all_histories ops (by omega)
  have hnd := keysNodup_all_histories ops
  have hmax := noMaxId_all_histories ops h
  exact ⟨orders_paged_by_key hinv hnd hmax l hl ty filter hty limit rev after,
    orders_paged_by_offset hinv hnd hmax l hl ty filter hty limit rev after,
    allOrders_paged_by_key hinv hnd limit rev, allOrders_paged_by_offset hinv hnd limit rev⟩

end PvProofs.C13
