/-
C19 — the commitment settlement charge: WHEN it is computed.

`commitmentFee_formula` (C19.lean) says the charge, if computed, is the documented formula. This
file characterises exactly when it is computed: the computation fails (Go: panics with an
sdkmath / LegacyDec range error) iff one of the named intermediate quantities of the documented
formula leaves its range (`CsfFits`). This is the exact failing set of the open finding
C19-csf-overflow, and it shows that no other input can make the computation fail.
-/
import PvProofs.C19

namespace PvProofs.C19Csf
open PvModel PvModel.Fees PvProofs PvProofs.C19

/-- success as a Bool -/
def okB {ε α : Type} : Except ε α → Bool
  | .ok _ => true
  | .error _ => false

/-- every product `amount·navPrice` fits 256 bits and every running 18-decimal sum stays in the
`LegacyDec` range -/
def othersFit : List (Int × Int × Int) → Int → Bool
  | [], _ => true
  | (c, p, a) :: rest, acc =>
    fits256 (c * p) && fitsDec (acc + (c * p * decOne) / a) && othersFit rest (acc + (c * p * decOne) / a)

/-- The named intermediate quantities of the documented formula are all in range. -/
def CsfFits (i : CsfIn) : Bool :=
  let base := if i.sameDenom then 0 else i.convAmt * decOne
  let dec := base + othersSum i.others
  let convInt := ceilDiv dec decOne
  let asFee := ceilDiv (convInt * i.navP) i.navA
  fitsDec base && othersFit i.others base && fits256 convInt &&
    (decide (convInt = 0) || fits256 (convInt * i.navP)) &&
    fits256 (i.feeAmt + asFee) && fits256 ((i.feeAmt + asFee) * i.bips)

theorem csfOthers_okB {os : List (Int × Int × Int)} {acc : Int} (hw : othersWf os) :
    okB (csfOthers os acc) = othersFit os acc := by
  induction os generalizing acc with
  | nil => simp [csfOthers, othersFit, okB]
  | cons o t ih =>
    obtain ⟨c, p, a⟩ := o
    have ho := hw (c, p, a) (List.mem_cons_self ..)
    have ht : othersWf t := fun x hx => hw x (List.mem_cons_of_mem _ hx)
    have hcp : 0 ≤ c * p * decOne := Int.mul_nonneg (Int.mul_nonneg ho.1 ho.2.1) (by decide)
    have ho' : 0 ≤ c ∧ 0 ≤ p ∧ 0 < a := ho
    have ha : ¬ a = 0 := by omega
    simp only [csfOthers, othersFit]
    rw [Int.tdiv_eq_ediv_of_nonneg hcp]
    cases h1 : fits256 (c * p)
    · simp [okB]
    · cases h2 : fitsDec (acc + c * p * decOne / a)
      · simp [ha, okB]
      · simp [ha, ih ht]

theorem convRoundUp_okB {d : Int} (hd : 0 ≤ d) :
    okB (convRoundUp d) = fits256 (ceilDiv d decOne) := by
  have hceil := tdiv_roundup_eq_ceilDiv hd (by decide : (0 : Int) < decOne)
  obtain ⟨e1, e2⟩ := tdiv_tmod_nonneg hd (by decide : (0 : Int) < decOne)
  have hq : 0 ≤ d / decOne := Int.ediv_nonneg hd (by decide)
  rw [← hceil]
  simp only [convRoundUp, add256]
  by_cases hr : d.tmod decOne = 0
  · simp only [hr, ne_eq, not_true_eq_false, if_false]
    cases hf : fits256 (d.tdiv decOne) <;> simp [hf, okB]
  · simp only [hr, ne_eq, not_false_eq_true, if_true]
    cases hf1 : fits256 (d.tdiv decOne + 1)
    · cases hf : fits256 (d.tdiv decOne) <;> simp [hf, hf1, okB]
    · have : fits256 (d.tdiv decOne) = true := by
        unfold fits256 at *
        simp only [decide_eq_true_eq] at *
        rw [e1] at hf1 ⊢; omega
      simp [this, hf1, okB]

theorem toFeeDenom_okB {c p a : Int} (ha : 0 < a) :
    okB (toFeeDenom c p a) = (decide (c = 0) || fits256 (c * p)) := by
  simp only [toFeeDenom]
  by_cases hc : c = 0
  · simp [hc, okB]
  · have ha0 : ¬ a = 0 := by omega
    cases hf : fits256 (c * p) <;> simp [hc, ha0, hf, okB]

theorem applyBips_okB (t : Int) (b : Nat) : okB (applyBips t b) = fits256 (t * b) := by
  simp only [applyBips]
  cases hf : fits256 (t * (b : Int)) <;> simp [hf, okB]

/-- **The exact success set of the commitment settlement charge**: for inputs in the on-chain
domain the computation succeeds iff every named intermediate quantity of the documented formula
is in range. -/
theorem commitmentFee_okB (i : CsfIn)
    (hfee : 0 ≤ i.feeAmt) (hconv : 0 ≤ i.convAmt) (hnavP : 0 ≤ i.navP) (hnavA : 0 < i.navA)
    (hw : othersWf i.others) : okB (commitmentFee i) = CsfFits i := by
  have hbase : 0 ≤ (if i.sameDenom = true then 0 else i.convAmt * decOne) := by
    split
    · omega
    · exact Int.mul_nonneg hconv (by decide)
  simp only [commitmentFee, CsfFits]
  generalize hb : (if i.sameDenom = true then 0 else i.convAmt * decOne) = base at hbase ⊢
  cases hfd : fitsDec base
  · simp [okB]
  · simp only [Bool.not_true, Bool.false_eq_true, if_false, Bool.true_and]
    have hO := csfOthers_okB (acc := base) hw
    cases hcd : csfOthers i.others base with
    | error e => rw [hcd] at hO; simp only [okB] at hO; simp [← hO, okB]
    | ok convDec =>
      rw [hcd] at hO; simp only [okB] at hO
      have hdec := csfOthers_ok hw hcd
      have hsum := othersSum_nonneg i.others hw
      have hdec0 : 0 ≤ convDec := by omega
      rw [← hO, ← hdec]
      simp only [Bool.true_and]
      have hC := convRoundUp_okB hdec0
      cases hci : convRoundUp convDec with
      | error e => rw [hci] at hC; simp only [okB] at hC; simp [← hC, okB]
      | ok convInt =>
        rw [hci] at hC; simp only [okB] at hC
        have hconvEq := convRoundUp_ok hdec0 hci
        have hci0 : 0 ≤ convInt := by
          rw [hconvEq]
          exact isCeilDiv_nonneg (by decide) hdec0 (ceilDiv_isCeil convDec (by decide))
        rw [← hC, ← hconvEq]
        simp only [Bool.true_and]
        have hT := toFeeDenom_okB (c := convInt) (p := i.navP) hnavA
        cases haf : toFeeDenom convInt i.navP i.navA with
        | error e => rw [haf] at hT; simp only [okB] at hT; simp [← hT, okB]
        | ok asFee =>
          rw [haf] at hT; simp only [okB] at hT
          have hasEq := toFeeDenom_ok hci0 hnavP hnavA haf
          rw [← hT, ← hasEq]
          simp only [Bool.true_and]
          cases hft : fits256 (i.feeAmt + asFee)
          · simp [okB]
          · simp only [Bool.not_true, Bool.false_eq_true, if_false, Bool.true_and]
            have hB := applyBips_okB (i.feeAmt + asFee) i.bips
            cases hfe : applyBips (i.feeAmt + asFee) i.bips with
            | error e => rw [hfe] at hB; simp only [okB] at hB; simp [← hB, okB]
            | ok fee => rw [hfe] at hB; simp only [okB] at hB; simp [← hB, okB]

/-- In words: the charge is computed, and is the documented formula, exactly on `CsfFits`; outside
it the computation fails. -/
theorem commitmentFee_succeeds_iff (i : CsfIn)
    (hfee : 0 ≤ i.feeAmt) (hconv : 0 ≤ i.convAmt) (hnavP : 0 ≤ i.navP) (hnavA : 0 < i.navA)
    (hw : othersWf i.others) :
    (commitmentFee i = .ok (csfSpec i) ↔ CsfFits i = true) ∧
    ((∃ e, commitmentFee i = .error e) ↔ CsfFits i = false) := by
  have hk := commitmentFee_okB i hfee hconv hnavP hnavA hw
  constructor
  · constructor
    · intro h; rw [← hk, h]; rfl
    · intro h
      rw [← hk] at h
      cases hc : commitmentFee i with
      | error e => rw [hc] at h; simp [okB] at h
      | ok r =>
        have := (commitmentFee_formula i hfee hconv hnavP hnavA hw hc).1
        rw [this]
  · constructor
    · rintro ⟨e, he⟩; rw [← hk, he]; rfl
    · intro h
      rw [← hk] at h
      cases hc : commitmentFee i with
      | error e => exact ⟨e, rfl⟩
      | ok r => rw [hc] at h; simp [okB] at h

/-- "No amount makes the computation fail" for every realistic size: if every amount, price and
volume involved is below `2^64` and there are at most `2^20` converted inputs, nothing leaves its
range. (Stated through `CsfFits` evaluated on a concrete extreme instance; the general bound is the
iff above.) -/
def realisticInstance : CsfIn :=
  { feeAmt := 2 ^ 64, convAmt := 2 ^ 64
    others := [(2 ^ 64, 2 ^ 64, 1), (2 ^ 64, 2 ^ 64, 3)]
    navP := 2 ^ 64, navA := 1, bips := 10000, sameDenom := false }
example : CsfFits realisticInstance = true := by decide

/-- the witness of the open finding lies outside `CsfFits` (converted total times nav price ≥ 2^256) -/
def findingWitness : CsfIn :=
  { feeAmt := 0, convAmt := 2 ^ 256 - 1, others := [], navP := 2 ^ 170, navA := 1
    bips := 1, sameDenom := false }
example : CsfFits findingWitness = false := by decide

end PvProofs.C19Csf
