/-
C10, part 2 — the callers' case split: which parties each endpoint asks to sign.

For every endpoint `X` modelled in `PvModel/Signers.lean` (the signer-relevant part of
`ValidateWriteScope`, `ValidateDeleteScope`, `Validate{Add,Delete}ScopeDataAccess`,
`ValidateUpdateScopeOwners`, `ValidateWriteSession`, `ValidateWriteRecord`,
`ValidateDeleteRecord`):

* `X_only_when` — an accepted call satisfies the documented requirement of 01_concepts.md
  (`Spec.XReq`: all owners/parties without rollup; with rollup all `optional = false`
  parties, a distinct covered party per required role, the previous session's parties when a
  record moves) together with the endpoint's other documented preconditions; for ALL inputs,
  smart-contract signers included;
* `X_iff` — when no smart contract signs, the call is accepted exactly when those
  requirements hold.
The characterisation for ALL inputs (smart-contract rule and the PROVENANCE rule of the stored
lists as conjuncts, no `NoContracts`) is `X_accepts_iff` in `PvProofs/C10SmartContract.lean`.
-/
import PvProofs.Lemmas.SignersCallers

namespace PvProofs.C10
open PvModel.Signers PvProofs.Lemmas.Signers PvProofs.Lemmas.SignersCallers

/-! ### writing / deleting a scope -/

/-- "Writing a Scope", full strength: the roles of the NAMED specification are present in the
proposed owners, the PROVENANCE rule holds for them, and — if the scope exists — with rollup
all `optional = false` existing owners are covered and each role required by the GOVERNING
specification has its own covered existing owner; without rollup (and a change) all existing
owners are covered.  A new scope asks for no signature.
The governing specification is the stored scope's (`existingSpecRoles`: it differs from the
named one and still exists) and otherwise the named one (same id, or the stored one is gone). -/
theorem writeScope_only_when (env : Env) (hv : env.valid "" = false) (existing : Option Scope)
    (proposed : Scope) (specRoles : List Role) (existingSpecRoles : Option (List Role)) (signers : List Addr)
    (h : validateWriteScope env existing proposed specRoles existingSpecRoles signers = .ok ()) :
    Spec.rolesPresent proposed.owners specRoles = true ∧ Spec.provenanceRoleOk env proposed.owners = true
      ∧ (Spec.writeScopeReq existing proposed (existingSpecRoles.getD specRoles)).ok env "WriteScope" signers
          = true := by
  unfold validateWriteScope at h
  simp only [orElse_ok_iff, validateRolesPresent_accepts_iff, validateProvenanceRole_fresh_iff] at h
  obtain ⟨h1, h2, h3⟩ := h
  refine ⟨h1, h2, ?_⟩
  cases existing with
  | none => simp [Spec.writeScopeReq, Spec.Req.ok, Spec.withoutPartiesOk]
  | some ex =>
    simp only at h3
    unfold Spec.writeScopeReq
    by_cases hr : ex.rollup = true
    · simp only [hr, Bool.not_true, Bool.false_eq_true, ↓reduceIte] at h3 ⊢
      have := thenSC_parties_only_when env hv _ _ _ _ _ h3
      simp [Spec.Req.ok, this.1, this.2]
    · simp only [hr, Bool.not_false, ↓reduceIte] at h3 ⊢
      by_cases he : ex.equals proposed = true
      · simp [he, Spec.Req.ok, Spec.withoutPartiesOk]
      · simp only [he, Bool.not_false, Bool.false_eq_true, ↓reduceIte] at h3 ⊢
        have := thenSC_addrs_only_when env hv _ _ _ h3
        rw [withoutPartiesOk_getPartyAddresses] at this
        simpa [Spec.Req.ok] using this

theorem writeScope_iff (env : Env) (hv : env.valid "" = false) (existing : Option Scope)
    (proposed : Scope) (specRoles : List Role) (existingSpecRoles : Option (List Role)) (signers : List Addr)
    (hnc : NoContracts env signers) :
    validateWriteScope env existing proposed specRoles existingSpecRoles signers = .ok () ↔
      Spec.rolesPresent proposed.owners specRoles = true ∧ Spec.provenanceRoleOk env proposed.owners = true
        ∧ (Spec.writeScopeReq existing proposed (existingSpecRoles.getD specRoles)).ok env "WriteScope" signers
            = true := by
  constructor
  · exact writeScope_only_when env hv existing proposed specRoles existingSpecRoles signers
  · rintro ⟨h1, h2, h3⟩
    unfold validateWriteScope
    simp only [orElse_ok_iff, validateRolesPresent_accepts_iff, validateProvenanceRole_fresh_iff]
    refine ⟨h1, h2, ?_⟩
    cases existing with
    | none => simp only; rw [thenSC_of_noContracts env _ signers hnc]; exact ⟨_, rfl⟩
    | some ex =>
      simp only
      unfold Spec.writeScopeReq at h3
      by_cases hr : ex.rollup = true
      · simp only [hr, Bool.not_true, Bool.false_eq_true, ↓reduceIte] at h3 ⊢
        rw [thenSC_of_noContracts env _ signers hnc, validateAllRequiredPartiesSigned_accepts_iff env hv]
        simpa [Spec.Req.ok] using h3
      · simp only [hr, Bool.not_false, ↓reduceIte] at h3 ⊢
        by_cases he : ex.equals proposed = true
        · simp only [he, Bool.not_true, Bool.false_eq_true, ↓reduceIte]
          rw [thenSC_of_noContracts env _ signers hnc]; exact ⟨_, rfl⟩
        · simp only [he, Bool.not_false, Bool.false_eq_true, ↓reduceIte] at h3 ⊢
          rw [thenSC_of_noContracts env _ signers hnc, accepts_allRequiredSigned_iff env hv,
            withoutPartiesOk_getPartyAddresses]
          simpa [Spec.Req.ok] using h3

/-- The stored rollup scope of the witness: `A` OWNER and `B` SERVICER, both optional; its
specification requires an OWNER. -/
def swapExisting : Scope := { owners := [⟨"A", 5, true⟩, ⟨"B", 2, true⟩], rollup := true }
/-- What `B` proposes: itself as the only owner, under another specification (`other` differs)
that requires a SERVICER. -/
def swapProposed : Scope := { owners := [⟨"B", 2, true⟩], rollup := true, other := 1000 }

/-- HISTORICAL DEFECT WITNESS (C10-scope-spec-swap, fixed by commit 89425229f), about the
pre-fix rule `validateWriteScopePreFix`: signed by `B` alone, the update was rejected under
the stored scope's specification, but the same signer rewrote the scope — dropping `A` — by
naming a specification that requires only its own role, although the documented requirement
(an OWNER of the existing scope signs) is not met. -/
theorem writeScope_spec_swap_accepted_before_fix :
    validateWriteScopePreFix exEnv (some swapExisting) swapExisting [5] ["B"] ≠ .ok ()
    ∧ validateWriteScopePreFix exEnv (some swapExisting) swapProposed [2] ["B"] = .ok ()
    ∧ (Spec.writeScopeReq (some swapExisting) swapProposed [5]).ok exEnv "WriteScope" ["B"] = false := by
  decide

/-- The same call on the current code (the stored scope's specification requires OWNER and is
found) is rejected; with `A`'s signature it is accepted. -/
theorem writeScope_spec_swap_rejected :
    validateWriteScope exEnv (some swapExisting) swapProposed [2] (some [5]) ["B"] ≠ .ok ()
    ∧ validateWriteScope exEnv (some swapExisting) swapProposed [2] (some [5]) ["A", "B"] = .ok () := by
  decide

/-- "Deleting a Scope" -/
theorem deleteScope_only_when (env : Env) (hv : env.valid "" = false) (scope : Scope)
    (roles : Option (List Role)) (signers : List Addr)
    (h : validateDeleteScope env scope roles signers = .ok ()) :
    (Spec.deleteScopeReq scope roles).ok env "DeleteScope" signers = true := by
  unfold validateDeleteScope at h
  unfold Spec.deleteScopeReq
  by_cases hr : scope.rollup = true
  · simp only [hr, Bool.not_true, Bool.false_eq_true, ↓reduceIte] at h ⊢
    cases roles with
    | none =>
      simp only at h ⊢
      have := thenSC_addrs_only_when env hv _ _ _ h
      rw [getRequiredPartyAddresses, withoutPartiesOk_getPartyAddresses] at this
      simpa [Spec.Req.ok] using this
    | some rs =>
      simp only at h ⊢
      have := thenSC_parties_only_when env hv _ _ _ _ _ h
      simp [Spec.Req.ok, this.1, this.2]
  · simp only [hr, Bool.not_false, ↓reduceIte] at h ⊢
    have := thenSC_addrs_only_when env hv _ _ _ h
    rw [withoutPartiesOk_getPartyAddresses] at this
    simpa [Spec.Req.ok] using this

theorem deleteScope_iff (env : Env) (hv : env.valid "" = false) (scope : Scope)
    (roles : Option (List Role)) (signers : List Addr) (hnc : NoContracts env signers) :
    validateDeleteScope env scope roles signers = .ok () ↔
      (Spec.deleteScopeReq scope roles).ok env "DeleteScope" signers = true := by
  constructor
  · exact deleteScope_only_when env hv scope roles signers
  · intro h
    unfold validateDeleteScope
    unfold Spec.deleteScopeReq at h
    by_cases hr : scope.rollup = true
    · simp only [hr, Bool.not_true, Bool.false_eq_true, ↓reduceIte] at h ⊢
      cases roles with
      | none =>
        simp only at h ⊢
        rw [thenSC_of_noContracts env _ signers hnc, accepts_allRequiredSigned_iff env hv,
          getRequiredPartyAddresses, withoutPartiesOk_getPartyAddresses]
        simpa [Spec.Req.ok] using h
      | some rs =>
        simp only at h ⊢
        rw [thenSC_of_noContracts env _ signers hnc, validateAllRequiredPartiesSigned_accepts_iff env hv]
        simpa [Spec.Req.ok] using h
    · simp only [hr, Bool.not_false, ↓reduceIte] at h ⊢
      rw [thenSC_of_noContracts env _ signers hnc, accepts_allRequiredSigned_iff env hv,
        withoutPartiesOk_getPartyAddresses]
      simpa [Spec.Req.ok] using h

/-- adding / deleting scope data access -/
theorem scopeUpdate_only_when (env : Env) (hv : env.valid "" = false) (mt : MsgType) (existing : Scope)
    (roles : List Role) (signers : List Addr)
    (h : validateScopeUpdateSigners env mt existing roles signers = .ok ()) :
    (Spec.scopeUpdateReq existing roles).ok env mt signers = true := by
  unfold validateScopeUpdateSigners at h
  unfold Spec.scopeUpdateReq
  by_cases hr : existing.rollup = true
  · simp only [hr, Bool.not_true, Bool.false_eq_true, ↓reduceIte] at h ⊢
    have := with_only_when env hv _ _ _ _ _ h
    simp [Spec.Req.ok, this.1, this.2.1]
  · simp only [hr, Bool.not_false, ↓reduceIte] at h ⊢
    have := without_only_when env hv _ _ _ h
    rw [withoutPartiesOk_getPartyAddresses] at this
    simpa [Spec.Req.ok] using this

theorem scopeUpdate_iff (env : Env) (hv : env.valid "" = false) (mt : MsgType) (existing : Scope)
    (roles : List Role) (signers : List Addr) (hnc : NoContracts env signers) :
    validateScopeUpdateSigners env mt existing roles signers = .ok () ↔
      (Spec.scopeUpdateReq existing roles).ok env mt signers = true
        ∧ (existing.rollup = true → Spec.provenanceRoleOk env existing.owners = true) := by
  unfold validateScopeUpdateSigners Spec.scopeUpdateReq
  by_cases hr : existing.rollup = true
  · simp only [hr, Bool.not_true, Bool.false_eq_true, ↓reduceIte, true_implies]
    rw [with_iff env hv _ _ _ _ _ hnc]
    simp [Spec.Req.ok, and_assoc]
  · simp only [hr, Bool.not_false, ↓reduceIte, false_implies, and_true]
    rw [without_iff env hv _ _ _ hnc, withoutPartiesOk_getPartyAddresses]
    simp [Spec.Req.ok]

/-- adding / deleting scope owners -/
theorem updateScopeOwners_only_when (env : Env) (hv : env.valid "" = false) (mt : MsgType) (existing : Scope)
    (proposedOwners : List Party) (roles : List Role) (signers : List Addr)
    (h : validateUpdateScopeOwners env mt existing proposedOwners roles signers = .ok ()) :
    (existing.rollup = false → ∀ p ∈ proposedOwners, p.optional = false)
      ∧ Spec.rolesPresent proposedOwners roles = true ∧ Spec.provenanceRoleOk env proposedOwners = true
      ∧ (Spec.scopeUpdateReq existing roles).ok env mt signers = true := by
  unfold validateUpdateScopeOwners at h
  simp only [orElse_ok_iff, validateRolesPresent_accepts_iff, validateProvenanceRole_fresh_iff,
    validateOptionalParties_none_iff] at h
  obtain ⟨h0, h1, h2, h3⟩ := h
  refine ⟨h0, h1, h2, ?_⟩
  unfold Spec.scopeUpdateReq
  by_cases hr : existing.rollup = true
  · simp only [hr, Bool.not_true, Bool.false_eq_true, ↓reduceIte] at h3 ⊢
    have := thenSC_parties_only_when env hv _ _ _ _ _ h3
    simp [Spec.Req.ok, this.1, this.2]
  · simp only [hr, Bool.not_false, ↓reduceIte] at h3 ⊢
    have := without_only_when env hv _ _ _ h3
    rw [withoutPartiesOk_getPartyAddresses] at this
    simpa [Spec.Req.ok] using this

theorem updateScopeOwners_iff (env : Env) (hv : env.valid "" = false) (mt : MsgType) (existing : Scope)
    (proposedOwners : List Party) (roles : List Role) (signers : List Addr) (hnc : NoContracts env signers) :
    validateUpdateScopeOwners env mt existing proposedOwners roles signers = .ok () ↔
      (existing.rollup = false → ∀ p ∈ proposedOwners, p.optional = false)
        ∧ Spec.rolesPresent proposedOwners roles = true ∧ Spec.provenanceRoleOk env proposedOwners = true
        ∧ (Spec.scopeUpdateReq existing roles).ok env mt signers = true := by
  constructor
  · exact updateScopeOwners_only_when env hv mt existing proposedOwners roles signers
  · rintro ⟨h0, h1, h2, h3⟩
    unfold validateUpdateScopeOwners
    simp only [orElse_ok_iff, validateRolesPresent_accepts_iff, validateProvenanceRole_fresh_iff,
      validateOptionalParties_none_iff]
    refine ⟨h0, h1, h2, ?_⟩
    unfold Spec.scopeUpdateReq at h3
    by_cases hr : existing.rollup = true
    · simp only [hr, Bool.not_true, Bool.false_eq_true, ↓reduceIte] at h3 ⊢
      rw [thenSC_of_noContracts env _ signers hnc, validateAllRequiredPartiesSigned_accepts_iff env hv]
      simpa [Spec.Req.ok] using h3
    · simp only [hr, Bool.not_false, ↓reduceIte] at h3 ⊢
      rw [without_iff env hv _ _ _ hnc, withoutPartiesOk_getPartyAddresses]
      simpa [Spec.Req.ok] using h3

/-! ### writing a session -/

/-- "Writing a Session": without rollup all scope owners; with rollup all `optional = false`
scope owners (and existing session parties), the proposed parties are scope owners, and each
role of the contract spec has its own covered party in the proposed (new) / existing session. -/
theorem writeSession_only_when (env : Env) (hv : env.valid "" = false) (scope : Scope)
    (existing : Option (List Party)) (proposed : List Party) (roles : List Role) (signers : List Addr)
    (h : validateWriteSession env scope existing proposed roles signers = .ok ()) :
    (scope.rollup = false → ∀ p ∈ proposed, p.optional = false)
      ∧ (scope.rollup = true → ∀ p ∈ proposed, ∃ o ∈ scope.owners, p.address = o.address ∧ p.role = o.role)
      ∧ Spec.rolesPresent proposed roles = true ∧ Spec.provenanceRoleOk env proposed = true
      ∧ (Spec.writeSessionReq scope existing proposed roles).ok env "WriteSession" signers = true := by
  unfold validateWriteSession at h
  simp only [orElse_ok_iff, validateOptionalParties_none_iff] at h
  obtain ⟨h0, h⟩ := h
  unfold Spec.writeSessionReq
  by_cases hr : scope.rollup = true
  · simp only [hr, Bool.not_true, Bool.false_eq_true, ↓reduceIte, orElse_ok_iff,
      validatePartiesArePresent_none_iff] at h ⊢
    obtain ⟨hp, h⟩ := h
    cases existing with
    | some ex =>
      simp only [orElse_ok_iff, validateRolesPresent_accepts_iff, validateProvenanceRole_fresh_iff] at h
      obtain ⟨h1, h2, h3⟩ := h
      have := with_only_when env hv _ _ _ _ _ h3
      rw [requiredCovered_append] at this
      simp only [Bool.and_eq_true] at this
      refine ⟨by simp, fun _ => hp, h1, h2, ?_⟩
      simp [Spec.Req.ok, requiredCovered_append, this.1.1, this.1.2, this.2.1]
    | none =>
      simp only at h
      have := with_only_when env hv _ _ _ _ _ h
      refine ⟨by simp, fun _ => hp, ?_, this.2.2, ?_⟩
      · -- the covered parties per role are in particular present
        unfold Spec.rolesPresent
        rw [List.all_eq_true]
        intro r hrr
        have hc := (List.all_eq_true.mp this.2.1) r hrr
        simp only [decide_eq_true_eq] at hc ⊢
        refine Nat.le_trans hc ?_
        unfold Spec.coveredWithRole Spec.withRole
        rw [← List.countP_eq_length_filter, ← List.countP_eq_length_filter]
        apply List.countP_mono_left
        intro k _ hk
        simp only [Bool.and_eq_true] at hk
        exact hk.1
      · simp [Spec.Req.ok, this.1, this.2.1]
  · simp only [hr, Bool.not_false, ↓reduceIte, orElse_ok_iff, validateRolesPresent_accepts_iff,
      validateProvenanceRole_fresh_iff] at h ⊢
    obtain ⟨h1, h2, h3⟩ := h
    have := without_only_when env hv _ _ _ h3
    rw [withoutPartiesOk_getPartyAddresses] at this
    have hr' : scope.rollup = false := by simpa using hr
    exact ⟨fun _ => h0 hr', by simp [hr'], h1, h2, by simpa [Spec.Req.ok] using this⟩

theorem writeSession_iff (env : Env) (hv : env.valid "" = false) (scope : Scope)
    (existing : Option (List Party)) (proposed : List Party) (roles : List Role) (signers : List Addr)
    (hnc : NoContracts env signers) :
    validateWriteSession env scope existing proposed roles signers = .ok () ↔
      (scope.rollup = false → ∀ p ∈ proposed, p.optional = false)
        ∧ (scope.rollup = true → ∀ p ∈ proposed, ∃ o ∈ scope.owners, p.address = o.address ∧ p.role = o.role)
        ∧ Spec.rolesPresent proposed roles = true ∧ Spec.provenanceRoleOk env proposed = true
        ∧ (Spec.writeSessionReq scope existing proposed roles).ok env "WriteSession" signers = true
        ∧ (scope.rollup = true → ∀ ex, existing = some ex → Spec.provenanceRoleOk env ex = true) := by
  constructor
  · intro h
    obtain ⟨h1, h2, h3, h4, h5⟩ := writeSession_only_when env hv scope existing proposed roles signers h
    refine ⟨h1, h2, h3, h4, h5, ?_⟩
    intro hr ex hex
    subst hex
    unfold validateWriteSession at h
    simp only [hr, Bool.not_true, Bool.false_eq_true, ↓reduceIte, orElse_ok_iff] at h
    exact (with_only_when env hv _ _ _ _ _ h.2.2.2.2).2.2
  · rintro ⟨h0, hp, h1, h2, h3, h4⟩
    unfold validateWriteSession
    unfold Spec.writeSessionReq at h3
    simp only [orElse_ok_iff, validateOptionalParties_none_iff]
    refine ⟨h0, ?_⟩
    by_cases hr : scope.rollup = true
    · simp only [hr, Bool.not_true, Bool.false_eq_true, ↓reduceIte, orElse_ok_iff,
        validatePartiesArePresent_none_iff] at h3 ⊢
      refine ⟨hp hr, ?_⟩
      cases existing with
      | some ex =>
        simp only [orElse_ok_iff, validateRolesPresent_accepts_iff, validateProvenanceRole_fresh_iff]
        refine ⟨h1, h2, ?_⟩
        rw [with_iff env hv _ _ _ _ _ hnc, requiredCovered_append]
        simp only [Spec.Req.ok, requiredCovered_append, Bool.and_eq_true] at h3
        simp [h3.1.1, h3.1.2, h3.2, h4 hr ex rfl]
      | none =>
        simp only at h3 ⊢
        rw [with_iff env hv _ _ _ _ _ hnc]
        simp only [Spec.Req.ok, Bool.and_eq_true] at h3
        exact ⟨h3.1, h3.2, h2⟩
    · simp only [hr, Bool.not_false, ↓reduceIte, orElse_ok_iff, validateRolesPresent_accepts_iff,
        validateProvenanceRole_fresh_iff] at h3 ⊢
      refine ⟨h1, h2, ?_⟩
      rw [without_iff env hv _ _ _ hnc, withoutPartiesOk_getPartyAddresses]
      simpa [Spec.Req.ok] using h3

/-! ### writing / deleting a record -/

/-- "Writing a Record": without rollup all session parties, and all previous-session parties
when the record moves; with rollup all `optional = false` scope owners, session parties and
previous-session parties, and each role of the record spec has its own covered session party. -/
theorem writeRecord_only_when (env : Env) (hv : env.valid "" = false) (scope : Scope)
    (session : List Party) (oldSession : Option (List Party)) (roles : List Role) (signers : List Addr)
    (h : validateWriteRecord env scope session oldSession roles signers = .ok ()) :
    (Spec.writeRecordReq scope session oldSession roles).ok env "WriteRecord" signers = true
      ∧ (scope.rollup = false → Spec.rolesPresent session roles = true) := by
  unfold validateWriteRecord at h
  unfold Spec.writeRecordReq
  by_cases hr : scope.rollup = true
  · simp only [hr, Bool.not_true, Bool.false_eq_true, ↓reduceIte] at h ⊢
    have := with_only_when env hv _ _ _ _ _ h
    have t1 := this.1
    simp only [List.append_assoc] at t1
    simp [Spec.Req.ok, t1, this.2.1]
  · simp only [hr, Bool.not_false, ↓reduceIte, orElse_ok_iff, validateRolesPresent_accepts_iff] at h ⊢
    obtain ⟨h1, h2⟩ := h
    have := without_only_when env hv _ _ _ h2
    rw [writeRecord_addrs_congr] at this
    exact ⟨by simpa [Spec.Req.ok] using this, fun _ => h1⟩

theorem writeRecord_iff (env : Env) (hv : env.valid "" = false) (scope : Scope)
    (session : List Party) (oldSession : Option (List Party)) (roles : List Role) (signers : List Addr)
    (hnc : NoContracts env signers) :
    validateWriteRecord env scope session oldSession roles signers = .ok () ↔
      (Spec.writeRecordReq scope session oldSession roles).ok env "WriteRecord" signers = true
        ∧ (scope.rollup = false → Spec.rolesPresent session roles = true)
        ∧ (scope.rollup = true → Spec.provenanceRoleOk env session = true) := by
  unfold validateWriteRecord Spec.writeRecordReq
  by_cases hr : scope.rollup = true
  · simp only [hr, Bool.not_true, Bool.false_eq_true, ↓reduceIte, false_implies, true_implies, true_and]
    rw [with_iff env hv _ _ _ _ _ hnc]
    simp [Spec.Req.ok, and_assoc]
  · simp only [hr, Bool.not_false, ↓reduceIte, orElse_ok_iff, validateRolesPresent_accepts_iff,
      false_implies, and_true]
    rw [without_iff env hv _ _ _ hnc, writeRecord_addrs_congr]
    have hr' : scope.rollup = false := by simpa using hr
    simp [Spec.Req.ok, hr', and_comm]

/-- A record that moves between sessions needs the previous session's parties as well: if a
non-optional party of the old session (rollup) / any party of the old session (no rollup) is
neither a signer nor has granted a signer, the write is rejected. -/
theorem writeRecord_moving_needs_old_session_parties (env : Env) (hv : env.valid "" = false) (scope : Scope)
    (session old : List Party) (roles : List Role) (signers : List Addr) (p : Party) (hp : p ∈ old)
    (hreq : scope.rollup = true → p.optional = false)
    (hunc : Spec.covered env "WriteRecord" signers p.address = false) :
    validateWriteRecord env scope session (some old) roles signers ≠ .ok () := by
  intro h
  have := (writeRecord_only_when env hv scope session (some old) roles signers h).1
  unfold Spec.writeRecordReq at this
  by_cases hr : scope.rollup = true
  · simp only [hr, ↓reduceIte, Spec.Req.ok, Bool.and_eq_true] at this
    have hc := (requiredCovered_iff env _ signers _).mp this.1 p (by simp [hp]) (hreq hr)
    rw [hunc] at hc; cases hc
  · simp only [hr, Bool.false_eq_true, ↓reduceIte, Spec.Req.ok, Spec.withoutPartiesOk, List.all_eq_true] at this
    have hc := this p.address (by simp [Spec.addresses]; exact Or.inr ⟨p, hp, rfl⟩)
    rw [hunc] at hc; cases hc

/-- "Deleting a Record" -/
theorem deleteRecord_only_when (env : Env) (hv : env.valid "" = false) (scope : Option Scope)
    (roles : Option (List Role)) (signers : List Addr)
    (h : validateDeleteRecord env scope roles signers = .ok ()) :
    (Spec.deleteRecordReq scope roles).ok env "DeleteRecord" signers = true := by
  unfold validateDeleteRecord at h
  unfold Spec.deleteRecordReq
  cases scope with
  | none => simp [Spec.Req.ok, Spec.withoutPartiesOk]
  | some sc =>
    simp only at h ⊢
    by_cases hr : sc.rollup = true
    · simp only [hr, Bool.not_true, Bool.false_eq_true, ↓reduceIte] at h ⊢
      cases roles with
      | none =>
        simp only at h ⊢
        have := without_only_when env hv _ _ _ h
        rw [getRequiredPartyAddresses, withoutPartiesOk_getPartyAddresses] at this
        simpa [Spec.Req.ok] using this
      | some rs =>
        simp only at h ⊢
        have := with_only_when env hv _ _ _ _ _ h
        simp [Spec.Req.ok, this.1, this.2.1]
    · simp only [hr, Bool.not_false, ↓reduceIte] at h ⊢
      have := without_only_when env hv _ _ _ h
      rw [withoutPartiesOk_getPartyAddresses] at this
      simpa [Spec.Req.ok] using this

theorem deleteRecord_iff (env : Env) (hv : env.valid "" = false) (scope : Option Scope)
    (roles : Option (List Role)) (signers : List Addr) (hnc : NoContracts env signers) :
    validateDeleteRecord env scope roles signers = .ok () ↔
      (Spec.deleteRecordReq scope roles).ok env "DeleteRecord" signers = true
        ∧ (∀ sc rs, scope = some sc → roles = some rs → sc.rollup = true →
            Spec.provenanceRoleOk env sc.owners = true) := by
  unfold validateDeleteRecord Spec.deleteRecordReq
  cases scope with
  | none => simp [Spec.Req.ok, Spec.withoutPartiesOk]
  | some sc =>
    simp only
    by_cases hr : sc.rollup = true
    · simp only [hr, Bool.not_true, Bool.false_eq_true, ↓reduceIte]
      cases roles with
      | none =>
        simp only
        rw [without_iff env hv _ _ _ hnc, getRequiredPartyAddresses, withoutPartiesOk_getPartyAddresses]
        simp [Spec.Req.ok]
      | some rs =>
        simp only
        rw [with_iff env hv _ _ _ _ _ hnc]
        simp [Spec.Req.ok, hr, and_assoc]
    · simp only [hr, Bool.not_false, ↓reduceIte]
      rw [without_iff env hv _ _ _ hnc, withoutPartiesOk_getPartyAddresses]
      simp only [Bool.false_eq_true, ↓reduceIte, Spec.Req.ok, Option.some.injEq]
      constructor
      · intro h
        refine ⟨h, ?_⟩
        intro sc' rs hsc _ hro
        subst hsc
        exact absurd hro hr
      · exact fun h => h.1

/-! ### non-vacuity of the endpoint theorems (hypotheses are met by concrete calls) -/

def exScope : Scope := { owners := exOwners, rollup := true }
def exPlain : Scope := { owners := [⟨"A", 5, false⟩, ⟨"B", 2, false⟩], rollup := false }

-- a record written into session [A, B] moving away from session [C]: C must be covered
example : validateWriteRecord exEnv exScope [⟨"A", 10, false⟩, ⟨"B", 2, true⟩] (some [⟨"C", 2, false⟩]) [2]
    ["A", "B", "C"] = .ok () := by decide
example : validateWriteRecord exEnv exScope [⟨"A", 10, false⟩, ⟨"B", 2, true⟩] (some [⟨"C", 2, false⟩]) [2]
    ["A", "B"] ≠ .ok () := by decide
example : Spec.covered exEnv "WriteRecord" ["A", "B"] "C" = false := by decide
-- sessions, scopes, deletes: accepted calls exist with and without rollup
example : validateWriteSession exEnv exScope none [⟨"B", 2, true⟩] [2] ["A", "B"] = .ok () := by decide
example : validateWriteSession exEnv exPlain none [⟨"D", 2, false⟩] [2] ["A", "B"] = .ok () := by decide
example : validateWriteScope exEnv (some exPlain) { exPlain with other := 1 } [5] none ["A", "B"] = .ok () := by decide
example : validateWriteScope exEnv (some exPlain) { exPlain with other := 1 } [5] none ["A"] ≠ .ok () := by decide
example : validateDeleteScope exEnv exScope (some [10]) ["A"] = .ok () := by decide
example : validateDeleteRecord exEnv (some exScope) (some [2, 2]) ["A", "B", "C"] = .ok () := by decide
example : validateUpdateScopeOwners exEnv "AddScopeOwner" exScope (exOwners ++ [⟨"D", 5, true⟩]) [10] ["A"]
    = .ok () := by decide
example : validateScopeUpdateSigners exEnv "AddScopeDataAccess" exPlain [] ["A"] ≠ .ok () := by decide
example : NoContracts exEnv ["A", "B", "C"] := by
  intro s hs; simp at hs; rcases hs with rfl | rfl | rfl <;> decide

end PvProofs.C10
