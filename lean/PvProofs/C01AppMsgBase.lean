/-
C01 — soundness of the keeper-level checker: what is shared by the three messages when their coin
movements are put in the abstract form `MoneyCtx`.
-/
import PvProofs.C01AppBase
import PvProofs.Lemmas.IntDiv

namespace PvProofs.C01
open PvModel PvModel.Settle PvModel.Coins PvModel.Ledger PvProofs.Settle

/-- The market's seller settlement ratio as the exchange module admits it (`ValidateSellerFeeRatios`,
x/exchange/market.go): the fee is in the price denom, the price amount is positive, the fee amount is
between 0 and the price amount.  This is the domain the keeper-level checker is written for (the
driver's comment: "single-denom markets with the fee ratio in the price denom"). -/
def SellerRatioOk (ratio : Option Ratio) : Prop :=
  ∀ r, ratio = some r → r.feeDenom = r.priceDenom ∧ 0 < r.priceAmt ∧ 0 ≤ r.feeAmt ∧ r.feeAmt ≤ r.priceAmt

theorem SellerRatioOk.ratioOk {ratio : Option Ratio} (h : SellerRatioOk ratio) : RatioOk ratio :=
  fun r hr => (h r hr).2

/-- a single-denom market: every stored order sells `ad` for `pd` -/
def SingleDenom (s : KState) (ad pd : Denom) : Prop :=
  ∀ o ∈ s.orders, o.assetsDenom = ad ∧ o.priceDenom = pd

/-- The sender of a user fill as the order it stands for — the structured form of the driver's
`virtualOrder` (`PvModel/SettleAppDriver.lean`): it sells (`FillBids`, `isAsk = true`) or buys
(`FillAsks`) the totals of the named orders of the dump, in the denoms of the first of them, with the
fees the request offers. -/
def fillVirt (isAsk : Bool) (who : Addr) (ids : List Nat) (fees : Coins) (before : Dump) : Option Order :=
  let os := before.orders.filter (fun o => ids.contains o.id)
  match os with
  | o :: _ => some { id := 0, isAsk := isAsk, owner := who, assetsDenom := o.assetsDenom,
                     assets := (os.map (·.assets)).sum, priceDenom := o.priceDenom,
                     price := (os.map (·.price)).sum, fees := fees, allowPartial := false }
  | [] => none

/-- the ceiling `ratioCeil` computes is the one `IsCeilDiv` characterises -/
theorem ratioCeil_of_isCeil {r : Ratio} {P x : Int} (hb : 0 < r.priceAmt)
    (h : Fees.IsCeilDiv (P * r.feeAmt) r.priceAmt x) : x = ratioCeil (some r) P := by
  unfold ratioCeil
  exact isCeilDiv_unique hb h (ceilDiv_isCeil _ hb)

/-- `PartOf` only looks at a part's fees through their per-denom amounts -/
theorem partOf_congr {ratio : Option Ratio} {q q' : Order} {f : FilledOrder}
    (h1 : q.owner = q'.owner) (h2 : q.isAsk = q'.isAsk) (h3 : q.assetsDenom = q'.assetsDenom)
    (h4 : q.priceDenom = q'.priceDenom) (h5 : q.assets = q'.assets) (h6 : q.price = q'.price)
    (h7 : ∀ d, amountOf q.fees d = amountOf q'.fees d) (h : PartOf ratio q' f) : PartOf ratio q f := by
  obtain ⟨a1, a2, a3, a4, a5, a6, a7⟩ := h
  refine ⟨h1.trans a1, h2.trans a2, h3.trans a3, h4.trans a4, h5.trans a5, ?_, ?_⟩
  · rw [h2, h6]; exact a6
  · intro d; rw [a7 d, h7 d, h2, h4]

/-- a filled order is described by its own order when a buyer paid exactly, a seller received at least
its price, and the fees paid are the order's fees plus the seller's ratio fee in the price denom -/
theorem partOf_self {ratio : Option Ratio} {f : FilledOrder}
    (hprice : if f.order.isAsk then f.order.price ≤ f.actualPrice else f.actualPrice = f.order.price)
    (hfees : ∀ d, amountOf f.actualFees d = amountOf f.order.fees d +
      (if f.order.isAsk = true ∧ d = f.order.priceDenom then ratioCeil ratio f.actualPrice else 0)) :
    PartOf ratio f.order f := ⟨rfl, rfl, rfl, rfl, rfl, hprice, hfees⟩

theorem forall₂_map_left_of {α β : Type} {R : β → α → Prop} (l : List α) (h : α → β)
    (H : ∀ a ∈ l, R (h a) a) : List.Forall₂ R (l.map h) l := by
  induction l with
  | nil => exact .nil
  | cons a t ih =>
    exact .cons (H a (by simp)) (ih fun b hb => H b (by simp [hb]))

end PvProofs.C01
