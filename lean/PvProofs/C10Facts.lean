/-
C10 — regenerated facts about the callers' case split (tools/extract/signercalls.go re-reads
x/metadata/keeper/{scope,session,record}.go on every run).

`expected` is the case split that `PvModel/Signers.lean` (`validateWriteScope`,
`validateDeleteScope`, `validateScopeUpdateSigners`, `validateUpdateScopeOwners`,
`validateWriteSession`, `validateWriteRecord`, `validateDeleteRecord`; with value owners
`validateWriteScopeVO`, `validateDeleteScopeVO`: the value-owner look-up, what decides that "only
the value owner changes" — `existing.Equals(proposedCopy)`, every other field —, the call of
`ValidateScopeValueOwnersSigners`) encodes, written down
call by call: which validation function each endpoint calls, with which required / available
party lists and which specification's role list, and how the required lists are assembled.
If an endpoint starts passing other parties or roles, the regenerated list changes and
`signer_calls_as_modelled` stops checking.  `msgServerCalls` is the same for the endpoints of
x/metadata/keeper/msg_server.go: look-up, copy, list edit, validation call, store write.
-/
import Generated.SignerCalls

namespace PvProofs.C10
open PvProofs.Facts

def expectedSignerCalls : List SignerCall := [
  ⟨"ValidateWriteRecord", "GetRecordSpecification", ["recSpecID"]⟩,
  ⟨"ValidateWriteRecord", "validateRolesPresent", ["session.Parties", "recSpec.ResponsibleParties"]⟩,
  ⟨"ValidateWriteRecord", "set:reqSigs", ["session.GetAllPartyAddresses()"]⟩,
  ⟨"ValidateWriteRecord", "set:reqSigs", ["append(reqSigs, oldSession.GetAllPartyAddresses()...)"]⟩,
  ⟨"ValidateWriteRecord", "ValidateSignersWithoutParties", ["reqSigs"]⟩,
  ⟨"ValidateWriteRecord", "set:reqParties", ["append(reqParties, scope.Owners...)"]⟩,
  ⟨"ValidateWriteRecord", "set:reqParties", ["append(reqParties, session.Parties...)"]⟩,
  ⟨"ValidateWriteRecord", "set:reqParties", ["append(reqParties, oldSession.Parties...)"]⟩,
  ⟨"ValidateWriteRecord", "ValidateSignersWithParties", ["reqParties", "session.Parties", "recSpec.ResponsibleParties"]⟩,
  ⟨"ValidateDeleteRecord", "ValidateSignersWithoutParties", ["scope.GetAllOwnerAddresses()"]⟩,
  ⟨"ValidateDeleteRecord", "GetRecordSpecification", ["record.SpecificationId"]⟩,
  ⟨"ValidateDeleteRecord", "ValidateSignersWithoutParties", ["types.GetRequiredPartyAddresses(scope.Owners)"]⟩,
  ⟨"ValidateDeleteRecord", "ValidateSignersWithParties", ["scope.Owners", "scope.Owners", "reqSpec.ResponsibleParties"]⟩,
  ⟨"ValidateWriteScope", "GetScopeValueOwner", ["proposed.ScopeId"]⟩,
  ⟨"ValidateWriteScope", "set:onlyChangeIsValueOwner", ["false"]⟩,
  ⟨"ValidateWriteScope", "set:onlyChangeIsValueOwner", ["existing.Equals(proposedCopy)"]⟩,
  ⟨"ValidateWriteScope", "GetScopeSpecification", ["proposed.SpecificationId"]⟩,
  ⟨"ValidateWriteScope", "validateRolesPresent", ["proposed.Owners", "scopeSpec.PartiesInvolved"]⟩,
  ⟨"ValidateWriteScope", "validateProvenanceRole", ["types.BuildPartyDetails(nil, proposed.Owners)"]⟩,
  ⟨"ValidateWriteScope", "validateAllRequiredSigned", ["existing.GetAllOwnerAddresses()"]⟩,
  ⟨"ValidateWriteScope", "set:reqRoles", ["scopeSpec.PartiesInvolved"]⟩,
  ⟨"ValidateWriteScope", "GetScopeSpecification", ["existing.SpecificationId"]⟩,
  ⟨"ValidateWriteScope", "set:reqRoles", ["existingSpec.PartiesInvolved"]⟩,
  ⟨"ValidateWriteScope", "validateAllRequiredPartiesSigned", ["existing.Owners", "existing.Owners", "reqRoles"]⟩,
  ⟨"ValidateWriteScope", "ValidateScopeValueOwnersSigners", ["existingVOAddrs", "proposed.ValueOwnerAddress"]⟩,
  ⟨"ValidateWriteScope", "validateSmartContractSigners", ["usedSigners"]⟩,
  ⟨"ValidateDeleteScope", "validateAllRequiredSigned", ["scope.GetAllOwnerAddresses()"]⟩,
  ⟨"ValidateDeleteScope", "GetScopeSpecification", ["scope.SpecificationId"]⟩,
  ⟨"ValidateDeleteScope", "validateAllRequiredSigned", ["types.GetRequiredPartyAddresses(scope.Owners)"]⟩,
  ⟨"ValidateDeleteScope", "validateAllRequiredPartiesSigned", ["scope.Owners", "scope.Owners", "scopeSpec.PartiesInvolved"]⟩,
  ⟨"ValidateDeleteScope", "GetScopeValueOwner", ["scope.ScopeId"]⟩,
  ⟨"ValidateDeleteScope", "ValidateScopeValueOwnersSigners", ["existingVOAddrs", "\"\""]⟩,
  ⟨"ValidateDeleteScope", "validateSmartContractSigners", ["usedSigners"]⟩,
  ⟨"ValidateSetScopeAccountData", "validateAllRequiredSigned", ["scope.GetAllOwnerAddresses()"]⟩,
  ⟨"ValidateSetScopeAccountData", "GetScopeSpecification", ["scope.SpecificationId"]⟩,
  ⟨"ValidateSetScopeAccountData", "validateAllRequiredPartiesSigned", ["scope.Owners", "scope.Owners", "scopeSpec.PartiesInvolved"]⟩,
  ⟨"ValidateSetScopeAccountData", "validateSmartContractSigners", ["types.GetUsedSigners(validatedParties)"]⟩,
  ⟨"ValidateAddScopeDataAccess", "ValidateSignersWithoutParties", ["existing.GetAllOwnerAddresses()"]⟩,
  ⟨"ValidateAddScopeDataAccess", "GetScopeSpecification", ["existing.SpecificationId"]⟩,
  ⟨"ValidateAddScopeDataAccess", "ValidateSignersWithParties", ["existing.Owners", "existing.Owners", "scopeSpec.PartiesInvolved"]⟩,
  ⟨"ValidateDeleteScopeDataAccess", "ValidateSignersWithoutParties", ["existing.GetAllOwnerAddresses()"]⟩,
  ⟨"ValidateDeleteScopeDataAccess", "GetScopeSpecification", ["existing.SpecificationId"]⟩,
  ⟨"ValidateDeleteScopeDataAccess", "ValidateSignersWithParties", ["existing.Owners", "existing.Owners", "scopeSpec.PartiesInvolved"]⟩,
  ⟨"ValidateUpdateScopeOwners", "GetScopeSpecification", ["proposed.SpecificationId"]⟩,
  ⟨"ValidateUpdateScopeOwners", "validateRolesPresent", ["proposed.Owners", "scopeSpec.PartiesInvolved"]⟩,
  ⟨"ValidateUpdateScopeOwners", "validateProvenanceRole", ["types.BuildPartyDetails(nil, proposed.Owners)"]⟩,
  ⟨"ValidateUpdateScopeOwners", "ValidateSignersWithoutParties", ["existing.GetAllOwnerAddresses()"]⟩,
  ⟨"ValidateUpdateScopeOwners", "validateAllRequiredPartiesSigned", ["existing.Owners", "existing.Owners", "scopeSpec.PartiesInvolved"]⟩,
  ⟨"ValidateUpdateScopeOwners", "validateSmartContractSigners", ["types.GetUsedSigners(validatedParties)"]⟩,
  ⟨"ValidateUpdateValueOwners", "ValidateScopeValueOwnersSigners", ["links.GetAccAddrs()", "proposed"]⟩,
  ⟨"ValidateWriteSession", "ValidateOptionalParties", ["scope.RequirePartyRollup", "proposed.Parties"]⟩,
  ⟨"ValidateWriteSession", "GetContractSpecification", ["proposed.SpecificationId"]⟩,
  ⟨"ValidateWriteSession", "GetScopeSpecification", ["scope.SpecificationId"]⟩,
  ⟨"ValidateWriteSession", "validateRolesPresent", ["proposed.Parties", "contractSpec.PartiesInvolved"]⟩,
  ⟨"ValidateWriteSession", "validateProvenanceRole", ["types.BuildPartyDetails(nil, proposed.Parties)"]⟩,
  ⟨"ValidateWriteSession", "ValidateSignersWithoutParties", ["scope.GetAllOwnerAddresses()"]⟩,
  ⟨"ValidateWriteSession", "validatePartiesArePresent", ["proposed.Parties", "scope.Owners"]⟩,
  ⟨"ValidateWriteSession", "set:availableParties", ["existing.Parties"]⟩,
  ⟨"ValidateWriteSession", "validateRolesPresent", ["proposed.Parties", "contractSpec.PartiesInvolved"]⟩,
  ⟨"ValidateWriteSession", "validateProvenanceRole", ["types.BuildPartyDetails(nil, proposed.Parties)"]⟩,
  ⟨"ValidateWriteSession", "set:reqParties", ["append(reqParties, existing.Parties...)"]⟩,
  ⟨"ValidateWriteSession", "set:availableParties", ["proposed.Parties"]⟩,
  ⟨"ValidateWriteSession", "set:reqParties", ["append(reqParties, scope.Owners...)"]⟩,
  ⟨"ValidateWriteSession", "ValidateSignersWithParties", ["reqParties", "availableParties", "contractSpec.PartiesInvolved"]⟩
]

/-- The endpoints call the signer validation exactly as the model of the callers assumes. -/
theorem signer_calls_as_modelled : Generated.SignerCalls.calls = expectedSignerCalls := by decide

/-- Which id each endpoint uses to look the scope specification up.  `ValidateWriteScope`
looks up the PROPOSED scope's specification (for the roles the proposed owners must contain)
and, since commit 89425229f, also the STORED scope's (for the roles that must sign); before
that commit only the first look-up existed — the syntactic root of C10-scope-spec-swap.
`ValidateUpdateScopeOwners`' `proposed` is a copy of the stored scope. -/
theorem scope_spec_lookups :
    (Generated.SignerCalls.calls.filter (·.callee = "GetScopeSpecification")).map (fun c => (c.fn, c.args))
      = [("ValidateWriteScope", ["proposed.SpecificationId"]),
         ("ValidateWriteScope", ["existing.SpecificationId"]),
         ("ValidateDeleteScope", ["scope.SpecificationId"]),
         ("ValidateSetScopeAccountData", ["scope.SpecificationId"]),
         ("ValidateAddScopeDataAccess", ["existing.SpecificationId"]),
         ("ValidateDeleteScopeDataAccess", ["existing.SpecificationId"]),
         ("ValidateUpdateScopeOwners", ["proposed.SpecificationId"]),
         ("ValidateWriteSession", ["scope.SpecificationId"])] := by decide

/-- The signer roles of an existing rollup scope (`reqRoles`): the named specification's by
default, replaced by the stored scope's specification's — exactly the `getD` of the model. -/
theorem writeScope_signer_roles :
    (Generated.SignerCalls.calls.filter fun c => c.fn = "ValidateWriteScope" ∧ c.callee = "set:reqRoles").map
        (·.args)
      = [["scopeSpec.PartiesInvolved"], ["existingSpec.PartiesInvolved"]]
    ∧ (⟨"ValidateWriteScope", "validateAllRequiredPartiesSigned",
        ["existing.Owners", "existing.Owners", "reqRoles"]⟩ : SignerCall) ∈ Generated.SignerCalls.calls := by
  decide

/-- Every call that checks signatures against roles takes required and available parties from
STORED entries (`existing`, `scope`, `session`, assembled `reqParties`) — never from the
proposed entry, except the available parties of a new session. -/
theorem role_checks_use_stored_parties :
    (Generated.SignerCalls.calls.filter fun c =>
        c.callee = "validateAllRequiredPartiesSigned" ∨ c.callee = "ValidateSignersWithParties").map
      (fun c => (c.fn, c.args.take 2))
      = [("ValidateWriteRecord", ["reqParties", "session.Parties"]),
         ("ValidateDeleteRecord", ["scope.Owners", "scope.Owners"]),
         ("ValidateWriteScope", ["existing.Owners", "existing.Owners"]),
         ("ValidateDeleteScope", ["scope.Owners", "scope.Owners"]),
         ("ValidateSetScopeAccountData", ["scope.Owners", "scope.Owners"]),
         ("ValidateAddScopeDataAccess", ["existing.Owners", "existing.Owners"]),
         ("ValidateDeleteScopeDataAccess", ["existing.Owners", "existing.Owners"]),
         ("ValidateUpdateScopeOwners", ["existing.Owners", "existing.Owners"]),
         ("ValidateWriteSession", ["reqParties", "availableParties"])] := by decide

/-- A record that moves between sessions: the previous session's parties are appended to the
required list in both modes. -/
theorem old_session_parties_are_required :
    (⟨"ValidateWriteRecord", "set:reqParties", ["append(reqParties, oldSession.Parties...)"]⟩ : SignerCall)
        ∈ Generated.SignerCalls.calls
    ∧ (⟨"ValidateWriteRecord", "set:reqSigs", ["append(reqSigs, oldSession.GetAllPartyAddresses()...)"]⟩ : SignerCall)
        ∈ Generated.SignerCalls.calls := by decide

/-! ### the message server (x/metadata/keeper/msg_server.go) -/

/-- What `PvModel/Signers.lean` assumes about the message server's endpoints: they look the
stored entry up by the id in the message, hand it to the `Validate…` function, and store the
message's entry; the two owner endpoints run `msg.ValidateBasic`, copy the stored scope, edit
the COPY's owner list (`AddOwners` / `RemoveOwners`), validate with the stored scope as
`existing` and the copy as `proposed`, and store the copy (`msgAddScopeOwner`,
`msgDeleteScopeOwner`); the data-access endpoints edit the stored scope AFTER validating it.
The three write endpoints whose message may name its ids through OPTIONAL fields (`scope_uuid`,
`session_id_components`, `spec_uuid`, `contract_spec_uuid`) convert them FIRST: the look-up that
decides "new versus existing entry" sees the id the message means, however it is spelled. -/
def expectedMsgServerCalls : List SignerCall := [
  ⟨"WriteScope", "msg.ConvertOptionalFields", []⟩,
  ⟨"WriteScope", "ValidateWriteScope", ["msg"]⟩,
  ⟨"WriteScope", "SetScope", ["msg.Scope"]⟩,
  ⟨"DeleteScope", "ValidateDeleteScope", ["msg"]⟩,
  ⟨"DeleteScope", "RemoveScope", ["msg.ScopeId"]⟩,
  ⟨"AddScopeDataAccess", "GetScope", ["msg.ScopeId"]⟩,
  ⟨"AddScopeDataAccess", "ValidateAddScopeDataAccess", ["existing", "msg"]⟩,
  ⟨"AddScopeDataAccess", "existing.AddDataAccess", ["msg.DataAccess"]⟩,
  ⟨"AddScopeDataAccess", "SetScope", ["existing"]⟩,
  ⟨"DeleteScopeDataAccess", "GetScope", ["msg.ScopeId"]⟩,
  ⟨"DeleteScopeDataAccess", "ValidateDeleteScopeDataAccess", ["existing", "msg"]⟩,
  ⟨"DeleteScopeDataAccess", "existing.RemoveDataAccess", ["msg.DataAccess"]⟩,
  ⟨"DeleteScopeDataAccess", "SetScope", ["existing"]⟩,
  ⟨"AddScopeOwner", "msg.ValidateBasic", []⟩,
  ⟨"AddScopeOwner", "GetScope", ["msg.ScopeId"]⟩,
  ⟨"AddScopeOwner", "set:proposed", ["existing"]⟩,
  ⟨"AddScopeOwner", "proposed.AddOwners", ["msg.Owners"]⟩,
  ⟨"AddScopeOwner", "ValidateUpdateScopeOwners", ["existing", "proposed", "msg"]⟩,
  ⟨"AddScopeOwner", "SetScope", ["proposed"]⟩,
  ⟨"DeleteScopeOwner", "msg.ValidateBasic", []⟩,
  ⟨"DeleteScopeOwner", "GetScope", ["msg.ScopeId"]⟩,
  ⟨"DeleteScopeOwner", "set:proposed", ["existing"]⟩,
  ⟨"DeleteScopeOwner", "proposed.RemoveOwners", ["msg.Owners"]⟩,
  ⟨"DeleteScopeOwner", "ValidateUpdateScopeOwners", ["existing", "proposed", "msg"]⟩,
  ⟨"DeleteScopeOwner", "SetScope", ["proposed"]⟩,
  ⟨"WriteSession", "msg.ConvertOptionalFields", []⟩,
  ⟨"WriteSession", "GetSession", ["msg.Session.SessionId"]⟩,
  ⟨"WriteSession", "set:existing", ["&e"]⟩,
  ⟨"WriteSession", "ValidateWriteSession", ["existing", "msg"]⟩,
  ⟨"WriteSession", "SetSession", ["msg.Session"]⟩,
  ⟨"WriteRecord", "msg.ConvertOptionalFields", []⟩,
  ⟨"WriteRecord", "GetRecord", ["recordID"]⟩,
  ⟨"WriteRecord", "set:existing", ["&e"]⟩,
  ⟨"WriteRecord", "ValidateWriteRecord", ["existing", "msg"]⟩,
  ⟨"WriteRecord", "SetRecord", ["msg.Record"]⟩,
  ⟨"DeleteRecord", "ValidateDeleteRecord", ["msg.RecordId", "msg"]⟩,
  ⟨"DeleteRecord", "RemoveRecord", ["msg.RecordId"]⟩
]

/-- The message server's endpoints look up, edit, validate and store as the model assumes. -/
theorem msg_server_calls_as_modelled : Generated.SignerCalls.msgServerCalls = expectedMsgServerCalls := by
  decide

/-- Every list edit the message server makes BEFORE it validates is made on `proposed` (the
copy), never on `existing`; `existing` is edited only after its validation (data access). -/
theorem msg_server_edits_the_copy_before_validating :
    (Generated.SignerCalls.msgServerCalls.filter fun c =>
        c.callee = "proposed.AddOwners" ∨ c.callee = "proposed.RemoveOwners"
          ∨ c.callee = "existing.AddOwners" ∨ c.callee = "existing.RemoveOwners").map (fun c => (c.fn, c.callee))
      = [("AddScopeOwner", "proposed.AddOwners"), ("DeleteScopeOwner", "proposed.RemoveOwners")]
    ∧ (Generated.SignerCalls.msgServerCalls.filter fun c => c.callee = "ValidateUpdateScopeOwners").map
        (fun c => (c.fn, c.args))
      = [("AddScopeOwner", ["existing", "proposed", "msg"]), ("DeleteScopeOwner", ["existing", "proposed", "msg"])] := by
  decide

/-- The optional id fields of a write message are converted before anything else the endpoint
does with the message: the FIRST recorded call of WriteScope / WriteSession / WriteRecord is
`msg.ConvertOptionalFields`, and no other endpoint (none of their messages has such fields) calls it. -/
theorem msg_server_converts_optional_ids_first :
    (["WriteScope", "WriteSession", "WriteRecord"].all fun ep =>
        ((Generated.SignerCalls.msgServerCalls.filter fun c => c.fn = ep).head?.map (·.callee))
          = some "msg.ConvertOptionalFields") = true
    ∧ ((Generated.SignerCalls.msgServerCalls.filter fun c => c.callee = "msg.ConvertOptionalFields").map (·.fn))
      = ["WriteScope", "WriteSession", "WriteRecord"] := by
  decide

end PvProofs.C10
