/-
C03 — Funds on hold cannot leave the account by any route; spendable = balance − hold − unvested.

Property theorems only (helper lemmas: `PvProofs/Lemmas/Lock.lean`).  The model
(`PvModel/Lock.lean`) is the forked SDK's bank keeper (every function that calls
`setBalance`: `subUnlockedCoins`, `addCoins`, `DelegateCoins`, and their callers `SendCoins`,
`InputOutputCoinsProv`, `UndelegateCoins`, `MintCoins`, `BurnCoins`), the locked-coins getter
chain `[UnvestedCoins, hold.GetLockedCoins]` with its two context bypasses, and the hold
keeper's `AddHold`/`ReleaseHold`/`ValidateNewHold`.

All theorems are for **all** states, accounts, denoms, amounts, contexts, restriction
outcomes and **all operation lists** (`run`, induction over the list).  Two things are assumed
of the callers (`WF`): the hold bypass flag is not set — `hold.WithBypass` has no production
call site outside `x/hold/keeper/invariants.go`, a regenerated fact proved below
(`holdBypass_only_in_invariant`) — and `AddHold` receives a valid `sdk.Coins` (distinct denoms),
which every caller guarantees: `Order.GetHoldAmount()` is built with `Coins.Add`, commitment
amounts are checked by `MsgCommitFundsRequest.ValidateBasic` / `AccountAmount.Validate`, payment
source amounts by `Payment.Validate` (all `sdk.Coins.Validate()`); the call sites are the
regenerated fact `addHold_callers`.  `addHold_duplicate_denoms_observation` records what the
keeper would do with an invalid `sdk.Coins`, an input no transaction can produce.

The forked bank keeper is *modelled, fact-checked and correspondence-tested, not verified*.
-/
import PvProofs.Lemmas.Lock
import PvProofs.Lemmas.LockVesting
import PvProofs.Lemmas.LockSched
import PvProofs.Facts.LockTypes
import Generated.LockFacts
import Mathlib.Tactic.SplitIfs

namespace PvProofs.C03
open PvModel PvModel.Lock PvProofs.Lemmas.Lock

/-- Well-formed operation: runs in a context without the hold bypass; `AddHold` gets a valid
`sdk.Coins` (distinct denoms), as from every production caller. Everything else (amounts, signs, validity, accounts, the vesting /
marker / quarantine / sanction bypass flags, restriction outcomes) is arbitrary. -/
def WF (op : Op) : Prop :=
  op.ctx.holdBypass = false ∧
    match op with
    | .addHold _ _ funds => (Coins.denoms funds).Nodup
    | _ => True

/-! ## 1. No route brings a balance below the hold -/

private theorem holdLeBal_of_eq {s s' : State} (hl : s'.ledger = s.ledger) (hh : s'.holds = s.holds)
    (h : HoldLeBal s) : HoldLeBal s' := by
  intro a d; unfold State.hold State.bal; rw [hl, hh]; exact h a d

/-- `SendCoins` (any restriction outcome, any bypass flags but the hold's). -/
theorem sendCoins_holdLeBal {s s' : State} {c : Ctx} {src dst : Addr} {amt : Coins} {r : Option Addr}
    (hc : c.holdBypass = false) (hinv : HoldLeBal s) (h : sendCoins s c src dst amt r = .ok s') :
    HoldLeBal s' := by
  unfold sendCoins at h
  split at h
  · cases h
  · rename_i s₁ h₁
    have i₁ := subUnlockedCoins_holdLeBal hc hinv h₁
    split at h
    · cases h
    · rename_i dst'
      split at h
      · cases h
      · rename_i s₂ h₂
        simp at h; subst h
        exact (ensureAccount_credited s₂ dst').holdLeBal ((addCoins_credited h₂).holdLeBal i₁)

/-- `InputOutputCoinsProv` (1→n and n→1, any restriction outcomes). -/
theorem inputOutputCoins_holdLeBal {s s' : State} {c : Ctx} {ins outs : List (Addr × Coins)}
    {rs : List (Option Addr)} (hc : c.holdBypass = false) (hinv : HoldLeBal s)
    (h : inputOutputCoins s c ins outs rs = .ok s') : HoldLeBal s' := by
  unfold inputOutputCoins at h
  split_ifs at h
  split at h
  · cases h
  · split at h
    · cases h
    · rename_i s₁ h₁
      have i₁ := (subAll_holdLeBal c hc _ _ _ hinv h₁).1
      split at h
      · cases h
      · exact (addAll_credited _ _ _ h).holdLeBal i₁

/-- `DelegateCoins`: the vesting bypass frees unvested coins for delegation, the hold getter
ignores that bypass, so held coins stay. -/
theorem delegateCoins_holdLeBal {s s' : State} {c : Ctx} {del mod : Addr} {amt : Coins} {r : Option Addr}
    (hc : c.holdBypass = false) (hinv : HoldLeBal s) (h : delegateCoins s c del mod amt r = .ok s') :
    HoldLeBal s' := by
  unfold delegateCoins at h
  split_ifs at h
  split at h
  · cases h
  · rename_i s₁ h₁
    have hd := delegateLoop_debited _ _ _ _ _ h₁
    have i₁ : HoldLeBal s₁ :=
      hd.holdLeBal (fun d => hold_le_locked s { c with vestBypass := true } del d (by simpa using hc)) hinv
    split at h
    · cases h
    · split_ifs at h
      obtain ⟨t1, t2, _, _⟩ := trackDelegation_ledger del amt s₁
      exact (addCoins_credited h).holdLeBal (holdLeBal_of_eq t1 t2 i₁)

/-- `UndelegateCoins`. -/
theorem undelegateCoins_holdLeBal {s s' : State} {c : Ctx} {mod del : Addr} {amt : Coins}
    (hc : c.holdBypass = false) (hinv : HoldLeBal s) (h : undelegateCoins s c mod del amt = .ok s') :
    HoldLeBal s' := by
  unfold undelegateCoins at h
  split_ifs at h
  split at h
  · cases h
  · rename_i s₁ h₁
    have i₁ := subUnlockedCoins_holdLeBal hc hinv h₁
    split_ifs at h
    obtain ⟨t1, t2, _, _⟩ := trackUndelegation_ledger del amt s₁
    exact (addCoins_credited h).holdLeBal (holdLeBal_of_eq t1 t2 i₁)

/-- `AddHold` keeps `hold ≤ balance` (it validates against the spendable balance, which already
excludes the existing hold).  The distinct-denoms hypothesis is what every caller provides: a
valid `sdk.Coins` (see `WF`). -/
theorem addHold_holdLeBal {s s' : State} {c : Ctx} {a : Addr} {funds : Coins}
    (hc : c.holdBypass = false) (hnd : (Coins.denoms funds).Nodup) (hinv : HoldLeBal s)
    (h : addHold s c a funds = .ok s') : HoldLeBal s' := by
  unfold addHold at h
  split_ifs at h with hz
  · simp at h; subst h; exact hinv
  · split at h
    · cases h
    · rename_i hv
      simp at h; subst h
      obtain ⟨hl, _, _, _, _, hh⟩ := addHoldLoop_spec a funds s
      intro a' d'
      rw [hh]
      unfold State.bal at *; rw [hl]
      by_cases ha : a = a'
      · subst ha
        simp only [if_true]
        by_cases hm : d' ∈ Coins.denoms funds
        · obtain ⟨p, hp, hpd⟩ := List.mem_map.mp hm
          obtain ⟨d'', x⟩ := p
          simp at hpd; subst hpd
          rw [amountOf_of_mem_nodup funds hnd d'' x hp]
          by_cases hx : x = 0
          · subst hx; have := hinv a d''; unfold State.bal at this; omega
          · unfold validateNewHold at hv
            split_ifs at hv
            obtain ⟨h1, h2⟩ := validateLoop_ok s c a funds hv d'' x hp hx
            unfold spendableCoins at h1 h2
            have hlk := hold_le_locked s c a d'' hc
            simp only [State.bal] at h1 h2
            split_ifs at h1 h2 <;> omega
        · rw [amountOf_of_not_mem funds d' hm]; have := hinv a d'; unfold State.bal at this; omega
      · simp only [ha, if_false]; have := hinv a' d'; unfold State.bal at this; omega

/-- `ReleaseHold` keeps `hold ≤ balance`. -/
theorem releaseHold_holdLeBal {s s' : State} {a : Addr} {funds : Coins}
    (hinv : HoldLeBal s) (h : releaseHold s a funds = .ok s') : HoldLeBal s' := by
  unfold releaseHold at h
  split_ifs at h with hz hn
  · simp at h; subst h; exact hinv
  · have hpos := isAnyNegative_false (by simpa using hn)
    obtain ⟨hl, _, _, _, _, hle, _⟩ := releaseLoop_spec a funds s s' hpos h
    intro a' d'
    unfold State.bal; rw [hl]
    exact Int.le_trans (hle a' d') (hinv a' d')

/-- Every primitive, when it succeeds, keeps `∀ a d, hold a d ≤ bal a d`. -/
theorem apply_holdLeBal {s s' : State} {op : Op} (hwf : WF op) (hinv : HoldLeBal s)
    (h : apply s op = .ok s') : HoldLeBal s' := by
  obtain ⟨hc, hx⟩ := hwf
  cases op with
  | send c src dst amt r => exact sendCoins_holdLeBal (dst := dst) hc hinv h
  | inputOutput c ins outs rs => exact inputOutputCoins_holdLeBal hc hinv h
  | delegate c del mod amt r => exact delegateCoins_holdLeBal hc hinv h
  | undelegate c mod del amt => exact undelegateCoins_holdLeBal hc hinv h
  | mint mod amt => exact (addCoins_credited h).holdLeBal hinv
  | burn c mod amt => exact subUnlockedCoins_holdLeBal hc hinv h
  | addHold c a funds => exact addHold_holdLeBal hc hx hinv h
  | releaseHold a funds => exact releaseHold_holdLeBal hinv h
  | setTime t =>
    simp [apply] at h; subst h
    exact holdLeBal_of_eq rfl rfl hinv

theorem step_holdLeBal {s : State} {op : Op} (hwf : WF op) (hinv : HoldLeBal s) : HoldLeBal (step s op) := by
  unfold step
  split
  · rename_i s' h; exact apply_holdLeBal hwf hinv h
  · exact hinv

/-- **Main theorem.** For every history of bank / hold operations — sends, multi-sends,
delegations, undelegations, mints, burns, new holds, releases, block-time changes — with
arbitrary amounts, restriction outcomes and marker/quarantine/sanction/vesting bypass flags:
no account's balance of any denom ever falls below the amount on hold for it. -/
theorem run_holdLeBal : ∀ (ops : List Op) (s : State), (∀ op ∈ ops, WF op) → HoldLeBal s →
    HoldLeBal (run s ops)
  | [], _, _, h => h
  | op :: rest, s, hwf, h => by
    simp only [run, List.foldl_cons]
    exact run_holdLeBal rest (step s op) (fun o ho => hwf o (List.mem_cons_of_mem _ ho))
      (step_holdLeBal (hwf op (by simp)) h)

/-- … and so at **every point** of every history — after each prefix `ops.take n` — not just at
the end: no intermediate state has a balance below the hold. -/
theorem holdLeBal_at_every_point (ops : List Op) (s : State) (hwf : ∀ op ∈ ops, WF op)
    (h : HoldLeBal s) : ∀ n, HoldLeBal (run s (ops.take n)) :=
  fun n => run_holdLeBal (ops.take n) s (fun o ho => hwf o (List.mem_of_mem_take ho)) h

/-- the empty chain state satisfies the invariant, so the theorem is not vacuous -/
example : HoldLeBal {} := by intro a d; simp [State.hold, State.bal]

/-- non-vacuity: a concrete history with a hold, a send at the boundary (accepted), a send one
above it (rejected), a multi-send, a delegation and a release — all well-formed. -/
example :
    let ops : List Op := [
      .mint "mint" [("stake", 1000)],
      .send {} "mint" "A" [("stake", 1000)] (some "A"),
      .addHold {} "A" [("stake", 400)],
      .send {} "A" "B" [("stake", 600)] (some "B"),
      .send { markerBypass := true } "A" "B" [("stake", 1)] (some "B"),
      .inputOutput {} [("B", [("stake", 10)])] [("A", [("stake", 4)]), ("C", [("stake", 6)])] [],
      .delegate {} "A" "mint" [("stake", 5)] (some "mint"),
      .releaseHold "A" [("stake", 100)]]
    (∀ op ∈ ops, WF op) ∧ (run {} ops).bal "A" "stake" = 404 ∧ (run {} ops).hold "A" "stake" = 300 := by
  refine ⟨?_, by decide, by decide⟩
  intro op hop
  simp only [List.mem_cons, List.mem_nil_iff, or_false] at hop
  rcases hop with rfl | rfl | rfl | rfl | rfl | rfl | rfl | rfl <;> simp [WF, Op.ctx, Coins.denoms]

/-! ### Observation: `AddHold` relies on its callers for the validity of `funds` -/

/-- Observation (not a defect of the property): `AddHold` validates each coin separately against
the spendable balance and then adds them all, so coins that repeat a denom — which is *not* a
valid `sdk.Coins` — would pass with `5 ≤ 7` twice and put `10` on hold against a balance of `7`.
This input is unreachable by transactions: every caller passes `Order.GetHoldAmount()` (built with
`Coins.Add`) or amounts checked with `sdk.Coins.Validate()` (`MsgCommitFundsRequest.ValidateBasic`,
`AccountAmount.Validate`, `Payment.Validate`), and genesis holds are validated the same way.
It shows the distinct-denoms hypothesis of `addHold_holdLeBal` is used, and is a hardening
opportunity (check the per-denom total in `ValidateNewHold`). -/
theorem addHold_duplicate_denoms_observation :
    let s : State := { ledger := [⟨"A", "stake", 7⟩] }
    HoldLeBal s ∧ ∃ s', addHold s {} "A" [("stake", 5), ("stake", 5)] = .ok s' ∧
      s'.hold "A" "stake" = 10 ∧ s'.bal "A" "stake" = 7 := by
  refine ⟨?_, _, rfl, by decide, by decide⟩
  intro a d
  simp only [State.hold, State.bal, Ledger.bal]
  split <;> omega

/-! ## 2. The exact acceptance boundary of the debit routes -/

private theorem subLoop_ok_iff (L : Denom → Int) (a : Addr) : ∀ (amt : Coins) (s : State),
    (∀ p ∈ amt, 0 < p.2) → (Coins.denoms amt).Nodup →
    ((∃ s', subLoop s L a amt = .ok s') ↔ ∀ p ∈ amt, p.2 ≤ s.bal a p.1 - L p.1)
  | [], s, _, _ => by simp [subLoop]
  | (d, x) :: rest, s, hpos, hnd => by
    have hx : 0 < x := hpos (d, x) (by simp)
    have hnd' : d ∉ Coins.denoms rest ∧ (Coins.denoms rest).Nodup := by simpa [Coins.denoms] using hnd
    have ih := subLoop_ok_iff L a rest (debit1 s a d x)
      (fun p hp => hpos p (List.mem_cons_of_mem _ hp)) hnd'.2
    have hsame : ∀ p ∈ rest, (debit1 s a d x).bal a p.1 = s.bal a p.1 := by
      intro p hp
      have : d ≠ p.1 := fun e => hnd'.1 (e ▸ List.mem_map.mpr ⟨p, hp, rfl⟩)
      simp [this]
    simp only [subLoop]
    constructor
    · rintro ⟨s', h⟩
      split_ifs at h with h1 h2
      intro p hp
      rcases List.mem_cons.mp hp with rfl | hp'
      · simp only; omega
      · have := (ih.mp ⟨s', h⟩) p hp'
        rw [hsame p hp'] at this; exact this
    · intro h
      have h0 := h (d, x) (by simp)
      simp only at h0
      have hA : ¬ (s.bal a d - L d < 0) := by omega
      have hB : ¬ (s.bal a d - L d - x < 0) := by omega
      simp only [hA, hB, if_false]
      apply ih.mpr
      intro p hp
      rw [hsame p hp]; exact h p (List.mem_cons_of_mem _ hp)

/-- `subUnlockedCoins` succeeds **iff** every coin is within `balance − locked`
(`locked = unvested + hold` in a plain context). -/
theorem subUnlockedCoins_ok_iff (s : State) (c : Ctx) (a : Addr) (amt : Coins)
    (hv : isValid amt = true) (hnd : (Coins.denoms amt).Nodup) :
    (∃ s', subUnlockedCoins s c a amt = .ok s') ↔
      ∀ p ∈ amt, p.2 ≤ s.bal a p.1 - lockedCoins s c a p.1 := by
  unfold subUnlockedCoins
  simp only [hv, Bool.not_true, Bool.false_eq_true, if_false]
  exact subLoop_ok_iff _ a amt s (isValid_pos amt hv) hnd

/-- A bank send that the restrictions let through succeeds **iff** every coin is at most
`balance − hold − unvested`: exactly at the boundary it passes, one above it fails. -/
theorem sendCoins_ok_iff (s : State) (src dst dst' : Addr) (amt : Coins)
    (hv : isValid amt = true) (hnd : (Coins.denoms amt).Nodup) :
    (∃ s', sendCoins s {} src dst amt (some dst') = .ok s') ↔
      ∀ p ∈ amt, p.2 ≤ s.bal src p.1 - pos (s.hold src p.1) - pos (unvested s src p.1) := by
  have key := subUnlockedCoins_ok_iff s {} src amt hv hnd
  have hl : ∀ d, lockedCoins s {} src d = pos (unvested s src d) + pos (s.hold src d) := by
    intro d; simp [lockedCoins, unvestedGetter, holdGetter]
  constructor
  · rintro ⟨s', h⟩
    unfold sendCoins at h
    split at h
    · cases h
    · rename_i s₁ h₁
      intro p hp
      have := key.mp ⟨s₁, h₁⟩ p hp
      rw [hl] at this; omega
  · intro h
    obtain ⟨s₁, h₁⟩ := key.mpr (fun p hp => by have := h p hp; rw [hl]; omega)
    refine ⟨ensureAccount { s₁ with ledger := s₁.ledger.credit dst' amt } dst', ?_⟩
    simp [sendCoins, h₁, addCoins, hv]

private theorem delegateLoop_ok_iff (L : Denom → Int) (a : Addr) : ∀ (amt : Coins) (s : State),
    (Coins.denoms amt).Nodup →
    ((∃ s', delegateLoop s L a amt = .ok s') ↔ ∀ p ∈ amt, p.2 ≤ s.bal a p.1 - L p.1)
  | [], s, _ => by simp [delegateLoop]
  | (d, x) :: rest, s, hnd => by
    have hnd' : d ∉ Coins.denoms rest ∧ (Coins.denoms rest).Nodup := by simpa [Coins.denoms] using hnd
    have ih := delegateLoop_ok_iff L a rest (debit1 s a d x) hnd'.2
    have hsame : ∀ p ∈ rest, (debit1 s a d x).bal a p.1 = s.bal a p.1 := by
      intro p hp
      have : d ≠ p.1 := fun e => hnd'.1 (e ▸ List.mem_map.mpr ⟨p, hp, rfl⟩)
      simp [this]
    simp only [delegateLoop]
    constructor
    · rintro ⟨s', h⟩
      split_ifs at h with h1
      intro p hp
      rcases List.mem_cons.mp hp with rfl | hp'
      · simp only; omega
      · have := (ih.mp ⟨s', h⟩) p hp'
        rw [hsame p hp'] at this; exact this
    · intro h
      have h0 := h (d, x) (by simp)
      simp only at h0
      have hA : ¬ (s.bal a d - L d < x) := by omega
      simp only [hA, if_false]
      apply ih.mpr
      intro p hp
      rw [hsame p hp]; exact h p (List.mem_cons_of_mem _ hp)

/-- A delegation (existing accounts, restriction passes) succeeds **iff** every coin is at most
`balance − hold`: unvested coins may be delegated, held coins may not. -/
theorem delegateCoins_ok_iff (s : State) (del mod : Addr) (amt : Coins) (dst : Addr)
    (hmod : s.accountExists mod = true) (hdel : s.accountExists del = true)
    (hv : isValid amt = true) (hnd : (Coins.denoms amt).Nodup) :
    (∃ s', delegateCoins s {} del mod amt (some dst) = .ok s') ↔
      ∀ p ∈ amt, p.2 ≤ s.bal del p.1 - pos (s.hold del p.1) := by
  have hl : ∀ d, lockedCoins s { ({} : Ctx) with vestBypass := true } del d = pos (s.hold del d) := by
    intro d; simp [lockedCoins, unvestedGetter, holdGetter]
  have key := delegateLoop_ok_iff (lockedCoins s { ({} : Ctx) with vestBypass := true } del) del amt s hnd
  simp only [hl] at key
  unfold delegateCoins
  simp only [hmod, hv, Bool.not_true, Bool.false_eq_true, if_false]
  constructor
  · rintro ⟨s', h⟩
    split at h
    · cases h
    · rename_i s₁ h₁
      exact key.mp ⟨s₁, h₁⟩
  · intro h
    obtain ⟨s₁, h₁⟩ := key.mpr h
    have hk : s₁.kinds = s.kinds := (delegateLoop_debited _ _ _ _ _ h₁).kinds
    have hex : s₁.accountExists del = true := by unfold State.accountExists; rw [hk]; exact hdel
    rw [h₁]
    simp only [hex, Bool.not_true, Bool.false_eq_true, if_false]
    simp [addCoins, hv]

private def isErrFunds : Except Err State → Bool
  | .error .funds => true
  | _ => false

/-- non-vacuity of the vesting bypass: an account whose 100 coins are all unvested, 30 of them
on hold, can delegate 70 (not 71) and can send nothing. -/
example :
    let s : State := { ledger := [⟨"V", "stake", 100⟩], holds := [⟨"V", "stake", 30⟩],
                       kinds := [("V", .vesting (.delayed [("stake", 100)] 1000)), ("pool", .module)], time := 10 }
    (∃ s', delegateCoins s {} "V" "pool" [("stake", 70)] (some "pool") = .ok s') ∧
    isErrFunds (delegateCoins s {} "V" "pool" [("stake", 71)] (some "pool")) = true ∧
    isErrFunds (sendCoins s {} "V" "B" [("stake", 1)] (some "B")) = true := by
  refine ⟨⟨_, rfl⟩, by decide, by decide⟩

/-! ## 3. Spendable = balance − hold − unvested, clipped at zero -/

/-- `SpendableCoins` per denom. -/
theorem spendableCoins_formula (s : State) (a : Addr) (d : Denom) (hh : 0 ≤ s.hold a d) :
    spendableCoins s {} a d = max 0 (s.bal a d - s.hold a d - unvested s a d) := by
  have hu := unvested_nonneg s a d
  simp only [spendableCoins, lockedCoins, unvestedGetter, holdGetter, pos_of_nonneg hh, pos_of_nonneg hu]
  simp only [Bool.false_eq_true, if_false]
  split <;> omega

/-- `SpendableCoins` with the SDK's exact clipping (`SafeSub`, then "positive entries only" when
anything went negative), for every denom `d` of the balance or the locked coins (`d ∈ ds`) and
for every denom that occurs in neither. -/
theorem spendableCoinsOver_formula (s : State) (a : Addr) (ds : List Denom) (d : Denom) (hh : 0 ≤ s.hold a d)
    (hd : d ∈ ds ∨ (s.bal a d = 0 ∧ lockedCoins s {} a d = 0)) :
    spendableCoinsOver s {} a ds d = max 0 (s.bal a d - s.hold a d - unvested s a d) := by
  rw [← spendableCoins_formula s a d hh]
  unfold spendableCoinsOver spendableCoins
  simp only
  split_ifs with h1 h2 h3
  · rfl
  · rcases hd with hd | ⟨hb, hl⟩
    · simp only [Bool.not_eq_true', List.any_eq_false, decide_eq_true_eq] at h1
      have := h1 d hd
      omega
    · omega
  · rfl
  · rfl

/-- `SpendableCoin` (the gRPC `SpendableBalances` query), for a non-negative balance. -/
theorem spendableCoin_formula (s : State) (a : Addr) (d : Denom) (hh : 0 ≤ s.hold a d) (hb : 0 ≤ s.bal a d) :
    spendableCoin s {} a d = max 0 (s.bal a d - s.hold a d - unvested s a d) := by
  rw [← spendableCoins_formula s a d hh]
  unfold spendableCoin spendableCoins
  have := locked_nonneg s {} a d
  simp only
  split_ifs <;> omega

/-! ## 4. Frame: bank routes never change holds, hold routes never change balances;
a rejected operation changes nothing -/

def isHoldOp : Op → Bool
  | .addHold .. | .releaseHold .. => true
  | _ => false

/-- No bank primitive writes the hold store (or the block time). -/
theorem bank_ops_keep_holds {s s' : State} {op : Op} (hop : isHoldOp op = false)
    (h : apply s op = .ok s') : s'.holds = s.holds := by
  cases op with
  | send c src dst amt r =>
    simp only [apply, sendCoins] at h
    split at h
    · cases h
    · rename_i s₁ h₁
      split at h
      · cases h
      · split at h
        · cases h
        · rename_i s₂ h₂
          simp at h; subst h
          exact ((ensureAccount_credited s₂ _).frame.holds).trans
            ((addCoins_credited h₂).frame.holds.trans (subUnlockedCoins_debited h₁).1.frame.holds)
  | inputOutput c ins outs rs =>
    simp only [apply, inputOutputCoins] at h
    split_ifs at h
    split at h
    · cases h
    · split at h
      · cases h
      · rename_i s₁ h₁
        split at h
        · cases h
        · exact (addAll_credited _ _ _ h).frame.holds.trans (subAll_frame c _ _ _ h₁).holds
  | delegate c del mod amt r =>
    simp only [apply, delegateCoins] at h
    split_ifs at h
    split at h
    · cases h
    · rename_i s₁ h₁
      split at h
      · cases h
      · split_ifs at h
        obtain ⟨_, t2, _, _⟩ := trackDelegation_ledger del amt s₁
        exact (addCoins_credited h).frame.holds.trans (t2.trans (delegateLoop_debited _ _ _ _ _ h₁).frame.holds)
  | undelegate c mod del amt =>
    simp only [apply, undelegateCoins] at h
    split_ifs at h
    split at h
    · cases h
    · rename_i s₁ h₁
      split_ifs at h
      obtain ⟨_, t2, _, _⟩ := trackUndelegation_ledger del amt s₁
      exact (addCoins_credited h).frame.holds.trans (t2.trans (subUnlockedCoins_debited h₁).1.frame.holds)
  | mint mod amt => exact (addCoins_credited h).frame.holds
  | burn c mod amt => exact (subUnlockedCoins_debited h).1.frame.holds
  | addHold c a funds => simp [isHoldOp] at hop
  | releaseHold a funds => simp [isHoldOp] at hop
  | setTime t => simp [apply] at h; subst h; rfl

/-- The hold keeper never writes a balance. -/
theorem hold_ops_keep_balances {s s' : State} {op : Op} (hop : isHoldOp op = true)
    (h : apply s op = .ok s') : s'.ledger = s.ledger := by
  cases op with
  | addHold c a funds =>
    simp only [apply, addHold] at h
    split_ifs at h
    · simp at h; subst h; rfl
    · split at h
      · cases h
      · simp at h; subst h; exact (addHoldLoop_spec a funds s).1
  | releaseHold a funds =>
    simp only [apply, releaseHold] at h
    split_ifs at h with hz hn
    · simp at h; subst h; rfl
    · exact (releaseLoop_spec a funds s s' (isAnyNegative_false (by simpa using hn)) h).1
  | _ => simp [isHoldOp] at hop

/-- A rejected operation changes nothing (transaction atomicity, by construction of `step`). -/
theorem rejected_changes_nothing (s : State) (op : Op) (e : Err) (h : apply s op = .error e) :
    step s op = s := by
  simp [step, h]

/-- Holds are never negative, along every history. -/
theorem run_holdNonneg : ∀ (ops : List Op) (s : State), HoldNonneg s → HoldNonneg (run s ops)
  | [], _, h => h
  | op :: rest, s, h => by
    simp only [run, List.foldl_cons]
    refine run_holdNonneg rest (step s op) ?_
    unfold step
    split
    · rename_i s' hs
      by_cases hop : isHoldOp op = false
      · intro a d; unfold State.hold; rw [bank_ops_keep_holds hop hs]; exact h a d
      · cases op with
        | addHold c a funds =>
          simp only [apply, addHold] at hs
          split_ifs at hs with hz
          · simp at hs; subst hs; exact h
          · split at hs
            · cases hs
            · rename_i hv
              simp at hs; subst hs
              intro a' d'
              rw [(addHoldLoop_spec a funds s).2.2.2.2.2 a' d']
              unfold validateNewHold at hv
              split_ifs at hv with hn
              have := amountOf_nonneg_of_pos funds (isAnyNegative_false (by simpa using hn)) d'
              have := h a' d'
              split <;> omega
        | releaseHold a funds =>
          simp only [apply, releaseHold] at hs
          split_ifs at hs with hz hn
          · simp at hs; subst hs; exact h
          · obtain ⟨_, _, _, _, _, _, h7⟩ :=
              releaseLoop_spec a funds s s' (isAnyNegative_false (by simpa using hn)) hs
            intro a' d'
            rcases h7 a' d' with he | hl
            · rw [he]; exact h a' d'
            · exact hl
        | _ => simp [isHoldOp] at hop
    · exact h

/-- **Spendable, along every history**: after any history from a state without negative holds,
the spendable balance the bank reports (`SpendableCoins`, denom by denom) is exactly
`max 0 (balance − hold − unvested)`. -/
theorem run_spendable_formula (ops : List Op) (s : State) (h0 : HoldNonneg s) (a : Addr) (d : Denom) :
    spendableCoins (run s ops) {} a d =
      max 0 ((run s ops).bal a d - (run s ops).hold a d - unvested (run s ops) a d) :=
  spendableCoins_formula _ a d (run_holdNonneg ops s h0 a d)

/-! ## 5. A new hold needs spendable funds -/

/-- `AddHold` succeeds only if every (non-zero) coin is within the spendable balance — which
already excludes existing holds and unvested coins. -/
theorem addHold_requires_spendable {s s' : State} {c : Ctx} {a : Addr} {funds : Coins}
    (h : addHold s c a funds = .ok s') : ∀ d x, (d, x) ∈ funds → x ≤ spendableCoins s c a d := by
  intro d x hm
  have hsp : 0 ≤ spendableCoins s c a d := by unfold spendableCoins; simp only; split <;> omega
  unfold addHold at h
  split_ifs at h with hz
  · have : x = 0 := by
      unfold isZero at hz
      simpa using (List.all_eq_true.mp hz) (d, x) hm
    omega
  · split at h
    · cases h
    · rename_i hv
      unfold validateNewHold at hv
      split_ifs at hv with hn
      by_cases hx : x = 0
      · omega
      · exact (validateLoop_ok s c a funds hv d x hm hx).1

/-- With distinct denoms: the total newly held per denom is within the spendable balance, and the
hold grows by exactly that amount. -/
theorem addHold_exact {s s' : State} {c : Ctx} {a : Addr} {funds : Coins}
    (hnd : (Coins.denoms funds).Nodup) (h : addHold s c a funds = .ok s') (d : Denom) :
    Coins.amountOf funds d ≤ spendableCoins s c a d ∧
      s'.hold a d = s.hold a d + Coins.amountOf funds d := by
  constructor
  · by_cases hm : d ∈ Coins.denoms funds
    · obtain ⟨p, hp, hpd⟩ := List.mem_map.mp hm
      obtain ⟨d'', x⟩ := p
      simp at hpd; subst hpd
      rw [amountOf_of_mem_nodup funds hnd d'' x hp]
      exact addHold_requires_spendable h d'' x hp
    · rw [amountOf_of_not_mem funds d hm]; unfold spendableCoins; simp only; split <;> omega
  · unfold addHold at h
    split_ifs at h with hz
    · simp at h; subst h
      have : Coins.amountOf funds d = 0 := by
        unfold isZero at hz
        have hz' := List.all_eq_true.mp hz
        clear hnd
        induction funds with
        | nil => simp
        | cons p t ih =>
          obtain ⟨dp, xp⟩ := p
          have h1 : xp = 0 := by simpa using hz' (dp, xp) (by simp)
          have h2 := ih (List.all_eq_true.mpr fun q hq => hz' q (List.mem_cons_of_mem _ hq))
            (fun q hq => hz' q (List.mem_cons_of_mem _ hq))
          simp [h1, h2]
      omega
    · split at h
      · cases h
      · simp at h; subst h
        rw [(addHoldLoop_spec a funds s).2.2.2.2.2 a d]; simp

/-! ## 6. What `HoldAccountBalancesInvariant` checks holds along every production history

`x/hold/keeper/invariants.go` re-validates every hold as if it were new, with the hold getter
bypassed: the held funds must be *otherwise unlocked*, `hold + unvested ≤ balance`.  This is
stronger than `hold ≤ balance` for vesting accounts and needs the delegation tracking
(`DelegatedVesting`/`DelegatedFree`), block time that only moves forward, and vesting schedules
that only release. -/

/-- production context: neither the hold bypass nor the vesting bypass is set by the caller
(`vestingBypass_sites`, `holdBypass_only_in_invariant`: only `DelegateCoins` sets the vesting
bypass — itself, inside the model's `delegateCoins` — and only the invariant sets the hold's). -/
def PlainCtx (op : Op) : Prop := op.ctx.holdBypass = false ∧ op.ctx.vestBypass = false

/-- block time never moves backwards -/
def TimeOk (s : State) : Op → Prop
  | .setTime t => s.time ≤ t
  | _ => True

structure Good (s : State) : Prop where
  holdLeBal : HoldLeBal s
  heldUnlocked : HeldUnlocked s
  dfNonneg : DfNonneg s
  schedMono : SchedMono s

private theorem subUnlockedCoins_good {s s' : State} {c : Ctx} {a : Addr} {amt : Coins}
    (hh : c.holdBypass = false) (hv : c.vestBypass = false) (g : Good s)
    (h : subUnlockedCoins s c a amt = .ok s') : Good s' := by
  have hd := (subUnlockedCoins_debited h).1
  exact ⟨subUnlockedCoins_holdLeBal hh g.holdLeBal h,
    hd.heldUnlocked (fun d _ => hold_unvested_le_locked s c a d hh hv) g.heldUnlocked,
    hd.dfNonneg g.dfNonneg, g.schedMono.of_frame hd.frame.kindOf⟩

private theorem credited_good {s s' : State} (h : Credited s s') (g : Good s) : Good s' :=
  ⟨h.holdLeBal g.holdLeBal, h.heldUnlocked g.heldUnlocked, h.dfNonneg g.dfNonneg,
    g.schedMono.of_frame h.frame.kindOf⟩

private theorem subAll_good (c : Ctx) (hh : c.holdBypass = false) (hv : c.vestBypass = false) :
    ∀ (xs : List (Addr × Coins)) (s s' : State), Good s → subAll s c xs = .ok s' → Good s'
  | [], s, s', g, h => by simp [subAll] at h; subst h; exact g
  | (a, amt) :: rest, s, s', g, h => by
    simp only [subAll] at h
    split at h
    · cases h
    · rename_i s₁ h₁
      exact subAll_good c hh hv rest s₁ s' (subUnlockedCoins_good hh hv g h₁) h

private theorem delegateCoins_good {s s' : State} {c : Ctx} {del mod : Addr} {amt : Coins} {r : Option Addr}
    (hh : c.holdBypass = false) (g : Good s) (h : delegateCoins s c del mod amt r = .ok s') : Good s' := by
  have hlb := delegateCoins_holdLeBal hh g.holdLeBal h
  unfold delegateCoins at h
  split_ifs at h with _ hval
  have hval' : isValid amt = true := by simpa using hval
  have hpos : ∀ p ∈ amt, 0 ≤ p.2 := fun p hp => Int.le_of_lt (isValid_pos amt hval' p hp)
  split at h
  · cases h
  · rename_i s₁ h₁
    have hd := delegateLoop_debited _ _ _ _ _ h₁
    have hbal := delegateLoop_bal _ _ _ _ _ h₁
    split at h
    · cases h
    · split_ifs at h
      obtain ⟨t1, t2, t3, t4⟩ := trackDelegation_ledger del amt s₁
      obtain ⟨u1, u2, u3⟩ := trackDelegation_spec del amt s₁ hpos
      -- the state after tracking
      have hk2 : ∀ a, (trackDelegation s₁ del amt).kindOf a = s.kindOf a :=
        fun a => (kindOf_of_kinds t4 a).trans (hd.frame.kindOf a)
      have g₂ : Good (trackDelegation s₁ del amt) := by
        refine ⟨?_, ?_, u3 (hd.dfNonneg g.dfNonneg), g.schedMono.of_frame hk2⟩
        · intro a d; unfold State.hold State.bal; rw [t1, t2]
          exact (hd.holdLeBal (fun d => hold_le_locked s { c with vestBypass := true } del d (by simpa using hh))
            g.holdLeBal) a d
        · intro a d hpos'
          have hh2 : (trackDelegation s₁ del amt).hold a d = s.hold a d := by
            unfold State.hold; rw [t2, hd.frame.holds]
          have hb2 : (trackDelegation s₁ del amt).bal a d = s₁.bal a d := by
            unfold State.bal; rw [t1]
          rw [hh2] at hpos' ⊢
          rw [hb2]
          by_cases ha : a = del
          · subst ha
            have hU := u2 d
            rw [hd.frame.unvested hd.dv] at hU
            have h1 := g.heldUnlocked a d hpos'
            have h3 : s.hold a d ≤ s₁.bal a d := by
              rcases hd.own d with he | hl
              · rw [he]; exact g.holdLeBal a d
              · exact Int.le_trans (hold_le_locked s { c with vestBypass := true } a d (by simpa using hh)) hl
            rw [hbal d] at h3 ⊢
            omega
          · have hdv : (trackDelegation s₁ del amt).dvOf a d = s.dvOf a d := by
              rw [u1 a d ha]; unfold State.dvOf; rw [hd.dv]
            rw [unvested_congr (hk2 a) (t3.trans hd.frame.time) hdv, hd.other a d ha]
            exact g.heldUnlocked a d hpos'
      have := credited_good (addCoins_credited h) g₂
      exact ⟨hlb, this.heldUnlocked, this.dfNonneg, this.schedMono⟩

private theorem undelegateCoins_good {s s' : State} {c : Ctx} {mod del : Addr} {amt : Coins}
    (hh : c.holdBypass = false) (hv : c.vestBypass = false) (g : Good s)
    (h : undelegateCoins s c mod del amt = .ok s') : Good s' := by
  have hlb := undelegateCoins_holdLeBal hh g.holdLeBal h
  unfold undelegateCoins at h
  split_ifs at h with _ hval
  have hval' : isValid amt = true := by simpa using hval
  have hpos : ∀ p ∈ amt, 0 ≤ p.2 := fun p hp => Int.le_of_lt (isValid_pos amt hval' p hp)
  split at h
  · cases h
  · rename_i s₁ h₁
    have g₁ := subUnlockedCoins_good hh hv g h₁
    split_ifs at h
    obtain ⟨t1, t2, t3, t4⟩ := trackUndelegation_ledger del amt s₁
    obtain ⟨u1, u2, u3⟩ := trackUndelegation_spec del amt s₁ hpos g₁.dfNonneg
    have hb := addCoins_bal h
    have hc := addCoins_credited h
    refine ⟨hlb, ?_, hc.dfNonneg u3, (g₁.schedMono.of_frame (kindOf_of_kinds t4)).of_frame hc.frame.kindOf⟩
    intro a d hpos'
    have hh2 : s'.hold a d = s₁.hold a d := by
      rw [hc.frame.hold]; unfold State.hold; rw [t2]
    rw [hh2] at hpos' ⊢
    rw [hc.frame.unvested hc.dv, hb]
    have hb2 : (trackUndelegation s₁ del amt).bal a d = s₁.bal a d := by unfold State.bal; rw [t1]
    rw [hb2]
    have h1 := g₁.heldUnlocked a d hpos'
    by_cases ha : del = a
    · subst ha
      have := u2 d
      simp only [if_true]; omega
    · have hdv : (trackUndelegation s₁ del amt).dvOf a d = s₁.dvOf a d := u1 a d (fun e => ha e.symm)
      rw [unvested_congr (kindOf_of_kinds t4 a) t3 hdv]
      simp only [ha, if_false]; omega

private theorem addHold_good {s s' : State} {c : Ctx} {a : Addr} {funds : Coins}
    (hh : c.holdBypass = false) (hv : c.vestBypass = false) (hnd : (Coins.denoms funds).Nodup) (g : Good s)
    (h : addHold s c a funds = .ok s') : Good s' := by
  have hlb := addHold_holdLeBal hh hnd g.holdLeBal h
  have hex := fun d => (addHold_exact hnd h d).2
  unfold addHold at h
  split_ifs at h with hz
  · simp at h; subst h; exact g
  · split at h
    · cases h
    · rename_i hval
      simp at h; subst h
      obtain ⟨hl, hk, hdv, hdf, ht, hhold⟩ := addHoldLoop_spec a funds s
      have hun : ∀ a' d', unvested (addHoldLoop s a funds) a' d' = unvested s a' d' := fun a' d' =>
        unvested_congr (kindOf_of_kinds hk a') ht (by unfold State.dvOf; rw [hdv])
      refine ⟨hlb, ?_, ?_, g.schedMono.of_frame (kindOf_of_kinds hk)⟩
      · intro a' d' hpos'
        rw [hun]
        have hb : (addHoldLoop s a funds).bal a' d' = s.bal a' d' := by unfold State.bal; rw [hl]
        rw [hb]
        rw [hhold] at hpos' ⊢
        by_cases ha : a = a'
        · subst ha
          simp only [if_true] at hpos' ⊢
          by_cases hm : d' ∈ Coins.denoms funds
          · obtain ⟨p, hp, hpd⟩ := List.mem_map.mp hm
            obtain ⟨d'', x⟩ := p
            simp at hpd; subst hpd
            rw [amountOf_of_mem_nodup funds hnd d'' x hp] at hpos' ⊢
            by_cases hx : x = 0
            · subst hx; have := g.heldUnlocked a d'' (by omega); omega
            · unfold validateNewHold at hval
              split_ifs at hval
              obtain ⟨h1, h2⟩ := validateLoop_ok s c a funds hval d'' x hp hx
              have hlk := hold_unvested_le_locked s c a d'' hh hv
              unfold spendableCoins at h1 h2
              simp only at h1 h2
              split_ifs at h1 h2 <;> omega
          · rw [amountOf_of_not_mem funds d' hm] at hpos' ⊢
            have := g.heldUnlocked a d' (by omega); omega
        · simp only [ha, if_false] at hpos' ⊢
          have := g.heldUnlocked a' d' (by omega); omega
      · intro a' d'; unfold State.dfOf; rw [hdf]; exact g.dfNonneg a' d'

private theorem releaseHold_good {s s' : State} {a : Addr} {funds : Coins} (g : Good s)
    (h : releaseHold s a funds = .ok s') : Good s' := by
  have hlb := releaseHold_holdLeBal g.holdLeBal h
  unfold releaseHold at h
  split_ifs at h with hz hn
  · simp at h; subst h; exact g
  · obtain ⟨hl, hk, hdv, hdf, ht, hle, _⟩ :=
      releaseLoop_spec a funds s s' (isAnyNegative_false (by simpa using hn)) h
    refine ⟨hlb, ?_, ?_, g.schedMono.of_frame (kindOf_of_kinds hk)⟩
    · intro a' d' hpos'
      rw [unvested_congr (kindOf_of_kinds hk a') ht (by unfold State.dvOf; rw [hdv])]
      have hb : s'.bal a' d' = s.bal a' d' := by unfold State.bal; rw [hl]
      rw [hb]
      have := hle a' d'
      have := g.heldUnlocked a' d' (by omega)
      omega
    · intro a' d'; unfold State.dfOf; rw [hdf]; exact g.dfNonneg a' d'

/-- Every primitive keeps the bundle (hold ≤ balance, held funds otherwise unlocked,
DelegatedFree ≥ 0, schedules) in a production context with forward-moving time. -/
theorem apply_good {s s' : State} {op : Op} (hp : PlainCtx op) (hwf : WF op) (ht : TimeOk s op) (g : Good s)
    (h : apply s op = .ok s') : Good s' := by
  obtain ⟨hh, hv⟩ := hp
  cases op with
  | send c src dst amt r =>
    simp only [apply, sendCoins] at h
    split at h
    · cases h
    · rename_i s₁ h₁
      split at h
      · cases h
      · split at h
        · cases h
        · rename_i s₂ h₂
          simp at h; subst h
          exact credited_good (ensureAccount_credited s₂ _) (credited_good (addCoins_credited h₂) (subUnlockedCoins_good hh hv g h₁))
  | inputOutput c ins outs rs =>
    simp only [apply, inputOutputCoins] at h
    split_ifs at h
    split at h
    · cases h
    · split at h
      · cases h
      · rename_i s₁ h₁
        split at h
        · cases h
        · exact credited_good (addAll_credited _ _ _ h) (subAll_good c hh hv _ _ _ g h₁)
  | delegate c del mod amt r => exact delegateCoins_good hh g h
  | undelegate c mod del amt => exact undelegateCoins_good hh hv g h
  | mint mod amt => exact credited_good (addCoins_credited h) g
  | burn c mod amt => exact subUnlockedCoins_good hh hv g h
  | addHold c a funds => exact addHold_good hh hv hwf.2 g h
  | releaseHold a funds => exact releaseHold_good g h
  | setTime t =>
    simp [apply] at h; subst h
    refine ⟨fun a d => g.holdLeBal a d, ?_, fun a d => g.dfNonneg a d, fun a sc hsc => g.schedMono a sc hsc⟩
    intro a d hpos'
    have h1 := g.heldUnlocked a d hpos'
    have hle : unvested { s with time := t } a d ≤ unvested s a d := by
      unfold unvested
      show (match (s.kindOf a).vesting? with
        | some sc => sc.vesting t d - min (sc.vesting t d) (s.dvOf a d)
        | none => 0) ≤ _
      cases hk : (s.kindOf a).vesting? with
      | none => simp
      | some sc =>
        have := g.schedMono a sc hk s.time t d ht
        simp only; omega
    show s.hold a d + unvested { s with time := t } a d ≤ s.bal a d
    omega

/-- histories whose block time never moves backwards -/
def TimeMono : State → List Op → Prop
  | _, [] => True
  | s, op :: rest => TimeOk s op ∧ TimeMono (step s op) rest

/-- **The hold invariant, along every production history**: from a good state, after any
history of bank / hold operations in production contexts with forward-moving block time, every
hold is covered by funds that are otherwise unlocked: `hold + unvested ≤ balance`. -/
theorem run_good : ∀ (ops : List Op) (s : State), (∀ op ∈ ops, PlainCtx op ∧ WF op) → TimeMono s ops →
    Good s → Good (run s ops)
  | [], _, _, _, g => g
  | op :: rest, s, hops, htm, g => by
    simp only [run, List.foldl_cons]
    have ⟨hp, hwf⟩ := hops op (by simp)
    refine run_good rest (step s op) (fun o ho => hops o (List.mem_cons_of_mem _ ho)) htm.2 ?_
    unfold step
    split
    · rename_i s' h; exact apply_good hp hwf htm.1 g h
    · exact g

/-- `Good` implies the Go invariant reports "not broken" for every account and denom, whether
or not the block time is zero (`holdInvariantAt` mirrors `holdAccountBalancesInvariantHelper`). -/
theorem good_implies_go_invariant {s : State} (g : Good s) (a : Addr) (d : Denom) :
    holdInvariantAt s a d = true := by
  unfold holdInvariantAt
  simp only
  split_ifs with h0
  · rfl
  · have hpos : 0 < s.hold a d := by omega
    have h1 := g.heldUnlocked a d hpos
    have h2 := g.holdLeBal a d
    have hu := unvested_nonneg s a d
    simp only [decide_eq_true_eq, spendableCoins, lockedCoins, unvestedGetter, holdGetter]
    by_cases ht : s.time = 0
    · simp [ht]; split <;> omega
    · simp [ht, pos_of_nonneg hu]; split <;> omega

/-- what `BaseVestingAccount.Validate` / `ContinuousVestingAccount.Validate` guarantee: original
vesting amounts are not negative and a continuous schedule starts before it ends -/
def SchedWF : Sched → Prop
  | .delayed ov _ => ∀ d, 0 ≤ Coins.amountOf ov d
  | .continuous ov st e => st < e ∧ ∀ d, 0 ≤ Coins.amountOf ov d

/-- Both modelled vesting schedules only release: `GetVestingCoins` never grows with the block
time (for the continuous schedule this goes through the LegacyDec rounding). -/
theorem vesting_schedules_only_release (sc : Sched) (hwf : SchedWF sc) (t t' : Int) (d : Denom) (h : t ≤ t') :
    sc.vesting t' d ≤ sc.vesting t d := by
  cases sc with
  | delayed ov e =>
    have := hwf d
    simp only [Sched.vesting]
    split_ifs <;> omega
  | continuous ov st e => exact continuous_vesting_antitone ov st e t t' d h hwf.1 (hwf.2 d)

/-- so `SchedMono` holds for every account table whose vesting accounts pass `Validate` -/
theorem schedMono_of_wf (s : State) (h : ∀ a sc, (s.kindOf a).vesting? = some sc → SchedWF sc) :
    SchedMono s :=
  fun a sc hsc t t' d ht => vesting_schedules_only_release sc (h a sc hsc) t t' d ht

/-- non-vacuity of `Good`: a vesting account with a hold inside its vested part -/
example :
    let s : State := { ledger := [⟨"V", "stake", 100⟩], holds := [⟨"V", "stake", 30⟩],
                       kinds := [("V", .vesting (.delayed [("stake", 60)] 1000))], time := 10 }
    HoldLeBal s ∧ HeldUnlocked s ∧ DfNonneg s := by
  refine ⟨?_, ?_, ?_⟩
  · intro a d
    simp only [State.hold, State.bal, Ledger.bal]
    split <;> omega
  · intro a d
    by_cases h : a = "V" ∧ d = "stake"
    · obtain ⟨rfl, rfl⟩ := h; decide
    · intro hp
      simp only [State.hold, Ledger.bal] at hp
      have h' : ¬ ("V" = a ∧ "stake" = d) := fun hh => h ⟨hh.1.symm, hh.2.symm⟩
      simp [h'] at hp
  · intro a d; simp [State.dfOf]

/-! ## 7. Facts regenerated from the Go source on every run (`tools/extract/lock.go`)

These tie the model's shape to the code: the model's primitives are *all* the balance-writing
routes of the forked bank keeper, the getter chain is `[UnvestedCoins, hold.GetLockedCoins]`,
and the hold bypass is not used by production code outside the invariant. -/

section Facts
open Generated.LockFacts PvProofs.Facts

/-- Every balance write of the forked bank module: `setBalance` is called only by
`subUnlockedCoins`, `addCoins` and `DelegateCoins`; the `Balances` collection is written only by
`setBalance` (and `InitGenesis`); `subUnlockedCoins`/`addCoins` are called only by the five
routes the model has (`SendCoins`, `InputOutputCoinsProv`, `DelegateCoins`, `UndelegateCoins`,
`MintCoins`, `BurnCoins`). -/
theorem bank_balance_writers :
    bankCalls.map (fun c => (c.callee, c.func)) = [
      ("Balances.Remove", "setBalance"),
      ("Balances.Set", "InitGenesis"),
      ("Balances.Set", "setBalance"),
      ("addCoins", "DelegateCoins"),
      ("addCoins", "MintCoins"),
      ("addCoins", "UndelegateCoins"),
      ("addCoins", "InputOutputCoinsProv"),
      ("addCoins", "SendCoins"),
      ("setBalance", "DelegateCoins"),
      ("setBalance", "addCoins"),
      ("setBalance", "subUnlockedCoins"),
      ("subUnlockedCoins", "BurnCoins"),
      ("subUnlockedCoins", "UndelegateCoins"),
      ("subUnlockedCoins", "InputOutputCoinsProv"),
      ("subUnlockedCoins", "SendCoins")] := by decide

/-- `hold.WithBypass` has exactly one production call site: the invariant helper. Every other
call is in a `_test.go` file. -/
theorem holdBypass_only_in_invariant :
    holdBypassCalls.all (fun c => c.isTest ||
      (c.file == "x/hold/keeper/invariants.go" && c.func == "holdAccountBalancesInvariantHelper")) = true ∧
    (holdBypassCalls.filter (fun c => !c.isTest)).length = 1 := by decide

/-- The vesting bypass is set only by `DelegateCoins` and the hold invariant (and by the SDK's
staking *simulation* operations, which are not linked into a production binary's message path). -/
theorem vestingBypass_sites :
    (vestingBypassCalls.filter (fun c => c.file != "sdk:x/staking/simulation/operations.go")).map
        (fun c => (c.file, c.func)) =
      [("x/hold/keeper/invariants.go", "holdAccountBalancesInvariantHelper"),
       ("sdk:x/bank/keeper/keeper.go", "DelegateCoins")] := by decide

/-- The locked-coins chain is built by exactly two appends — the bank keeper's own
`UnvestedCoins` and `hold.NewKeeper`'s `GetLockedCoins` — and is never prepended to or cleared. -/
theorem lockedGetter_chain :
    lockedGetterCalls.map (fun c => (c.callee, c.file, c.func, c.args)) =
      [("AppendLockedCoinsGetter", "x/hold/keeper/keeper.go", "NewKeeper", ["rv.GetLockedCoins"]),
       ("AppendLockedCoinsGetter", "sdk:x/bank/keeper/view.go", "NewBaseViewKeeper", ["k.UnvestedCoins"])] := by
  decide

/-- `AddHold` is called from exactly three production sites, all in the exchange keeper: order
creation (`order.GetHoldAmount()`, built with `Coins.Add`), payments (`payment.SourceAmount`,
after `payment.Validate()` in the same function) and commitments (`amount`, validated by
`MsgCommitFundsRequest.ValidateBasic` / `AccountAmount.Validate`). -/
theorem addHold_callers :
    addHoldCalls.map (fun c => (c.file, c.func, c.args.drop 2 |>.head?)) =
      [("x/exchange/keeper/commitments.go", "addCommitment", some "amount"),
       ("x/exchange/keeper/orders.go", "placeHoldOnOrder", some "toHold"),
       ("x/exchange/keeper/payments.go", "CreatePayment", some "payment.SourceAmount")] ∧
    validatesBeforeAddHold = [("CreatePayment", true)] := by decide

/-- `app/app.go` constructs the bank keeper first, then the hold keeper **with the app's bank
keeper** as its last argument, each exactly once — so `NewKeeper` appends the hold getter to the
keeper every module uses. -/
theorem holdKeeper_wired_to_app_bankKeeper :
    appWiring.map (fun w => (w.target, w.callee, w.args.getLast?)) =
      [("app.BankKeeper", "bankkeeper.NewBaseKeeper", some "logger"),
       ("app.HoldKeeper", holdKeeperImport ++ ".NewKeeper", some "app.BankKeeper")] := by decide

end Facts

/-! ## 8. Exchange messages: several releases, transfers and new holds in one transaction

`acceptPaymentOps`, `closeSettlementOps` and `settleCommitmentsOps` (`PvModel/Lock.lean`) are the
exchange's payment-accept, order-settlement (FillBids / FillAsks / MarketSettle) and
commitment-settlement routes as the primitives they call, in the Go order; `applyAll` runs such a
list atomically.  A message is a history (`applyAll_eq_run`), so everything proved for all
histories holds for it; on top of that, **a message cannot use any hold it did not itself
release**: every account's holds that the message does not release are still there afterwards
and still covered by that account's balance — whoever pays, whatever else it has on hold. -/

/-- An accepted message is the history of its primitives. -/
theorem applyAll_eq_run : ∀ (ops : List Op) (s s' : State), applyAll s ops = .ok s' → run s ops = s'
  | [], s, s', h => by
    simp [applyAll] at h; simp [run, h]
  | op :: rest, s, s', h => by
    simp only [applyAll] at h
    split at h
    · cases h
    · rename_i s₁ h₁
      simp only [run, List.foldl_cons, step, h₁]
      exact applyAll_eq_run rest s₁ s' h

/-- A rejected message changes nothing (by construction of `stepMsg`). -/
theorem message_rejected_changes_nothing (s : State) (ops : List Op) (e : Err)
    (h : applyAll s ops = .error e) : stepMsg s ops = s := by
  simp [stepMsg, h]

/-- Any message of well-formed primitives, accepted or not, keeps `hold ≤ balance`. -/
theorem message_holdLeBal (ops : List Op) (s : State) (hwf : ∀ op ∈ ops, WF op) (h : HoldLeBal s) :
    HoldLeBal (stepMsg s ops) := by
  unfold stepMsg
  split
  · rename_i s' hs
    rw [← applyAll_eq_run ops s s' hs]
    exact run_holdLeBal ops s hwf h
  · exact h

/-- the primitive is not a block-time change -/
def NoSetTime : Op → Prop
  | .setTime _ => False
  | _ => True

private theorem timeMono_of_noSetTime : ∀ (ops : List Op) (s : State), (∀ op ∈ ops, NoSetTime op) → TimeMono s ops
  | [], _, _ => trivial
  | op :: rest, s, h => by
    refine ⟨?_, timeMono_of_noSetTime rest _ (fun o ho => h o (List.mem_cons_of_mem _ ho))⟩
    have := h op (by simp)
    cases op <;> simp_all [TimeOk, NoSetTime]

/-- Any message of production-context primitives keeps what `HoldAccountBalancesInvariant`
checks (`hold + unvested ≤ balance`, see §6). -/
theorem message_good (ops : List Op) (s : State) (hops : ∀ op ∈ ops, PlainCtx op ∧ WF op ∧ NoSetTime op)
    (g : Good s) : Good (stepMsg s ops) := by
  unfold stepMsg
  split
  · rename_i s' hs
    rw [← applyAll_eq_run ops s s' hs]
    exact run_good ops s (fun o ho => ⟨(hops o ho).1, (hops o ho).2.1⟩)
      (timeMono_of_noSetTime ops s (fun o ho => (hops o ho).2.2)) g
  · exact g

/-- A primitive that is not a release for `a` never lowers a hold of `a`. -/
theorem apply_hold_mono {s s' : State} {op : Op} (a : Addr) (hnr : ∀ cs, op ≠ .releaseHold a cs)
    (h : apply s op = .ok s') (d : Denom) : s.hold a d ≤ s'.hold a d := by
  by_cases hop : isHoldOp op = false
  · unfold State.hold; rw [bank_ops_keep_holds hop h]
  · cases op with
    | addHold c a' funds =>
      simp only [apply, addHold] at h
      split_ifs at h with hz
      · simp at h; subst h; exact Int.le_refl _
      · split at h
        · cases h
        · rename_i hv
          simp at h; subst h
          rw [(addHoldLoop_spec a' funds s).2.2.2.2.2 a d]
          unfold validateNewHold at hv
          split_ifs at hv with hn
          have := amountOf_nonneg_of_pos funds (isAnyNegative_false (by simpa using hn)) d
          split <;> omega
    | releaseHold a' funds =>
      have hne : a ≠ a' := fun e => hnr funds (by rw [e])
      simp only [apply, releaseHold] at h
      split_ifs at h with hz hn
      · simp at h; subst h; exact Int.le_refl _
      · rw [releaseLoop_other a' funds s s' h a d hne]
    | _ => simp [isHoldOp] at hop

/-- the message contains no release for `a` -/
def NoReleaseFor (a : Addr) (ops : List Op) : Prop := ∀ op ∈ ops, ∀ cs, op ≠ .releaseHold a cs

theorem applyAll_hold_mono (a : Addr) : ∀ (ops : List Op) (s s' : State), NoReleaseFor a ops →
    applyAll s ops = .ok s' → ∀ d, s.hold a d ≤ s'.hold a d
  | [], s, s', _, h, d => by simp [applyAll] at h; subst h; exact Int.le_refl _
  | op :: rest, s, s', hnr, h, d => by
    simp only [applyAll] at h
    split at h
    · cases h
    · rename_i s₁ h₁
      exact Int.le_trans (apply_hold_mono a (hnr op (by simp)) h₁ d)
        (applyAll_hold_mono a rest s₁ s' (fun o ho => hnr o (List.mem_cons_of_mem _ ho)) h d)

/-- **A message cannot spend holds it does not release.**  After an accepted message, every
account for which the message contains no release still has at least the holds it had before,
and its balance still covers them — in particular the *paying* side of an exchange transfer
keeps all its other holds intact. -/
theorem message_unreleased_holds_stay_covered (ops : List Op) (s s' : State) (a : Addr)
    (hwf : ∀ op ∈ ops, WF op) (hinv : HoldLeBal s) (hnr : NoReleaseFor a ops)
    (h : applyAll s ops = .ok s') (d : Denom) :
    s.hold a d ≤ s'.hold a d ∧ s'.hold a d ≤ s'.bal a d := by
  refine ⟨applyAll_hold_mono a ops s s' hnr h d, ?_⟩
  have := run_holdLeBal ops s hwf hinv
  rw [applyAll_eq_run ops s s' h] at this
  exact this a d

private theorem doTransferOp_ok (ins outs : List (Addr × Coins)) (rs : List (Option Addr)) :
    (PlainCtx (doTransferOp ins outs rs) ∧ WF (doTransferOp ins outs rs) ∧ NoSetTime (doTransferOp ins outs rs)) ∧
      ∀ a cs, doTransferOp ins outs rs ≠ .releaseHold a cs := by
  unfold doTransferOp
  split <;> simp [PlainCtx, WF, NoSetTime, Op.ctx, exchangeCtx]

private theorem doTransfersOps_ok : ∀ (ts : List (List (Addr × Coins) × List (Addr × Coins))) (rs : List (Option Addr)),
    ∀ op ∈ doTransfersOps ts rs, (PlainCtx op ∧ WF op ∧ NoSetTime op) ∧ ∀ a cs, op ≠ .releaseHold a cs
  | [], _, op, h => by simp [doTransfersOps] at h
  | (ins, outs) :: rest, rs, op, h => by
    simp only [doTransfersOps, List.mem_cons] at h
    rcases h with rfl | h
    · exact doTransferOp_ok ins outs _
    · exact doTransfersOps_ok rest _ op h

/-- the lowering of `AcceptPayment` consists of production-context, well-formed primitives and
releases holds of the payment's source only -/
theorem acceptPaymentOps_ok (src tgt : Addr) (srcAmt tgtAmt : Coins) (rs : List (Option Addr)) :
    (∀ op ∈ acceptPaymentOps src tgt srcAmt tgtAmt rs, PlainCtx op ∧ WF op ∧ NoSetTime op) ∧
      ∀ a, a ≠ src → NoReleaseFor a (acceptPaymentOps src tgt srcAmt tgtAmt rs) := by
  constructor
  · intro op hop
    simp only [acceptPaymentOps, List.mem_cons, List.mem_append] at hop
    rcases hop with rfl | hop | hop
    · simp [PlainCtx, WF, NoSetTime, Op.ctx]
    · split_ifs at hop <;> simp at hop
      subst hop; simp [PlainCtx, WF, NoSetTime, Op.ctx, exchangeCtx]
    · split_ifs at hop <;> simp at hop <;> subst hop <;> simp [PlainCtx, WF, NoSetTime, Op.ctx, exchangeCtx]
  · intro a ha op hop cs
    simp only [acceptPaymentOps, List.mem_cons, List.mem_append] at hop
    rcases hop with rfl | hop | hop
    · intro e; injection e with e1 _; exact ha e1.symm
    · split_ifs at hop <;> simp at hop
      subst hop; simp
    · split_ifs at hop <;> simp at hop <;> subst hop <;> simp

/-- **Accepting a payment** (any source / target / amounts / restriction outcomes, from a state
with `hold ≤ balance`): whether it is accepted or rejected, `hold ≤ balance` holds afterwards
for every account; and when it is accepted, every account other than the payment's source —
in particular the target, which pays the target amount — keeps every hold it had, covered by its
balance.  (The payment's own hold on the source is the only one released.) -/
theorem acceptPayment_safe (s : State) (src tgt : Addr) (srcAmt tgtAmt : Coins) (rs : List (Option Addr))
    (hinv : HoldLeBal s) :
    HoldLeBal (stepMsg s (acceptPaymentOps src tgt srcAmt tgtAmt rs)) ∧
    ∀ s', applyAll s (acceptPaymentOps src tgt srcAmt tgtAmt rs) = .ok s' →
      ∀ a d, a ≠ src → s.hold a d ≤ s'.hold a d ∧ s'.hold a d ≤ s'.bal a d := by
  obtain ⟨hok, hnr⟩ := acceptPaymentOps_ok src tgt srcAmt tgtAmt rs
  refine ⟨message_holdLeBal _ s (fun o ho => (hok o ho).2.1) hinv, ?_⟩
  intro s' h a d ha
  exact message_unreleased_holds_stay_covered _ s s' a (fun o ho => (hok o ho).2.1) hinv (hnr a ha) h d

/-- … and it keeps what the hold invariant checks. -/
theorem acceptPayment_good (s : State) (src tgt : Addr) (srcAmt tgtAmt : Coins) (rs : List (Option Addr))
    (g : Good s) : Good (stepMsg s (acceptPaymentOps src tgt srcAmt tgtAmt rs)) :=
  message_good _ s (acceptPaymentOps_ok src tgt srcAmt tgtAmt rs).1 g

/-- non-vacuity, and the boundary: the target has 100banana of which 80 are on hold for something
else; a payment asking it for 20banana is accepted, one asking for 21banana is rejected (and
changes nothing), although the 10apple it receives are free. -/
example :
    let s : State := { ledger := [⟨"A", "apple", 100⟩, ⟨"B", "banana", 100⟩],
                       holds := [⟨"A", "apple", 10⟩, ⟨"B", "banana", 80⟩] }
    HoldLeBal s ∧
    (∃ s', applyAll s (acceptPaymentOps "A" "B" [("apple", 10)] [("banana", 20)] []) = .ok s' ∧
      s'.bal "B" "banana" = 80 ∧ s'.hold "B" "banana" = 80 ∧ s'.hold "A" "apple" = 0) ∧
    stepMsg s (acceptPaymentOps "A" "B" [("apple", 10)] [("banana", 21)] []) = s := by
  refine ⟨?_, ⟨_, rfl, by decide, by decide, by decide⟩, rfl⟩
  intro a d
  simp only [State.hold, State.bal, Ledger.bal]
  split <;> split <;> omega

/-- **Order settlement** (`closeSettlement`: FillBids / FillAsks / MarketSettle without fees) with
arbitrary releases, transfers and restriction outcomes keeps `hold ≤ balance`, and an accepted
settlement leaves every hold of an account whose order holds are not among the releases in place
and covered. -/
theorem closeSettlement_safe (s : State) (releases : List (Addr × Coins))
    (transfers : List (List (Addr × Coins) × List (Addr × Coins))) (rs : List (Option Addr)) (hinv : HoldLeBal s) :
    HoldLeBal (stepMsg s (closeSettlementOps releases transfers rs)) ∧
    ∀ s', applyAll s (closeSettlementOps releases transfers rs) = .ok s' →
      ∀ a d, (∀ p ∈ releases, p.1 ≠ a) → s.hold a d ≤ s'.hold a d ∧ s'.hold a d ≤ s'.bal a d := by
  have hok : ∀ op ∈ closeSettlementOps releases transfers rs, WF op := by
    intro op hop
    simp only [closeSettlementOps, List.mem_append, List.mem_map] at hop
    rcases hop with ⟨p, _, rfl⟩ | hop
    · simp [WF, Op.ctx]
    · exact (doTransfersOps_ok transfers rs op hop).1.2.1
  refine ⟨message_holdLeBal _ s hok hinv, ?_⟩
  intro s' h a d ha
  refine message_unreleased_holds_stay_covered _ s s' a hok hinv ?_ h d
  intro op hop cs
  simp only [closeSettlementOps, List.mem_append, List.mem_map] at hop
  rcases hop with ⟨p, hp, rfl⟩ | hop
  · intro e; injection e with e1 _; exact ha p hp e1
  · exact (doTransfersOps_ok transfers rs op hop).2 a cs

/-- **Commitment settlement** (`SettleCommitments` without fees: release the inputs' commitments,
one transfer, re-commit the outputs) keeps `hold ≤ balance` — the outputs are valid `sdk.Coins`
(`AccountAmount.Validate`, distinct denoms) — and leaves the holds of every account that is not
an input in place and covered. -/
theorem settleCommitments_safe (s : State) (ins outs : List (Addr × Coins)) (rs : List (Option Addr))
    (hinv : HoldLeBal s) (hout : ∀ p ∈ outs, (Coins.denoms p.2).Nodup) :
    HoldLeBal (stepMsg s (settleCommitmentsOps ins outs rs)) ∧
    ∀ s', applyAll s (settleCommitmentsOps ins outs rs) = .ok s' →
      ∀ a d, (∀ p ∈ ins, p.1 ≠ a) → s.hold a d ≤ s'.hold a d ∧ s'.hold a d ≤ s'.bal a d := by
  have hok : ∀ op ∈ settleCommitmentsOps ins outs rs, WF op := by
    intro op hop
    simp only [settleCommitmentsOps, List.mem_append, List.mem_map, List.mem_singleton] at hop
    rcases hop with (⟨p, _, rfl⟩ | rfl) | ⟨p, hp, rfl⟩
    · simp [WF, Op.ctx]
    · exact (doTransferOp_ok ins outs rs).1.2.1
    · exact ⟨rfl, hout p hp⟩
  refine ⟨message_holdLeBal _ s hok hinv, ?_⟩
  intro s' h a d ha
  refine message_unreleased_holds_stay_covered _ s s' a hok hinv ?_ h d
  intro op hop cs
  simp only [settleCommitmentsOps, List.mem_append, List.mem_map, List.mem_singleton] at hop
  rcases hop with (⟨p, hp, rfl⟩ | rfl) | ⟨p, _, rfl⟩
  · intro e; injection e with e1 _; exact ha p hp e1
  · exact (doTransferOp_ok ins outs rs).2 a cs
  · simp

example : ∀ p ∈ [(("B" : Addr), ([("apple", 5), ("stake", 3)] : Coins))], (Coins.denoms p.2).Nodup := by
  intro p hp; simp at hp; subst hp; simp [Coins.denoms]

/-! ## 9. A transaction's fee payment (ante handler, fee grants, the sweep of the rest)

`feeTx` (`PvModel/Lock.lean`) is one transaction as `baseapp.runTx` runs it: the ante handler
deducts the base fee from the payer — the signer, or the granter of a fee grant — and its writes
stay when it succeeds; then the messages run and the fee handler sweeps the rest of the fee from
the same payer, all or nothing.  Every outcome is a history of bank primitives in the
transaction's own context, so: `hold ≤ balance` afterwards whatever happened, **no fee payment —
own or through a grant — can use funds on hold**, and the base fee is accepted exactly up to
`balance − hold − unvested` of the payer. -/

private theorem run_append (s : State) (a b : List Op) : run s (a ++ b) = run (run s a) b := by
  simp [run, List.foldl_append]

/-- The state after a transaction is the state before it, or the history of the ante handler's
primitives, or the history of all of its primitives. -/
theorem runTx_is_history (s : State) (ante msgs : List Op) :
    (runTx s ante msgs).state s = s ∨ (runTx s ante msgs).state s = run s ante ∨
      (runTx s ante msgs).state s = run s (ante ++ msgs) := by
  unfold runTx
  split
  · exact Or.inl rfl
  · rename_i s₁ h₁
    split
    · exact Or.inr (Or.inl (applyAll_eq_run ante s s₁ h₁).symm)
    · rename_i s₂ h₂
      refine Or.inr (Or.inr ?_)
      simp only [TxOutcome.state]
      rw [run_append, applyAll_eq_run ante s s₁ h₁, applyAll_eq_run msgs s₁ s₂ h₂]

/-- The three outcomes: refused by the ante handler — nothing changes; a message or the fee
handler failed — exactly the ante handler's writes stay (the base fee is paid); otherwise all of it. -/
theorem runTx_outcomes (s : State) (ante msgs : List Op) :
    (∃ e, applyAll s ante = .error e ∧ (runTx s ante msgs).state s = s) ∨
    (∃ s₁ e, applyAll s ante = .ok s₁ ∧ applyAll s₁ msgs = .error e ∧ (runTx s ante msgs).state s = s₁) ∨
    (∃ s₁ s₂, applyAll s ante = .ok s₁ ∧ applyAll s₁ msgs = .ok s₂ ∧ (runTx s ante msgs).state s = s₂) := by
  unfold runTx
  split
  · rename_i e h; exact Or.inl ⟨e, h, rfl⟩
  · rename_i s₁ h₁
    split
    · rename_i e h₂; exact Or.inr (Or.inl ⟨s₁, e, h₁, h₂, rfl⟩)
    · rename_i s₂ h₂; exact Or.inr (Or.inr ⟨s₁, s₂, h₁, h₂, rfl⟩)

/-- Any transaction of well-formed primitives keeps `hold ≤ balance`, whatever its outcome. -/
theorem runTx_holdLeBal (s : State) (ante msgs : List Op) (hwa : ∀ op ∈ ante, WF op)
    (hwm : ∀ op ∈ msgs, WF op) (h : HoldLeBal s) : HoldLeBal ((runTx s ante msgs).state s) := by
  rcases runTx_outcomes s ante msgs with ⟨_, _, hs⟩ | ⟨s₁, _, h₁, _, hs⟩ | ⟨s₁, s₂, h₁, h₂, hs⟩
  · rw [hs]; exact h
  · rw [hs, ← applyAll_eq_run ante s s₁ h₁]; exact run_holdLeBal ante s hwa h
  · have i₁ : HoldLeBal s₁ := by rw [← applyAll_eq_run ante s s₁ h₁]; exact run_holdLeBal ante s hwa h
    rw [hs, ← applyAll_eq_run msgs s₁ s₂ h₂]; exact run_holdLeBal msgs s₁ hwm i₁

/-- … and what `HoldAccountBalancesInvariant` checks. -/
theorem runTx_good (s : State) (ante msgs : List Op)
    (ha : ∀ op ∈ ante, PlainCtx op ∧ WF op ∧ NoSetTime op) (hm : ∀ op ∈ msgs, PlainCtx op ∧ WF op ∧ NoSetTime op)
    (g : Good s) : Good ((runTx s ante msgs).state s) := by
  rcases runTx_outcomes s ante msgs with ⟨_, _, hs⟩ | ⟨s₁, _, h₁, _, hs⟩ | ⟨s₁, s₂, h₁, h₂, hs⟩
  · rw [hs]; exact g
  · have := message_good ante s ha g
    simp only [stepMsg, h₁] at this
    rw [hs]; exact this
  · have g₁ := message_good ante s ha g
    simp only [stepMsg, h₁] at g₁
    have g₂ := message_good msgs s₁ hm g₁
    simp only [stepMsg, h₂] at g₂
    rw [hs]; exact g₂

/-- A fee deduction is one bank send in the transaction's own context (no bypass of any kind): a
production-context, well-formed primitive that releases no hold. -/
theorem deductFeeOps_ok (payer fc : Addr) (fee : Coins) :
    (∀ op ∈ deductFeeOps payer fc fee, PlainCtx op ∧ WF op ∧ NoSetTime op) ∧
      ∀ a, NoReleaseFor a (deductFeeOps payer fc fee) := by
  unfold deductFeeOps
  split
  · exact ⟨fun op h => by simp at h, fun a op h => by simp at h⟩
  · refine ⟨fun op h => ?_, fun a op h cs => ?_⟩
    · simp only [List.mem_singleton] at h; subst h; simp [PlainCtx, WF, NoSetTime, Op.ctx]
    · simp only [List.mem_singleton] at h; subst h; simp

/-- **Paying a fee never uses funds on hold.**  For any payer (the signer, or a granter whose
allowance the signer uses), any base fee, any rest of the fee and any messages `body` of
well-formed primitives: whatever the outcome of the transaction, every account `a` for which the
messages release nothing — the fee payer in particular — keeps at least the holds it had, and its
balance still covers them. -/
theorem feeTx_holds_stay_covered (s : State) (payer fc : Addr) (baseFee rest : Coins) (body : List Op)
    (a : Addr) (hinv : HoldLeBal s) (hb : ∀ op ∈ body, WF op) (hnr : NoReleaseFor a body) (d : Denom) :
    s.hold a d ≤ ((feeTx s payer fc baseFee rest body).state s).hold a d ∧
      ((feeTx s payer fc baseFee rest body).state s).hold a d ≤ ((feeTx s payer fc baseFee rest body).state s).bal a d := by
  have hA := deductFeeOps_ok payer fc baseFee
  have hR := deductFeeOps_ok payer fc rest
  have wfA : ∀ op ∈ deductFeeOps payer fc baseFee, WF op := fun o ho => (hA.1 o ho).2.1
  have wfM : ∀ op ∈ body ++ deductFeeOps payer fc rest, WF op := by
    intro o ho
    rcases List.mem_append.mp ho with h | h
    · exact hb o h
    · exact (hR.1 o h).2.1
  have nrM : NoReleaseFor a (body ++ deductFeeOps payer fc rest) := by
    intro o ho cs
    rcases List.mem_append.mp ho with h | h
    · exact hnr o h cs
    · exact hR.2 a o h cs
  unfold feeTx
  rcases runTx_outcomes s (deductFeeOps payer fc baseFee) (body ++ deductFeeOps payer fc rest) with
    ⟨_, _, hs⟩ | ⟨s₁, _, h₁, _, hs⟩ | ⟨s₁, s₂, h₁, h₂, hs⟩
  · rw [hs]; exact ⟨Int.le_refl _, hinv a d⟩
  · rw [hs]; exact message_unreleased_holds_stay_covered _ s s₁ a wfA hinv (hA.2 a) h₁ d
  · have c₁ := message_unreleased_holds_stay_covered _ s s₁ a wfA hinv (hA.2 a) h₁ d
    have i₁ : HoldLeBal s₁ := by rw [← applyAll_eq_run _ s s₁ h₁]; exact run_holdLeBal _ s wfA hinv
    have c₂ := message_unreleased_holds_stay_covered _ s₁ s₂ a wfM i₁ nrM h₂ d
    rw [hs]; exact ⟨Int.le_trans c₁.1 c₂.1, c₂.2⟩

/-- `hold ≤ balance` after a fee-paying transaction, whatever its outcome. -/
theorem feeTx_holdLeBal (s : State) (payer fc : Addr) (baseFee rest : Coins) (body : List Op)
    (hinv : HoldLeBal s) (hb : ∀ op ∈ body, WF op) :
    HoldLeBal ((feeTx s payer fc baseFee rest body).state s) := by
  unfold feeTx
  refine runTx_holdLeBal s _ _ (fun o ho => ((deductFeeOps_ok payer fc baseFee).1 o ho).2.1) ?_ hinv
  intro o ho
  rcases List.mem_append.mp ho with h | h
  · exact hb o h
  · exact ((deductFeeOps_ok payer fc rest).1 o h).2.1

/-- **The boundary of the base fee**: the ante handler accepts a (non-zero, valid) base fee **iff**
every coin of it is at most `balance − hold − unvested` of the payer — exactly at the boundary it
passes, one above it the transaction is refused and nothing changes. -/
theorem baseFee_accepted_iff (s : State) (payer fc : Addr) (baseFee rest : Coins) (body : List Op)
    (hv : isValid baseFee = true) (hnd : (Coins.denoms baseFee).Nodup) (hnz : isZero baseFee = false) :
    (∀ e, feeTx s payer fc baseFee rest body ≠ .anteFailed e) ↔
      ∀ p ∈ baseFee, p.2 ≤ s.bal payer p.1 - pos (s.hold payer p.1) - pos (unvested s payer p.1) := by
  rw [← sendCoins_ok_iff s payer fc fc baseFee hv hnd]
  unfold feeTx runTx deductFeeOps
  simp only [hnz, Bool.false_eq_true, if_false, applyAll, apply]
  constructor
  · intro h
    cases hs : sendCoins s {} payer fc baseFee (some fc) with
    | ok s₁ => exact ⟨s₁, rfl⟩
    | error e => exact absurd (by simp [hs]) (h e)
  · rintro ⟨s₁, hs⟩ e
    simp only [hs]
    split <;> simp

/-- non-vacuity, and the boundary through a fee grant: the granter G has 100stake, 80 of them on
hold; a grantee's transaction with a base fee of 20stake is accepted (and G keeps its 80 on hold,
covered), one with 21stake is refused by the ante handler and changes nothing; when the message
fails the base fee stays paid. -/
example :
    let s : State := { ledger := [⟨"G", "stake", 100⟩, ⟨"P", "apple", 5⟩], holds := [⟨"G", "stake", 80⟩],
                       kinds := [("G", .base), ("P", .base), ("FEE", .module)] }
    (∃ s', feeTx s "G" "FEE" [("stake", 20)] [] [.send {} "P" "G" [("apple", 5)] (some "G")] = .done s' ∧
      s'.bal "G" "stake" = 80 ∧ s'.hold "G" "stake" = 80 ∧ s'.bal "FEE" "stake" = 20) ∧
    (∃ e, feeTx s "G" "FEE" [("stake", 21)] [] [.send {} "P" "G" [("apple", 5)] (some "G")] = .anteFailed e) ∧
    (∃ s₁ e, feeTx s "G" "FEE" [("stake", 20)] [] [.send {} "P" "G" [("apple", 6)] (some "G")] = .msgsFailed s₁ e ∧
      s₁.bal "G" "stake" = 80 ∧ s₁.bal "P" "apple" = 5) := by
  refine ⟨⟨_, rfl, by decide, by decide, by decide⟩, ⟨_, rfl⟩, ⟨_, _, rfl, by decide, by decide⟩⟩

/-! ## 10. Balances are never negative; the client-visible spendable formula along every history -/

/-- no balance is negative -/
def BalNonneg (s : State) : Prop := ∀ a d, 0 ≤ s.bal a d

private theorem debited_balNonneg {L : Denom → Int} {a : Addr} {s s' : State} (h : Debited L a s s')
    (hL : ∀ d, 0 ≤ L d) (hinv : BalNonneg s) : BalNonneg s' := by
  intro a' d'
  by_cases ha : a' = a
  · subst ha
    rcases h.own d' with he | hl
    · rw [he]; exact hinv _ _
    · exact Int.le_trans (hL d') hl
  · rw [h.other a' d' ha]; exact hinv _ _

private theorem credited_balNonneg {s s' : State} (h : Credited s s') (hinv : BalNonneg s) : BalNonneg s' :=
  fun a d => Int.le_trans (hinv a d) (h.ge a d)

private theorem balNonneg_of_ledger {s s' : State} (hl : s'.ledger = s.ledger) (h : BalNonneg s) :
    BalNonneg s' := by
  intro a d; unfold State.bal; rw [hl]; exact h a d

private theorem subUnlockedCoins_balNonneg {s s' : State} {c : Ctx} {a : Addr} {amt : Coins}
    (hinv : BalNonneg s) (h : subUnlockedCoins s c a amt = .ok s') : BalNonneg s' :=
  debited_balNonneg (subUnlockedCoins_debited h).1 (locked_nonneg s c a) hinv

private theorem subAll_balNonneg (c : Ctx) :
    ∀ (xs : List (Addr × Coins)) (s s' : State), BalNonneg s → subAll s c xs = .ok s' → BalNonneg s'
  | [], s, s', g, h => by simp [subAll] at h; subst h; exact g
  | (a, amt) :: rest, s, s', g, h => by
    simp only [subAll] at h
    split at h
    · cases h
    · rename_i s₁ h₁
      exact subAll_balNonneg c rest s₁ s' (subUnlockedCoins_balNonneg g h₁) h

/-- Every primitive — in any context, with any amounts — keeps all balances non-negative: a debit
is refused unless `balance − locked − amount ≥ 0`, and the locked amount is never negative. -/
theorem apply_balNonneg {s s' : State} {op : Op} (hinv : BalNonneg s) (h : apply s op = .ok s') :
    BalNonneg s' := by
  cases op with
  | send c src dst amt r =>
    simp only [apply, sendCoins] at h
    split at h
    · cases h
    · rename_i s₁ h₁
      split at h
      · cases h
      · split at h
        · cases h
        · rename_i s₂ h₂
          simp at h; subst h
          exact credited_balNonneg (ensureAccount_credited s₂ _)
            (credited_balNonneg (addCoins_credited h₂) (subUnlockedCoins_balNonneg hinv h₁))
  | inputOutput c ins outs rs =>
    simp only [apply, inputOutputCoins] at h
    split_ifs at h
    split at h
    · cases h
    · split at h
      · cases h
      · rename_i s₁ h₁
        split at h
        · cases h
        · exact credited_balNonneg (addAll_credited _ _ _ h) (subAll_balNonneg c _ _ _ hinv h₁)
  | delegate c del mod amt r =>
    simp only [apply, delegateCoins] at h
    split_ifs at h
    split at h
    · cases h
    · rename_i s₁ h₁
      have i₁ := debited_balNonneg (delegateLoop_debited _ _ _ _ _ h₁)
        (locked_nonneg s { c with vestBypass := true } del) hinv
      split at h
      · cases h
      · split_ifs at h
        obtain ⟨t1, _, _, _⟩ := trackDelegation_ledger del amt s₁
        exact credited_balNonneg (addCoins_credited h) (balNonneg_of_ledger t1 i₁)
  | undelegate c mod del amt =>
    simp only [apply, undelegateCoins] at h
    split_ifs at h
    split at h
    · cases h
    · rename_i s₁ h₁
      split_ifs at h
      obtain ⟨t1, _, _, _⟩ := trackUndelegation_ledger del amt s₁
      exact credited_balNonneg (addCoins_credited h)
        (balNonneg_of_ledger t1 (subUnlockedCoins_balNonneg hinv h₁))
  | mint mod amt => exact credited_balNonneg (addCoins_credited h) hinv
  | burn c mod amt => exact subUnlockedCoins_balNonneg hinv h
  | addHold c a funds => exact balNonneg_of_ledger (hold_ops_keep_balances (by simp [isHoldOp]) h) hinv
  | releaseHold a funds => exact balNonneg_of_ledger (hold_ops_keep_balances (by simp [isHoldOp]) h) hinv
  | setTime t => simp [apply] at h; subst h; exact balNonneg_of_ledger rfl hinv

/-- **Balances are never negative, along every history** (no hypothesis on the operations). -/
theorem run_balNonneg : ∀ (ops : List Op) (s : State), BalNonneg s → BalNonneg (run s ops)
  | [], _, h => h
  | op :: rest, s, h => by
    simp only [run, List.foldl_cons]
    refine run_balNonneg rest (step s op) ?_
    unfold step
    split
    · rename_i s' hs; exact apply_balNonneg h hs
    · exact h

/-- **The spendable balance reported to clients, along every history.**  After any history from a
state without negative balances or holds (the empty chain state, any genesis), the gRPC
`SpendableBalances` / `SpendableBalanceByDenom` answer (`SpendableCoin`), `SpendableCoins` denom by
denom, and `SpendableCoins` with the SDK's exact `SafeSub` clipping all equal
`max 0 (balance − hold − unvested)`. -/
theorem run_spendableCoin_formula (ops : List Op) (s : State) (h0 : HoldNonneg s) (b0 : BalNonneg s)
    (a : Addr) (d : Denom) :
    let s' := run s ops
    spendableCoin s' {} a d = max 0 (s'.bal a d - s'.hold a d - unvested s' a d) ∧
    spendableCoins s' {} a d = max 0 (s'.bal a d - s'.hold a d - unvested s' a d) ∧
    ∀ ds, d ∈ ds → spendableCoinsOver s' {} a ds d = max 0 (s'.bal a d - s'.hold a d - unvested s' a d) := by
  have hh := run_holdNonneg ops s h0 a d
  have hb := run_balNonneg ops s b0 a d
  exact ⟨spendableCoin_formula _ a d hh hb, spendableCoins_formula _ a d hh,
    fun ds hd => spendableCoinsOver_formula _ a ds d hh (Or.inl hd)⟩

example : HoldNonneg {} ∧ BalNonneg {} := ⟨fun a d => by simp [State.hold], fun a d => by simp [State.bal]⟩

/-- Where funds are on hold, a `Good` state (what `HoldAccountBalancesInvariant` checks) needs no
clipping: the reported spendable balance is exactly `balance − hold − unvested`. -/
theorem spendable_unclipped_of_good {s : State} (g : Good s) (a : Addr) (d : Denom) (hpos : 0 < s.hold a d) :
    spendableCoin s {} a d = s.bal a d - s.hold a d - unvested s a d ∧
    spendableCoins s {} a d = s.bal a d - s.hold a d - unvested s a d := by
  have h1 := g.heldUnlocked a d hpos
  have hu := unvested_nonneg s a d
  have hh : 0 ≤ s.hold a d := by omega
  have hb : 0 ≤ s.bal a d := by omega
  rw [spendableCoin_formula s a d hh hb, spendableCoins_formula s a d hh]
  omega

/-- … along every production history (production contexts, forward-moving block time): for every
account and denom with funds on hold the reported spendable balance is `balance − hold − unvested`,
unclipped. -/
theorem run_spendable_unclipped (ops : List Op) (s : State) (hops : ∀ op ∈ ops, PlainCtx op ∧ WF op)
    (htm : TimeMono s ops) (g : Good s) (a : Addr) (d : Denom) (hpos : 0 < (run s ops).hold a d) :
    spendableCoin (run s ops) {} a d =
      (run s ops).bal a d - (run s ops).hold a d - unvested (run s ops) a d :=
  (spendable_unclipped_of_good (run_good ops s hops htm g) a d hpos).1

/-- The positive-hold hypothesis is needed: a vesting account whose unvested amount exceeds its
balance (60 of the 100 original-vesting coins were lost, e.g. slashed) and which has no hold is
`Good`-compatible, and its spendable balance is the clipped `0`, not `40 − 0 − 100`. -/
example :
    let s : State := { ledger := [⟨"V", "stake", 40⟩],
                       kinds := [("V", .vesting (.delayed [("stake", 100)] 1000))], time := 10 }
    HoldLeBal s ∧ HeldUnlocked s ∧ DfNonneg s ∧ spendableCoin s {} "V" "stake" = 0 ∧
      s.bal "V" "stake" - s.hold "V" "stake" - unvested s "V" "stake" = -60 := by
  refine ⟨?_, ?_, ?_, by decide, by decide⟩
  · intro a d
    simp only [State.hold, State.bal, Ledger.bal]
    split <;> simp
  · intro a d hp
    simp [State.hold] at hp
  · intro a d; simp [State.dfOf]

/-! ## 11. The exact boundary and the exact debit of every bank primitive, in any context -/

private theorem subLoop_bal (L : Denom → Int) (a : Addr) :
    ∀ (amt : Coins) (s s' : State), subLoop s L a amt = .ok s' →
      ∀ a' d, s'.bal a' d = s.bal a' d - (if a = a' then Coins.amountOf amt d else 0)
  | [], s, s', h, a', d => by simp [subLoop] at h; subst h; simp
  | (d₀, x) :: rest, s, s', h, a', d => by
    simp only [subLoop] at h
    split_ifs at h
    rw [subLoop_bal L a rest _ _ h a' d, debit1_bal, Coins.amountOf_cons]
    by_cases ha : a = a' <;> by_cases hd : d₀ = d <;> simp [ha, hd]
    omega

private theorem subUnlockedCoins_bal {s s' : State} {c : Ctx} {a : Addr} {amt : Coins}
    (h : subUnlockedCoins s c a amt = .ok s') (a' : Addr) (d : Denom) :
    s'.bal a' d = s.bal a' d - (if a = a' then Coins.amountOf amt d else 0) := by
  unfold subUnlockedCoins at h
  split_ifs at h
  exact subLoop_bal _ a amt s s' h a' d

/-- A bank send that the restrictions let through, **in any context** (marker / quarantine /
sanction / vesting / hold bypass flags arbitrary), succeeds iff every coin is at most
`balance − LockedCoins` of the sender in that context. -/
theorem sendCoins_ok_iff_locked (s : State) (c : Ctx) (src dst dst' : Addr) (amt : Coins)
    (hv : isValid amt = true) (hnd : (Coins.denoms amt).Nodup) :
    (∃ s', sendCoins s c src dst amt (some dst') = .ok s') ↔
      ∀ p ∈ amt, p.2 ≤ s.bal src p.1 - lockedCoins s c src p.1 := by
  rw [← subUnlockedCoins_ok_iff s c src amt hv hnd]
  constructor
  · rintro ⟨s', h⟩
    unfold sendCoins at h
    split at h
    · cases h
    · rename_i s₁ h₁; exact ⟨s₁, h₁⟩
  · rintro ⟨s₁, h₁⟩
    refine ⟨ensureAccount { s₁ with ledger := s₁.ledger.credit dst' amt } dst', ?_⟩
    simp [sendCoins, h₁, addCoins, hv]

/-- … so in every production context (neither the hold bypass nor the vesting bypass; the
marker / quarantine / sanction bypass flags arbitrary — marker withdrawals and forced transfers,
exchange transfers, quarantine releases, gov deposits, fee payments all run in such a context) a
send succeeds **iff** every coin is at most `balance − hold − unvested`. -/
theorem sendCoins_ok_iff_ctx (s : State) (c : Ctx) (src dst dst' : Addr) (amt : Coins)
    (hh : c.holdBypass = false) (hvb : c.vestBypass = false)
    (hv : isValid amt = true) (hnd : (Coins.denoms amt).Nodup) :
    (∃ s', sendCoins s c src dst amt (some dst') = .ok s') ↔
      ∀ p ∈ amt, p.2 ≤ s.bal src p.1 - pos (s.hold src p.1) - pos (unvested s src p.1) := by
  rw [sendCoins_ok_iff_locked s c src dst dst' amt hv hnd]
  have hl : ∀ d, lockedCoins s c src d = pos (unvested s src d) + pos (s.hold src d) := by
    intro d; simp [lockedCoins, unvestedGetter, holdGetter, hh, hvb]
  constructor
  · intro h p hp; have := h p hp; rw [hl] at this; omega
  · intro h p hp; have := h p hp; rw [hl]; omega

example : ({ markerBypass := true, quarantineBypass := true } : Ctx).holdBypass = false ∧
    ({ markerBypass := true, quarantineBypass := true } : Ctx).vestBypass = false := ⟨rfl, rfl⟩

/-- `UndelegateCoins` (existing accounts) succeeds **iff** every coin is at most
`balance − LockedCoins` of the module account it is taken from. -/
theorem undelegateCoins_ok_iff (s : State) (c : Ctx) (mod del : Addr) (amt : Coins)
    (hmod : s.accountExists mod = true) (hdel : s.accountExists del = true)
    (hv : isValid amt = true) (hnd : (Coins.denoms amt).Nodup) :
    (∃ s', undelegateCoins s c mod del amt = .ok s') ↔
      ∀ p ∈ amt, p.2 ≤ s.bal mod p.1 - lockedCoins s c mod p.1 := by
  rw [← subUnlockedCoins_ok_iff s c mod amt hv hnd]
  unfold undelegateCoins
  simp only [hmod, hv, Bool.not_true, Bool.false_eq_true, if_false]
  constructor
  · rintro ⟨s', h⟩
    split at h
    · cases h
    · rename_i s₁ h₁; exact ⟨s₁, h₁⟩
  · rintro ⟨s₁, h₁⟩
    have hk : s₁.kinds = s.kinds := (subUnlockedCoins_debited h₁).1.kinds
    have hex : s₁.accountExists del = true := by unfold State.accountExists; rw [hk]; exact hdel
    rw [h₁]
    simp only [hex, Bool.not_true, Bool.false_eq_true, if_false]
    simp [addCoins, hv]

example :
    let s : State := { ledger := [⟨"POOL", "stake", 100⟩], holds := [⟨"POOL", "stake", 30⟩],
                       kinds := [("POOL", .module), ("D", .base)] }
    s.accountExists "POOL" = true ∧ s.accountExists "D" = true ∧
    (∃ s', undelegateCoins s {} "POOL" "D" [("stake", 70)] = .ok s') ∧
    isErrFunds (undelegateCoins s {} "POOL" "D" [("stake", 71)]) = true := by
  refine ⟨by decide, by decide, ⟨_, rfl⟩, by decide⟩

/-- `BurnCoins` succeeds **iff** every coin is at most `balance − LockedCoins` of the module. -/
theorem burnCoins_ok_iff (s : State) (c : Ctx) (mod : Addr) (amt : Coins)
    (hv : isValid amt = true) (hnd : (Coins.denoms amt).Nodup) :
    (∃ s', burnCoins s c mod amt = .ok s') ↔ ∀ p ∈ amt, p.2 ≤ s.bal mod p.1 - lockedCoins s c mod p.1 :=
  subUnlockedCoins_ok_iff s c mod amt hv hnd

example : isValid [("stake", 5), ("zcoin", 1)] = true ∧ (Coins.denoms [("stake", (5 : Int)), ("zcoin", 1)]).Nodup := by
  decide

/-- debits on other accounts do not change what an account may spend -/
private theorem subUnlockedCoins_other {s s' : State} {c : Ctx} {a : Addr} {amt : Coins}
    (h : subUnlockedCoins s c a amt = .ok s') (b : Addr) (hb : b ≠ a) (d : Denom) :
    s'.bal b d - lockedCoins s' c b d = s.bal b d - lockedCoins s c b d := by
  have hd := (subUnlockedCoins_debited h).1
  have hu : unvested s' b d = unvested s b d := hd.frame.unvested hd.dv b d
  have hh : s'.hold b d = s.hold b d := hd.frame.hold b d
  rw [hd.other b d hb]
  unfold lockedCoins unvestedGetter holdGetter
  rw [hu, hh]

private theorem subAll_ok_iff (c : Ctx) : ∀ (xs : List (Addr × Coins)) (s : State),
    (xs.map (·.1)).Nodup → (∀ p ∈ xs, isValid p.2 = true ∧ (Coins.denoms p.2).Nodup) →
    ((∃ s', subAll s c xs = .ok s') ↔
      ∀ p ∈ xs, ∀ q ∈ p.2, q.2 ≤ s.bal p.1 q.1 - lockedCoins s c p.1 q.1)
  | [], s, _, _ => by simp [subAll]
  | (a, amt) :: rest, s, hnd, hval => by
    have hnd' : a ∉ rest.map (·.1) ∧ (rest.map (·.1)).Nodup := by simpa using hnd
    have ⟨hv, hdn⟩ := hval (a, amt) (by simp)
    have hval' : ∀ p ∈ rest, isValid p.2 = true ∧ (Coins.denoms p.2).Nodup :=
      fun p hp => hval p (List.mem_cons_of_mem _ hp)
    have key := subUnlockedCoins_ok_iff s c a amt hv hdn
    simp only [subAll]
    constructor
    · rintro ⟨s', h⟩
      split at h
      · cases h
      · rename_i s₁ h₁
        have ih := (subAll_ok_iff c rest s₁ hnd'.2 hval').mp ⟨s', h⟩
        intro p hp q hq
        rcases List.mem_cons.mp hp with rfl | hp'
        · exact key.mp ⟨s₁, h₁⟩ q hq
        · have hne : p.1 ≠ a := fun e => hnd'.1 (e ▸ List.mem_map.mpr ⟨p, hp', rfl⟩)
          have := ih p hp' q hq
          rw [subUnlockedCoins_other h₁ p.1 hne q.1] at this
          exact this
    · intro h
      obtain ⟨s₁, h₁⟩ := key.mpr (h (a, amt) (by simp))
      rw [h₁]
      apply (subAll_ok_iff c rest s₁ hnd'.2 hval').mpr
      intro p hp q hq
      have hne : p.1 ≠ a := fun e => hnd'.1 (e ▸ List.mem_map.mpr ⟨p, hp, rfl⟩)
      rw [subUnlockedCoins_other h₁ p.1 hne q.1]
      exact h p (List.mem_cons_of_mem _ hp) q hq

private theorem addAll_ok : ∀ (xs : List (Addr × Coins)) (s : State),
    (∀ p ∈ xs, isValid p.2 = true) → ∃ s', addAll s xs = .ok s'
  | [], s, _ => ⟨s, rfl⟩
  | (a, amt) :: rest, s, h => by
    have hv := h (a, amt) (by simp)
    simp only [addAll, addCoins, hv, Bool.not_true, Bool.false_eq_true, if_false]
    exact addAll_ok rest _ (fun p hp => h p (List.mem_cons_of_mem _ hp))

private theorem groupStep_nodup (acc : List (Addr × Coins)) (p : Addr × Coins)
    (h : (acc.map (·.1)).Nodup) :
    ((if acc.any (fun q => q.1 = p.1) then acc.map (fun q => if q.1 = p.1 then (q.1, q.2 ++ p.2) else q)
      else acc ++ [p]).map (·.1)).Nodup := by
  split
  · have : (acc.map (fun q => if q.1 = p.1 then (q.1, q.2 ++ p.2) else q)).map (·.1) = acc.map (·.1) := by
      rw [List.map_map]
      apply List.map_congr_left
      intro q _
      simp only [Function.comp]
      split <;> rfl
    rw [this]; exact h
  · rename_i hany
    rw [List.map_append, List.nodup_append]
    refine ⟨h, by simp, ?_⟩
    intro a ha b hb
    simp only [List.map_cons, List.map_nil, List.mem_singleton] at hb
    subst hb
    intro e; subst e
    apply hany
    obtain ⟨q, hq, hq1⟩ := List.mem_map.mp ha
    exact List.any_eq_true.mpr ⟨q, hq, by simpa using hq1⟩

private theorem groupFold_nodup : ∀ (xs acc : List (Addr × Coins)), (acc.map (·.1)).Nodup →
    ((xs.foldl (fun acc (p : Addr × Coins) =>
      if acc.any (fun q => q.1 = p.1) then acc.map (fun q => if q.1 = p.1 then (q.1, q.2 ++ p.2) else q)
      else acc ++ [p]) acc).map (·.1)).Nodup
  | [], acc, h => h
  | p :: rest, acc, h => by
    simp only [List.foldl_cons]
    exact groupFold_nodup rest _ (groupStep_nodup acc p h)

/-- the grouped inputs / outputs of `InputOutputCoinsProv` have distinct addresses -/
theorem normGroups_nodup (xs : List (Addr × Coins)) : ((normGroups xs).map (·.1)).Nodup := by
  unfold normGroups
  rw [List.map_map]
  have : ((fun p : Addr × Coins => p.1) ∘ fun p : Addr × Coins => (p.1, Coins.canon p.2)) = (·.1) := rfl
  rw [this]
  exact groupFold_nodup xs [] (by simp)

/- Full statement (not proved): for `ins`/`outs` that pass the shape checks and
`ValidateInputsOutputs`, and restriction outcomes that all allow,
  `(∃ s', inputOutputCoins s c ins outs rs = .ok s') ↔
     ∀ p ∈ normGroups ins, ∀ q ∈ p.2, q.2 ≤ s.bal p.1 q.1 − lockedCoins s c p.1 q.1`.
Missing: that the grouped, canonicalised inputs / outputs (`normGroups` = first-seen grouping by
address — distinct addresses, `normGroups_nodup` — then `Coins.canon` = sort + merge) are valid
`sdk.Coins` with distinct denoms.  These two facts are the hypotheses `hgi`, `hgo` below; they are
properties of `Coins.canon` on validated inputs (the order of denom strings), not of the bank
keeper. -/
/-- `InputOutputCoinsProv` (1→n and n→1) whose shape, validation and restrictions pass succeeds
**iff** every coin of every (grouped) input is at most `balance − LockedCoins` of that input's
account — in any context; no input can reach into its locked (held / unvested) funds, and nothing
else can make the multi-send fail. -/
theorem inputOutputCoins_ok_iff_partial (s : State) (c : Ctx) (ins outs : List (Addr × Coins))
    (rs : List (Option Addr)) (resolved : List (Addr × Coins))
    (hi : ins.isEmpty = false) (ho : outs.isEmpty = false)
    (hm : (decide (1 < ins.length) && decide (1 < outs.length)) = false)
    (hval : validateInputsOutputs ins outs = .ok ())
    (hres : applyRestrictions (transfersOf ins outs) rs = .ok resolved)
    (hgi : ∀ p ∈ normGroups ins, isValid p.2 = true ∧ (Coins.denoms p.2).Nodup)
    (hgo : ∀ p ∈ normGroups resolved, isValid p.2 = true) :
    (∃ s', inputOutputCoins s c ins outs rs = .ok s') ↔
      ∀ p ∈ normGroups ins, ∀ q ∈ p.2, q.2 ≤ s.bal p.1 q.1 - lockedCoins s c p.1 q.1 := by
  rw [← subAll_ok_iff c (normGroups ins) s (normGroups_nodup ins) hgi]
  unfold inputOutputCoins
  simp only [hi, ho, hm, Bool.false_eq_true, if_false, hval, hres]
  constructor
  · rintro ⟨s', h⟩
    split at h
    · cases h
    · rename_i s₁ h₁; exact ⟨s₁, h₁⟩
  · rintro ⟨s₁, h₁⟩
    rw [h₁]
    exact addAll_ok _ s₁ hgo

/-- the hypotheses hold for a concrete 2→1 transfer (what the exchange's `DoTransfer` builds), and
the boundary is exact: B has 50 of which 20 are on hold and may put in 30, not 31 -/
example :
    let s : State := { ledger := [⟨"A", "stake", 10⟩, ⟨"B", "stake", 50⟩], holds := [⟨"B", "stake", 20⟩] }
    let ins : List (Addr × Coins) := [("A", [("stake", 10)]), ("B", [("stake", 30)])]
    let outs : List (Addr × Coins) := [("T", [("stake", 40)])]
    ins.isEmpty = false ∧ outs.isEmpty = false ∧
    (decide (1 < ins.length) && decide (1 < outs.length)) = false ∧
    validateInputsOutputs ins outs = .ok () ∧
    applyRestrictions (transfersOf ins outs) [] = .ok [("T", [("stake", 10)]), ("T", [("stake", 30)])] ∧
    (∀ p ∈ normGroups ins, isValid p.2 = true ∧ (Coins.denoms p.2).Nodup) ∧
    (∀ p ∈ normGroups [(("T" : Addr), ([("stake", 10)] : Coins)), ("T", [("stake", 30)])], isValid p.2 = true) ∧
    (∃ s', inputOutputCoins s {} ins outs [] = .ok s') ∧
    isErrFunds (inputOutputCoins s {} [("A", [("stake", 10)]), ("B", [("stake", 31)])]
      [("T", [("stake", 41)])] []) = true := by
  refine ⟨rfl, rfl, rfl, by decide, by decide, by decide, by decide, ⟨_, rfl⟩, by decide⟩

/-- **A successful send moves exactly `amt`**: the sender is debited `amt`, the resolved recipient
credited `amt`, no other balance changes (and no hold: `bank_ops_keep_holds`). -/
theorem sendCoins_exact {s s' : State} {c : Ctx} {src dst dst' : Addr} {amt : Coins}
    (h : sendCoins s c src dst amt (some dst') = .ok s') (a : Addr) (d : Denom) :
    s'.bal a d = s.bal a d - (if src = a then Coins.amountOf amt d else 0)
      + (if dst' = a then Coins.amountOf amt d else 0) := by
  unfold sendCoins at h
  split at h
  · cases h
  · rename_i s₁ h₁
    simp only at h
    split at h
    · cases h
    · rename_i s₂ h₂
      simp at h; subst h
      rw [ensureAccount_bal, addCoins_bal h₂, subUnlockedCoins_bal h₁]

/-- a successful burn removes exactly `amt` from the module account -/
theorem burnCoins_exact {s s' : State} {c : Ctx} {mod : Addr} {amt : Coins}
    (h : burnCoins s c mod amt = .ok s') (a : Addr) (d : Denom) :
    s'.bal a d = s.bal a d - (if mod = a then Coins.amountOf amt d else 0) :=
  subUnlockedCoins_bal h a d

private theorem delegateLoop_other (L : Denom → Int) (a : Addr) (amt : Coins) (s s' : State)
    (h : delegateLoop s L a amt = .ok s') (a' : Addr) (d : Denom) :
    s'.bal a' d = s.bal a' d - (if a = a' then Coins.amountOf amt d else 0) := by
  by_cases ha : a = a'
  · subst ha; simp [delegateLoop_bal L a amt s s' h d]
  · simp only [ha, if_false, Int.sub_zero]
    exact (delegateLoop_debited L a amt s s' h).other a' d (fun e => ha e.symm)

/-- a successful delegation moves exactly `amt` from the delegator to the pool -/
theorem delegateCoins_exact {s s' : State} {c : Ctx} {del mod : Addr} {amt : Coins} {r : Option Addr}
    (h : delegateCoins s c del mod amt r = .ok s') (a : Addr) (d : Denom) :
    s'.bal a d = s.bal a d - (if del = a then Coins.amountOf amt d else 0)
      + (if mod = a then Coins.amountOf amt d else 0) := by
  unfold delegateCoins at h
  split_ifs at h
  split at h
  · cases h
  · rename_i s₁ h₁
    split at h
    · cases h
    · split_ifs at h
      obtain ⟨t1, _, _, _⟩ := trackDelegation_ledger del amt s₁
      rw [addCoins_bal h]
      have : (trackDelegation s₁ del amt).bal a d = s₁.bal a d := by unfold State.bal; rw [t1]
      rw [this, delegateLoop_other _ del amt s s₁ h₁ a d]

/-- a successful undelegation moves exactly `amt` from the pool to the delegator -/
theorem undelegateCoins_exact {s s' : State} {c : Ctx} {mod del : Addr} {amt : Coins}
    (h : undelegateCoins s c mod del amt = .ok s') (a : Addr) (d : Denom) :
    s'.bal a d = s.bal a d - (if mod = a then Coins.amountOf amt d else 0)
      + (if del = a then Coins.amountOf amt d else 0) := by
  unfold undelegateCoins at h
  split_ifs at h
  split at h
  · cases h
  · rename_i s₁ h₁
    split_ifs at h
    obtain ⟨t1, _, _, _⟩ := trackUndelegation_ledger del amt s₁
    rw [addCoins_bal h]
    have : (trackUndelegation s₁ del amt).bal a d = s₁.bal a d := by unfold State.bal; rw [t1]
    rw [this, subUnlockedCoins_bal h₁]

/-! ## 12. The other modules' routes: marker withdraw / forced transfer / burn, gov deposit,
market withdraw, quarantine accept, module burn

Each lowering (`PvModel/Lock.lean`, read off the Go function; the driver runs the harness's
`mwithdraw` / `mtransfer` / `deposit` / `mktwithdraw` / `qaccept` / `burn` lines through them) is a
message of production-context primitives that releases nothing, so — whatever the amounts,
accounts, account kinds and restriction outcomes — **no account's hold shrinks and every hold is
still covered by the balance afterwards**, in particular for the debited marker / market /
funds-holder / depositor account. -/

/-- a message of well-formed primitives without any release -/
private theorem route_safe (ops : List Op) (s : State) (hwf : ∀ op ∈ ops, WF op)
    (hnr : ∀ a, NoReleaseFor a ops) (hinv : HoldLeBal s) :
    HoldLeBal (stepMsg s ops) ∧
    ∀ s', applyAll s ops = .ok s' → ∀ a d, s.hold a d ≤ s'.hold a d ∧ s'.hold a d ≤ s'.bal a d :=
  ⟨message_holdLeBal ops s hwf hinv,
    fun s' h a d => message_unreleased_holds_stay_covered ops s s' a hwf hinv (hnr a) h d⟩

/-- a bank send / burn in a context without the hold and vesting bypass -/
private theorem send_ok (c : Ctx) (hh : c.holdBypass = false) (hv : c.vestBypass = false)
    (src dst : Addr) (amt : Coins) (r : Option Addr) :
    (PlainCtx (.send c src dst amt r) ∧ WF (.send c src dst amt r) ∧ NoSetTime (.send c src dst amt r)) ∧
      ∀ a cs, Op.send c src dst amt r ≠ .releaseHold a cs := by
  simp [PlainCtx, WF, NoSetTime, Op.ctx, hh, hv]

private theorem burn_ok (c : Ctx) (hh : c.holdBypass = false) (hv : c.vestBypass = false)
    (mod : Addr) (amt : Coins) :
    (PlainCtx (.burn c mod amt) ∧ WF (.burn c mod amt) ∧ NoSetTime (.burn c mod amt)) ∧
      ∀ a cs, Op.burn c mod amt ≠ .releaseHold a cs := by
  simp [PlainCtx, WF, NoSetTime, Op.ctx, hh, hv]

/-- the predicate all route lowerings satisfy -/
def RouteOk (ops : List Op) : Prop :=
  (∀ op ∈ ops, PlainCtx op ∧ WF op ∧ NoSetTime op) ∧ ∀ a, NoReleaseFor a ops

private theorem routeOk_of (ops : List Op)
    (h : ∀ op ∈ ops, (PlainCtx op ∧ WF op ∧ NoSetTime op) ∧ ∀ a cs, op ≠ .releaseHold a cs) : RouteOk ops :=
  ⟨fun op hop => (h op hop).1, fun a op hop cs => (h op hop).2 a cs⟩

theorem markerWithdrawOps_ok (marker recipient : Addr) (coins : Coins) (r : Option Addr) :
    RouteOk (markerWithdrawOps marker recipient coins r) := by
  apply routeOk_of; intro op hop
  simp only [markerWithdrawOps, List.mem_singleton] at hop; subst hop
  exact send_ok _ rfl rfl _ _ _ _

theorem markerTransferOps_ok (src dst : Addr) (amt : Coins) (r : Option Addr) :
    RouteOk (markerTransferOps src dst amt r) := by
  apply routeOk_of; intro op hop
  simp only [markerTransferOps, List.mem_singleton] at hop; subst hop
  exact send_ok _ rfl rfl _ _ _ _

theorem markerBurnOps_ok (marker pool : Addr) (offset : Coins) (r : Option Addr) :
    RouteOk (markerBurnOps marker pool offset r) := by
  apply routeOk_of; intro op hop
  simp only [markerBurnOps, List.mem_cons, List.mem_nil_iff, or_false] at hop
  rcases hop with rfl | rfl
  · exact send_ok _ rfl rfl _ _ _ _
  · exact burn_ok _ rfl rfl _ _

theorem moduleBurnOps_ok (mod : Addr) (amt : Coins) : RouteOk (moduleBurnOps mod amt) := by
  apply routeOk_of; intro op hop
  simp only [moduleBurnOps, List.mem_singleton] at hop; subst hop
  exact burn_ok _ rfl rfl _ _

theorem govDepositOps_ok (depositor gov : Addr) (amt : Coins) (r : Option Addr) :
    RouteOk (govDepositOps depositor gov amt r) := by
  apply routeOk_of; intro op hop
  simp only [govDepositOps, List.mem_singleton] at hop; subst hop
  exact send_ok _ rfl rfl _ _ _ _

theorem marketWithdrawOps_ok (market dst : Addr) (amt : Coins) (toIsAdmin : Bool) (r : Option Addr) :
    RouteOk (marketWithdrawOps market dst amt toIsAdmin r) := by
  apply routeOk_of; intro op hop
  simp only [marketWithdrawOps, List.mem_singleton] at hop; subst hop
  exact send_ok _ rfl rfl _ _ _ _

theorem quarantineAcceptOps_ok (holder dst : Addr) : ∀ (records : List Coins) (rs : List (Option Addr)),
    RouteOk (quarantineAcceptOps holder dst records rs)
  | [], _ => ⟨fun op h => by simp [quarantineAcceptOps] at h, fun a op h => by simp [quarantineAcceptOps] at h⟩
  | cs :: rest, rs => by
    have ih := quarantineAcceptOps_ok holder dst rest (rs.drop 1)
    have h0 := send_ok { quarantineBypass := true } rfl rfl holder dst cs (rs.headD (some dst))
    constructor
    · intro op hop
      simp only [quarantineAcceptOps, List.mem_cons] at hop
      rcases hop with rfl | hop
      · exact h0.1
      · exact ih.1 op hop
    · intro a op hop cs'
      simp only [quarantineAcceptOps, List.mem_cons] at hop
      rcases hop with rfl | hop
      · exact h0.2 a cs'
      · exact ih.2 a op hop cs'

/-- what every route lowering guarantees, from `RouteOk` -/
private theorem routeOk_safe {ops : List Op} (hok : RouteOk ops) (s : State) (hinv : HoldLeBal s) :
    HoldLeBal (stepMsg s ops) ∧
    ∀ s', applyAll s ops = .ok s' → ∀ a d, s.hold a d ≤ s'.hold a d ∧ s'.hold a d ≤ s'.bal a d :=
  route_safe ops s (fun o ho => (hok.1 o ho).2.1) hok.2 hinv

/-- **Marker withdrawal** (`MsgWithdraw` → `WithdrawCoins`): accepted or not, `hold ≤ balance`
afterwards; when accepted, every account — the marker account that pays in particular — keeps
every hold, covered by its balance. -/
theorem markerWithdraw_safe (s : State) (marker recipient : Addr) (coins : Coins) (r : Option Addr)
    (hinv : HoldLeBal s) :
    HoldLeBal (stepMsg s (markerWithdrawOps marker recipient coins r)) ∧
    ∀ s', applyAll s (markerWithdrawOps marker recipient coins r) = .ok s' →
      ∀ a d, s.hold a d ≤ s'.hold a d ∧ s'.hold a d ≤ s'.bal a d :=
  routeOk_safe (markerWithdrawOps_ok marker recipient coins r) s hinv

/-- **Marker transfer by an admin, forced transfer included** (`MsgTransfer` → `TransferCoin`): the
account the admin takes from keeps every hold, covered by its balance. -/
theorem markerTransfer_safe (s : State) (src dst : Addr) (amt : Coins) (r : Option Addr) (hinv : HoldLeBal s) :
    HoldLeBal (stepMsg s (markerTransferOps src dst amt r)) ∧
    ∀ s', applyAll s (markerTransferOps src dst amt r) = .ok s' →
      ∀ a d, s.hold a d ≤ s'.hold a d ∧ s'.hold a d ≤ s'.bal a d :=
  routeOk_safe (markerTransferOps_ok src dst amt r) s hinv

/-- **Marker burn** (`MsgBurn` → `BurnCoin` → `DecreaseSupply` → `AdjustCirculation`: marker
account → coin pool → `BurnCoins`). -/
theorem markerBurn_safe (s : State) (marker pool : Addr) (offset : Coins) (r : Option Addr) (hinv : HoldLeBal s) :
    HoldLeBal (stepMsg s (markerBurnOps marker pool offset r)) ∧
    ∀ s', applyAll s (markerBurnOps marker pool offset r) = .ok s' →
      ∀ a d, s.hold a d ≤ s'.hold a d ∧ s'.hold a d ≤ s'.bal a d :=
  routeOk_safe (markerBurnOps_ok marker pool offset r) s hinv

/-- **A module's direct `BurnCoins`**. -/
theorem moduleBurn_safe (s : State) (mod : Addr) (amt : Coins) (hinv : HoldLeBal s) :
    HoldLeBal (stepMsg s (moduleBurnOps mod amt)) ∧
    ∀ s', applyAll s (moduleBurnOps mod amt) = .ok s' →
      ∀ a d, s.hold a d ≤ s'.hold a d ∧ s'.hold a d ≤ s'.bal a d :=
  routeOk_safe (moduleBurnOps_ok mod amt) s hinv

/-- **Governance deposit** (`MsgDeposit` / initial deposit → `AddDeposit`). -/
theorem govDeposit_safe (s : State) (depositor gov : Addr) (amt : Coins) (r : Option Addr) (hinv : HoldLeBal s) :
    HoldLeBal (stepMsg s (govDepositOps depositor gov amt r)) ∧
    ∀ s', applyAll s (govDepositOps depositor gov amt r) = .ok s' →
      ∀ a d, s.hold a d ≤ s'.hold a d ∧ s'.hold a d ≤ s'.bal a d :=
  routeOk_safe (govDepositOps_ok depositor gov amt r) s hinv

/-- **Market withdrawal** (`MsgMarketWithdraw` → `WithdrawMarketFunds`), to the admin
(quarantine bypassed) or to anyone else. -/
theorem marketWithdraw_safe (s : State) (market dst : Addr) (amt : Coins) (toIsAdmin : Bool) (r : Option Addr)
    (hinv : HoldLeBal s) :
    HoldLeBal (stepMsg s (marketWithdrawOps market dst amt toIsAdmin r)) ∧
    ∀ s', applyAll s (marketWithdrawOps market dst amt toIsAdmin r) = .ok s' →
      ∀ a d, s.hold a d ≤ s'.hold a d ∧ s'.hold a d ≤ s'.bal a d :=
  routeOk_safe (marketWithdrawOps_ok market dst amt toIsAdmin r) s hinv

/-- **Accepting quarantined funds** (`MsgAccept` → `AcceptQuarantinedFunds`), any number of
records: the funds holder keeps every hold, covered by its balance. -/
theorem quarantineAccept_safe (s : State) (holder dst : Addr) (records : List Coins) (rs : List (Option Addr))
    (hinv : HoldLeBal s) :
    HoldLeBal (stepMsg s (quarantineAcceptOps holder dst records rs)) ∧
    ∀ s', applyAll s (quarantineAcceptOps holder dst records rs) = .ok s' →
      ∀ a d, s.hold a d ≤ s'.hold a d ∧ s'.hold a d ≤ s'.bal a d :=
  routeOk_safe (quarantineAcceptOps_ok holder dst records rs) s hinv

/-! ### the hold module's genesis import

`InitGenesis` (x/hold/keeper/genesis.go:13) places the holds of a genesis state with `AddHold`, one
entry after the other: it is a message of `addHold` primitives (`initGenesisOps`), so every entry is
checked against what the EARLIER entries left spendable — also when two entries name the same
account (the module's `GenesisState.Validate` only refuses a repeated address string; one account
spelled in lower- and in upper-case bech32 passes it). -/

theorem initGenesisOps_ok (entries : List (Addr × Coins))
    (hv : ∀ e ∈ entries, (Coins.denoms e.2).Nodup) : RouteOk (initGenesisOps entries) := by
  apply routeOk_of; intro op hop
  simp only [initGenesisOps, List.mem_map] at hop
  obtain ⟨e, he, rfl⟩ := hop
  have := hv e he
  simp [PlainCtx, WF, NoSetTime, Op.ctx, this]

/-- **Genesis import of holds**, for every list of entries with valid amounts (any accounts, repeated
or not, any amounts, any state): refused (it panics) or not, `hold ≤ balance` afterwards; when it
goes through no hold that was there shrinks and EVERY hold — all entries of an account together —
is covered by the account's balance. -/
theorem initGenesis_safe (s : State) (entries : List (Addr × Coins))
    (hv : ∀ e ∈ entries, (Coins.denoms e.2).Nodup) (hinv : HoldLeBal s) :
    HoldLeBal (stepMsg s (initGenesisOps entries)) ∧
    ∀ s', applyAll s (initGenesisOps entries) = .ok s' →
      ∀ a d, s.hold a d ≤ s'.hold a d ∧ s'.hold a d ≤ s'.bal a d :=
  routeOk_safe (initGenesisOps_ok entries hv) s hinv

/-- … and it keeps what `HoldAccountBalancesInvariant` checks (`hold + unvested ≤ balance`). -/
theorem initGenesis_good (s : State) (g : Good s) (entries : List (Addr × Coins))
    (hv : ∀ e ∈ entries, (Coins.denoms e.2).Nodup) : Good (stepMsg s (initGenesisOps entries)) :=
  message_good _ s (initGenesisOps_ok entries hv).1 g

/-- the hypothesis is satisfiable on a non-trivial instance: one account in two entries -/
example : ∀ e ∈ [(("A" : Addr), ([("banana", 6)] : Coins)), ("A", [("banana", 6)])], (Coins.denoms e.2).Nodup := by
  intro e he; simp at he; subst he; simp [Coins.denoms]

/-- two entries of 6 for one account with 10 spendable: the second one is refused, nothing is imported -/
example : isErrFunds (applyAll { ledger := [⟨"A", "banana", 10⟩] }
    (initGenesisOps [("A", [("banana", 6)]), ("A", [("banana", 6)])])) = true ∧
    ∃ s', applyAll { ledger := [⟨"A", "banana", 10⟩] }
      (initGenesisOps [("A", [("banana", 6)]), ("A", [("banana", 4)])]) = .ok s' ∧ s'.hold "A" "banana" = 10 := by
  refine ⟨by decide, _, rfl, by decide⟩

/-- Every one of these routes also keeps what `HoldAccountBalancesInvariant` checks
(`hold + unvested ≤ balance`, §6), accepted or not. -/
theorem routes_good (s : State) (g : Good s) (a b : Addr) (amt : Coins) (r : Option Addr)
    (adm : Bool) (records : List Coins) (rs : List (Option Addr)) :
    Good (stepMsg s (markerWithdrawOps a b amt r)) ∧ Good (stepMsg s (markerTransferOps a b amt r)) ∧
    Good (stepMsg s (markerBurnOps a b amt r)) ∧ Good (stepMsg s (moduleBurnOps a amt)) ∧
    Good (stepMsg s (govDepositOps a b amt r)) ∧ Good (stepMsg s (marketWithdrawOps a b amt adm r)) ∧
    Good (stepMsg s (quarantineAcceptOps a b records rs)) :=
  ⟨message_good _ s (markerWithdrawOps_ok a b amt r).1 g, message_good _ s (markerTransferOps_ok a b amt r).1 g,
    message_good _ s (markerBurnOps_ok a b amt r).1 g, message_good _ s (moduleBurnOps_ok a amt).1 g,
    message_good _ s (govDepositOps_ok a b amt r).1 g, message_good _ s (marketWithdrawOps_ok a b amt adm r).1 g,
    message_good _ s (quarantineAcceptOps_ok a b records rs).1 g⟩

/-- **The boundary of the single-transfer routes**: a marker withdrawal, a (forced) marker transfer,
a gov deposit and a market withdrawal that the restrictions let through are accepted **iff** every
coin is at most `balance − hold − unvested` of the account that pays — the marker bypass, the
quarantine bypass and the transfer agents buy nothing against a hold. -/
theorem routes_accepted_iff (s : State) (src dst dst' : Addr) (amt : Coins) (adm : Bool)
    (hv : isValid amt = true) (hnd : (Coins.denoms amt).Nodup) :
    let bound := ∀ p ∈ amt, p.2 ≤ s.bal src p.1 - pos (s.hold src p.1) - pos (unvested s src p.1)
    ((∃ s', applyAll s (markerWithdrawOps src dst amt (some dst')) = .ok s') ↔ bound) ∧
    ((∃ s', applyAll s (markerTransferOps src dst amt (some dst')) = .ok s') ↔ bound) ∧
    ((∃ s', applyAll s (govDepositOps src dst amt (some dst')) = .ok s') ↔ bound) ∧
    ((∃ s', applyAll s (marketWithdrawOps src dst amt adm (some dst')) = .ok s') ↔ bound) := by
  have one : ∀ c : Ctx, c.holdBypass = false → c.vestBypass = false →
      ((∃ s', applyAll s [.send c src dst amt (some dst')] = .ok s') ↔
        ∀ p ∈ amt, p.2 ≤ s.bal src p.1 - pos (s.hold src p.1) - pos (unvested s src p.1)) := by
    intro c hh hvb
    rw [← sendCoins_ok_iff_ctx s c src dst dst' amt hh hvb hv hnd]
    simp only [applyAll, apply]
    constructor
    · rintro ⟨s', h⟩
      split at h
      · cases h
      · rename_i s₁ h₁; exact ⟨s₁, h₁⟩
    · rintro ⟨s₁, h₁⟩
      exact ⟨s₁, by rw [h₁]⟩
  exact ⟨one _ rfl rfl, one _ rfl rfl, one _ rfl rfl, one _ rfl rfl⟩

/-- non-vacuity, and the boundary on a marker account: MK holds 100 of which 70 are on hold (a
commitment); the withdraw-permitted admin can take out 30, not 31; burning via the coin pool stops
at the same point; the quarantine funds holder with 50 of which 45 on hold releases a record of 5
but not a second one of 1. -/
example :
    let s : State := { ledger := [⟨"MK", "coin", 100⟩, ⟨"QH", "coin", 50⟩],
                       holds := [⟨"MK", "coin", 70⟩, ⟨"QH", "coin", 45⟩],
                       kinds := [("MK", .marker), ("QH", .base), ("CP", .module)] }
    HoldLeBal s ∧
    (∃ s', applyAll s (markerWithdrawOps "MK" "T" [("coin", 30)] (some "T")) = .ok s' ∧
      s'.bal "MK" "coin" = 70 ∧ s'.hold "MK" "coin" = 70) ∧
    stepMsg s (markerWithdrawOps "MK" "T" [("coin", 31)] (some "T")) = s ∧
    (∃ s', applyAll s (markerBurnOps "MK" "CP" [("coin", 30)] (some "CP")) = .ok s' ∧
      s'.bal "MK" "coin" = 70 ∧ s'.bal "CP" "coin" = 0) ∧
    stepMsg s (markerBurnOps "MK" "CP" [("coin", 31)] (some "CP")) = s ∧
    (∃ s', applyAll s (quarantineAcceptOps "QH" "T" [[("coin", 5)]] []) = .ok s') ∧
    stepMsg s (quarantineAcceptOps "QH" "T" [[("coin", 5)], [("coin", 1)]] []) = s := by
  refine ⟨?_, ⟨_, rfl, by decide, by decide⟩, rfl, ⟨_, rfl, by decide, by decide⟩, rfl, ⟨_, rfl⟩, rfl⟩
  intro a d
  simp only [State.hold, State.bal, Ledger.bal]
  split <;> split <;> omega

end PvProofs.C03
